package c02

import (
	"fmt"
	"math/rand"
	"os"
	"strings"
)

// The conservation generator.  It writes the HTML text and, at the same time, the expected
// character sequence of every flow; the oracle never parses the HTML.
//
// Two families:
//   - "paged": the page content box is 1–40 lines high and 3–60 em wide, so the flows are cut into
//     many pages.  Floats / absolutely positioned boxes appear only at the top of a page after a
//     forced break, with a height the generator bounds below the page height (known findings
//     F-C02-float-*: out-of-flow boxes reaching a page bottom lose or duplicate text).
//   - "single": one page whose height exceeds an upper bound of the content height computed by the
//     generator; floats and absolutely positioned boxes anywhere.

const idDigits = "0123456789abcdefghijklmnoprstuvxyz" // no 'w', no 'q': tokens are self-delimiting

func encID(n int) string {
	if n == 0 {
		return "0"
	}
	var b []byte
	for n > 0 {
		b = append([]byte{idDigits[n%len(idDigits)]}, b...)
		n /= len(idDigits)
	}
	return string(b)
}

func numCases(tier string) int {
	if tier == "thorough" {
		return 40000
	}
	return 2000
}

func counterFloors(tier string) map[string]int64 {
	k := int64(1)
	if tier == "thorough" {
		k = 20
	}
	// about 40 % of the smallest value observed over the calibration seeds (quick tier)
	return map[string]int64{
		"docs_multipage":           600 * k,
		"docs_with_split_flow":     560 * k,
		"page_breaks_in_flows":     6400 * k,
		"page_breaks_inside_words": 1100 * k,
		"draws_matched":            42000 * k,
		"chars_conserved":          390000 * k,
		"subflows_cell":            3000 * k,
		"flows_split_cell":         590 * k,
		"subflows_float":           120 * k,
		"subflows_abs":             110 * k,
		"subflows_caption":         100 * k,
		"hdr_occurrences":          330 * k,
		"hdr_repeated_groups":      80 * k,
		"fixed_occurrences":        800 * k,
		"running_occurrences":      500 * k,
		"list_items":               900 * k,
		"list_items_split":         340 * k,
		"hidden_textboxes":         1200 * k,
		"anchors_checked":          2500 * k,
		"engine_gotext":            35 * k,
		"feat_stacking_opacity":    130 * k,
		"feat_stacking_zindex":     200 * k,
		"feat_safe_float":          50 * k,
		"feat_plain_table":         90 * k,
		// page-based generated content: documents paginated twice (pagecount.go)
		"docs_repaginated":             100 * k,
		"pages_revisited":              4500 * k,
		"generated_contents":           550 * k,
		"generated_laid_out_once":      550 * k,
		"generated_width_changed":      340 * k,
		"docs_generated_width_changed": 90 * k,
		"generated_values_exact":       540 * k,
		"generated_split_over_pages":   5 * k,
		"margin_counter_occurrences":   280 * k,
		"feat_gen_page":                75 * k,
		"feat_gen_pages":               75 * k,
		"feat_gen_tpage":               90 * k,
		// visibility as an inherited property: hidden / collapse inline boxes and inline-blocks,
		// visibility:visible declared again inside hidden elements (gen.vis)
		"hidden_by_inline_textboxes":                 230 * k,
		"reshown_draws_matched":                      630 * k,
		"reshown_in_hidden_inline_box_draws_matched": 170 * k,
		"feat_visibility_hidden_inline":              300 * k,
		"feat_visibility_visible_in_hidden":          110 * k,
		"feat_visibility_collapse":                   100 * k,
		// round "strengthen5": transparent text (alpha 0) must be drawn; ::first-letter with
		// punctuation after the letter, inline and floated (drop cap) form
		"transparent_textboxes_visible":  900 * k,
		"transparent_draws_matched":      850 * k,
		"first_letter_punct_boxes":       150 * k,
		"first_letter_float_boxes":       11 * k,
		"first_letter_float_punct_boxes": 11 * k,
		"feat_transparent_text":          380 * k,
	}
}

// Generator switches for the defects that have a small repair (findings/C02/proposed-fixes.diff):
// set to true once the fix is committed in /repo, so that the combination is generated again.
// C02_ALLOW=fixedpush,emptygroup,gotextws (development only) turns them on to validate a repair.
var (
	allowFixedAnywhere   = false // F-C02-fixed-duplicated-after-push
	allowEmptyRowGroup   = true  // F-C02-fixed-layout-empty-first-group (fixed: c3100ed)
	allowGotextPreserved = true  // F-C02-gotext-preserved-space-text-not-cut (fixed: 58bd785)
	allowFirstLetter     = true  // F-C02-first-letter-lost repaired (3a0d694 inline form, c6c5031 float form)
	// visibility on inline boxes / inline-blocks and visibility:visible inside hidden elements
	// (C02_ALLOW=novisreset, development only, turns the sub-domain off to measure its cost)
	allowVisibilityReset = true
)

func init() {
	for _, k := range strings.Split(os.Getenv("C02_ALLOW"), ",") {
		switch k {
		case "fixedpush":
			allowFixedAnywhere = true
		case "emptygroup":
			allowEmptyRowGroup = true
		case "gotextws":
			allowGotextPreserved = true
		case "firstletter":
			allowFirstLetter = true
		case "nopagecounters":
			pcPercent = 0
		case "novisreset":
			allowVisibilityReset = false
		}
	}
}

type gen struct {
	r     *rand.Rand
	sb    *strings.Builder
	flows []*Flow
	stack []*Flow
	last  map[*Flow]string
	pend  map[*Flow][]*Flow
	wid   int
	eid   int

	words, maxWords int
	chars           int     // characters emitted (each may need a line of its own)
	lineBreaks      int     // forced line breaks + blocks (each may add a line)
	vsum            float64 // px of vertical margins / paddings / borders emitted (upper bound)

	fs      int     // body font size, px
	lhf     float64 // unitless line-height
	maxFS   float64 // largest font size used anywhere
	pageW   float64 // content width of the page, px
	pageH   float64 // content height of the page, px
	single  bool
	oofOK   bool // floats / abs allowed at this point
	inOOF   int
	inHdr   bool
	inInl   int
	depth   int
	longOK  bool // long words (broken mid-word) allowed
	feat    map[string]bool
	hidden  []string
	visible []string // ids of elements that declare visibility:visible inside a hidden element
	items   []Item
	inHide  bool       // inside an element that declares visibility:hidden / collapse (at any depth)
	effHide bool       // the inherited visibility at this point is not `visible`
	vr      *rand.Rand // own random stream of the visibility decisions (see vis)
	caseIdx int
	xr      *rand.Rand // own random stream of the round "strengthen5" decisions (see xRand)
	noVis   bool // inside a paragraph with ::first-letter: no visibility declaration (see paragraph)
	noBreak bool // inside a box that must not contain forced breaks (bounded float)
	ahem    bool
	inA     bool
	gotext  bool // go-text engine: preserved white space is excluded (finding gotext-preserved-space)
	pageSel int  // px by which page selectors may shrink the content height of some pages

	// page-based generated content (pagecount.go): documents whose pages are made again
	pc          bool          // the document holds ::before / ::after content with page-based counters
	css         []string      // style rules written for the pseudo-elements
	gens        []*GenContent // declared pseudo-element contents
	targets     []string      // ids usable as target of target-counter()
	hrefs       int           // <a href> placeholders resolved once all targets are known
	hrefTargets map[int]string
}

func (g *gen) cur() *Flow { return g.stack[len(g.stack)-1] }

func (g *gen) f(name string) { g.feat[name] = true }

func (g *gen) newID(prefix string) string {
	g.eid++
	return fmt.Sprintf("%s%d", prefix, g.eid)
}

func (g *gen) enter(kind, id string, inflow bool) *Flow {
	c := g.cur()
	f := &Flow{ID: id, Parent: c.ID, Kind: kind, Prev: g.last[c], InFlow: inflow}
	g.pend[c] = append(g.pend[c], f)
	g.flows = append(g.flows, f)
	g.stack = append(g.stack, f)
	return f
}

func (g *gen) leave() { g.stack = g.stack[:len(g.stack)-1] }

func (g *gen) pick(xs ...string) string { return xs[g.r.Intn(len(xs))] }

func (g *gen) chance(p float64) bool { return g.r.Float64() < p }

// word emits one unique token and returns its length.
func (g *gen) word() int {
	g.wid++
	g.words++
	tok := "w" + encID(g.wid) + "q"
	n := 0
	switch k := g.r.Intn(20); {
	case k < 9:
		n = g.r.Intn(3)
	case k < 17:
		n = 2 + g.r.Intn(6)
	case k < 19:
		n = 6 + g.r.Intn(8)
	default:
		if g.longOK {
			n = 12 + g.r.Intn(30)
			g.f("long_word")
		} else {
			n = 4 + g.r.Intn(6)
		}
	}
	var pad []byte
	for j := 0; j < n; j++ {
		pad = append(pad, byte('A'+j%26))
	}
	w := tok + string(pad)
	src := w
	if n >= 3 && g.chance(0.06) {
		// a hyphen inside the word is a break opportunity that changes no character
		k := 1 + g.r.Intn(n-1)
		w = tok + string(pad[:k]) + "-" + string(pad[k:])
		src = w
		g.f("hyphen_in_word")
	} else if n >= 4 && g.chance(0.03) {
		k := 1 + g.r.Intn(n-1)
		src = tok + string(pad[:k]) + "&#8203;" + string(pad[k:])
		g.f("zwsp_in_word")
	}
	g.sb.WriteString(src)
	c := g.cur()
	c.Text += w
	g.chars += len(w)
	g.last[c] = tok
	if ps := g.pend[c]; len(ps) > 0 {
		for _, p := range ps {
			p.Next = tok
		}
		g.pend[c] = nil
	}
	return len(w)
}

func (g *gen) space() {
	switch g.r.Intn(12) {
	case 0:
		g.sb.WriteString("\n")
	case 1:
		g.sb.WriteString("  ")
	case 2:
		g.sb.WriteString(" \n\t ")
	default:
		g.sb.WriteString(" ")
	}
}

func (g *gen) budget() bool { return g.words < g.maxWords }

// px adds a vertical length to the height bound and returns it formatted.
func (g *gen) vpx(v int) string {
	g.vsum += float64(v)
	return fmt.Sprintf("%dpx", v)
}

var inlineTags = []string{"span", "span", "span", "b", "i", "em", "strong", "code", "u", "a", "small", "sub", "sup"}

func (g *gen) inlineStyle() string {
	var st []string
	if g.chance(0.35) {
		st = append(st, fmt.Sprintf("padding:0 %dpx", g.r.Intn(9)))
	}
	if g.chance(0.3) {
		st = append(st, fmt.Sprintf("border:%dpx solid #888", 1+g.r.Intn(3)))
		g.vsum += 8
	}
	if g.chance(0.2) {
		st = append(st, fmt.Sprintf("margin:0 %dpx", g.r.Intn(7)))
	}
	if g.chance(0.2) {
		st = append(st, "background:#eee")
	}
	if g.chance(0.15) {
		st = append(st, "box-decoration-break:"+g.pick("clone", "slice"))
		g.f("inline_decoration_break")
	}
	if g.chance(0.12) {
		st = append(st, "vertical-align:"+g.pick("super", "sub", "top", "bottom", "middle", "text-top", "3px"))
	}
	if g.chance(0.1) {
		st = append(st, "white-space:nowrap")
		g.f("nowrap")
	}
	if g.chance(0.08) {
		st = append(st, "position:relative", fmt.Sprintf("top:%dpx", g.r.Intn(7)-3))
		if g.chance(0.4) {
			st = append(st, "z-index:"+g.pick("1", "0", "-1", "2"))
			g.f("stacking_zindex")
		}
	}
	if g.chance(0.08) {
		st = append(st, "color:#"+g.pick("c00", "080", "00c", "555"))
	}
	if g.xRand().Float64() < 0.10 {
		// fully transparent text is laid out and drawn like any other (it stays selectable /
		// extractable): every form of alpha 0
		xs := []string{"transparent", "rgba(10,20,30,0)", "#00c0", "#12345600", "hsla(120,50%,50%,0)", "rgb(0 0 0 / 0)"}
		st = append(st, "color:"+xs[g.xRand().Intn(len(xs))])
		g.f("transparent_text")
	}
	if len(st) == 0 {
		return ""
	}
	return ` style="` + strings.Join(st, ";") + `"`
}

// xRand is the random stream of the decisions added in round "strengthen5" (transparent colours,
// punctuation after the first letter, floated ::first-letter); like visRand it is seeded from the
// generator state at its first use, so that the draws of g.r - the structure of the documents -
// stay what they were.
func (g *gen) xRand() *rand.Rand {
	if g.xr == nil {
		g.xr = rand.New(rand.NewSource(int64(g.caseIdx)*2000003 + int64(g.wid)*104723 + int64(g.sb.Len())*7919 + int64(g.fs)*31 + 5))
	}
	return g.xr
}

// firstLetterLeaders are paragraph openings whose ::first-letter takes punctuation with the letter
// (CSS 2.1 section 5.12.2: punctuation before and after the first letter is included).  ASCII only (the oracle
// indexes the flow text by byte), no 'w' (it starts the tokens), no white space inside.
var firstLetterLeaders = []string{`A,`, `"B"`, `I'm`, `O.K.`, `(Z)`, `X!?`, `'E'`, `7:3`, `[k]A`}

// inlineContent emits n words with inline elements, line breaks and atomic inlines between them.
func (g *gen) inlineContent(n int) {
	for k := 0; k < n && g.budget(); k++ {
		if k > 0 {
			if g.chance(0.93) {
				g.space()
			}
		}
		x := g.r.Float64()
		switch {
		case x < 0.12 && g.inInl < 3:
			tag := inlineTags[g.r.Intn(len(inlineTags))]
			if tag == "a" && g.inA {
				tag = "span" // nested <a> elements are restructured by the HTML parser
			}
			g.f("inline_box")
			extra := ""
			if tag == "a" {
				extra = ` href="#x"`
			}
			if (tag == "small" || tag == "sub" || tag == "sup") && g.maxFS < float64(g.fs) {
				g.maxFS = float64(g.fs)
			}
			ist := g.inlineStyle()
			vid := ""
			vdecl, vrestore := g.vis(&vid, "v", 0.07, 0.4)
			if vid != "" {
				extra += ` id="` + vid + `"`
			}
			g.sb.WriteString("<" + tag + extra + addDecl(ist, vdecl) + ">")
			g.inInl++
			wasA := g.inA
			if tag == "a" {
				g.inA = true
			}
			g.inlineContent(1 + g.r.Intn(5))
			g.inA = wasA
			g.inInl--
			g.sb.WriteString("</" + tag + ">")
			vrestore()
		case x < 0.15:
			g.sb.WriteString(g.pick("<br>", "<br>", "<br/>\n"))
			g.lineBreaks++
			g.f("br")
			g.word()
		case x < 0.19 && g.inInl < 2 && g.depth < 5:
			g.inlineBlock()
		// a float is never the child of an inline box (finding float-in-inline-box-duplicated)
		// ... nor part of the inline content of a float / absolute box (finding word-lost-before-nested-float)
		case x < 0.205 && g.oofOK && !g.inHide && !g.inHdr && g.inInl == 0 && g.inOOF == 0:
			g.float(true)
		case x < 0.215 && g.oofOK && !g.inHide && !g.inHdr && g.inInl < 2:
			g.abs(true)
		case x < 0.225:
			g.sb.WriteString("&nbsp;")
			g.word()
			g.f("nbsp")
		case x < 0.265 && g.pc && !g.inHdr && g.inInl < 3:
			g.genSpan()
		case x < 0.29 && g.pc && !g.inHdr:
			g.targetSpan()
		default:
			g.word()
		}
	}
}

func (g *gen) inlineBlock() {
	g.f("inline_block")
	var st []string
	st = append(st, "display:inline-block")
	if g.chance(0.5) {
		st = append(st, fmt.Sprintf("width:%dem", 3+g.r.Intn(8)))
	}
	if g.chance(0.4) {
		st = append(st, "border:1px solid #444")
		g.vsum += 2
	}
	if g.chance(0.3) {
		p := g.r.Intn(6)
		st = append(st, fmt.Sprintf("padding:%dpx", p))
		g.vsum += float64(2 * p)
	}
	if g.chance(0.3) {
		st = append(st, "vertical-align:"+g.pick("top", "middle", "bottom", "baseline"))
	}
	if g.chance(0.1) {
		st = append(st, g.pick("opacity:0.5", "position:relative;z-index:1", "position:relative", "transform:scale(0.5)", "overflow:hidden"))
		g.f("stacking_inline_block")
	}
	vid := ""
	vdecl, vrestore := g.vis(&vid, "v", 0.05, 0.4)
	defer vrestore()
	if vdecl != "" {
		st = append(st, vdecl)
	}
	g.sb.WriteString(`<span` + attrs(vid, st) + `>`)
	g.lineBreaks += 2
	g.inInl++
	g.depth++
	if g.chance(0.25) {
		// block content inside the atomic inline
		for k := 1 + g.r.Intn(2); k > 0; k-- {
			// not <div>: inside a <p> the HTML parser would close the paragraph
			g.sb.WriteString(`<span style="display:block">`)
			g.lineBreaks++
			g.inlineContent(1 + g.r.Intn(4))
			g.sb.WriteString("</span>")
		}
	} else {
		g.inlineContent(1 + g.r.Intn(6))
	}
	g.depth--
	g.inInl--
	g.sb.WriteString("</span>")
}

// float emits a floated box (its own sub-flow).  inline: emitted inside inline content.
func (g *gen) float(inline bool) {
	g.f("float")
	id := g.newID("f")
	var st []string
	st = append(st, "float:"+g.pick("left", "right"))
	st = append(st, fmt.Sprintf("width:%dem", 4+g.r.Intn(10)))
	if g.chance(0.4) {
		b := 1 + g.r.Intn(3)
		st = append(st, fmt.Sprintf("border:%dpx solid #a00", b))
		g.vsum += float64(2 * b)
	}
	if g.chance(0.4) {
		p := g.r.Intn(8)
		st = append(st, fmt.Sprintf("padding:%dpx", p))
		g.vsum += float64(2 * p)
	}
	if g.chance(0.4) {
		m := g.r.Intn(8)
		st = append(st, fmt.Sprintf("margin:%dpx", m))
		g.vsum += float64(2 * m)
	}
	if g.chance(0.15) {
		st = append(st, "clear:"+g.pick("left", "right", "both"))
	}
	tag := "div"
	if inline {
		tag = "span"
	}
	g.sb.WriteString(fmt.Sprintf(`<%s id="%s" style="%s">`, tag, id, strings.Join(st, ";")))
	g.enter("float", id, false)
	g.lineBreaks += 2
	g.inOOF++
	// no forced break inside an out-of-flow box: it splits the box, and the remainder of a split
	// float / absolute box is lost when the main flow ends first (finding float-last-child-lost)
	saveNB := g.noBreak
	g.noBreak = true
	defer func() { g.noBreak = saveNB }()
	saveInl := g.inInl
	g.inInl = 0
	g.depth++
	if !inline && g.chance(0.3) && g.depth < 5 {
		for k := 1 + g.r.Intn(2); k > 0; k-- {
			g.block()
		}
	} else {
		g.inlineContent(1 + g.r.Intn(8))
	}
	g.depth--
	g.inInl = saveInl
	g.inOOF--
	g.leave()
	g.sb.WriteString("</" + tag + ">")
}

// abs emits an absolutely positioned box (its own sub-flow).
func (g *gen) abs(inline bool) {
	g.f("abs")
	id := g.newID("a")
	var st []string
	st = append(st, "position:absolute")
	st = append(st, fmt.Sprintf("width:%dem", 4+g.r.Intn(10)))
	if g.chance(0.5) {
		// explicit offsets; otherwise the static position is used
		st = append(st, fmt.Sprintf("%s:%dpx", g.pick("left", "right"), g.r.Intn(40)))
		if g.single && g.chance(0.6) {
			st = append(st, fmt.Sprintf("top:%dpx", g.r.Intn(200)))
			g.vsum += 200
		}
	}
	if g.chance(0.4) {
		b := 1 + g.r.Intn(3)
		st = append(st, fmt.Sprintf("border:%dpx solid #0a0", b))
		g.vsum += float64(2 * b)
	}
	if g.chance(0.3) {
		p := g.r.Intn(8)
		st = append(st, fmt.Sprintf("padding:%dpx", p))
		g.vsum += float64(2 * p)
	}
	tag := "div"
	if inline {
		tag = "span"
	}
	g.sb.WriteString(fmt.Sprintf(`<%s id="%s" style="%s">`, tag, id, strings.Join(st, ";")))
	g.enter("abs", id, false)
	g.lineBreaks += 2
	g.inOOF++
	saveNB := g.noBreak
	g.noBreak = true
	defer func() { g.noBreak = saveNB }()
	saveInl := g.inInl
	g.inInl = 0
	g.depth++
	g.inlineContent(1 + g.r.Intn(7))
	g.depth--
	g.inInl = saveInl
	g.inOOF--
	g.leave()
	g.sb.WriteString("</" + tag + ">")
}

var breakVals = []string{"auto", "auto", "avoid", "avoid", "page", "page", "left", "right", "always", "avoid-page"}

// blockStyle returns the declarations of a block-level box.
func (g *gen) blockStyle(allowBreaks bool) []string {
	var st []string
	r := g.r
	if g.chance(0.35) {
		st = append(st, "margin-top:"+g.vpx(r.Intn(25)))
	}
	if g.chance(0.35) {
		st = append(st, "margin-bottom:"+g.vpx(r.Intn(25)))
	}
	if g.chance(0.06) {
		st = append(st, fmt.Sprintf("margin-top:-%dpx", r.Intn(10)))
	}
	if g.chance(0.25) {
		st = append(st, "padding-top:"+g.vpx(r.Intn(15)), "padding-bottom:"+g.vpx(r.Intn(15)))
	}
	if g.chance(0.2) {
		st = append(st, fmt.Sprintf("padding-left:%dpx;padding-right:%dpx", r.Intn(12), r.Intn(12)))
	}
	if g.chance(0.25) {
		st = append(st, fmt.Sprintf("border:%s %s #36c", g.vpx(1+r.Intn(5)), g.pick("solid", "dashed", "double")))
		g.vsum += 5
	} else if g.chance(0.1) {
		st = append(st, "border-top:"+g.vpx(1+r.Intn(6))+" solid #c63")
	} else if g.chance(0.1) {
		st = append(st, "border-bottom:"+g.vpx(1+r.Intn(6))+" solid #c63")
	}
	if g.chance(0.12) {
		st = append(st, "background:#"+g.pick("fee", "efe", "eef", "ffd"))
	}
	if g.chance(0.15) {
		st = append(st, "box-decoration-break:"+g.pick("clone", "slice"))
		g.f("block_decoration_break")
		// cloned decorations repeat on every fragment; single-page documents have one fragment
	}
	if g.chance(0.12) && g.inOOF == 0 {
		st = append(st, fmt.Sprintf("width:%d%%", 40+10*r.Intn(6)))
	}
	if g.chance(0.1) {
		st = append(st, fmt.Sprintf("margin-left:%dpx", r.Intn(20)))
	}
	if g.chance(0.2) {
		st = append(st, "text-align:"+g.pick("left", "right", "center", "justify", "justify"))
	}
	if g.chance(0.1) {
		st = append(st, fmt.Sprintf("text-indent:%dpx", r.Intn(30)))
	}
	if g.chance(0.2) {
		st = append(st, fmt.Sprintf("orphans:%d", 1+r.Intn(4)))
		g.f("orphans")
	}
	if g.chance(0.2) {
		st = append(st, fmt.Sprintf("widows:%d", 1+r.Intn(4)))
		g.f("widows")
	}
	if allowBreaks && !g.noBreak {
		if g.chance(0.12) {
			v := breakVals[r.Intn(len(breakVals))]
			st = append(st, "break-before:"+v)
			g.f("break_before_" + v)
		}
		if g.chance(0.12) {
			v := breakVals[r.Intn(len(breakVals))]
			st = append(st, "break-after:"+v)
			g.f("break_after_" + v)
		}
	}
	if g.chance(0.12) {
		v := g.pick("avoid", "avoid", "avoid-page", "auto")
		st = append(st, "break-inside:"+v)
		g.f("break_inside_" + v)
	}
	if g.chance(0.06) {
		st = append(st, "position:relative", fmt.Sprintf("left:%dpx", r.Intn(9)-4))
		if g.chance(0.4) {
			st = append(st, "z-index:"+g.pick("1", "0", "-1", "2"))
			g.f("stacking_zindex")
		}
	}
	// boxes that establish stacking contexts are painted through another path (and opacity through a
	// group canvas): the text inside must still be drawn exactly once
	if g.chance(0.05) {
		st = append(st, "opacity:"+g.pick("0.5", "0.9", "0.25"))
		g.f("stacking_opacity")
	}
	if g.chance(0.03) {
		st = append(st, "transform:"+g.pick("translate(1px,2px)", "scale(0.5)", "rotate(10deg)"))
		g.f("stacking_transform")
	}
	if g.chance(0.04) {
		st = append(st, "overflow:hidden")
		g.f("overflow_hidden")
	}
	if g.chance(0.04) {
		st = append(st, "display:flow-root")
	}
	if g.chance(0.08) {
		fs := []int{6, 8, 12, 16, 24}[r.Intn(5)]
		st = append(st, fmt.Sprintf("font-size:%dpx", fs))
		if float64(fs) > g.maxFS {
			g.maxFS = float64(fs)
		}
		g.f("font_size_change")
	}
	if g.chance(0.06) {
		st = append(st, "line-height:"+g.pick("1", "1.5", "2", "3"))
		g.f("line_height_change")
	}
	if g.chance(0.05) && (!g.gotext || allowGotextPreserved) {
		v := g.pick("pre-wrap", "pre-line", "nowrap", "pre")
		st = append(st, "white-space:"+v)
		g.f("white_space_" + v)
	}
	if g.chance(0.05) && g.longOK {
		st = append(st, g.pick("overflow-wrap:anywhere", "overflow-wrap:break-word", "word-break:break-all", "overflow-wrap:normal"))
	}
	return st
}

func attrs(id string, st []string) string {
	s := ""
	if id != "" {
		s += ` id="` + id + `"`
	}
	if len(st) > 0 {
		s += ` style="` + strings.Join(st, ";") + `"`
	}
	return s
}

// hideMaybe makes the element visibility:hidden (laid out, not drawn) with a small probability.
func (g *gen) hideMaybe(id *string, st *[]string) (restore func()) {
	if g.inHide || g.inHdr || !g.chance(0.03) {
		return func() {}
	}
	if *id == "" {
		*id = g.newID("h")
	}
	*st = append(*st, "visibility:hidden")
	g.hidden = append(g.hidden, *id)
	g.inHide = true
	g.effHide = true
	g.f("visibility_hidden")
	return func() { g.inHide = false; g.effHide = false }
}

// visRand is the random stream of the visibility decisions that were added after the calibration
// of the rest of the generator (hidden inline boxes, visibility:visible inside hidden elements,
// collapse).  It is seeded from the generator state at its first use - a function of (seed, case,
// tier) like everything else - so that the structure of the generated documents (the draws of
// g.r) is the same with and without these decisions.
func (g *gen) visRand() *rand.Rand {
	if g.vr == nil {
		g.vr = rand.New(rand.NewSource(int64(g.caseIdx)*1000003 + int64(g.wid)*7919 + int64(g.sb.Len())*104729 + int64(g.fs)))
	}
	return g.vr
}

// vis decides the `visibility` declaration of one more element (CSS 2.1 section 11.2: inherited;
// `hidden` boxes are laid out and not painted, descendants are painted again when they declare
// `visible`; `collapse` on anything but table rows / columns means `hidden`).
//   - where the inherited value hides the element: `visible` with probability pShow;
//   - inside a re-shown element: hidden again with probability 0.12;
//   - elsewhere: `hidden` / `collapse` with probability pHide (0 for the block-level elements,
//     which hideMaybe covers).
//
// It returns the declaration ("" = none), gives the element an id when it declares something and
// returns the function that restores the inherited state after the element.
func (g *gen) vis(id *string, prefix string, pHide, pShow float64) (decl string, restore func()) {
	if !allowVisibilityReset || g.inHdr || g.noVis {
		return "", func() {}
	}
	wasIn, wasEff := g.inHide, g.effHide
	restore = func() { g.inHide, g.effHide = wasIn, wasEff }
	switch {
	case g.effHide:
		if g.visRand().Float64() >= pShow {
			return "", restore
		}
		decl = "visibility:visible"
		g.effHide = false
		g.f("visibility_visible_in_hidden")
	case g.inHide:
		if g.visRand().Float64() >= 0.12 {
			return "", restore
		}
		decl = "visibility:hidden"
		g.effHide = true
		g.f("visibility_hidden_in_visible")
	default:
		if pHide == 0 || g.visRand().Float64() >= pHide {
			return "", restore
		}
		decl = "visibility:hidden"
		if g.visRand().Intn(4) == 0 {
			decl = "visibility:collapse"
			g.f("visibility_collapse")
		}
		g.inHide, g.effHide = true, true
		g.f("visibility_hidden_inline")
	}
	if *id == "" {
		*id = g.newID(prefix)
	}
	if g.effHide {
		g.hidden = append(g.hidden, *id)
	} else {
		g.visible = append(g.visible, *id)
	}
	return decl, restore
}

// addDecl adds one declaration to a ` style="..."` attribute text (possibly empty).
func addDecl(styleAttr, decl string) string {
	if decl == "" {
		return styleAttr
	}
	if styleAttr == "" {
		return ` style="` + decl + `"`
	}
	return strings.TrimSuffix(styleAttr, `"`) + ";" + decl + `"`
}

var paraTags = []string{"p", "p", "p", "p", "div", "div", "h2", "h3", "blockquote", "address", "pre"}

// block emits one block-level element.
func (g *gen) block() {
	if !g.budget() {
		return
	}
	g.lineBreaks += 2
	x := g.r.Float64()
	switch {
	case x < 0.50 || g.depth >= 4:
		g.paragraph()
	case x < 0.68:
		g.container()
	case x < 0.80:
		g.list()
	case x < 0.92:
		if g.inHdr {
			g.paragraph()
		} else {
			g.table()
		}
	case x < 0.96 && g.oofOK && !g.inHide && !g.inHdr:
		g.float(false)
	case x < 0.98 && g.oofOK && !g.inHide && !g.inHdr:
		g.abs(false)
	default:
		// an empty spacer block
		g.sb.WriteString(fmt.Sprintf(`<div style="height:%s"></div>`, g.vpx(g.r.Intn(30))))
		g.f("spacer")
	}
	g.sb.WriteString("\n")
}

func (g *gen) paragraph() {
	tag := paraTags[g.r.Intn(len(paraTags))]
	if tag == "pre" && g.gotext && !allowGotextPreserved {
		tag = "p"
	}
	if tag == "h2" || tag == "h3" || tag == "blockquote" || tag == "p" || tag == "pre" {
		// UA margins in em: bound them with the largest possible font size
		g.vsum += 2 * 1.5 * 48
	}
	if tag == "h2" {
		g.f("heading")
	}
	st := g.blockStyle(true)
	id := ""
	flLeader := ""
	restore := g.hideMaybe(&id, &st)
	if len(g.hidden) == 0 || g.hidden[len(g.hidden)-1] != id {
		if vdecl, vrestore := g.vis(&id, "v", 0, 0.3); vdecl != "" {
			st = append(st, vdecl)
			restore = vrestore
		}
	}
	if g.pc && !g.inHdr && g.chance(0.3) {
		if id == "" {
			id = g.newID("e")
		}
		g.pseudo(id, false)
		g.targets = append(g.targets, id)
	} else if allowFirstLetter && !g.pc && !g.inHdr && g.chance(0.15) {
		// ::first-letter (inline form): the letter moves into a box of its own and stays part of the
		// text of the paragraph.  Not in documents with ::before / ::after content (the letter is
		// taken from generated content that starts the paragraph).
		if id == "" {
			id = g.newID("e")
		}
		flDecl := g.pick("color:#c00", "font-weight:bold", "background:#ff0", "padding:0 2px", "border:1px solid #c00", "font-size:150%")
		// floated form (drop cap): the letter becomes a floated block box that still belongs to the
		// text of the paragraph; only where floats are generated at all (g.oofOK: one-page documents,
		// see the float findings), not inside another out-of-flow box
		if g.oofOK && !g.inHide && g.inOOF == 0 && g.inInl == 0 && g.xRand().Float64() < 0.6 {
			flDecl += ";float:" + []string{"left", "right", "left"}[g.xRand().Intn(3)]
			g.vsum += 36 * 2
			g.lineBreaks += 2
			g.f("first_letter_float")
			g.feat["first_letter_float_here"] = true
		}
		g.css = append(g.css, "#"+id+"::first-letter{"+flDecl+"}")
		// the floated form always has a leader: the letter then comes from the paragraph's own first
		// text node, and the oracle reads the drop cap as the start of that paragraph's content
		if g.feat["first_letter_float_here"] || g.xRand().Float64() < 0.6 {
			flLeader = firstLetterLeaders[g.xRand().Intn(len(firstLetterLeaders))]
			g.f("first_letter_punct")
		}
		delete(g.feat, "first_letter_float_here")
		if g.maxFS < 36 {
			g.maxFS = 36
		}
		g.vsum += 4
		g.f("first_letter")
		// The letter box takes the visibility of the paragraph in webrender; when the letter comes
		// from a nested inline element with another visibility, the fictional tag sequence of CSS 2.1
		// section 5.12.2 puts it inside that element.  Which run is "visible" is then a question of
		// the cascade, not of C02: no visibility declaration inside such a paragraph.
		g.noVis = true
	}
	g.sb.WriteString("<" + tag + attrs(id, st) + ">")
	if flLeader != "" {
		// plain characters of the paragraph's own text, before its first token
		g.sb.WriteString(flLeader + " ")
		g.cur().Text += flLeader
		g.chars += len(flLeader)
	}
	n := 1 + g.r.Intn(12)
	if g.chance(0.15) {
		n = 10 + g.r.Intn(40)
	}
	g.inlineContent(n)
	g.sb.WriteString("</" + tag + ">")
	g.noVis = false
	restore()
}

func (g *gen) container() {
	g.f("nested_block")
	tag := g.pick("div", "div", "section", "article", "blockquote")
	if tag == "blockquote" {
		g.vsum += 2 * 48
	}
	st := g.blockStyle(true)
	id := ""
	restore := g.hideMaybe(&id, &st)
	if len(g.hidden) == 0 || g.hidden[len(g.hidden)-1] != id {
		if vdecl, vrestore := g.vis(&id, "v", 0, 0.3); vdecl != "" {
			st = append(st, vdecl)
			restore = vrestore
		}
	}
	g.sb.WriteString("<" + tag + attrs(id, st) + ">")
	g.depth++
	n := 1 + g.r.Intn(4)
	for k := 0; k < n && g.budget(); k++ {
		if g.chance(0.2) {
			// bare text between blocks: anonymous block boxes
			g.inlineContent(1 + g.r.Intn(6))
			g.lineBreaks++
			g.f("anonymous_block")
		} else {
			g.block()
		}
	}
	g.depth--
	g.sb.WriteString("</" + tag + ">")
	restore()
}

func (g *gen) list() {
	g.f("list")
	tag := g.pick("ul", "ol")
	g.vsum += 2 * 48
	st := g.blockStyle(true)
	// the list style type is always explicit, so the expected marker text needs no UA style sheet
	lstype := g.pick("disc", "disc", "circle", "square", "decimal", "decimal", "lower-alpha", "upper-roman", "none")
	if g.gotext && !allowGotextPreserved {
		// markers are pre-wrap text: a wrapped marker hits finding gotext-preserved-space
		lstype = "none"
	}
	st = append(st, "list-style-type:"+lstype)
	if g.chance(0.2) {
		st = append(st, "list-style-position:inside")
		g.f("marker_inside")
	}
	g.sb.WriteString("<" + tag + attrs("", st) + ">")
	g.depth++
	n := 1 + g.r.Intn(6)
	for k := 0; k < n && g.budget(); k++ {
		id := g.newID("li")
		lst := []string{}
		if g.chance(0.4) {
			lst = g.blockStyle(true)
		}
		// display of a list item must stay list-item; white-space of the item also styles its marker
		var keep []string
		for _, d := range lst {
			if strings.HasPrefix(d, "display:") {
				continue
			}
			keep = append(keep, d)
		}
		hiddenBefore, visibleBefore := len(g.hidden), len(g.visible)
		inheritedHide, inheritedIn := g.effHide, g.inHide
		restore := g.hideMaybe(&id, &keep)
		if len(g.hidden) == hiddenBefore {
			if vdecl, vrestore := g.vis(&id, "v", 0, 0.3); vdecl != "" {
				keep = append(keep, vdecl)
				restore = vrestore
			}
		}
		if len(g.hidden) == hiddenBefore && len(g.visible) == visibleBefore {
			// no declaration of its own: the remainder of a marker split at a page bottom hangs under
			// the root box, so the inherited visibility of the item is recorded with its id
			if inheritedHide {
				g.hidden = append(g.hidden, id)
			} else if inheritedIn {
				g.visible = append(g.visible, id)
			}
		}
		if g.pc && !g.inHdr {
			if g.chance(0.2) {
				g.pseudo(id, false)
			}
			g.targets = append(g.targets, id)
		}
		g.sb.WriteString("<li" + attrs(id, keep) + ">")
		if m := markerText(lstype, k+1); m != "" {
			g.items = append(g.items, Item{ID: id, Marker: m})
		}
		g.lineBreaks += 2
		if g.chance(0.2) && g.depth < 4 {
			g.inlineContent(1 + g.r.Intn(4))
			for j := 1 + g.r.Intn(2); j > 0 && g.budget(); j-- {
				g.block()
			}
		} else {
			g.inlineContent(1 + g.r.Intn(10))
		}
		g.sb.WriteString("</li>")
		restore()
	}
	g.depth--
	g.sb.WriteString("</" + tag + ">")
}

// markerText is the text of the marker of the n-th item (CSS Lists 3 / Counter Styles 3 predefined
// styles), white space removed.
func markerText(style string, n int) string {
	switch style {
	case "disc":
		return "\u2022"
	case "circle":
		return "\u25e6"
	case "square":
		return "\u25aa"
	case "decimal":
		return fmt.Sprintf("%d.", n)
	case "lower-alpha":
		return string(rune('a'+n-1)) + "."
	case "upper-roman":
		return []string{"I", "II", "III", "IV", "V", "VI", "VII", "VIII", "IX", "X"}[n-1] + "."
	}
	return ""
}

func (g *gen) cellContent() {
	if g.chance(0.2) && g.depth < 4 && !g.inHdr {
		for j := 1 + g.r.Intn(2); j > 0 && g.budget(); j-- {
			g.block()
		}
	} else {
		n := 1 + g.r.Intn(6)
		if g.chance(0.1) {
			n = 8 + g.r.Intn(25)
		}
		g.inlineContent(n)
	}
}

func (g *gen) table() {
	g.f("table")
	tid := g.newID("t")
	var st []string
	if g.chance(0.5) {
		st = append(st, "border-collapse:"+g.pick("collapse", "separate"))
	}
	if g.chance(0.3) {
		st = append(st, fmt.Sprintf("border-spacing:%dpx", g.r.Intn(6)))
	}
	if g.chance(0.4) {
		st = append(st, fmt.Sprintf("border:%dpx solid #333", 1+g.r.Intn(3)))
	}
	if g.chance(0.4) {
		st = append(st, "width:"+g.pick("100%", "80%", "60%"))
	}
	if g.chance(0.2) {
		st = append(st, "table-layout:fixed", "width:100%")
	}
	if g.chance(0.3) {
		st = append(st, "margin-top:"+g.vpx(g.r.Intn(20)), "margin-bottom:"+g.vpx(g.r.Intn(20)))
	}
	if g.chance(0.1) && !g.noBreak {
		v := breakVals[g.r.Intn(len(breakVals))]
		st = append(st, "break-before:"+v)
	}
	if g.chance(0.1) {
		st = append(st, "break-inside:"+g.pick("avoid", "auto"))
	}
	cols := 1 + g.r.Intn(4)
	rows := 1 + g.r.Intn(7)
	cellStyle := ""
	if g.chance(0.6) {
		b := 1 + g.r.Intn(2)
		p := g.r.Intn(6)
		cellStyle = fmt.Sprintf("border:%dpx solid #999;padding:%dpx", b, p)
	}
	g.sb.WriteString("<table" + attrs(tid, st) + ">")
	g.depth++
	g.vsum += 40
	if g.chance(0.25) {
		cid := g.newID("c")
		side := ""
		if g.chance(0.4) {
			side = "caption-side:bottom"
			g.f("caption_bottom")
		}
		g.sb.WriteString(`<caption` + attrs(cid, splitNonEmpty(side)) + `>`)
		g.enter("caption", cid, false)
		g.inlineContent(1 + g.r.Intn(5))
		g.leave()
		g.sb.WriteString("</caption>")
		g.f("caption")
	}
	// In paged documents a header / footer group that does not fit on a page together with some row
	// content is dropped by design (finding hdr-dropped): general tables get such groups only in
	// tall documents; paged documents get them through plainTable, which bounds their height.
	hasHead := g.single && g.chance(0.4)
	hasFoot := g.single && g.chance(0.3)
	// a cell split by a forced break inside it makes its row as high as the page, and the groups
	// are then dropped on that page: no forced break inside the cells of a table with groups
	cellNoBreak := hasHead || hasFoot
	perCellV := 2*3 + 2*6 + 6
	group := func(tag string, nrows int, hdr bool) {
		gid := ""
		if hdr {
			gid = g.newID("g")
		}
		var gst []string
		if allowEmptyRowGroup && !hdr && g.chance(0.1) {
			g.sb.WriteString("<tbody></tbody>")
		}
		g.sb.WriteString("<" + tag + attrs(gid, gst) + ">")
		if hdr {
			f := g.enter("hdr", gid, false)
			f.Table = tid
			f.Strict = true
			g.inHdr = true
		}
		// never an empty row group (finding fixed-layout-empty-first-group, and nothing to observe)
		for rI := 0; rI < nrows && (rI == 0 || g.budget()); rI++ {
			var rst []string
			if !hdr && g.chance(0.08) {
				rst = append(rst, "break-inside:avoid")
			}
			if !hdr && g.chance(0.05) && !g.noBreak {
				rst = append(rst, "break-before:"+g.pick("page", "avoid"))
			}
			g.sb.WriteString("<tr" + attrs("", rst) + ">")
			g.vsum += float64(perCellV)
			for c := 0; c < cols; c++ {
				ctag := "td"
				if hdr || g.chance(0.1) {
					ctag = "th"
				}
				cst := splitNonEmpty(cellStyle)
				if g.chance(0.1) {
					cst = append(cst, "vertical-align:"+g.pick("top", "middle", "bottom"))
				}
				span := ""
				if !hdr && c+1 < cols && g.chance(0.08) {
					span = ` colspan="2"`
					c++
					g.f("colspan")
				}
				if hdr {
					g.sb.WriteString("<" + ctag + span + attrs("", cst) + ">")
					if g.chance(0.9) {
						g.inlineContent(1 + g.r.Intn(3))
					}
					g.sb.WriteString("</" + ctag + ">")
					continue
				}
				cid := g.newID("c")
				g.sb.WriteString("<" + ctag + span + attrs(cid, cst) + ">")
				g.enter("cell", cid, true)
				g.lineBreaks += 2
				saveNB := g.noBreak
				g.noBreak = g.noBreak || cellNoBreak
				if g.chance(0.93) {
					g.cellContent()
				}
				g.noBreak = saveNB
				g.leave()
				g.sb.WriteString("</" + ctag + ">")
			}
			g.sb.WriteString("</tr>")
		}
		if hdr {
			g.inHdr = false
			g.leave()
		}
		g.sb.WriteString("</" + tag + ">")
	}
	if hasHead {
		g.f("thead")
		group("thead", 1+g.r.Intn(2), true)
	}
	footFirst := hasFoot && g.chance(0.3)
	if footFirst {
		g.f("tfoot")
		group("tfoot", 1, true)
	}
	if g.chance(0.2) {
		a := 1 + g.r.Intn(rows)
		group("tbody", a, false)
		if rows-a > 0 {
			group("tbody", rows-a, false)
		}
	} else {
		group("tbody", rows, false)
	}
	if hasFoot && !footFirst {
		g.f("tfoot")
		group("tfoot", 1, true)
	}
	g.depth--
	g.sb.WriteString("</table>")
}

func splitNonEmpty(s string) []string {
	if s == "" {
		return nil
	}
	return strings.Split(s, ";")
}

// Generate builds case i.
func Generate(r *rand.Rand, i int, tier string) Input {
	g := &gen{r: r, caseIdx: i, sb: &strings.Builder{}, last: map[*Flow]string{}, pend: map[*Flow][]*Flow{}, feat: map[string]bool{}}
	main := &Flow{ID: "", Kind: "main"}
	g.flows = append(g.flows, main)
	g.stack = []*Flow{main}

	g.single = r.Intn(100) < 18
	g.fs = []int{8, 10, 10, 12, 16, 20}[r.Intn(6)]
	g.lhf = []float64{1, 1.25, 1.5, 1.5, 2}[r.Intn(5)]
	g.maxFS = float64(g.fs)
	font := "ahem"
	g.ahem = true
	if r.Intn(100) < 12 {
		font = "weasyprint"
		g.ahem = false
		g.f("font_weasyprint")
	}
	if !g.single && r.Intn(10) == 0 {
		g.pageSel = 1 + r.Intn(10)
		g.f("page_selectors")
	}
	engine := "pango"
	if r.Intn(100) < 5 {
		engine = "gotext"
		g.gotext = true
	}
	// page-based counters in generated content: the pages holding them are made again once the
	// counter values are known (second pagination pass)
	g.pc = r.Intn(100) < pcPercent
	lh := float64(g.fs) * g.lhf
	wEm := 3 + r.Intn(58)
	switch r.Intn(5) {
	case 0:
		wEm = 3 + r.Intn(8)
	case 1:
		wEm = 10 + r.Intn(15)
	}
	hLines := 1 + r.Intn(40)
	switch r.Intn(4) {
	case 0:
		hLines = 1 + r.Intn(5)
	case 1:
		hLines = 4 + r.Intn(10)
	}
	g.pageW = float64(wEm * g.fs)
	g.pageH = float64(hLines) * lh
	if r.Intn(3) == 0 {
		// a height that is not a whole number of lines
		g.pageH += float64(r.Intn(int(lh)))
	}
	g.longOK = r.Intn(3) == 0
	g.maxWords = 10 + r.Intn(120)
	if r.Intn(6) == 0 {
		g.maxWords = 120 + r.Intn(180)
	}
	if g.single {
		g.maxWords = 5 + r.Intn(80)
		g.oofOK = true
	}

	var bodySt []string
	bodySt = append(bodySt, "font-family:"+font, fmt.Sprintf("font-size:%dpx", g.fs), fmt.Sprintf("line-height:%v", g.lhf))
	bodyV := 16.0
	if r.Intn(2) == 0 {
		bodySt = append(bodySt, "margin:0")
		bodyV = 0
	}
	if r.Intn(4) == 0 {
		bodySt = append(bodySt, fmt.Sprintf("orphans:%d", 1+r.Intn(4)), fmt.Sprintf("widows:%d", 1+r.Intn(4)))
	}
	if g.longOK && r.Intn(2) == 0 {
		bodySt = append(bodySt, g.pick("overflow-wrap:anywhere", "overflow-wrap:break-word", "word-break:break-all"))
		g.f("break_words")
	}
	if r.Intn(8) == 0 {
		bodySt = append(bodySt, "text-align:justify")
	}
	g.vsum += bodyV

	// running elements (CSS GCPM): taken out of the flow, shown in a page-margin box of every page
	// from the page of their anchor on
	// ... and only in documents whose pages are made once: a second pagination pass that moves the
	// anchor to a later page leaves the registration of the first pass behind (finding
	// running-element-stale-after-repagination)
	var runNames []string
	if r.Intn(100) < 8 && !g.pc {
		runNames = append(runNames, "hd")
		if r.Intn(3) == 0 {
			runNames = append(runNames, "ft")
		}
	}
	runPlaced := 0

	// body content
	nTop := 1 + r.Intn(10)
	fixedDone := false
	for k := 0; (k < nTop || g.words < 5) && g.budget(); k++ {
		if !g.single && g.ahem && r.Intn(12) == 0 && k > 0 {
			g.safeHost(bodyV)
			continue
		}
		// In a paged document the fixed box is the first child of <body>: content holding a fixed
		// box that is pushed to the next page leaves a stale copy behind (finding
		// fixed-duplicated-after-push), which cannot happen to the first box of the first page.
		if !fixedDone && (((g.single || allowFixedAnywhere) && r.Intn(20) == 0) || (!g.single && k == 0 && r.Intn(8) == 0)) && g.fixed() {
			fixedDone = true
			continue
		}
		if !g.single && r.Intn(8) == 0 && g.plainTable(bodyV) {
			continue
		}
		// A running element is registered on the page where its line / block is first tried, and the
		// registration stays when that content is pushed to the next page (finding
		// running-element-stale-page): it is emitted only where nothing can be pushed — as the first
		// child of <body> or as the first child of a block that starts a page after a forced break.
		if runPlaced < len(runNames) && (k == 0 || r.Intn(4) == 0) {
			if k == 0 {
				g.running(runNames[runPlaced])
			} else {
				g.sb.WriteString(`<div style="break-before:page">`)
				g.running(runNames[runPlaced])
				g.depth++
				for j := 1 + r.Intn(2); j > 0 && g.budget(); j-- {
					g.block()
				}
				g.depth--
				g.sb.WriteString("</div>\n")
			}
			runPlaced++
			continue
		}
		if r.Intn(10) == 0 {
			g.inlineContent(1 + r.Intn(8))
			g.lineBreaks++
			g.sb.WriteString("\n")
			continue
		}
		g.block()
	}

	for runPlaced < len(runNames) {
		g.sb.WriteString(`<div style="break-before:page">`)
		g.running(runNames[runPlaced])
		g.word()
		g.sb.WriteString("</div>\n")
		runPlaced++
	}
	pm := []int{0, 0, 4, 8, 10, 20}[r.Intn(6)]
	if len(runNames) > 0 && pm < 10 {
		pm = 20
	}
	// page numbering in a page-margin box: "page / pages" on every page (made after the pagination
	// is final, so the values are exact)
	var marginParts []GenPart
	marginAt := ""
	if g.pc && r.Intn(3) == 0 {
		marginAt = g.pick("bottom-left", "top-right")
		marginParts = []GenPart{{Kind: "page", Style: g.counterStyle()}, {Kind: "lit", Lit: g.pick("/", ":", "(")}, {Kind: "pages", Style: g.counterStyle()}}
		if pm < 10 {
			pm = 20
		}
		g.f("margin_page_counter")
	}
	g.resolveTargets()
	pageH := g.pageH
	mode := "paged"
	if g.single {
		mode = "tall"
		// upper bound of the content height: every character on a line of its own, every forced
		// break and block boundary one more line, plus all vertical margins, paddings and borders
		maxLine := g.maxFS * 2 * 3 // headings: 2em at most... line-height up to 3
		if maxLine < 48*3 {
			maxLine = 48 * 3
		}
		pageH = g.vsum*1.0 + float64(g.chars+g.lineBreaks+10)*maxLine + 500
	}
	var pageSt string
	pageSt = fmt.Sprintf("@page{size:%dpx %dpx;margin:%dpx}", int(g.pageW)+2*pm, int(pageH)+2*pm, pm)
	for _, n := range runNames {
		pageSt += fmt.Sprintf("@page{@%s{content:element(%s);font-family:%s;font-size:8px}}", map[string]string{"hd": g.pick("top-center", "top-left"), "ft": g.pick("bottom-center", "bottom-right")}[n], n, font)
	}
	if marginAt != "" {
		pageSt += fmt.Sprintf("@page{@%s{content:%s;font-family:%s;font-size:8px;white-space:nowrap}}", marginAt, contentCSS(marginParts, false), font)
	}
	if g.pageSel > 0 {
		pageSt += fmt.Sprintf("@page :left{margin-top:%dpx}@page :first{margin-bottom:%dpx}", pm+g.pageSel, pm+r.Intn(g.pageSel+1))
	}
	html := "<!DOCTYPE html><html><head><meta charset=\"utf-8\"><style>" + pageSt +
		"html{margin:0;padding:0}" +
		"body{" + strings.Join(bodySt, ";") + "}" +
		strings.Join(g.css, "") +
		"</style></head><body>\n" + g.body() + "</body></html>"

	in := Input{HTML: html, Engine: engine, Hidden: g.hidden, Visible: g.visible, Items: g.items, Mode: mode, MarginCounter: marginParts}
	for _, gc := range g.gens {
		in.Generated = append(in.Generated, *gc)
	}
	for _, f := range g.flows {
		in.Flows = append(in.Flows, *f)
	}
	for k := range g.feat {
		in.Feat = append(in.Feat, k)
	}
	sortStrings(in.Feat)
	return in
}

func sortStrings(s []string) {
	for i := 1; i < len(s); i++ {
		for j := i; j > 0 && s[j] < s[j-1]; j-- {
			s[j], s[j-1] = s[j-1], s[j]
		}
	}
}

// plainWords emits n plain words separated by single spaces into a fresh string and returns it
// with the length of the longest word.
func (g *gen) plainWords(n int) (string, int) {
	save := g.sb
	g.sb = &strings.Builder{}
	saveLong := g.longOK
	g.longOK = false
	longest := 0
	for k := 0; k < n; k++ {
		if k > 0 {
			g.sb.WriteString(" ")
		}
		if l := g.word(); l > longest {
			longest = l
		}
	}
	g.longOK = saveLong
	out := g.sb.String()
	g.sb = save
	return out, longest
}

const plainText = "overflow-wrap:normal;word-break:normal;white-space:normal;text-indent:0;text-align:left"

// fixed emits a position:fixed box: CSS repeats it on every page.  Its height is bounded below the
// page height (a fixed box reaching the page bottom is split like other out-of-flow boxes: known
// finding): one line per word at most, or a single nowrap line with a font of unknown metrics.
func (g *gen) fixed() bool {
	lh := float64(g.fs) * g.lhf
	max := int((g.pageH - 2 - float64(g.pageSel)) / lh)
	if max < 1 {
		return false
	}
	if max > 4 {
		max = 4
	}
	n := 1 + g.r.Intn(max)
	g.f("fixed")
	id := g.newID("x")
	st := []string{"position:fixed", g.pick("top:0", "bottom:0", "top:2px"), g.pick("left:0", "right:0")}
	g.enter("fixed", id, false)
	txt, longest := g.plainWords(n)
	g.leave()
	st = append(st, splitNonEmpty(plainText)...)
	st = append(st, fmt.Sprintf("font-size:%dpx", g.fs), fmt.Sprintf("line-height:%v", g.lhf))
	if g.ahem {
		st = append(st, fmt.Sprintf("width:%dpx", (longest+g.r.Intn(8))*g.fs))
	} else {
		st = append(st, "white-space:nowrap")
	}
	g.sb.WriteString(`<div` + attrs(id, st) + `>` + txt + "</div>\n")
	g.lineBreaks += 2 + n
	return true
}

// running emits a running element at body level: position:running(name) removes it from the flow;
// content:element(name) in a page-margin box shows it on every page from its anchor page on.
func (g *gen) running(name string) {
	g.f("running")
	id := g.newID("r")
	f := g.enter("running", id, false)
	_ = f
	txt, _ := g.plainWords(1 + g.r.Intn(3))
	g.leave()
	g.sb.WriteString(`<div id="` + id + `" style="position:running(` + name + `);white-space:nowrap">` + txt + "</div>\n")
}

// plainTable emits, at body level of a paged document, a table with header / footer groups whose
// height is bounded: every header cell is one unbreakable word, body cells hold plain words, and the
// page is high enough for header + footer + the lines a first row fragment needs
// (orphans + widows) + all decorations.  Under that bound webrender never drops the groups, so each
// must be laid out exactly once on every page fragment of the table.
func (g *gen) plainTable(bodyV float64) bool {
	if !g.ahem {
		return false
	}
	lh := float64(g.fs) * g.lhf
	cols := 1 + g.r.Intn(3)
	hdrRows := g.r.Intn(3)
	foot := g.r.Intn(2)
	if hdrRows == 0 {
		foot = 1
	}
	b := 1 + g.r.Intn(2)
	p := g.r.Intn(4)
	// border-spacing 0: with a positive spacing a row that fits exactly is rejected as a whole
	// (row bottom + spacing overflows) and the groups are dropped for that page
	spacing := 0
	tb := g.r.Intn(3)
	orph := 1 + g.r.Intn(2)
	wid := 1 + g.r.Intn(2)
	rowDeco := float64(2*(b+p) + spacing)
	need := float64(hdrRows+foot+orph+wid+1)*lh + float64(hdrRows+foot+1)*rowDeco + float64(spacing+2*tb) + bodyV + float64(g.pageSel)
	if need > g.pageH {
		return false
	}
	g.f("plain_table")
	tid := g.newID("t")
	st := []string{fmt.Sprintf("border-spacing:%dpx", spacing), fmt.Sprintf("border:%dpx solid #333", tb), fmt.Sprintf("orphans:%d", orph), fmt.Sprintf("widows:%d", wid),
		fmt.Sprintf("font-size:%dpx", g.fs), fmt.Sprintf("line-height:%v", g.lhf), "margin:0"}
	st = append(st, splitNonEmpty(plainText)...)
	if g.chance(0.4) {
		st = append(st, "border-collapse:collapse")
	}
	if g.chance(0.5) {
		st = append(st, "width:100%")
	}
	cell := fmt.Sprintf("border:%dpx solid #999;padding:%dpx", b, p)
	g.sb.WriteString("<table" + attrs(tid, st) + ">")
	g.vsum += 40
	hdr := func(tag string, rows int) {
		gid := g.newID("g")
		g.sb.WriteString("<" + tag + attrs(gid, nil) + ">")
		f := g.enter("hdr", gid, false)
		f.Table = tid
		// not strict: CSS lets the user agent repeat the groups or not ("may repeat"), and webrender
		// drops them on a page where no row fits beside them; they must be complete wherever they
		// are, at most once per page fragment, and at least once overall
		for r := 0; r < rows; r++ {
			g.sb.WriteString("<tr>")
			for c := 0; c < cols; c++ {
				txt := ""
				if g.chance(0.9) {
					txt, _ = g.plainWords(1)
				}
				g.sb.WriteString(`<th style="` + cell + `;white-space:nowrap">` + txt + "</th>")
			}
			g.sb.WriteString("</tr>")
		}
		g.leave()
		g.sb.WriteString("</" + tag + ">")
	}
	if hdrRows > 0 {
		g.f("thead")
		hdr("thead", hdrRows)
	}
	footFirst := foot > 0 && g.chance(0.3)
	if footFirst {
		g.f("tfoot")
		hdr("tfoot", 1)
	}
	rows := 1 + g.r.Intn(10)
	g.sb.WriteString("<tbody>")
	for r := 0; r < rows && (r == 0 || g.budget()); r++ {
		g.sb.WriteString("<tr>")
		for c := 0; c < cols; c++ {
			cid := g.newID("c")
			g.sb.WriteString(`<td id="` + cid + `" style="` + cell + `">`)
			g.enter("cell", cid, true)
			n := g.r.Intn(7)
			if g.chance(0.15) {
				n = 8 + g.r.Intn(20)
			}
			if n > 0 {
				txt, _ := g.plainWords(n)
				g.sb.WriteString(txt)
			}
			g.leave()
			g.sb.WriteString("</td>")
		}
		g.sb.WriteString("</tr>")
	}
	g.sb.WriteString("</tbody>")
	if foot > 0 && !footFirst {
		g.f("tfoot")
		hdr("tfoot", 1)
	}
	g.sb.WriteString("</table>\n")
	return true
}

// safeHost emits, in a paged document, a block that starts a new page and whose first child is a
// float or an absolutely positioned box that cannot reach the bottom of that page: its width holds
// its longest word (no break inside words), so it has at most one line per word, and
// words*line-height + decorations <= page content height - body decorations.
func (g *gen) safeHost(bodyV float64) {
	lh := float64(g.fs) * g.lhf
	deco := 0
	b := g.r.Intn(3)
	p := g.r.Intn(5)
	m := g.r.Intn(5)
	deco = 2 * (b + p + m)
	avail := g.pageH - bodyV - float64(deco) - float64(g.pageSel)
	maxWords := int(avail / lh)
	if maxWords < 1 {
		g.block()
		return
	}
	if maxWords > 8 {
		maxWords = 8
	}
	n := 1 + g.r.Intn(maxWords)
	kind := "float"
	if g.chance(0.3) {
		kind = "abs"
	}
	id := g.newID(map[string]string{"float": "f", "abs": "a"}[kind])
	// flow-root: the margins of the following children must not collapse through the host and move
	// the static position of the out-of-flow box away from the page top
	g.sb.WriteString(`<div style="break-before:page;display:flow-root">`)
	g.f("safe_" + kind)
	// words of the out-of-flow box: plain tokens, no inline decoration (one line per word at most)
	var st []string
	if kind == "float" {
		st = append(st, "float:"+g.pick("left", "right"))
	} else {
		st = append(st, "position:absolute")
	}
	// width fixed below once the longest word is known
	g.enter(kind, id, false)
	ws, longest := g.plainWords(n)
	g.leave()
	wpx := (longest + g.r.Intn(6)) * g.fs
	st = append(st, fmt.Sprintf("width:%dpx", wpx), fmt.Sprintf("border:%dpx solid #a0a", b), fmt.Sprintf("padding:%dpx", p), fmt.Sprintf("margin:%dpx", m),
		fmt.Sprintf("font-size:%dpx", g.fs), fmt.Sprintf("line-height:%v", g.lhf))
	st = append(st, splitNonEmpty(plainText)...)
	g.sb.WriteString(`<div` + attrs(id, st) + `>` + ws + `</div>`)
	// the rest of the host is ordinary content
	g.depth++
	for k := 1 + g.r.Intn(3); k > 0 && g.budget(); k-- {
		g.block()
	}
	g.depth--
	g.sb.WriteString("</div>\n")
}
