package c02

import (
	"strings"
	"unicode"

	bo "github.com/benoitkugler/webrender/html/boxes"

	"verif/internal/rec"
)

// obsText is one TextBox found in a laid-out page.
type obsText struct {
	page   int
	flow   string // id of the nearest enclosing flow root ("" = main flow)
	text   string // TextBox text, verbatim
	x, y   float64
	hidden bool // the nearest ancestor-or-self element with a visibility declaration hides it
	// kind of box ("inline" = InlineBox, "block" = anything else) of the nearest ancestor that
	// declares visibility:hidden / collapse, "" when there is none; with !hidden: a re-shown run
	hiddenBy string
	pseudo   string // pseudo type of the box ("marker", "before", ... "" for element text)
	owner    string // id of the nearest enclosing element that carries an id (markers: the list item)
	margin   bool   // inside a page-margin box
	fsZero   bool   // font-size 0: webrender does not draw such text
	// computed color with alpha 0 (transparent / rgba(..,0)): laid out and drawn like any other run
	transparent bool
	flFloat     bool // inside the block box of a floated ::first-letter (drop cap)
}

// obsDoc is everything observed from the laid-out pages.
type obsDoc struct {
	pages int
	texts []obsText
	// tableFrags[page][table id] = number of table boxes of that element on the page
	tableFrags []map[string]int
	// elemPages[id] = pages (ascending, distinct) on which a box of the element was found
	elemPages map[string][]int
}

func elemID(f *bo.BoxFields) string {
	if f.Element == nil {
		return ""
	}
	for _, a := range f.Element.Attr {
		if a.Key == "id" {
			return a.Val
		}
	}
	return ""
}

func stripWS(s string) string {
	var sb strings.Builder
	for _, r := range s {
		if unicode.IsSpace(r) || r == '\u200b' {
			continue
		}
		sb.WriteRune(r)
	}
	return sb.String()
}

// observePages walks the laid-out pages in order, depth first, children in tree order.
func observePages(pages []*bo.PageBox, flowRoots, hiddenIDs, visibleIDs map[string]bool) *obsDoc {
	od := &obsDoc{pages: len(pages), elemPages: map[string][]int{}}
	var hoisted map[string]bool
	var skip map[*bo.TextBox]bool
	for pi, p := range pages {
		frags := map[string]int{}
		od.tableFrags = append(od.tableFrags, frags)
		emit := func(t *bo.TextBox, flow, owner string, hidden, margin bool, hiddenBy string, flFloat bool) {
			f := t.Box()
			ot := obsText{page: pi, flow: flow, text: string(t.Text), hidden: hidden, hiddenBy: hiddenBy, pseudo: f.PseudoType, owner: owner, margin: margin}
			ot.x = float64(f.PositionX)
			ot.y = float64(f.PositionY) + float64(f.Baseline.V())
			if f.Style != nil && f.Style.GetFontSize().Value < 1e-6 {
				ot.fsZero = true
			}
			if f.Style != nil && f.Style.GetColor().RGBA.A == 0 {
				ot.transparent = true
			}
			ot.flFloat = flFloat
			od.texts = append(od.texts, ot)
		}
		var walk func(b bo.Box, flow, owner string, hidden, margin bool, hiddenBy string, flFloat bool)
		walk = func(b bo.Box, flow, owner string, hidden, margin bool, hiddenBy string, flFloat bool) {
			declares := func(id string) {
				if hiddenIDs[id] {
					hidden = true
					hiddenBy = "block"
					if _, ok := b.(*bo.InlineBox); ok {
						hiddenBy = "inline"
					}
				} else if visibleIDs[id] {
					hidden = false
				}
			}
			f := b.Box()
			if f.PseudoType == "first-letter" && f.Style != nil && f.Style.GetFloat() != "none" {
				flFloat = true
			}
			if f.PseudoType != "" {
				// a pseudo-element box belongs to its element wherever it sits in the tree (the
				// remainder of a marker split at a page bottom is a child of the root box)
				if id := elemID(f); id != "" {
					owner = id
					declares(id)
				}
			} else {
				if id := elemID(f); id != "" {
					if id != owner {
						ps := od.elemPages[id]
						if len(ps) == 0 || ps[len(ps)-1] != pi {
							od.elemPages[id] = append(ps, pi)
						}
					}
					owner = id
					if flowRoots[id] {
						flow = id
					}
					declares(id)
					switch b.(type) {
					case *bo.TableBox, *bo.InlineTableBox:
						frags[id]++
					}
				}
			}
			if id := elemID(f); f.PseudoType == "" && id != "" && !hoisted[id] {
				// A floated ::first-letter (drop cap) is out of flow: where its box sits among the
				// boxes of the first line is not text order.  It is read as the start of the content
				// of its paragraph (the generator makes it the paragraph's own first text).
				for _, lt := range floatedLetters(b, id) {
					if hoisted == nil {
						hoisted = map[string]bool{}
						skip = map[*bo.TextBox]bool{}
					}
					hoisted[id] = true
					skip[lt] = true
					emit(lt, flow, owner, hidden, margin, hiddenBy, true)
				}
			}
			if t, ok := b.(*bo.TextBox); ok && !skip[t] {
				emit(t, flow, owner, hidden, margin, hiddenBy, flFloat)
			}
			for _, c := range f.Children {
				walk(c, flow, owner, hidden, margin, hiddenBy, flFloat)
			}
		}
		for _, c := range p.Children {
			_, isMargin := c.(*bo.MarginBox)
			walk(c, "", "", false, isMargin, "", false)
		}
	}
	return od
}

// floatedLetters returns the TextBoxes of the floated ::first-letter boxes of element id found in
// the subtree of b, in tree order.
func floatedLetters(b bo.Box, id string) (out []*bo.TextBox) {
	var rec func(b bo.Box, in bool)
	rec = func(b bo.Box, in bool) {
		f := b.Box()
		if !in && f.PseudoType == "first-letter" && f.Style != nil && f.Style.GetFloat() != "none" {
			if elemID(f) != id {
				return
			}
			in = true
		}
		if t, ok := b.(*bo.TextBox); ok && in {
			out = append(out, t)
		}
		for _, c := range f.Children {
			rec(c, in)
		}
	}
	rec(b, false)
	return out
}

// obsDraw is one DrawText call.
type obsDraw struct {
	page   int
	text   string
	x, y   float64
	glyphs int
	used   bool
}

func observeDraws(d *rec.Doc) (draws []obsDraw, emptyCalls int, pages int) {
	for _, e := range d.Events {
		switch e.Op {
		case "AddPage":
			pages++
		case "DrawText":
			if e.Text == nil {
				continue
			}
			draws = append(draws, obsDraw{page: e.Page, text: e.Text.Text, x: float64(e.Text.X), y: float64(e.Text.Y), glyphs: e.Text.Glyphs})
		case "DrawText0":
			emptyCalls++
		}
	}
	return
}
