// Package c02 is the runtime-monitoring check of property C02: pagination and line breaking
// conserve content.
//
// Every generated document gives each word a unique token; the generator records, per flow (main
// flow; every float, absolutely positioned box, table cell and caption is a sub-flow anchored in its
// parent flow), the exact character sequence of the source with white space removed.  One render
// with the recording backend yields the laid-out pages (document.Page.VerifPageBox) and the trace of
// DrawText calls.  The oracle compares, per flow, the characters of the TextBoxes of all pages in
// page order / tree order with the expected sequence (equality decides loss, duplication and order
// at once), applies the multiplicity rules of the CSS-defined repetitions (table header / footer
// groups, position:fixed), checks that sub-flows start and end on pages compatible with their
// anchor, and pairs every visible non-blank TextBox with exactly one DrawText call of the same page,
// text and origin.
package c02

import (
	"encoding/json"
	"fmt"
	"math"
	"math/rand"
	"regexp"
	"sort"
	"strings"
	"unicode"

	bo "github.com/benoitkugler/webrender/html/boxes"

	"verif/internal/fw"
	"verif/internal/wr"
)

// Flow is the expectation for one flow of the document.
type Flow struct {
	ID     string `json:"id"`               // id attribute of the flow root; "" is the main flow
	Parent string `json:"parent,omitempty"` // id of the parent flow
	Kind   string `json:"kind"`             // main | float | abs | cell | caption | hdr | fixed | running
	Table  string `json:"table,omitempty"`  // hdr: id of the table the group belongs to
	Text   string `json:"text"`             // expected characters in order, white space removed
	Prev   string `json:"prev,omitempty"`   // last token of the parent flow before the flow root
	Next   string `json:"next,omitempty"`   // first token of the parent flow after the flow root
	InFlow bool   `json:"inflow,omitempty"` // cell/caption: both anchors bind; float/abs: only Prev
	Strict bool   `json:"strict,omitempty"` // hdr: the group must be on every page fragment of the table
}

// Item is a list item with the expected text of its marker (white space removed).
type Item struct {
	ID     string `json:"id"`
	Marker string `json:"marker"`
}

// Input is the self-contained case.
type Input struct {
	HTML   string   `json:"html"`
	Engine string   `json:"engine,omitempty"` // "pango" (default) | "gotext"
	Flows  []Flow   `json:"flows"`
	Hidden []string `json:"hidden,omitempty"` // ids of visibility:hidden elements (laid out, not drawn)
	// ids of the elements that declare visibility:visible inside a hidden element (drawn again);
	// visibility is inherited: the nearest declaring ancestor-or-self decides (CSS 2.1 section 11.2)
	Visible []string `json:"visible,omitempty"`
	Items   []Item   `json:"items,omitempty"` // list items and the marker text each must get exactly once
	Feat    []string `json:"feat,omitempty"`  // features the generator used (evidence counters)
	Mode    string   `json:"mode,omitempty"`  // generator family
	// page-based generated content (pagecount.go)
	Generated     []GenContent `json:"generated,omitempty"`      // ::before / ::after contents, each laid out exactly once
	MarginCounter []GenPart    `json:"margin_counter,omitempty"` // content of a page-margin box of every page
}

func init() {
	fw.Register(&fw.Prop{
		ID: "C02",
		Rule: "inputs: generated HTML documents (Ahem / WeasyPrint test font, pango engine and 5 % go-text) whose words are unique tokens, with the generator-side expected character sequence of every flow, marker text of every list item, and multiplicity rule of every repeated box; " +
			"families: paged (page content box 1-40 lines high, 3-60 em wide: paragraphs, nested blocks, lists, tables with split cells, inline boxes, inline-blocks, forced/avoided breaks, orphans/widows, box-decoration-break, bounded floats / absolute boxes / fixed boxes / header groups / running elements) and tall (floats, absolute boxes, tables with header and footer groups anywhere; pages separated by forced breaks only); " +
			"16 % of the documents of both families hold ::before / ::after content with page-based counters (counter(page), counter(pages), target-counter(<string | url | attr(href)>, page) to targets before and after the reference; six counter styles; on inline elements, paragraphs and list items), whose provisional text of the first pagination pass is replaced and whose pages are made again (counters docs_repaginated, pages_revisited, generated_width_changed), one third of them with a `page / pages` page-margin box; " +
			"`visibility` is generated as the inherited property it is: hidden (3 % of the blocks / list items, 7 % of the inline boxes, 5 % of the inline-blocks; one quarter of the latter two as `collapse`), `visible` declared again by 30-40 % of the blocks, list items, inline boxes and inline-blocks inside a hidden element, hidden again inside those (12 %): a TextBox must reach DrawText exactly when the nearest ancestor-or-self element with a declaration says `visible` (counters hidden_by_inline_textboxes, reshown_draws_matched, reshown_in_hidden_inline_box_draws_matched); " +
			"a case is non-trivial when the document was laid out on >= 2 pages and at least one flow has text on more than one page (a fragmentation really happened), " +
			"or when it is a single-page document with at least one sub-flow (float / absolutely positioned / table cell) or a block broken into several lines; distinct = distinct input.",
		N:     numCases,
		Gen:   func(r *rand.Rand, i int, tier string) any { return Generate(r, i, tier) },
		Check: Check,
		Floor: func(tier string) int {
			if tier == "thorough" {
				return 20000
			}
			return 1000
		},
		CounterFloors: counterFloors,
		Assumptions: []string{
			"flows are identified in the laid-out tree through the id attribute of the flow root element (box.Element), not through the text; white space is ignored",
			"the expected character sequences come from the generator that wrote the HTML (no HTML parser in the oracle); the generator only emits nestings that the HTML parser keeps as written",
			"DrawText calls are matched to TextBoxes by page, text (white space ignored) and origin (PositionX, PositionY+Baseline); with the go-text engine webrender emits empty DrawText calls, so only their number per page is compared",
			"header / footer groups: CSS lets the user agent repeat them or not; required: complete wherever laid out, at most once per page fragment of their table, at least once overall; once on every fragment only where no space constraint exists (tall documents)",
			"visibility: the generator records the ids of the elements that declare hidden / collapse and of those that declare visible inside them; the oracle derives the visibility of a TextBox from the nearest declaring ancestor-or-self box (box.Element id), list markers and ::before / ::after boxes from their element (CSS 2.1 section 11.2; `collapse` is only generated on non-table boxes, where it means hidden); no visibility declaration inside a paragraph with ::first-letter (whose letter webrender styles from the paragraph, CSS 2.1 section 5.12.2 from the innermost inline), inside table header / footer groups, on table parts, floats and positioned boxes",
			"a render that panics or stalls is C01's verdict: inconclusive here (go-text: skipped)",
			"generated content (::before / ::after with page-based counters): the text of every declared pseudo-element, all pages in order, must be exactly one occurrence of its content list - literal parts verbatim, every counter part a representation of some non-negative integer in its counter style; the value itself (number of pages, page of the box, page of the target's first box) is required in page-margin boxes and only reported for flow content (a counter whose width decides its own page has no stable value; webrender resolves each counter once); element text of such documents obeys the same conservation rules as everywhere",
			"more calls of the page-loop hook than laid-out pages (wr.PageLoopIterations) is taken as evidence of a second pagination pass",
			"excluded by construction: text-transform, hyphens, soft hyphens, text-overflow, block-ellipsis, max-lines, continue, generated content other than list markers and page-based counters with literal strings (no counter() of element counters, target-text, quotes, attr()), bidi, columns, flex, grid, footnotes, explicit block sizes of boxes with content; and the feature combinations of the open findings (notes/C02.md): out-of-flow boxes that can reach a page bottom or hold a forced break, floats inside inline boxes, fixed / running boxes in content that can be pushed to the next page, running elements in documents that are paginated twice, header groups that may never fit, ::first-letter (always loses the letter; its boxes are read as element text when present)",
		},
		Batch: 50,
	})
}

var tokenRE = regexp.MustCompile(`w[0-9a-pr-vx-z]+q`)

func near(a, b float64) bool {
	return math.Abs(a-b) <= 0.02+1e-4*math.Max(math.Abs(a), math.Abs(b))
}

// Check renders the document and runs the conservation oracles.
func Check(raw json.RawMessage) fw.Result {
	var in Input
	if err := json.Unmarshal(raw, &in); err != nil {
		return fw.Result{Verdict: fw.Inconclusive, Msg: err.Error()}
	}
	var res fw.Result
	res.Verdict = fw.OK
	engine := in.Engine
	if engine == "" {
		engine = "pango"
	}
	rd, perr := renderGuarded(in.HTML, engine)
	if perr != "" {
		// crashes and page-loop stalls are C01's verdicts, never C02's
		if engine == "gotext" {
			res.Verdict = fw.Skip
			res.Count("render_failed_gotext", 1)
			return res
		}
		res.Verdict = fw.Inconclusive
		res.Msg = "render did not complete: " + perr
		res.Count("render_failed_pango", 1)
		return res
	}
	// calls of the page-loop hook of this render (workers evaluate one case at a time): more calls
	// than pages means that a second pagination pass took place
	loopIterations := wr.PageLoopIterations
	var pages []*bo.PageBox
	for _, p := range rd.Document.Pages {
		pages = append(pages, p.VerifPageBox())
	}
	flowRoots := map[string]bool{}
	flowByID := map[string]*Flow{}
	for i := range in.Flows {
		f := &in.Flows[i]
		if f.ID != "" {
			flowRoots[f.ID] = true
		}
		flowByID[f.ID] = f
	}
	if flowByID[""] == nil {
		return fw.Result{Verdict: fw.Inconclusive, Msg: "input has no main flow"}
	}
	hidden := map[string]bool{}
	for _, h := range in.Hidden {
		hidden[h] = true
	}
	visible := map[string]bool{}
	for _, v := range in.Visible {
		visible[v] = true
	}
	od := observePages(pages, flowRoots, hidden, visible)
	res.Count("pages", int64(od.pages))
	if loopIterations > od.pages {
		res.Count("docs_repaginated", 1)
		res.Count("pages_revisited", int64(loopIterations-od.pages))
	}
	res.Count("textboxes", int64(len(od.texts)))
	res.Count("engine_"+engine, 1)
	for _, f := range in.Feat {
		res.Count("feat_"+f, 1)
	}
	if in.Mode != "" {
		res.Count("mode_"+in.Mode, 1)
	}

	// ---------- (i)+(ii) layout: per flow character sequences ----------
	type fobs struct {
		sb     strings.Builder
		pageOf []int // page of every character of sb
		byPage map[int]*strings.Builder
		margin map[int]*strings.Builder // text found inside page-margin boxes, per page
	}
	obs := map[string]*fobs{}
	get := func(id string) *fobs {
		o := obs[id]
		if o == nil {
			o = &fobs{byPage: map[int]*strings.Builder{}, margin: map[int]*strings.Builder{}}
			obs[id] = o
		}
		return o
	}
	markers := map[string][]obsText{}
	declared := map[string]bool{} // owner + "::" + pseudo of the declared generated contents
	for _, gc := range in.Generated {
		declared[gc.Owner+"::"+gc.Pseudo] = true
	}
	generated := map[string][]obsText{}
	marginText := map[int]string{}
	for _, t := range od.texts {
		if t.pseudo == "marker" {
			markers[t.owner] = append(markers[t.owner], t)
			continue
		}
		if k := t.owner + "::" + t.pseudo; t.pseudo != "" && !t.margin && declared[k] {
			generated[k] = append(generated[k], t)
			continue
		}
		s := stripWS(t.text)
		if t.margin && t.pseudo == "" && t.flow == "" && len(in.MarginCounter) > 0 {
			marginText[t.page] += s
			continue
		}
		if fl := flowByID[t.flow]; t.margin && t.pseudo == "" && fl != nil && fl.Kind == "running" {
			o := get(t.flow)
			mb := o.margin[t.page]
			if mb == nil {
				mb = &strings.Builder{}
				o.margin[t.page] = mb
			}
			mb.WriteString(s)
			continue
		}
		// the box of ::first-letter holds characters of the element's own text: they belong to its flow
		if t.pseudo == "first-letter" && !t.margin {
			res.Count("first_letter_boxes", 1)
			if t.flFloat {
				res.Count("first_letter_float_boxes", 1)
				if hasPunctAfterLetter(t.text) {
					// CSS 2.1 section 5.12.2: punctuation that follows the letter belongs to ::first-letter
					res.Count("first_letter_float_punct_boxes", 1)
				}
			}
			if hasPunctAfterLetter(t.text) {
				res.Count("first_letter_punct_boxes", 1)
			}
		} else if t.margin || t.pseudo != "" {
			if s != "" {
				res.Fail("unexpected-text", fmt.Sprintf("page %d: text %q laid out in a %s box although the document has no such content", t.page+1, t.text, map[bool]string{true: "page-margin", false: "::" + t.pseudo}[t.margin]))
			}
			continue
		}
		o := get(t.flow)
		o.sb.WriteString(s)
		for range s {
			o.pageOf = append(o.pageOf, t.page)
		}
		pb := o.byPage[t.page]
		if pb == nil {
			pb = &strings.Builder{}
			o.byPage[t.page] = pb
		}
		pb.WriteString(s)
	}
	flowsSplit := 0
	subflows := 0
	for i := range in.Flows {
		f := &in.Flows[i]
		o := get(f.ID)
		got := o.sb.String()
		switch f.Kind {
		case "hdr":
			if f.Text == "" {
				continue
			}
			occ := 0
			frPages := 0
			for p := 0; p < od.pages; p++ {
				has := od.tableFrags[p][f.Table] > 0
				if has {
					frPages++
				}
				s := ""
				if pb := o.byPage[p]; pb != nil {
					s = pb.String()
				}
				switch {
				case s == "":
					if has && f.Strict {
						res.Fail("repeat-missing", fmt.Sprintf("table %s has a fragment on page %d without its %s group (expected once per page fragment): expected %q", f.Table, p+1, f.ID, f.Text))
					}
				case s == f.Text:
					occ++
					if !has {
						res.Fail("repeat-misplaced", fmt.Sprintf("group %s of table %s laid out on page %d where the table has no fragment", f.ID, f.Table, p+1))
					}
					if od.tableFrags[p][f.Table] > 1 {
						res.Fail("repeat-misplaced", fmt.Sprintf("table %s has %d boxes on page %d", f.Table, od.tableFrags[p][f.Table], p+1))
					}
				default:
					res.Fail("repeat-"+classify(f.Text, s), fmt.Sprintf("group %s of table %s on page %d: expected %q exactly once, laid out %q (%s)", f.ID, f.Table, p+1, f.Text, s, describeDiff(f.Text, s)))
				}
			}
			if occ == 0 && frPages > 0 {
				res.Fail("text-lost", fmt.Sprintf("group %s of table %s (%q) is on none of the %d pages of the table", f.ID, f.Table, f.Text, frPages))
			}
			res.Count("hdr_occurrences", int64(occ))
			if occ > 1 {
				res.Count("hdr_repeated_groups", 1)
			}
			if occ < frPages {
				res.Count("hdr_dropped_fragments", int64(frPages-occ))
			}
			continue
		case "fixed":
			if f.Text == "" {
				continue
			}
			for p := 0; p < od.pages; p++ {
				s := ""
				if pb := o.byPage[p]; pb != nil {
					s = pb.String()
				}
				if s != f.Text {
					res.Fail("fixed-"+classify(f.Text, s), fmt.Sprintf("position:fixed box %s on page %d of %d: expected %q exactly once, laid out %q (%s)", f.ID, p+1, od.pages, f.Text, s, describeDiff(f.Text, s)))
				}
			}
			res.Count("fixed_occurrences", int64(od.pages))
			continue
		case "running":
			if got != "" {
				res.Fail("running-in-flow", fmt.Sprintf("running element %s is laid out in the flow (%q); position:running() takes it out of the flow", f.ID, got))
			}
			continue
		}
		if f.ID != "" {
			subflows++
			res.Count("subflows_"+f.Kind, 1)
		}
		if got != f.Text {
			sig := "text-" + classify(f.Text, got)
			if sig == "text-lost" && lostBeforeFloat(f, got, in.Flows) {
				// narrow class of finding word-lost-before-float: the only difference is one run of
				// whole words missing immediately before a float of this flow
				sig = "text-lost-before-float"
			}
			res.Fail(sig, fmt.Sprintf("flow %q (%s): %s; pages=%d", f.ID, f.Kind, describeFlowDiff(f.Text, got, o.pageOf), od.pages))
			continue
		}
		res.Count("chars_conserved", int64(len(got)))
		if n := len(o.pageOf); n > 0 && o.pageOf[0] != o.pageOf[n-1] {
			flowsSplit++
			res.Count("flows_split_"+f.Kind, 1)
		}
		for k := 1; k < len(o.pageOf); k++ {
			if o.pageOf[k] != o.pageOf[k-1] {
				res.Count("page_breaks_in_flows", 1)
				// a break inside a token = inside a line-broken word or between lines of one word
				if k < len(got) && got[k] != 'w' {
					res.Count("page_breaks_inside_words", 1)
				}
			}
		}
	}
	// text in a flow the input does not declare
	for id, o := range obs {
		if flowByID[id] == nil && o.sb.Len() > 0 {
			res.Fail("unexpected-text", fmt.Sprintf("text %q laid out under undeclared flow root %q", o.sb.String(), id))
		}
	}

	// ---------- anchors of sub-flows ----------
	if res.Verdict == fw.OK {
		for i := range in.Flows {
			f := &in.Flows[i]
			if f.Kind == "running" && f.Text != "" {
				// CSS GCPM: the element is shown in the margin box of its anchor page and of every
				// later page; the anchor page lies between the end of the preceding token and the
				// start of the following token of the parent flow
				par := flowByID[f.Parent]
				po := obs[f.Parent]
				o := get(f.ID)
				if par == nil || po == nil {
					continue
				}
				pA, pB := 0, od.pages-1
				if f.Prev != "" {
					if k := strings.Index(par.Text, f.Prev); k >= 0 {
						pA = po.pageOf[k+len(f.Prev)-1]
					}
				}
				if f.Next != "" {
					if k := strings.Index(par.Text, f.Next); k >= 0 {
						pB = po.pageOf[k]
					}
				}
				for p := 0; p < od.pages; p++ {
					s := ""
					if mb := o.margin[p]; mb != nil {
						s = mb.String()
					}
					switch {
					case s == "" && p >= pB:
						res.Fail("running-missing", fmt.Sprintf("running element %s (%q) is not in the margin box of page %d although its anchor is on page %d at the latest (%d pages)", f.ID, f.Text, p+1, pB+1, od.pages))
					case s != "" && p < pA:
						res.Fail("running-early", fmt.Sprintf("running element %s shown on page %d (%q), before its anchor (page %d at the earliest)", f.ID, p+1, s, pA+1))
					case s != "" && s != f.Text:
						res.Fail("running-"+classify(f.Text, s), fmt.Sprintf("running element %s on page %d: expected %q exactly once, laid out %q (%s)", f.ID, p+1, f.Text, s, describeDiff(f.Text, s)))
					case s != "":
						res.Count("running_occurrences", 1)
					}
				}
				continue
			}
			if f.ID == "" || f.Kind == "hdr" || f.Kind == "fixed" || f.Text == "" {
				continue
			}
			o := obs[f.ID]
			par := flowByID[f.Parent]
			po := obs[f.Parent]
			if par == nil || po == nil || par.Kind == "hdr" || par.Kind == "fixed" {
				continue
			}
			first, last := o.pageOf[0], o.pageOf[len(o.pageOf)-1]
			if f.Prev != "" {
				if k := strings.Index(par.Text, f.Prev); k >= 0 {
					pp := po.pageOf[k+len(f.Prev)-1]
					res.Count("anchors_checked", 1)
					if first < pp {
						res.Fail("subflow-before-anchor", fmt.Sprintf("sub-flow %s (%s) starts on page %d, before the end of the preceding token %s of its parent flow %q (page %d)", f.ID, f.Kind, first+1, f.Prev, f.Parent, pp+1))
					}
				}
			}
			if f.Next != "" && f.InFlow {
				if k := strings.Index(par.Text, f.Next); k >= 0 {
					pn := po.pageOf[k]
					res.Count("anchors_checked", 1)
					if last > pn {
						res.Fail("subflow-after-anchor", fmt.Sprintf("in-flow sub-flow %s (%s) ends on page %d, after the start of the following token %s of its parent flow %q (page %d)", f.ID, f.Kind, last+1, f.Next, f.Parent, pn+1))
					}
				}
			}
		}
	}

	// ---------- page-based generated content ----------
	if len(in.Generated) > 0 || len(in.MarginCounter) > 0 {
		checkGenerated(&res, &in, od, generated, marginText)
	}

	// ---------- list markers: the marker text exactly once per list item ----------
	for _, it := range in.Items {
		li := it.ID
		ps := od.elemPages[li]
		ms := markers[li]
		delete(markers, li)
		if len(ps) == 0 {
			if len(ms) > 0 {
				res.Fail("marker-extra", fmt.Sprintf("list item %s has a marker but no box", li))
			}
			continue
		}
		res.Count("list_items", 1)
		if len(ps) > 1 {
			res.Count("list_items_split", 1)
		}
		got := ""
		var where []string
		for _, m := range ms {
			got += stripWS(m.text)
			where = append(where, fmt.Sprintf("%q on page %d", m.text, m.page+1))
		}
		if got != it.Marker {
			res.Fail("marker-"+classify(it.Marker, got), fmt.Sprintf("list item %s (boxes on pages %v): marker text %q expected exactly once, laid out %q: %s", li, plus1(ps), it.Marker, got, strings.Join(where, ", ")))
			continue
		}
		if len(ms) > 0 && ms[0].page != ps[0] {
			res.Fail("marker-page", fmt.Sprintf("marker %q of list item %s is on page %d, the item starts on page %d", ms[0].text, li, ms[0].page+1, ps[0]+1))
		}
	}
	for li, ms := range markers {
		res.Fail("marker-extra", fmt.Sprintf("%d marker boxes (first %q, page %d) for element %q which is no generated list item with a marker", len(ms), ms[0].text, ms[0].page+1, li))
	}

	// ---------- (iii) drawing ----------
	draws, emptyCalls, drawnPages := observeDraws(rd.Rec)
	if drawnPages != od.pages {
		res.Fail("draw-pages", fmt.Sprintf("%d pages laid out, %d AddPage calls", od.pages, drawnPages))
	}
	if len(rd.Rec.Violations) > 0 {
		res.Count("protocol_violations_seen", int64(len(rd.Rec.Violations)))
	}
	perPageL := make([]int, od.pages+1)
	perPageD := make([]int, od.pages+1)
	for _, d := range draws {
		if d.page >= 0 && d.page < od.pages {
			perPageD[d.page]++
		} else {
			res.Fail("draw-pages", fmt.Sprintf("DrawText %q outside any page (page index %d)", d.text, d.page))
		}
	}
	for ti := range od.texts {
		t := &od.texts[ti]
		if t.hidden {
			res.Count("hidden_textboxes", 1)
			if t.hiddenBy == "inline" {
				res.Count("hidden_by_inline_textboxes", 1)
			}
			continue
		}
		if strings.TrimSpace(t.text) == "" {
			res.Count("blank_textboxes", 1)
			continue
		}
		if t.fsZero {
			continue
		}
		perPageL[t.page]++
		if t.transparent {
			// color with alpha 0: a laid-out visible run, it must reach DrawText like any other
			res.Count("transparent_textboxes_visible", 1)
		}
		if engine != "pango" {
			continue
		}
		found := -1
		nearMiss := ""
		key := stripWS(t.text)
		for di := range draws {
			d := &draws[di]
			if d.used || d.page != t.page || stripWS(d.text) != key {
				if !d.used && stripWS(d.text) == key && d.page != t.page {
					nearMiss = fmt.Sprintf("; the same text is drawn on page %d", d.page+1)
				}
				continue
			}
			if near(d.x, t.x) && near(d.y, t.y) {
				found = di
				break
			}
			nearMiss = fmt.Sprintf("; the same text is drawn on this page at (%.3f,%.3f)", d.x, d.y)
		}
		if found < 0 {
			res.Fail("draw-missing", fmt.Sprintf("page %d: TextBox %q of flow %q laid out at origin (%.3f,%.3f) has no DrawText call with that text and origin%s", t.page+1, t.text, t.flow, t.x, t.y, nearMiss))
			continue
		}
		draws[found].used = true
		res.Count("draws_matched", 1)
		if t.transparent {
			res.Count("transparent_draws_matched", 1)
		}
		if t.hiddenBy != "" && strings.TrimSpace(t.text) != "" {
			// a visible run inside a hidden element (visibility:visible declared in between)
			res.Count("reshown_draws_matched", 1)
			if t.hiddenBy == "inline" {
				res.Count("reshown_in_hidden_inline_box_draws_matched", 1)
			}
		}
		// every non-blank character of the run must have reached the backend as a glyph
		nonBlank := len([]rune(key))
		if draws[found].glyphs < nonBlank {
			res.Fail("draw-glyphs-missing", fmt.Sprintf("page %d: DrawText %q carries %d glyphs for %d non-blank characters", t.page+1, draws[found].text, draws[found].glyphs, nonBlank))
		}
		if draws[found].glyphs != len([]rune(draws[found].text)) {
			res.Count("glyph_count_differs", 1)
		}
	}
	if engine == "pango" {
		for _, d := range draws {
			if !d.used {
				res.Fail("draw-extra", fmt.Sprintf("page %d: DrawText %q at (%.3f,%.3f) corresponds to no visible TextBox of that page (drawn twice, or drawn on another page than laid out)", d.page+1, d.text, d.x, d.y))
				break
			}
		}
		if emptyCalls > 0 {
			res.Fail("draw-extra", fmt.Sprintf("%d DrawText calls without any text drawing", emptyCalls))
		}
	} else {
		for p := 0; p < od.pages; p++ {
			if perPageL[p] != perPageD[p] {
				res.Fail("draw-count", fmt.Sprintf("page %d: %d visible non-blank TextBoxes laid out, %d DrawText calls (engine %s)", p+1, perPageL[p], perPageD[p], engine))
				break
			}
		}
		res.Count("draws_counted", int64(len(draws)))
	}

	// ---------- non-triviality ----------
	if od.pages >= 2 {
		res.Count("docs_multipage", 1)
	}
	lineBreaks := countBrokenLines(pages)
	res.Count("lines", int64(lineBreaks.lines))
	res.Count("blocks_with_several_lines", int64(lineBreaks.multi))
	if res.Verdict == fw.OK {
		if od.pages >= 2 && flowsSplit > 0 {
			res.Nontrivial = true
			res.Count("docs_with_split_flow", 1)
		} else if od.pages == 1 && (subflows > 0 || lineBreaks.multi > 0) {
			res.Nontrivial = true
		}
	}
	return res
}

// hasPunctAfterLetter tells whether the text of a ::first-letter box has a punctuation character
// after its first letter or digit ("A,", "\"A\"", "I'").
func hasPunctAfterLetter(s string) bool {
	seen := false
	for _, r := range s {
		if unicode.IsLetter(r) || unicode.IsDigit(r) {
			seen = true
		} else if seen && unicode.IsPunct(r) {
			return true
		}
	}
	return false
}

// lostBeforeFloat tells whether got is the expected text of the flow with exactly one contiguous run
// of whole words removed, the run ending where a float of this flow is anchored (end of the word of
// the float's preceding token).
func lostBeforeFloat(f *Flow, got string, flows []Flow) bool {
	exp := f.Text
	gap := len(exp) - len(got)
	if gap <= 0 {
		return false
	}
	wordStart := func(k int) bool { return k >= len(exp) || exp[k] == 'w' } // 'w' only starts tokens
	for i := range flows {
		fl := &flows[i]
		if fl.Kind != "float" || fl.Parent != f.ID || fl.Prev == "" {
			continue
		}
		k := strings.Index(exp, fl.Prev)
		if k < 0 {
			continue
		}
		end := k + 1
		for end < len(exp) && exp[end] != 'w' {
			end++
		}
		start := end - gap
		if start >= 0 && wordStart(start) && exp[:start]+exp[end:] == got {
			return true
		}
	}
	return false
}

func plus1(ps []int) []int {
	out := make([]int, len(ps))
	for i, p := range ps {
		out[i] = p + 1
	}
	return out
}

type lineStats struct{ lines, multi int }

// countBrokenLines counts line boxes and the blocks holding more than one of them.
func countBrokenLines(pages []*bo.PageBox) lineStats {
	var st lineStats
	var walk func(b bo.Box)
	walk = func(b bo.Box) {
		n := 0
		for _, c := range b.Box().Children {
			if _, ok := c.(*bo.LineBox); ok {
				n++
			}
			walk(c)
		}
		st.lines += n
		if n > 1 {
			st.multi++
		}
	}
	for _, p := range pages {
		walk(p)
	}
	return st
}

// renderGuarded renders with panics and stalls turned into a message.
func renderGuarded(html, engine string) (rd *wr.Rendered, failure string) {
	defer func() {
		if p := recover(); p != nil {
			failure = fmt.Sprintf("panic: %v", p)
		}
	}()
	rd, err := wr.Render(wr.Opts{HTML: html, Engine: engine})
	if err != nil {
		return nil, err.Error()
	}
	if rd == nil || rd.Rec == nil {
		return nil, "no rendering"
	}
	return rd, ""
}

// classify names the kind of difference between expected and observed character sequences.
func classify(exp, got string) string {
	if got == exp {
		return "ok"
	}
	if isSubseq(got, exp) {
		return "lost"
	}
	if isSubseq(exp, got) {
		return "duplicated"
	}
	if sortedRunes(exp) == sortedRunes(got) {
		return "reordered"
	}
	return "mismatch"
}

func isSubseq(small, big string) bool {
	i := 0
	for j := 0; j < len(big) && i < len(small); j++ {
		if small[i] == big[j] {
			i++
		}
	}
	return i == len(small)
}

func sortedRunes(s string) string {
	b := []byte(s)
	sort.Slice(b, func(i, j int) bool { return b[i] < b[j] })
	return string(b)
}

func clip(s string, from, n int) string {
	if from < 0 {
		from = 0
	}
	if from > len(s) {
		from = len(s)
	}
	to := from + n
	if to > len(s) {
		to = len(s)
	}
	return s[from:to]
}

func describeDiff(exp, got string) string {
	k := 0
	for k < len(exp) && k < len(got) && exp[k] == got[k] {
		k++
	}
	// token level multiset difference
	ec := map[string]int{}
	for _, t := range tokenRE.FindAllString(exp, -1) {
		ec[t]++
	}
	gc := map[string]int{}
	for _, t := range tokenRE.FindAllString(got, -1) {
		gc[t]++
	}
	var lost, dup []string
	for t, n := range ec {
		if gc[t] < n {
			lost = append(lost, t)
		}
		if gc[t] > n {
			dup = append(dup, fmt.Sprintf("%s x%d", t, gc[t]))
		}
	}
	for t, n := range gc {
		if ec[t] == 0 {
			dup = append(dup, fmt.Sprintf("%s x%d (not expected here)", t, n))
		}
	}
	sort.Strings(lost)
	sort.Strings(dup)
	if len(lost) > 8 {
		lost = append(lost[:8], "...")
	}
	if len(dup) > 8 {
		dup = append(dup[:8], "...")
	}
	return fmt.Sprintf("first difference at character %d: expected ...%q, observed ...%q; tokens missing %v, tokens in excess %v; expected %d characters, observed %d",
		k, clip(exp, k-6, 30), clip(got, k-6, 30), lost, dup, len(exp), len(got))
}

func describeFlowDiff(exp, got string, pageOf []int) string {
	k := 0
	for k < len(exp) && k < len(got) && exp[k] == got[k] {
		k++
	}
	pg := "-"
	if k < len(pageOf) {
		pg = fmt.Sprint(pageOf[k] + 1)
	} else if len(pageOf) > 0 {
		pg = fmt.Sprintf("after the last character, page %d", pageOf[len(pageOf)-1]+1)
	}
	return describeDiff(exp, got) + "; observed position of the difference: page " + pg
}
