package c02

import (
	"fmt"
	"regexp"
	"strings"

	"verif/internal/fw"
)

// Page-based generated content.
//
// `content: counter(page)`, `counter(pages)` and `target-counter(<target>, page)` in a ::before /
// ::after pseudo-element of flow content cannot be resolved when the boxes are built: webrender lays
// the pages out with a provisional text ("0"), resolves the counters page by page and makes the
// affected pages — and every following page whose starting point moved — again.  The text of the
// document must be conserved by that second pagination pass exactly as by the first.
//
// The generator declares, per pseudo-element, the list of parts of its `content` (GenContent); the
// oracle requires the text of the pseudo-element's boxes (all pages, tree order) to be exactly one
// occurrence of: the literal parts verbatim and, for every counter part, a representation of some
// integer in the part's counter style.  The *value* is compared with the value the final layout
// implies (number of pages; page of the pseudo-element's first box; page of the target's first box)
// as a report-only observation: a counter whose own width decides on which page it falls has no
// stable value in general.  In a page-margin box (made once the pagination is final) the values are
// exact and are required.

// pcPercent is the share of the generated documents with page-based generated content
// (C02_ALLOW=nopagecounters, development only, sets it to 0 to measure the cost of the sub-domain).
var pcPercent = 16

// GenPart is one item of a `content` list.
type GenPart struct {
	Kind   string `json:"kind"`             // lit | page | pages | tpage (target-counter(.., page))
	Lit    string `json:"lit,omitempty"`    // lit: the string
	Style  string `json:"style,omitempty"`  // counter style
	Target string `json:"target,omitempty"` // tpage: id of the target element
	attr   bool   // written as attr(href) (the owner is an <a href="#target">)
}

// GenContent is the declared content of one pseudo-element.
type GenContent struct {
	Owner  string    `json:"owner"`  // id of the originating element
	Pseudo string    `json:"pseudo"` // before | after
	Parts  []GenPart `json:"parts"`
	href   int       // > 0: number of the owner's href placeholder
}

var litChars = []string{"[", "]", "(", ")", "~", "#", "*", "+", "=", "/", ":"}

func (g *gen) counterStyle() string {
	return g.pick("decimal", "decimal", "decimal", "upper-roman", "upper-roman", "upper-roman", "lower-roman", "lower-roman",
		"decimal-leading-zero", "lower-alpha", "upper-alpha")
}

func (g *gen) lit() GenPart {
	s := ""
	for k := 1 + g.r.Intn(2); k > 0; k-- {
		s += litChars[g.r.Intn(len(litChars))]
	}
	return GenPart{Kind: "lit", Lit: s}
}

// contentParts builds a content list with at least one page-based counter.
func (g *gen) contentParts(attrOK bool) []GenPart {
	var parts []GenPart
	if g.chance(0.4) {
		parts = append(parts, g.lit())
	}
	n := 1
	if g.chance(0.25) {
		n = 2
	}
	for k := 0; k < n; k++ {
		if k > 0 && g.chance(0.7) {
			parts = append(parts, g.lit())
		}
		p := GenPart{Kind: g.pick("pages", "pages", "page", "page", "tpage", "tpage", "tpage"), Style: g.counterStyle()}
		if p.Kind == "tpage" && attrOK && g.chance(0.6) {
			p.attr = true
		}
		parts = append(parts, p)
		g.f("gen_" + p.Kind)
	}
	if g.chance(0.4) {
		parts = append(parts, g.lit())
	}
	return parts
}

// pseudo declares ::before and / or ::after content for the element id.
func (g *gen) pseudo(id string, isA bool) (href int) {
	g.f("gen_content")
	which := g.pick("before", "after", "after", "both")
	for _, w := range []string{"before", "after"} {
		if which != w && which != "both" {
			continue
		}
		gc := &GenContent{Owner: id, Pseudo: w, Parts: g.contentParts(isA)}
		for _, p := range gc.Parts {
			if p.attr {
				if href == 0 {
					g.hrefs++
					href = g.hrefs
				}
				gc.href = href
			}
		}
		g.gens = append(g.gens, gc)
		g.chars += 24 // upper bound of the characters of the resolved text (tall documents)
		g.lineBreaks++
	}
	return href
}

func hrefMark(n int) string { return fmt.Sprintf("@@HREF%d@@", n) }

// genSpan emits an inline element (possibly empty) with page-based generated content.
func (g *gen) genSpan() {
	tag := g.pick("span", "span", "b", "em", "a", "a")
	if g.inA {
		tag = "span"
	}
	id := g.newID("e")
	href := g.pseudo(id, tag == "a")
	extra := ""
	if tag == "a" {
		if href > 0 {
			extra = ` href="#` + hrefMark(href) + `"`
		} else {
			extra = ` href="#x"`
		}
	}
	st := ""
	if g.chance(0.5) {
		st = g.inlineStyle()
	}
	g.sb.WriteString("<" + tag + ` id="` + id + `"` + extra + st + ">")
	if g.chance(0.6) {
		g.inInl++
		wasA := g.inA
		g.inA = g.inA || tag == "a"
		g.inlineContent(1 + g.r.Intn(3))
		g.inA = wasA
		g.inInl--
	}
	g.sb.WriteString("</" + tag + ">")
	g.f("gen_inline")
}

// targetSpan emits one word inside an element that target-counter() can refer to.
func (g *gen) targetSpan() {
	id := g.newID("k")
	g.sb.WriteString(`<span id="` + id + `">`)
	g.word()
	g.sb.WriteString("</span>")
	g.targets = append(g.targets, id)
}

// resolveTargets gives every target-counter() its target (any declared target of the document,
// before or after the reference) and writes the style rules.
func (g *gen) resolveTargets() {
	hrefTarget := map[int]string{}
	for _, gc := range g.gens {
		for i := range gc.Parts {
			p := &gc.Parts[i]
			if p.Kind != "tpage" {
				continue
			}
			if len(g.targets) == 0 {
				p.Kind, p.attr = "page", false
				continue
			}
			if p.attr {
				t := hrefTarget[gc.href]
				if t == "" {
					t = g.targets[g.r.Intn(len(g.targets))]
					hrefTarget[gc.href] = t
				}
				p.Target = t
				continue
			}
			p.Target = g.targets[g.r.Intn(len(g.targets))]
		}
		g.css = append(g.css, fmt.Sprintf("#%s::%s{content:%s}", gc.Owner, gc.Pseudo, contentCSS(gc.Parts, true)))
	}
	for n := 1; n <= g.hrefs; n++ {
		t := hrefTarget[n]
		if t == "" {
			t = "x"
		}
		hrefTarget[n] = t
	}
	g.hrefTargets = hrefTarget
}

// body is the generated body with the href placeholders resolved.
func (g *gen) body() string {
	s := g.sb.String()
	for n, t := range g.hrefTargets {
		s = strings.ReplaceAll(s, hrefMark(n), t)
	}
	return s
}

// contentCSS writes the content list.
func contentCSS(parts []GenPart, flow bool) string {
	var out []string
	for _, p := range parts {
		style := ""
		if p.Style != "decimal" {
			style = ", " + p.Style
		}
		switch p.Kind {
		case "lit":
			out = append(out, `"`+p.Lit+`"`)
		case "page", "pages":
			out = append(out, "counter("+p.Kind+style+")")
		case "tpage":
			ref := `"#` + p.Target + `"`
			if p.attr {
				ref = "attr(href)"
			} else if len(p.Target)%2 == 0 {
				ref = "url(#" + p.Target + ")"
			}
			out = append(out, "target-counter("+ref+", page"+style+")")
		}
	}
	return strings.Join(out, " ")
}

// ---------- reference counter styles (CSS Counter Styles Level 3, predefined styles) ----------

func roman(n int, upper bool) string {
	if n < 1 || n > 3999 {
		return fmt.Sprint(n) // outside the range of the style: fallback decimal
	}
	vals := []int{1000, 900, 500, 400, 100, 90, 50, 40, 10, 9, 5, 4, 1}
	syms := []string{"m", "cm", "d", "cd", "c", "xc", "l", "xl", "x", "ix", "v", "iv", "i"}
	var sb strings.Builder
	for i, v := range vals {
		for n >= v {
			sb.WriteString(syms[i])
			n -= v
		}
	}
	if upper {
		return strings.ToUpper(sb.String())
	}
	return sb.String()
}

func alpha(n int, upper bool) string {
	if n < 1 {
		return fmt.Sprint(n) // alphabetic systems have no representation of 0 and negatives
	}
	var b []byte
	for n > 0 {
		n--
		b = append([]byte{byte('a' + n%26)}, b...)
		n /= 26
	}
	if upper {
		return strings.ToUpper(string(b))
	}
	return string(b)
}

// renderCounter is the representation of n in a predefined counter style.
func renderCounter(n int, style string) string {
	switch style {
	case "decimal-leading-zero":
		if n >= 0 && n < 10 {
			return fmt.Sprintf("0%d", n)
		}
		if n < 0 && n > -10 {
			return fmt.Sprintf("-0%d", -n)
		}
		return fmt.Sprint(n)
	case "lower-roman":
		return roman(n, false)
	case "upper-roman":
		return roman(n, true)
	case "lower-alpha":
		return alpha(n, false)
	case "upper-alpha":
		return alpha(n, true)
	}
	return fmt.Sprint(n)
}

// counterShape is the regular expression of the representations of the non-negative integers in
// the style (the decimal fallback included).
func counterShape(style string) string {
	switch style {
	case "lower-roman":
		return `(?:[ivxlcdm]+|[0-9]+)`
	case "upper-roman":
		return `(?:[IVXLCDM]+|[0-9]+)`
	case "lower-alpha":
		return `(?:[a-z]+|[0-9]+)`
	case "upper-alpha":
		return `(?:[A-Z]+|[0-9]+)`
	}
	return `[0-9]+`
}

// contentShape is the anchored regular expression of one occurrence of the content.
func contentShape(parts []GenPart) *regexp.Regexp {
	var sb strings.Builder
	sb.WriteString("^")
	for _, p := range parts {
		if p.Kind == "lit" {
			sb.WriteString(regexp.QuoteMeta(p.Lit))
		} else {
			sb.WriteString(counterShape(p.Style))
		}
	}
	sb.WriteString("$")
	return regexp.MustCompile(sb.String())
}

// contentValue is the text the final layout implies: pages = number of pages, page = page number of
// the box holding the content, target(id) = page number of the first box of the element (0: none).
func contentValue(parts []GenPart, pages, page int, target func(id string) int) (string, bool) {
	var sb strings.Builder
	for _, p := range parts {
		switch p.Kind {
		case "lit":
			sb.WriteString(p.Lit)
		case "page":
			sb.WriteString(renderCounter(page, p.Style))
		case "pages":
			sb.WriteString(renderCounter(pages, p.Style))
		case "tpage":
			n := target(p.Target)
			if n == 0 {
				return "", false
			}
			sb.WriteString(renderCounter(n, p.Style))
		}
	}
	return sb.String(), true
}

// checkGenerated applies the rules of the page-based generated contents.
func checkGenerated(res *fw.Result, in *Input, od *obsDoc, generated map[string][]obsText, marginText map[int]string) {
	target := func(id string) int {
		ps := od.elemPages[id]
		if len(ps) == 0 {
			return 0
		}
		return ps[0] + 1
	}
	widthChanged := false
	for _, gc := range in.Generated {
		ts := generated[gc.Owner+"::"+gc.Pseudo]
		got := ""
		var where []string
		for _, t := range ts {
			got += stripWS(t.text)
			where = append(where, fmt.Sprintf("%q on page %d", t.text, t.page+1))
		}
		res.Count("generated_contents", 1)
		shape := contentShape(gc.Parts)
		if !shape.MatchString(got) {
			sig := "generated-mismatch"
			inner := strings.TrimSuffix(strings.TrimPrefix(shape.String(), "^"), "$")
			switch {
			case got == "":
				sig = "generated-lost"
			case regexp.MustCompile("^(?:" + inner + "){2,}$").MatchString(got):
				sig = "generated-duplicated"
			case len(ts) > 1 && ts[0].page != ts[len(ts)-1].page:
				// the text of the pseudo-element is cut by a page break and its pieces do not add up
				sig = "generated-split-mismatch"
			}
			res.Fail(sig, fmt.Sprintf("::%s of element %s (boxes of the element on pages %v), content %s: expected exactly one occurrence of %s, laid out %q: %s",
				gc.Pseudo, gc.Owner, plus1(od.elemPages[gc.Owner]), contentCSS(gc.Parts, true), shape.String(), got, strings.Join(where, ", ")))
			continue
		}
		res.Count("generated_laid_out_once", 1)
		if ts[0].page != ts[len(ts)-1].page {
			res.Count("generated_split_over_pages", 1)
		}
		// the provisional text of the first pagination pass has every page-based counter at 0
		prov, _ := contentValue(gc.Parts, 0, 0, func(string) int { return -1 })
		if len([]rune(prov)) != len([]rune(got)) {
			res.Count("generated_width_changed", 1)
			widthChanged = true
		}
		exp, ok := contentValue(gc.Parts, od.pages, ts[0].page+1, target)
		if ok && exp == got {
			res.Count("generated_values_exact", 1)
		} else {
			res.Count("generated_values_differ", 1)
			if len(res.Reports) < 3 {
				res.Reports = append(res.Reports, fmt.Sprintf("::%s of element %s, content %s: laid out %q on page %d of %d, the final layout implies %q (report only: a counter whose width moves its own page has no stable value)",
					gc.Pseudo, gc.Owner, contentCSS(gc.Parts, true), got, ts[0].page+1, od.pages, exp))
			}
		}
	}
	if widthChanged {
		res.Count("docs_generated_width_changed", 1)
	}
	if len(in.MarginCounter) > 0 {
		for p := 0; p < od.pages; p++ {
			exp, _ := contentValue(in.MarginCounter, od.pages, p+1, target)
			if got := marginText[p]; got != exp {
				res.Fail("margin-counter-"+classify(exp, got), fmt.Sprintf("page-margin box of page %d of %d, content %s: expected %q exactly once, laid out %q", p+1, od.pages, contentCSS(in.MarginCounter, false), exp, got))
				break
			}
			res.Count("margin_counter_occurrences", 1)
		}
	}
}
