//go:build pC10 || pall

package props

import _ "verif/props/c10"
