package c12

// Reference model of the @page cascade (css-page-3 §"Cascading in the page context", css-cascade
// origin/importance order, css-page-3 page selector specificity).  Written from the specifications;
// shares no code with /repo.

import (
	"strconv"
	"strings"
)

// pageFacts describes one page of the observed page sequence.
type pageFacts struct {
	Index int // 0-based
	First bool
	Blank bool
	Side  string // left | right
	Name  string
}

// A4 in CSS px (96 px per inch, 25.4 mm per inch)
const (
	a4W = 210.0 * 96 / 25.4
	a4H = 297.0 * 96 / 25.4
)

func nthMatches(a, b, idx1 int) bool {
	// idx1 = a*n + b for some integer n >= 0
	if a == 0 {
		return idx1 == b
	}
	d := idx1 - b
	if d%a != 0 {
		return false
	}
	return d/a >= 0
}

func (r Rule) matches(f pageFacts) bool {
	if r.Name != "" && r.Name != f.Name {
		return false
	}
	if r.First && !f.First {
		return false
	}
	if r.Blank && !f.Blank {
		return false
	}
	if r.Side != "" && r.Side != f.Side {
		return false
	}
	if r.Nth != nil && !nthMatches(r.Nth[0], r.Nth[1], f.Index+1) {
		return false
	}
	return true
}

// specificity (f, g, h) of css-page-3: f = page type names, g = :first / :blank, h = :left / :right.
// The weight of :nth() is not specified (css-gcpm-3 / csswg-drafts #3524): nthMode selects a
// hypothesis (0: counts nothing, 1: counts in g, 2: counts in h).
func (r Rule) specificity(nthMode int) [3]int {
	var s [3]int
	if r.Name != "" {
		s[0] = 1
	}
	if r.First {
		s[1]++
	}
	if r.Blank {
		s[1]++
	}
	if r.Side != "" {
		s[2]++
	}
	if r.Nth != nil {
		switch nthMode {
		case 1:
			s[1]++
		case 2:
			s[2]++
		}
	}
	return s
}

// precedence of css-cascade: UA < user < author < author !important < user !important.
func precedence(origin string, imp bool) int {
	switch {
	case origin == "ua":
		return 1
	case origin == "user" && !imp:
		return 2
	case origin == "author" && !imp:
		return 3
	case origin == "author":
		return 4
	}
	return 5
}

type weight struct {
	prec  int
	spec  [3]int
	order int
}

func (w weight) less(o weight) bool {
	if w.prec != o.prec {
		return w.prec < o.prec
	}
	for i := 0; i < 3; i++ {
		if w.spec[i] != o.spec[i] {
			return w.spec[i] < o.spec[i]
		}
	}
	return w.order < o.order
}

// expand a 1–4 value box shorthand into top, right, bottom, left
func expand4(v []int) [4]int {
	switch len(v) {
	case 1:
		return [4]int{v[0], v[0], v[0], v[0]}
	case 2:
		return [4]int{v[0], v[1], v[0], v[1]}
	case 3:
		return [4]int{v[0], v[1], v[2], v[1]}
	}
	return [4]int{v[0], v[1], v[2], v[3]}
}

var sides4 = [4]string{"top", "right", "bottom", "left"}

// cval is one cascaded value: a number with its unit ("px", "pt", "pc", "mm", "cm", "in", "q",
// "em", "%") or the keyword auto (U = "auto").  Unitless properties (counters, mbox) use "px".
type cval struct {
	N float64
	U string
}

// parseTok reads a literal CSS token of the generator: auto, 0, or <number><unit>.
func parseTok(t string) cval {
	if t == "auto" {
		return cval{0, "auto"}
	}
	k := len(t)
	for k > 0 && !(t[k-1] >= '0' && t[k-1] <= '9') && t[k-1] != '.' {
		k--
	}
	n, err := strconv.ParseFloat(t[:k], 64)
	if err != nil {
		panic("c12: bad token " + t)
	}
	u := strings.ToLower(t[k:])
	if u == "" {
		u = "px"
	}
	return cval{n, u}
}

// px per unit of the absolute lengths (css-values-3 §6.2: 1in = 96px = 2.54cm = 25.4mm = 101.6Q =
// 72pt = 6pc) and of em in the page context, which has no element: its font-size is the initial
// value medium = 16px (css-page-3 §"page context", no font property is declared in the generated
// @page rules).
var pxPerUnit = map[string]float64{
	"px": 1, "pt": 96.0 / 72, "pc": 16, "mm": 96 / 25.4, "cm": 96 / 2.54, "in": 96, "q": 96 / 101.6, "em": 16,
}

// used resolves a cascaded margin / padding value of the page box to px.  Percentages refer to the
// size of the page sheet (the containing block of the page box): its width for the left and right
// sides, its HEIGHT for the top and bottom sides (css-page-3 §"Page-based percentages"; CSS 2.1
// §13.2.1), unlike ordinary boxes.  Auto margins are 0 here: that is their used value when the
// width / height of the page box is auto (css-page-3 §5.3); geomFrom replaces it when the dimension
// is declared.
func (c cval) used(ref float64) float64 {
	switch c.U {
	case "auto":
		return 0
	case "%":
		return c.N * ref / 100
	}
	f, ok := pxPerUnit[c.U]
	if !ok {
		panic("c12: unknown unit " + c.U)
	}
	return c.N * f
}

// cascadePage returns the cascaded value of every longhand the rules declare for the page.
// Keys: size-w, size-h, margin-top…, padding-top…, width, height, counter-reset, counter-increment, mbox.
// A key that no rule sets is absent (UA defaults are applied by the caller).
func cascadePage(rules []Rule, f pageFacts, nthMode int) map[string]cval {
	val := map[string]cval{}
	wt := map[string]weight{}
	order := 0
	set := func(key string, v cval, w weight) {
		if old, ok := wt[key]; ok && w.less(old) {
			return
		}
		wt[key] = w
		val[key] = v
	}
	for _, r := range rules {
		if !r.matches(f) {
			continue
		}
		spec := r.specificity(nthMode)
		for _, d := range r.Decls {
			order++
			w := weight{precedence(r.Origin, d.Imp), spec, order}
			switch d.P {
			case "size":
				set("size-w", parseTok(d.tok(0)), w)
				set("size-h", parseTok(d.tok(1)), w)
			case "margin", "padding":
				e := expand4([]int{0, 1, 2, 3}[:len(d.V)]) // indexes of the values used for top, right, bottom, left
				for i, s := range sides4 {
					set(d.P+"-"+s, parseTok(d.tok(e[i])), w)
				}
			case "margin-top", "margin-right", "margin-bottom", "margin-left", "padding-top", "padding-right", "padding-bottom", "padding-left",
				"width", "height":
				set(d.P, parseTok(d.tok(0)), w)
			default:
				set(d.P, cval{float64(d.V[0]), "px"}, w)
			}
		}
	}
	return val
}

// geometry expected for a page.
type pageGeom struct {
	Margin  [4]float64 // top right bottom left
	Padding [4]float64
	W, H    float64 // content box
	// page-context counters and margin box
	HasReset, HasIncr bool
	Reset, Incr       int
	MBox              int // -1: no @bottom-center content
	// evidence: unit of the cascaded value behind each margin / padding ("" = user-agent default),
	// unit of the size, and whether the sheet is square
	MU, PU [4]string
	SU     string
	Square bool
	// evidence: unit of the cascaded width / height of the page box ("" = not declared, "auto"), and
	// how the equation of each axis was solved: "" (auto dimension: auto margins are 0), "center"
	// (both margins auto), "first" (only margin-left / margin-top auto), "second" (only margin-right /
	// margin-bottom auto), "over" (no auto margin: over-constrained)
	DU    [2]string // width, height
	Solve [2]string
}

func geomFrom(c map[string]cval) pageGeom {
	var g pageGeom
	sw, sh := a4W, a4H
	if v, ok := c["size-w"]; ok {
		sw, sh = v.used(0), c["size-h"].used(0)
		g.SU = v.U
	}
	g.Square = sw == sh
	for i, s := range sides4 {
		ref := sw
		if i == 0 || i == 2 {
			ref = sh // top and bottom: percentages of the sheet height
		}
		g.Margin[i] = 75 // UA sheet: @page { margin: 75px }
		if v, ok := c["margin-"+s]; ok {
			g.Margin[i] = v.used(ref)
			g.MU[i] = v.U
		}
		if v, ok := c["padding-"+s]; ok {
			g.Padding[i] = v.used(ref)
			g.PU[i] = v.U
		}
	}
	// css-page-3 §5.3 "Page-box page rule calculations", for each axis
	//   margin-a + padding-a + dimension + padding-b + margin-b = size of the page sheet
	// (the page box has no border in the generated documents):
	//  * dimension auto: auto margins become 0 and the dimension follows from the equality;
	//  * dimension not auto, both margins auto: their used values are equal (the box is centred);
	//  * dimension not auto, exactly one margin auto: it follows from the equality;
	//  * nothing auto (over-constrained): no margin is ignored, every value is used as declared (the
	//    containing block is resized to the margin edges of the page box instead).
	// A percentage width / height refers to the sheet width / height.
	solve := func(axis int, dim string, sheet float64, a, b int) float64 {
		avail := sheet - g.Padding[a] - g.Padding[b]
		v, ok := c[dim]
		if ok {
			g.DU[axis] = v.U
		}
		if !ok || v.U == "auto" {
			return avail - g.Margin[a] - g.Margin[b] // auto margins are already 0
		}
		inner := v.used(sheet)
		autoA, autoB := g.MU[a] == "auto", g.MU[b] == "auto"
		switch {
		case autoA && autoB:
			g.Margin[a] = (avail - inner) / 2
			g.Margin[b] = g.Margin[a]
			g.Solve[axis] = "center"
		case autoA:
			g.Margin[a] = avail - inner - g.Margin[b]
			g.Solve[axis] = "first"
		case autoB:
			g.Margin[b] = avail - inner - g.Margin[a]
			g.Solve[axis] = "second"
		default:
			g.Solve[axis] = "over"
		}
		return inner
	}
	g.W = solve(0, "width", sw, 3, 1)
	g.H = solve(1, "height", sh, 0, 2)
	if v, ok := c["counter-reset"]; ok {
		g.HasReset, g.Reset = true, int(v.N)
	}
	if v, ok := c["counter-increment"]; ok {
		g.HasIncr, g.Incr = true, int(v.N)
	}
	g.MBox = -1
	if v, ok := c["mbox"]; ok {
		g.MBox = int(v.N)
	}
	return g
}

// expectedGeoms evaluates the cascade under every hypothesis left open by the specifications
// (weight of :nth()) and returns the list of distinct outcomes.  A single outcome is asserted;
// several outcomes are compared field by field and only the fields on which all agree are asserted.
// A blank page has no page name (css-page-3: a named page is a page "on which an element must be
// displayed", its name comes from the `page` value of the content placed on it; a blank page, made
// only to reach the requested side, displays none): it is matched by the unnamed rules and by
// :blank / :left / :right / :first / :nth(), never by `@page <name>` rules (f.Name is "" for it).
func expectedGeoms(rules []Rule, f pageFacts) []pageGeom {
	var out []pageGeom
	names := []string{f.Name}
	if f.Blank {
		names = []string{""}
	}
	for _, nm := range names {
		ff := f
		ff.Name = nm
		for mode := 0; mode < 3; mode++ {
			g := geomFrom(cascadePage(rules, ff, mode))
			dup := false
			for _, o := range out {
				if o == g {
					dup = true
				}
			}
			if !dup {
				out = append(out, g)
			}
		}
	}
	return out
}
