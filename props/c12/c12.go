// Package c12 is the runtime-monitoring check of property C12: pages have the declared geometry
// and break where CSS allows.
package c12

import (
	"encoding/json"
	"math"
	"strings"

	bo "github.com/benoitkugler/webrender/html/boxes"
	"github.com/benoitkugler/webrender/html/layout"
	"github.com/benoitkugler/webrender/text"

	"verif/internal/fw"
	"verif/internal/wr"
)

func init() {
	fw.Register(&fw.Prop{
		ID: "C12",
		Rule: "inputs: (1) exhaustive table orphans 1–4 × widows 1–4 × paragraph length 1–8 × room 0–8 lines after a leading block; (2) exhaustive table of break-after × break-before value pairs (10 × 10) in four nesting variants at a natural page end; (3) exhaustive table of vertical padding/border arrangements (8 arrangements of a decorated box, paragraph or fixed-height block between two blocks × 4 border/padding splits × 22 page heights 40..124px in steps of 4, so that the page bottom falls on every 4px of the decorated block); (4) random flows of 2–10 items, up to ~25 blocks (fixed-height empty blocks, Ahem paragraphs of 1–9 one-word lines with explicit px line-height, one level of nesting; zero vertical margins; in 35% of the documents boxes, paragraphs and fixed-height blocks carry top and/or bottom padding and borders of 4–12px (box-decoration-break: slice; bottom ones on fixed-height blocks only in table 3); 3% of the documents on pages lower than a line, 4% on A4 pages) with break-before/after/inside, orphans, widows, page names, and 0–6 @page rules (:first/:left/:right/:blank/named/:nth(), author and user origin, !important) setting size, margins, padding, page counters and an @bottom-center counter box; in 30% of the random documents 70% of the @page margin / padding values are written as percentages (40%) or in pt, pc, mm, cm, in, Q, em, or auto for margins (30%) instead of px, and 30% of the sizes in pt / pc; (5) exhaustive table of the page-box margin / padding value syntax: each of the 8 longhands and the margin / padding shorthands with 1–4 values × the units px, pt, pc, mm, cm, in, Q, em, %, and a mixed form (auto margins, percentages next to lengths) × a portrait, a landscape and a square sheet (percentages of top/bottom refer to the sheet height, of left/right to its width); (6) exhaustive table of the page-box dimensions: width, height or both declared in px, %, pt or auto × each of the two margins of the axis as 0, a length, a percentage, auto or undeclared (5 × 5) × a portrait and a landscape sheet, with page padding; and in 12% of the random documents (drawn last) the @page rules also declare width and / or height of the page box (px, a percentage of the sheet, or auto; sometimes !important) and 35% of the margin values are auto, so that the cascade decides page by page between auto dimension, centred, one auto margin and over-constrained. " +
			"A case is non-trivial when the laid-out document has at least two pages and at least one page end (forced or unforced) was decided by the break monitor; distinct = distinct input.",
		N: func(tier string) int {
			return nTables + nRandom(tier) + nUnit + nDim + nBlank
		},
		Gen:   genCase,
		Check: check,
		Floor: func(tier string) int {
			if tier == "thorough" {
				return 100000
			}
			return 6000
		},
		CounterFloors: func(tier string) map[string]int64 {
			m := int64(1)
			if tier == "thorough" {
				m = 15
			}
			// floors are about a third of what the unchanged tree shows at seed 1
			return map[string]int64{
				"pages":                     15000 * m,
				"ends_unforced":             6000 * m,
				"ends_forced":               3000 * m,
				"ends_forced_side":          1000 * m,
				"ends_exact_fit":            800 * m,
				"ends_moved_by_rules":       1500 * m,
				"ends_rules_dropped":        500 * m,
				"ends_first_unit_overflows": 300 * m,
				"blank_pages":               500 * m,
				"geometry_fields_compared":  100000 * m,
				"margin_box_texts":          8000 * m,
				"named_pages":               2500 * m,
				"hook_pages":                15000 * m,
				"repagination_docs":         300 * m,
				"kind_ow-table":             nOW,
				"kind_pair-table":           nPair - 12,
				"kind_deco-table":           nDeco,
				// vertical padding and borders: documents and pages that carry some, fragments whose used
				// decorations and border-box bottom were compared, and unforced page ends where the content
				// of the next unit fits and the bottom padding/border travelling with it does not
				"docs_decorated":                      1200 * m,
				"pages_with_decorations":              3000 * m,
				"decorated_doc_fragments_checked":     15000 * m,
				"ends_bottom_decoration_does_not_fit": 90 * m,
				// value syntax of the page-box margins / paddings / size: the table is complete; documents
				// with some value not in px; geometry numbers compared that were resolved from a percentage,
				// from a percentage on a top/bottom side of a non-square sheet (where the reference — sheet
				// height, not width — matters), from another unit, from an auto margin; pages whose size was
				// declared in pt / pc
				"kind_unit-table":                               nUnit,
				"docs_page_values_with_units":                   1000 * m,
				"geometry_fields_from_percentage":               8000 * m,
				"geometry_fields_vertical_percentage_nonsquare": 4000 * m,
				"geometry_fields_from_other_units":              7000 * m,
				"geometry_fields_from_auto_margin":              200 * m,
				"pages_size_in_other_units":                     1300 * m,
				// width / height of the page box (css-page-3 §5.3): the table is complete; documents whose
				// @page rules declare a dimension; pages whose cascaded width / height is not auto; page
				// axes (a page has two) compared in each case of the equation: both margins auto (centred),
				// only margin-left/top auto, only margin-right/bottom auto — and among those the ones where
				// the opposite margin is not 0, the only place where forgetting it shows —, no auto margin
				// (over-constrained)
				"kind_dim-table": nDim,
				// blank pages x named pages: the table is complete; blank pages followed by content with a
				// page name, and those where the @page rules of that name would change the page
				"kind_blank-table":                                      nBlank,
				"blank_pages_before_named_content":                      250 * m,
				"blank_pages_where_the_next_name_would_change_the_page": 150 * m,
				"docs_page_box_dimensions":                              500 * m,
				"pages_declared_width":                                  1500 * m,
				"pages_declared_height":                                 1800 * m,
				"pages_declared_dimension_percentage":                   1000 * m,
				"page_axes_both_margins_auto":                           700 * m,
				"page_axes_first_margin_auto":                           300 * m,
				"page_axes_second_margin_auto":                          350 * m,
				"page_axes_second_margin_auto_first_nonzero":            300 * m,
				"page_axes_one_margin_auto_other_nonzero":               550 * m,
				"page_axes_over_constrained":                            1800 * m,
			}
		},
		Assumptions: []string{
			"flows are restricted to zero vertical margins, no floats, tables, footnotes, columns or absolutely positioned boxes (fragmentation of those has no closed-form expectation); vertical padding and borders are integer px with box-decoration-break: slice (clone is not generated)",
			"css-break-3 §4.2: no break point separates the top padding/border of a box from its first child or line, nor its last child or line from its bottom padding/border (auto heights leave no class C gap), so these decorations travel with the first / last unit of the box and count in what must fit",
			"four patterns of /repo around bottom padding/border at a page end are open findings (first box of a page; fixed-height block; fragment made by findEarlierPageBreak; second layout in a space reduced for every child): they are recognised by narrow signatures and reported as known, only when nothing else is wrong with the document; bottom padding/border on fixed-height blocks is kept out of the random flows (table 3 only)",
			"@page margin / padding percentages refer to the page sheet given by `size`: its width for left/right, its height for top/bottom (css-page-3 page-based percentages, CSS 2.1 §13.2.1); absolute units convert as 1in = 96px = 72pt = 6pc = 2.54cm = 25.4mm = 101.6Q; em in the page context is the initial font-size, 16px (no font property is declared in the generated @page rules); ex, ch, rem, vw/vh, calc() and size keywords are not generated",
			"css-page-3 §5.3 (page-box page rule calculations), per axis, margin + padding + width|height + padding + margin = sheet size: with an auto dimension auto margins are 0 and the dimension follows; with a declared dimension two auto margins are equal, a single auto margin takes the rest (it may be negative), and without auto margin every value is used as declared (over-constrained: the page box then does not coincide with the sheet); a percentage width / height refers to the sheet width / height; min-/max-width/height and borders of the page box are not generated",
			"open finding F-C12-page-bottom-float32-rounding: with a fractional page bottom a block that must be split on the page is sometimes moved whole to the next page (the float32 sum y + (pageBottom − y) rounds above pageBottom and overflowsPage has no effective fudge factor); recognised only when that float32 arithmetic, redone on the observed positions, does round above the page bottom, and reported as known",
			"Ahem metrics: one 8-glyph word per line in a body of width 8em, explicit px line-height, so every line box is exactly line-height tall",
			"where the specifications leave a choice (weight of :nth(); orphans counted per fragment or per box; which of two nested break-after sides wins; whether counter-reset:page suppresses the automatic increment) every reading is accepted",
			"a blank page has no page name (css-page-3: a named page is a page on which an element with that `page` value is displayed; a blank page displays none): it takes the unnamed, :blank, side, :first and :nth() rules, never `@page <name>` rules — WeasyPrint's and webrender's reading",
			"a forced side on break-before of the first block of the document (propagation to the root) is not generated",
		},
		Batch: 250,
	})
}

var fontCache = map[string]text.FontConfiguration{}

func fontsFor(engine string) (text.FontConfiguration, error) {
	if fc, ok := fontCache[engine]; ok {
		return fc, nil
	}
	fc, err := wr.FontsFor(engine)
	if err == nil {
		fontCache[engine] = fc
	}
	return fc, err
}

type hookCall struct {
	index  int
	resume string
	page   *bo.PageBox
}

type stallPanic struct{ msg string }

// renderWatched renders with this check's own page-loop hook: it records every iteration (for the
// cross-check of the pages made against the pages returned) and applies the progress rule of
// DESIGN §4: the same resume point, pending counts and page kind on 8 consecutive pages means the
// layout does not advance; the render is then aborted and reported (a logical-step criterion).
func renderWatched(o wr.Opts, calls *[]hookCall) (r *wr.Rendered, stall string, err error) {
	last, repeats := "", 0
	layout.VerifPageHook = func(index int, resumeAt string, oof, fn int, page *bo.PageBox) {
		*calls = append(*calls, hookCall{index, resumeAt, page})
		if resumeAt == "nil" && fn == 0 {
			last, repeats = "", 0
			return
		}
		state := sprintf("%s|%d|%d|%v|%s", resumeAt, oof, fn, page.PageType.Blank, page.PageType.Name)
		if state != last {
			last, repeats = state, 0
			return
		}
		repeats++
		if repeats >= 8 {
			panic(stallPanic{sprintf("no progress for %d consecutive pages (page index %d): resume point %s, blank %v", repeats+1, index, resumeAt, page.PageType.Blank)})
		}
	}
	defer func() {
		layout.VerifPageHook = nil
		if p := recover(); p != nil {
			if sp, ok := p.(stallPanic); ok {
				stall = sp.msg
				return
			}
			panic(p)
		}
	}()
	r, err = wr.Render(o)
	return r, "", err
}

func near(a, b float64) bool {
	return math.Abs(a-b) <= 0.02+1e-4*math.Max(math.Abs(a), math.Abs(b))
}

func opposite(side string) string {
	if side == "left" {
		return "right"
	}
	return "left"
}

func check(raw json.RawMessage) fw.Result {
	var in In
	if err := json.Unmarshal(raw, &in); err != nil {
		return fw.Result{Verdict: fw.Inconclusive, Msg: err.Error()}
	}
	var res fw.Result
	fl := buildFlow(&in)
	n := len(fl.units)
	if n == 0 {
		res.Verdict = fw.Skip
		return res
	}

	fonts, err := fontsFor(in.Engine)
	if err != nil {
		return fw.Result{Verdict: fw.Inconclusive, Msg: err.Error()}
	}
	var calls []hookCall
	var user []string
	if in.User != "" {
		user = []string{in.User}
	}
	r, stall, err := renderWatched(wr.Opts{HTML: in.HTML, UserCSS: user, Engine: in.Engine, Fonts: fonts, NoWrite: true, NoProgressMonitor: true}, &calls)
	if stall != "" {
		res.Fail("page-loop-stalled", stall)
		return res
	}
	if err != nil {
		return fw.Result{Verdict: fw.Inconclusive, Msg: "render: " + err.Error()}
	}
	pages := r.Pages
	np := len(pages)
	if np == 0 {
		res.Fail("no-pages", "layout returned no page")
		return res
	}
	res.Count("pages", int64(np))

	// ---- hook cross-check: the last pass of the page loop made exactly the pages returned
	{
		last := 0
		passes := 0
		for i, c := range calls {
			if c.index == 0 {
				last = i
				passes++
			}
		}
		final := calls[last:]
		if len(final) != np {
			res.Fail("hook-page-count", sprintf("the last pass of the page loop made %d pages, Layout returned %d", len(final), np))
			return res
		}
		for i, c := range final {
			if c.index != i || c.page != pages[i] || (c.resume == "nil") != (i == np-1) {
				res.Fail("hook-page-sequence", sprintf("page loop call %d of the last pass: index %d, resume %s, same page box as returned: %v (pages returned: %d)", i, c.index, c.resume, c.page == pages[i], np))
				return res
			}
		}
		res.Count("hook_pages", int64(len(final)))
		if passes > 1 {
			res.Count("repagination_docs", 1)
			res.Count("repagination_passes", int64(passes))
		}
	}

	// ---- observation: units per page, in order
	leafIDs := map[string]bool{}
	for _, b := range fl.blocks {
		if b.it.Kind == "leaf" {
			leafIDs[b.it.ID] = true
		}
	}
	obs := make([]obsPage, np)
	first := make([]int, np) // first / last unit index of each page, -1 when blank
	last := make([]int, np)
	next := 0
	for i, p := range pages {
		obs[i] = observePage(p, leafIDs)
		first[i], last[i] = -1, -1
		for _, u := range obs[i].units {
			if next >= n {
				res.Fail("unit-sequence", sprintf("page %d holds an extra unit %s %q after the end of the flow", i+1, u.id, u.text))
				return res
			}
			exp := fl.units[next]
			b := &fl.blocks[exp.blk]
			ok := u.id == b.it.ID && u.line == (b.it.Kind == "para")
			if ok && u.line && !b.it.Ctr && u.text != wordOf(idNum(b.it.ID), exp.line) {
				ok = false
			}
			if !ok {
				res.Fail("unit-sequence", sprintf("page %d: expected unit %d (block %s line %d) next, found block %q text %q: content lost, duplicated or reordered", i+1, next, b.it.ID, exp.line, u.id, u.text))
				return res
			}
			if !near(u.h, exp.h) {
				res.Fail("unit-height", sprintf("page %d: unit %d (block %s line %d) is %g px tall, declared %g", i+1, next, b.it.ID, exp.line, u.h, exp.h))
				return res
			}
			fl.units[next].h = u.h // the model works on the heights laid out (checked against the declared ones above)
			if first[i] < 0 {
				first[i] = next
			}
			last[i] = next
			next++
		}
	}
	if next != n {
		b := &fl.blocks[fl.units[next].blk]
		res.Fail("unit-sequence", sprintf("the flow has %d units, only %d were laid out (first missing: block %s line %d)", n, next, b.it.ID, fl.units[next].line))
		return res
	}

	// ---- page sequence facts
	firstSide := "right"
	if in.RTL {
		firstSide = "left"
	}
	switch in.RootBreak {
	case "left", "right":
		firstSide = in.RootBreak
	case "verso":
		firstSide = opposite(firstSide)
	}
	facts := make([]pageFacts, np)
	pendingName := map[int]string{} // page index -> deferred page-type verdict (name only)
	side := firstSide
	for i := range pages {
		f := pageFacts{Index: i, First: i == 0, Blank: first[i] < 0, Side: side}
		if !f.Blank {
			f.Name = fl.blocks[fl.units[first[i]].blk].name
			if f.Name != "" {
				res.Count("named_pages", 1)
			}
		} else {
			res.Count("blank_pages", 1)
		}
		facts[i] = f
		side = opposite(side)
		pt := pages[i].PageType
		if i > 0 && !f.Blank && pt.Index == i && pt.First == f.First && pt.Side == f.Side && pt.Blank == f.Blank && pt.Name != f.Name {
			// Only the name differs.  A consequence of open finding F-C12-page-bottom-float32-rounding
			// is that the page following the pushed block takes the page name the aborted layout of
			// that block had announced: the verdict is deferred until the end of the previous page has
			// been judged, and the page is judged meanwhile with the page type /repo gave it.
			pendingName[i] = sprintf("page %d has page type %+v; expected index %d first %v side %s blank %v name %q (sides alternate from the first page; a page is blank iff it has no content; its name is the `page` value of its first content)", i+1, pt, i, f.First, f.Side, f.Blank, f.Name)
			facts[i].Name = pt.Name
			continue
		}
		if pt.Index != i || pt.First != f.First || pt.Side != f.Side || pt.Blank != f.Blank || pt.Name != f.Name {
			res.Fail("page-type", sprintf("page %d has page type %+v; expected index %d first %v side %s blank %v name %q (sides alternate from the first page; a page is blank iff it has no content; its name is the `page` value of its first content, a blank page has none)", i+1, pt, i, f.First, f.Side, f.Blank, f.Name))
			return res
		}
	}
	if first[0] != 0 {
		res.Fail("blank-page-unexpected", "the first page holds no content")
		return res
	}
	if last[np-1] != n-1 {
		res.Fail("blank-page-unexpected", sprintf("%d page(s) follow the page holding the end of the flow", np-1-pageOf(last, n-1)))
		return res
	}

	// ---- (a) geometry against the reference cascade
	geoms := make([][]pageGeom, np)
	for i, p := range pages {
		gs := expectedGeoms(in.Rules, facts[i])
		if facts[i].Blank {
			// evidence: blank pages followed by content with a page name, and among them those on
			// which the @page rules of that name would have given another page (the blank page is
			// unnamed: those rules must not apply to it)
			for j := i + 1; j < np; j++ {
				if facts[j].Blank {
					continue
				}
				if nm := facts[j].Name; nm != "" {
					res.Count("blank_pages_before_named_content", 1)
					ff := facts[i]
					ff.Name = nm
					alt := cascadePage(in.Rules, ff, 0)
					if geomFrom(alt) != geomFrom(cascadePage(in.Rules, facts[i], 0)) {
						res.Count("blank_pages_where_the_next_name_would_change_the_page", 1)
					}
				}
				break
			}
		}
		geoms[i] = gs
		got := [10]float64{
			float64(p.MarginTop.V()), float64(p.MarginRight.V()), float64(p.MarginBottom.V()), float64(p.MarginLeft.V()),
			float64(p.PaddingTop.V()), float64(p.PaddingRight.V()), float64(p.PaddingBottom.V()), float64(p.PaddingLeft.V()),
			float64(p.Width.V()), float64(p.Height.V()),
		}
		names := [10]string{"margin-top", "margin-right", "margin-bottom", "margin-left", "padding-top", "padding-right", "padding-bottom", "padding-left", "content width", "content height"}
		vec := func(g pageGeom) [10]float64 {
			return [10]float64{g.Margin[0], g.Margin[1], g.Margin[2], g.Margin[3], g.Padding[0], g.Padding[1], g.Padding[2], g.Padding[3], g.W, g.H}
		}
		e0 := vec(gs[0])
		for k := 0; k < 10; k++ {
			agreed := true
			for _, g := range gs[1:] {
				if vec(g)[k] != e0[k] {
					agreed = false
				}
			}
			if !agreed {
				res.Count("geometry_fields_ambiguous", 1)
				continue
			}
			res.Count("geometry_fields_compared", 1)
			unit := ""
			if k < 4 {
				unit = gs[0].MU[k]
			} else if k < 8 {
				unit = gs[0].PU[k-4]
			}
			if !near(got[k], e0[k]) {
				how := ""
				switch unit {
				case "%":
					how = " (a percentage of the sheet width for left/right, of the sheet HEIGHT for top/bottom: css-page-3 page-based percentages)"
				case "auto":
					how = " (auto margins of a page box with auto width/height are 0)"
					if sv := gs[0].Solve[(k+1)%2]; sv != "" {
						how = " (an auto margin next to a declared " + [2]string{"width", "height"}[(k+1)%2] + " of the page box follows from margin + padding + dimension + padding + margin = sheet size; css-page-3 §5.3, case " + sv + ")"
					}
				case "", "px":
				default:
					how = " (declared in " + unit + ")"
				}
				res.Fail("page-geometry", sprintf("page %d (index %d, first %v, side %s, blank %v, name %q): %s is %g, the @page cascade gives %g%s", i+1, i, facts[i].First, facts[i].Side, facts[i].Blank, facts[i].Name, names[k], got[k], e0[k], how))
				return res
			}
			// evidence: what kind of value the compared field was resolved from
			switch unit {
			case "", "px":
			case "%":
				res.Count("geometry_fields_from_percentage", 1)
				if k%2 == 0 && !gs[0].Square {
					// top / bottom margin or padding, sheet width != height: the reference matters
					res.Count("geometry_fields_vertical_percentage_nonsquare", 1)
				}
			case "auto":
				res.Count("geometry_fields_from_auto_margin", 1)
			default:
				res.Count("geometry_fields_from_other_units", 1)
				res.Count("geometry_unit_"+unit, 1)
			}
		}
		if su := gs[0].SU; su != "" && su != "px" {
			res.Count("pages_size_in_other_units", 1)
		}
		// evidence: declared width / height of the page box and which case of css-page-3 §5.3 was
		// compared (the ten numbers above agree with the reference at this point)
		if len(gs) == 1 {
			g := gs[0]
			for ax, nm := range [2]string{"width", "height"} {
				if g.DU[ax] == "" || g.DU[ax] == "auto" {
					if g.DU[ax] == "auto" {
						res.Count("pages_declared_"+nm+"_auto", 1)
					}
					continue
				}
				res.Count("pages_declared_"+nm, 1)
				if g.DU[ax] == "%" {
					res.Count("pages_declared_dimension_percentage", 1)
				}
				a, b := 3, 1 // left, right
				if ax == 1 {
					a, b = 0, 2 // top, bottom
				}
				switch g.Solve[ax] {
				case "center":
					res.Count("page_axes_both_margins_auto", 1)
				case "first":
					res.Count("page_axes_first_margin_auto", 1)
					if math.Abs(g.Margin[b]) > 0.5 {
						res.Count("page_axes_one_margin_auto_other_nonzero", 1)
					}
				case "second":
					res.Count("page_axes_second_margin_auto", 1)
					if math.Abs(g.Margin[a]) > 0.5 {
						res.Count("page_axes_one_margin_auto_other_nonzero", 1)
						res.Count("page_axes_second_margin_auto_first_nonzero", 1)
					}
				case "over":
					res.Count("page_axes_over_constrained", 1)
				}
			}
		}
		if float64(p.PositionX) != 0 || float64(p.PositionY) != 0 {
			res.Fail("page-geometry", sprintf("page %d is positioned at (%g,%g)", i+1, float64(p.PositionX), float64(p.PositionY)))
			return res
		}
	}

	// ---- positions: content starts at the top of the page content box and units are stacked
	for i, p := range pages {
		top := float64(p.MarginTop.V()) + float64(p.PaddingTop.V()) + float64(p.BorderTopWidth.V())
		y := top
		for k, u := range obs[i].units {
			mu := fl.units[first[i]+k]
			y += mu.pre // top padding/border of the boxes that start with this unit
			if !near(u.y, y) {
				what := "is not at the top of the page content box"
				if k > 0 {
					what = "does not follow the previous unit"
				}
				if mu.pre > 0 || (k > 0 && fl.units[first[i]+k-1].post > 0) {
					what += sprintf(" (with %g px of bottom padding/border closing before it and %g px of top padding/border opening on it)", y-mu.pre-prevEnd(obs[i].units, k, top), mu.pre)
				}
				res.Fail("unit-position", sprintf("page %d: unit %d (block %s) is at y=%g, expected %g: it %s", i+1, first[i]+k, u.id, u.y, y, what))
				return res
			}
			y += u.h + mu.post
		}
	}

	// ---- (b)(c)(d) page ends
	var known fw.Result // first occurrence of a pattern recorded as an open finding (see notes)
	knownPage := make([]bool, np)
	float32Page := make([]bool, np) // pages whose end is the pattern of F-C12-page-bottom-float32-rounding
	fl.exact = true
	for _, u := range fl.units {
		if u.h != math.Trunc(u.h) {
			fl.exact = false
		}
	}
	for _, p := range pages {
		if h := float64(p.Height.V()); h != math.Trunc(h) {
			fl.exact = false
		}
	}
	if fl.exact {
		res.Count("docs_integer_heights", 1)
	}
	for i := 0; i < np; i++ {
		if facts[i].Blank {
			continue
		}
		H := float64(pages[i].Height.V())
		v := fl.checkPageEnd(first[i], last[i], H)
		if v.sig != "" {
			if strings.HasPrefix(v.sig, "overflow-bottom-decoration-") || v.sig == "break-decided-in-space-reduced-by-box-bottom-decoration" {
				// pattern of an open finding: reported only if nothing else is wrong with the document
				known.Fail(v.sig, sprintf("page %d: %s", i+1, v.msg))
				res.Count("known_pattern_page_ends", 1)
				knownPage[i] = true
				continue
			}
			if v.sig == "early-break" || v.sig == "break-rule-ignored" {
				if why := fl.float32BottomPattern(pages[i], obs[i], first[i], last[i], v.hi); why != "" {
					// open finding F-C12-page-bottom-float32-rounding (see notes)
					known.Fail("page-bottom-float32-rounding", sprintf("page %d: %s; %s", i+1, v.msg, why))
					res.Count("known_pattern_page_ends", 1)
					knownPage[i], float32Page[i] = true, true
					continue
				}
			}
			res.Fail(v.sig, sprintf("page %d: %s", i+1, v.msg))
			return res
		}
		if v.exactFit && v.kind != "end" {
			res.Count("ends_exact_fit", 1)
		}
		if v.firstOverflows {
			res.Count("ends_first_unit_overflows", 1)
		}
		if v.deco {
			res.Count("pages_with_decorations", 1)
		}
		// blank pages that follow
		nb := 0
		for j := i + 1; j < np && facts[j].Blank; j++ {
			nb++
		}
		switch v.kind {
		case "end":
			continue
		case "unforced":
			res.Count("ends_unforced", 1)
			if v.level > 0 {
				res.Count("ends_rules_dropped", 1)
				if v.level > 1 {
					res.Count("ends_rules_dropped_orphans_widows", 1)
				}
			}
			if v.moved {
				res.Count("ends_moved_by_rules", 1)
			}
			if v.looseOK {
				res.Count("ends_accepted_by_lenient_reading", 1)
			}
			if v.kfInsideAvoid {
				res.Count("ends_before_forced_break_inside_avoid_box", 1)
			}
			if v.decoStraddle {
				// the content of the next unit would fit, the bottom padding/border it carries would not
				res.Count("ends_bottom_decoration_does_not_fit", 1)
			}
			if nb != 0 {
				res.Fail("blank-page-unexpected", sprintf("page %d ends at an unforced break and is followed by %d blank page(s)", i+1, nb))
				return res
			}
		case "forced":
			res.Count("ends_forced", 1)
			if a, b := fl.blocks[fl.units[last[i]].blk].name, fl.blocks[fl.units[last[i]+1].blk].name; a != "" && b == "" {
				res.Count("ends_forced_named_to_unnamed", 1)
			}
			_, sides := fl.forcedAt(last[i])
			want := []int{0}
			nextSide := opposite(facts[i].Side)
			switch len(sides) {
			case 0:
			case 1:
				res.Count("ends_forced_side", 1)
				if sides[0] != nextSide {
					want = []int{1}
				}
			default:
				want = []int{0, 1}
			}
			ok := false
			for _, w := range want {
				if nb == w {
					ok = true
				}
			}
			if !ok {
				res.Fail("forced-break-side", sprintf("page %d (%s) ends at a forced break after unit %d requiring side %v: %d blank page(s) follow, expected %v", i+1, facts[i].Side, last[i], sides, nb, want))
				return res
			}
		}
	}

	// deferred page-type verdicts: a wrong page name is only excused right after a page end that shows
	// the float32 pattern
	for i := 0; i < np; i++ {
		msg, ok := pendingName[i]
		if !ok {
			continue
		}
		j := i - 1
		for j > 0 && facts[j].Blank {
			j--
		}
		if !float32Page[j] {
			res.Fail("page-type", msg)
			return res
		}
		res.Count("known_pattern_page_names", 1)
	}

	// ---- box decorations: every fragment of a generated block has the top padding/border of the
	// block iff it holds its first unit and the bottom ones iff it holds its last unit
	// (box-decoration-break: slice), its border box closes right after the bottom decoration of its
	// last unit, and no border box ends below the page content box on a page that holds more than
	// its first unit.
	if fl.decorated {
		res.Count("docs_decorated", 1)
		spans := map[string][2]int{} // id -> first and last unit
		items := map[string]*Item{}
		for bi := range fl.blocks {
			b := &fl.blocks[bi]
			spans[b.it.ID] = [2]int{b.start, b.start + b.n - 1}
			items[b.it.ID] = b.it
			if b.parent != nil {
				sp, ok := spans[b.parent.ID]
				if !ok {
					sp = [2]int{b.start, b.start}
				}
				sp[1] = b.start + b.n - 1
				spans[b.parent.ID] = sp
				items[b.parent.ID] = b.parent
			}
		}
		for i, p := range pages {
			top := float64(p.MarginTop.V()) + float64(p.PaddingTop.V()) + float64(p.BorderTopWidth.V())
			bottom := top + float64(p.Height.V())
			// the first unit of a page is placed even when it does not fit (progress guarantee)
			onlyFirst := first[i] >= 0 && last[i] == first[i] && fl.units[first[i]].tot() > float64(p.Height.V())
			onlyFirst = onlyFirst || knownPage[i] // the overflow of that page is already reported
			for _, g := range obs[i].frags {
				it, sp := items[g.id], spans[g.id]
				if it == nil {
					continue
				}
				if g.last < g.first || first[i] < 0 {
					res.Fail("empty-fragment", sprintf("page %d holds a fragment of block %s without any of its lines or blocks", i+1, g.id))
					return res
				}
				u0, u1 := first[i]+g.first, first[i]+g.last
				var wantT, wantB [2]float64 // border, padding
				if u0 == sp[0] {
					wantT = [2]float64{float64(it.BorT), float64(it.PadT)}
				}
				if u1 == sp[1] {
					wantB = [2]float64{float64(it.BorB), float64(it.PadB)}
				}
				// pattern of the open finding F-C12-split-fragment-stale-bottom: only where the content of
				// the next unit of the block would still fit on the page, i.e. the block was laid out
				// further and split afterwards by the search of an earlier break
				stale := false
				if u1 != sp[1] {
					sum := fl.units[u1+1].pre + fl.units[u1+1].h
					for k := first[i]; k <= u1; k++ {
						sum += fl.units[k].tot()
					}
					fit, sure := fl.fits(sum, float64(p.Height.V()))
					stale = fit || !sure
				}
				if stale && it.bottomDeco() > 0 && near(g.bt, wantT[0]) && near(g.pt, wantT[1]) && near(g.bb, float64(it.BorB)) && near(g.pb, float64(it.PadB)) {
					known.Fail("split-fragment-stale-bottom", sprintf("page %d: the fragment of block %s holding units %d..%d (the block is units %d..%d) is not the last one and keeps the bottom padding %g and border %g of the block (box-decoration-break: slice leaves none at a break); known pattern: fragment made by looking for an earlier break after the whole box had been laid out",
						i+1, g.id, u0, u1, sp[0], sp[1], g.pb, g.bb))
					res.Count("known_pattern_fragments", 1)
					continue
				}
				if !near(g.bt, wantT[0]) || !near(g.pt, wantT[1]) || !near(g.bb, wantB[0]) || !near(g.pb, wantB[1]) {
					res.Fail("box-decoration", sprintf("page %d: the fragment of block %s holding units %d..%d (the block is units %d..%d) has border-top %g padding-top %g padding-bottom %g border-bottom %g, expected %g %g %g %g (declared: %d %d %d %d; box-decoration-break: slice)",
						i+1, g.id, u0, u1, sp[0], sp[1], g.bt, g.pt, g.pb, g.bb, wantT[0], wantT[1], wantB[1], wantB[0], it.BorT, it.PadT, it.PadB, it.BorB))
					return res
				}
				if u1 == sp[1] {
					lu := obs[i].units[g.last]
					want := lu.y + lu.h + fl.units[u1].ownPost
					if it.Kind == "box" {
						want = lu.y + lu.h + fl.units[u1].post
					}
					if !near(g.bottom(), want) {
						res.Fail("box-decoration", sprintf("page %d: the border box of block %s ends at y=%g, expected %g (end of its last unit %d plus the bottom padding/border closing there)", i+1, g.id, g.bottom(), want, u1))
						return res
					}
				}
				res.Count("decorated_doc_fragments_checked", 1)
				if !onlyFirst && g.bottom() > bottom && !near(g.bottom(), bottom) && stale {
					known.Fail("split-fragment-stale-bottom", sprintf("page %d: the fragment of block %s holding units %d..%d (the block is units %d..%d) is not the last one and its border box ends at y=%g, below the page content box (bottom %g); known pattern: fragment made by looking for an earlier break after the whole box had been laid out, which keeps the height of the whole box",
						i+1, g.id, u0, u1, sp[0], sp[1], g.bottom(), bottom))
					res.Count("known_pattern_fragments", 1)
					continue
				}
				if !onlyFirst && g.bottom() > bottom && !near(g.bottom(), bottom) {
					res.Fail("box-bottom-overflow", sprintf("page %d: the border box of block %s ends at y=%g, below the page content box (bottom %g), on a page that holds units %d..%d", i+1, g.id, g.bottom(), bottom, first[i], last[i]))
					return res
				}
			}
		}
	}

	// ---- (e) page counters in the margin box
	{
		ambiguous := false
		for i := range pages {
			for _, g := range geoms[i][1:] {
				g0 := geoms[i][0]
				if g.MBox != g0.MBox || g.HasReset != g0.HasReset || g.Reset != g0.Reset || g.HasIncr != g0.HasIncr || g.Incr != g0.Incr {
					ambiguous = true
				}
			}
		}
		if ambiguous {
			res.Count("counter_docs_ambiguous", 1)
		} else {
			// hypothesis A: reset, then the automatic increment still applies (css-lists order);
			// hypothesis B: any explicit manipulation of `page` replaces the automatic increment.
			okA, okB := true, true
			vA, vB := 0, 0
			var witness string
			compared := 0
			for i := range pages {
				g := geoms[i][0]
				if g.HasReset {
					vA, vB = g.Reset, g.Reset
				}
				if g.HasIncr {
					vA += g.Incr
					vB += g.Incr
				} else {
					vA++
					if !g.HasReset {
						vB++
					}
				}
				got, has := obs[i].mboxes["@bottom-center"]
				if g.MBox < 0 {
					if has && strings.TrimSpace(got) != "" {
						res.Fail("margin-box", sprintf("page %d has an @bottom-center box %q although no matching @page rule declares one", i+1, got))
						return res
					}
					continue
				}
				compared++
				tA, tB := mboxText(g.MBox, vA, np), mboxText(g.MBox, vB, np)
				if got != tA {
					okA = false
				}
				if got != tB {
					okB = false
				}
				if (got != tA || got != tB) && witness == "" {
					witness = sprintf("page %d of %d: @bottom-center shows %q, expected %q", i+1, np, got, tA)
					if tB != tA {
						witness += sprintf(" (or %q if counter-reset replaces the automatic increment)", tB)
					}
				}
			}
			if !okA && !okB {
				res.Fail("page-counter", witness)
				return res
			}
			res.Count("margin_box_texts", int64(compared))
			if okA != okB {
				if okA {
					res.Count("counter_reset_then_increment", 1)
				} else {
					res.Count("counter_reset_replaces_increment", 1)
				}
			}
		}
	}

	// ---- evidence
	boundaries := 0
	for i := 0; i < np-1; i++ {
		if !facts[i].Blank {
			boundaries++
		}
	}
	res.Nontrivial = np >= 2 && boundaries >= 1
	if known.Verdict == fw.Violation {
		res.Fail(known.Sig, known.Msg)
	}
	res.Count("kind_"+in.Kind, 1)
	if in.hasUnits() {
		res.Count("docs_page_values_with_units", 1)
	}
	if in.hasDims() {
		res.Count("docs_page_box_dimensions", 1)
	}
	if in.Engine == "gotext" {
		res.Count("engine_gotext", 1)
	}
	return res
}

// float32BottomPattern recognises the open finding F-C12-page-bottom-float32-rounding on a page
// that ended after unit b although more fitted.  /repo stretches the first fragment of a split block
// to the bottom of the page (css-break-3 §5.1): height = pageBottom − y − (top padding/border) in
// float32, and its parent then tests content y + height > pageBottom, a comparison whose fudge
// factor (1+1e-9, PEP 485) is 1 in float32.  When the page bottom is not an integer and the sum
// rounds above pageBottom the fragment is judged to overflow and the whole block goes to the next
// page.  Recognised only when all of this holds: the page bottom is fractional; unit b+1 starts a
// block (the outermost block starting there, or its first child) that would have been split on this
// page (it ends after the last unit hi that fits before a forced break); and the float32 arithmetic
// of blockContainerLayout / inFlowLayout, redone here on the observed position for one of the
// places where the first layout may have cut the block (after unit b+1 … hi), does round above the
// page bottom.
func (f *flow) float32BottomPattern(p *bo.PageBox, op obsPage, s, b, hi int) string {
	if b+1 >= len(f.units) || b < s || b-s >= len(op.units) {
		return ""
	}
	bottom := float32(p.ContentBoxY()) + float32(p.Height.V())
	if float64(bottom) == math.Trunc(float64(bottom)) {
		return ""
	}
	lu := op.units[b-s]
	y := float32(lu.y) + float32(lu.h) + float32(f.units[b].post) // border-box top of what follows unit b
	// z: first unit of the block that is pushed.  It is unit b+1, or a later unit when every break
	// point between unit b and unit z is forbidden by the rules (the block is pushed, the break in
	// front of it is not allowed, and the search of an earlier break lands after unit b).
	for z := b + 1; z <= hi; z++ {
		if z > b+1 {
			if f.conforms(z-1, 0, s, false) {
				break
			}
			pu := f.units[z-1]
			y = y + float32(pu.pre) + float32(pu.h) + float32(pu.post)
		}
		if why := f.float32BottomAt(z, y, bottom, hi); why != "" {
			return why
		}
	}
	return ""
}

// float32BottomAt: see float32BottomPattern; y is the border-box top of the block starting at unit z.
func (f *flow) float32BottomAt(z int, y, bottom float32, hi int) string {
	nu := f.units[z]
	blk := &f.blocks[nu.blk]
	if nu.line != 0 {
		return ""
	}
	type cand struct {
		it  *Item
		y   float32 // border-box top
		end int     // last unit
	}
	var cands []cand
	top := y
	if blk.parent != nil && blk.firstKid {
		end := z
		for k := nu.blk; k < len(f.blocks) && f.blocks[k].parent == blk.parent; k++ {
			end = f.blocks[k].start + f.blocks[k].n - 1
		}
		cands = append(cands, cand{blk.parent, y, end})
		y = y + float32(blk.parent.PadT) + float32(blk.parent.BorT) // content-box top of the box = top of its first child
	}
	cands = append(cands, cand{blk.it, y, blk.start + blk.n - 1})
	for _, c := range cands {
		padT, borT := float32(c.it.PadT), float32(c.it.BorT)
		cby := c.y + padT + borT // ContentBoxY
		inner := 0.0             // content height of the block up to unit k
		for k := z; k <= hi && k < c.end; k++ {
			inner += f.units[k].tot()
			if k == z {
				inner -= float64(c.y-top) + float64(padT+borT) // top decorations counted in pre that are not content of this block
			}
			old := (cby + float32(inner)) - cby // auto height of the first layout
			mh := old + padT + borT             // MarginHeight (bottom decoration removed: slice)
			h := bottom - c.y - (mh - old)
			if h > old && cby+h > bottom {
				return sprintf("known pattern: block %s would start at y=%v and be split on this page (first layout up to unit %d); its first fragment is stretched to the page bottom %v with a content height of %v (float32), content top %v + height = %v is above the page bottom by one rounding step, and the fragment is taken for an overflow", c.it.ID, c.y, k, bottom, h, cby, cby+h)
			}
		}
	}
	return ""
}

func prevEnd(units []obsUnit, k int, top float64) float64 {
	if k == 0 {
		return top
	}
	return units[k-1].y + units[k-1].h
}

func pageOf(last []int, u int) int {
	for i, l := range last {
		if l >= u {
			return i
		}
	}
	return len(last) - 1
}
