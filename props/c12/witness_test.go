package c12

import (
	"encoding/json"
	"fmt"
	"os"
	"testing"
)

// TestWitness writes the hand-minimised witnesses of the genuine defects to findings/C12.
func TestWitness(t *testing.T) {
	dir := os.Getenv("C12_WITNESS_DIR")
	if dir == "" {
		t.Skip()
	}
	base := []Rule{{Origin: "author", Decls: []Decl{{P: "size", V: []int{200, 140}}, {P: "margin", V: []int{20}}}}}
	leaf := func(id string, h int) Item { return Item{Kind: "leaf", ID: id, H: h} }
	write := func(name, msg string, in In) {
		in.Kind, in.FS = "witness", 10
		in.buildDoc(noLegacy)
		res := check(mustJSON(in))
		out := map[string]any{"property": "C12", "msg": msg, "observed": res.Sig + ": " + res.Msg, "input": in}
		b, _ := json.MarshalIndent(out, "", " ")
		if err := os.WriteFile(dir+"/"+name+".json", b, 0o644); err != nil {
			t.Fatal(err)
		}
		fmt.Println(name, "->", res.Verdict, res.Sig, res.Msg)
	}
	// 1. named page followed by unnamed content
	u1 := leaf("u1", 20)
	u1.Page = "a"
	write("named-to-unnamed-no-break", "a block with page:a followed by a sibling without a page name: the used page value changes from 'a' to '' but no page break is forced, and the unnamed content is laid out on the page of type 'a'",
		In{Rules: append(append([]Rule{}, base...), Rule{Origin: "author", Name: "a", Decls: []Decl{{P: "size", V: []int{300, 140}}}}), Items: []Item{leaf("u0", 20), u1, leaf("u2", 20)}})
	// 2. avoid-column hides avoid
	a1 := leaf("u1", 40)
	a1.BA = "avoid-column"
	a2 := leaf("u2", 40)
	a2.BB = "avoid"
	write("avoid-column-hides-avoid", "break-after:avoid-column on a block and break-before:avoid on its next sibling: the page break between them is taken although the earlier break point (after u0) is allowed",
		In{Rules: base, Items: []Item{leaf("u0", 40), a1, a2, leaf("u3", 40)}})
	// 3. column hides page
	c1 := leaf("u1", 20)
	c1.BA = "column"
	c2 := leaf("u2", 20)
	c2.BB = "page"
	write("column-hides-page", "break-after:column on a block and break-before:page on its next sibling: no page break is forced between them",
		In{Rules: base, Items: []Item{leaf("u0", 20), c1, c2, leaf("u3", 20)}})
}

func mustJSON(v any) json.RawMessage {
	b, err := json.Marshal(v)
	if err != nil {
		panic(err)
	}
	return b
}
