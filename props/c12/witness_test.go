package c12

import (
	"encoding/json"
	"fmt"
	"os"
	"testing"
)

// TestWitness writes the hand-minimised witnesses of the genuine defects to findings/C12.
func TestWitness(t *testing.T) {
	dir := os.Getenv("C12_WITNESS_DIR")
	if dir == "" {
		t.Skip()
	}
	base := []Rule{{Origin: "author", Decls: []Decl{{P: "size", V: []int{200, 140}}, {P: "margin", V: []int{20}}}}}
	leaf := func(id string, h int) Item { return Item{Kind: "leaf", ID: id, H: h} }
	write := func(name, msg string, in In) {
		in.Kind, in.FS = "witness", 10
		in.buildDoc(noLegacy)
		res := check(mustJSON(in))
		out := map[string]any{"property": "C12", "msg": msg, "observed": res.Sig + ": " + res.Msg, "input": in}
		b, _ := json.MarshalIndent(out, "", " ")
		if err := os.WriteFile(dir+"/"+name+".json", b, 0o644); err != nil {
			t.Fatal(err)
		}
		fmt.Println(name, "->", res.Verdict, res.Sig, res.Msg)
	}
	// 1. named page followed by unnamed content
	u1 := leaf("u1", 20)
	u1.Page = "a"
	write("named-to-unnamed-no-break", "a block with page:a followed by a sibling without a page name: the used page value changes from 'a' to '' but no page break is forced, and the unnamed content is laid out on the page of type 'a'",
		In{Rules: append(append([]Rule{}, base...), Rule{Origin: "author", Name: "a", Decls: []Decl{{P: "size", V: []int{300, 140}}}}), Items: []Item{leaf("u0", 20), u1, leaf("u2", 20)}})
	// 2. avoid-column hides avoid
	a1 := leaf("u1", 40)
	a1.BA = "avoid-column"
	a2 := leaf("u2", 40)
	a2.BB = "avoid"
	write("avoid-column-hides-avoid", "break-after:avoid-column on a block and break-before:avoid on its next sibling: the page break between them is taken although the earlier break point (after u0) is allowed",
		In{Rules: base, Items: []Item{leaf("u0", 40), a1, a2, leaf("u3", 40)}})
	// 3. column hides page
	c1 := leaf("u1", 20)
	c1.BA = "column"
	c2 := leaf("u2", 20)
	c2.BB = "page"
	write("column-hides-page", "break-after:column on a block and break-before:page on its next sibling: no page break is forced between them",
		In{Rules: base, Items: []Item{leaf("u0", 20), c1, c2, leaf("u3", 20)}})
}

func mustJSON(v any) json.RawMessage {
	b, err := json.Marshal(v)
	if err != nil {
		panic(err)
	}
	return b
}

// TestWitnessDeco writes the hand-minimised witnesses of the open findings about vertical padding and
// borders (C12_WITNESS_DIR=findings/C12).
func TestWitnessDeco(t *testing.T) {
	dir := os.Getenv("C12_WITNESS_DIR")
	if dir == "" {
		t.Skip()
	}
	// pages of content height 104
	base := []Rule{{Origin: "author", Decls: []Decl{{P: "size", V: []int{200, 144}}, {P: "margin", V: []int{20}}}}}
	leaf := func(id string, h int) Item { return Item{Kind: "leaf", ID: id, H: h} }
	para := func(id string) Item { return Item{Kind: "para", ID: id, N: 1, LH: 20} }
	write := func(name, msg string, in In) {
		in.Kind, in.FS = "witness", 10
		in.buildDoc(noLegacy)
		res := check(mustJSON(in))
		out := map[string]any{"property": "C12", "msg": msg, "observed": res.Sig + ": " + res.Msg, "input": in}
		b, _ := json.MarshalIndent(out, "", " ")
		if err := os.WriteFile(dir+"/"+name+".json", b, 0o644); err != nil {
			t.Fatal(err)
		}
		fmt.Println(name, "->", res.Verdict, res.Sig, res.Msg)
	}
	write("first-box-bottom-decoration-overflows", "a box with border-bottom:8px that is the first box of its page and whose five 20px lines fit the 104px page: the border is laid out below the page content box (y 120..128 for a page bottom at 124) although a break is possible between its children",
		In{Rules: base, Items: []Item{{Kind: "box", ID: "u0", BorB: 8, Kids: []Item{para("u1"), para("u2"), para("u3"), para("u4"), para("u5")}}, leaf("u6", 20)}})
	l := leaf("u1", 80)
	l.BorB = 8
	write("fixed-height-block-bottom-decoration-overflows", "a 20px block followed by a block with height:80px and border-bottom:8px on a 104px page: the content of the second block fits (ends at 100), its border box does not (108), and it is kept on the page although a break is possible before it",
		In{Rules: base, Items: []Item{leaf("u0", 20), l, leaf("u2", 20)}})
	k2 := leaf("u2", 40)
	k2.BA = "avoid"
	write("split-fragment-stale-bottom", "a box with padding-bottom:8px holding two 40px blocks, followed by a 40px block that does not fit; break-after:avoid on the last child forbids the break after the box, the break is moved between its two children, and the first fragment keeps the bottom padding (and the height) of the whole box",
		In{Rules: base, Items: []Item{{Kind: "box", ID: "u0", PadB: 8, Kids: []Item{leaf("u1", 40), k2}}, leaf("u3", 40)}})
	write("box-relayout-reduces-space-for-all-children", "a 20px block, then a box with border-bottom:12px holding blocks of 20, 20, 36 and 4px: the content fits the 104px page (100) and the border does not, the box is laid out again with 12px less room for every child, and the 36px child (ending at 96) is pushed to the next page although it fits and the break after it leaves no border on this page",
		In{Rules: base, Items: []Item{leaf("u0", 20), {Kind: "box", ID: "u1", BorB: 12, Kids: []Item{leaf("u2", 20), leaf("u3", 20), leaf("u4", 36), leaf("u5", 4)}}, leaf("u6", 20)}})
}

// TestWitnessFloat32 writes the hand-minimised witness of the open finding about the float32
// rounding of the page bottom (C12_WITNESS_DIR=findings/C12).
func TestWitnessFloat32(t *testing.T) {
	dir := os.Getenv("C12_WITNESS_DIR")
	if dir == "" {
		t.Skip()
	}
	// sheet 276 x 232, margin-top 5% = 11.6px, margin-bottom 10% = 23.2px: content height 197.2, page bottom 208.8
	base := []Rule{{Origin: "author", Decls: []Decl{{P: "size", V: []int{276, 232}}, {P: "margin", V: []int{0, 0, 0, 0}, T: []string{"5%", "20px", "10%", "20px"}}}}}
	leaf := func(id string, h int) Item { return Item{Kind: "leaf", ID: id, H: h} }
	write := func(name, msg string, in In) {
		in.Kind, in.FS = "witness", 10
		in.buildDoc(noLegacy)
		res := check(mustJSON(in))
		out := map[string]any{"property": "C12", "msg": msg, "observed": res.Sig + ": " + res.Msg, "input": in}
		b, _ := json.MarshalIndent(out, "", " ")
		if err := os.WriteFile(dir+"/"+name+".json", b, 0o644); err != nil {
			t.Fatal(err)
		}
		fmt.Println(name, "->", res.Verdict, res.Sig, res.Msg)
	}
	u5 := Item{Kind: "para", ID: "u5", N: 2, LH: 20, BB: "page"}
	write("page-bottom-float32-rounding", "page content box from y=11.6 to y=208.8 (margin-top 5%, margin-bottom 10% of a 232px sheet); a 36px block, then a div holding blocks of 28, 20 and 40px and a paragraph with break-before:page: the three blocks fit after the first one (they end at y=135.6) but the div is moved whole to the second page; the same document with margins of 12px and 23px keeps them on the first page",
		In{Rules: base, Items: []Item{leaf("u0", 36), {Kind: "box", ID: "u1", Kids: []Item{leaf("u2", 28), leaf("u3", 20), leaf("u4", 40), u5}}}})
	if os.Getenv("C12_EXTRA") != "" {
		write("x-natural", "natural split", In{Rules: base, Items: []Item{leaf("u0", 36), {Kind: "para", ID: "u1", N: 12, LH: 20, Orph: 1, Wid: 1}}})
	}
}
