package c12

import (
	"fmt"
	"math/rand"
	"strings"
)

const (
	nOW     = 4 * 4 * 8 * 9 // orphans × widows × paragraph length × room
	nPair   = 10 * 10 * 4   // break-after × break-before × nesting variant
	nDeco   = 8 * 4 * 22    // block arrangement × border/padding split × page height
	nTables = nOW + nPair + nDeco
	nUnit   = 16 * 10 * 3           // margin/padding form × unit × sheet shape; these cases come last (after the random ones)
	nBlank  = 4 * 2 * 2 * 2 * 4 * 6 // side value × pages before × root direction × carrier of the break × page names × @page rule set; after the dim table
	nDim    = 3 * 4 * 5 * 5 * 2     // declared axis × spelling of the dimension × first margin × second margin × sheet; after the unit table
)

func nRandom(tier string) int {
	if tier == "thorough" {
		return 200000
	}
	return 10000
}

var breakVals = []string{"", "avoid", "avoid-page", "avoid-column", "column", "page", "left", "right", "recto", "verso"}

func genCase(r *rand.Rand, i int, tier string) any {
	switch {
	case i < nOW:
		return genOW(i)
	case i < nOW+nPair:
		return genPair(i - nOW)
	case i < nTables:
		return genDeco(i - nOW - nPair)
	case i >= nTables+nRandom(tier)+nUnit+nDim:
		return genBlank(i - nTables - nRandom(tier) - nUnit - nDim)
	case i >= nTables+nRandom(tier)+nUnit:
		return genDim(i - nTables - nRandom(tier) - nUnit)
	case i >= nTables+nRandom(tier):
		return genUnit(i - nTables - nRandom(tier))
	}
	return genRandom(r)
}

func noLegacy() bool { return false }

// genOW: [leaf][paragraph of n lines, orphans o, widows w][leaf] on pages with room for `room`
// lines after the first leaf.
func genOW(i int) In {
	o := i%4 + 1
	w := (i/4)%4 + 1
	n := (i/16)%8 + 1
	room := (i / 128) % 9
	in := In{Kind: "ow-table", FS: 10}
	H := 20 + 20*room
	in.Rules = []Rule{{Origin: "author", Decls: []Decl{{P: "size", V: []int{200, H + 40}}, {P: "margin", V: []int{20}}, {P: "mbox", V: []int{0}}}}}
	in.Items = []Item{
		{Kind: "leaf", ID: "u0", H: 20},
		{Kind: "para", ID: "u1", N: n, LH: 20, Orph: o, Wid: w},
		{Kind: "leaf", ID: "u2", H: 20},
	}
	in.buildDoc(noLegacy)
	return in
}

// genPair: four 40px leaves on pages of 100px; break-after of the second and break-before of the
// third take every pair of values; the boxes carrying them are nested in four ways.
func genPair(j int) In {
	ba := breakVals[j%10]
	bb := breakVals[(j/10)%10]
	variant := j / 100
	in := In{Kind: "pair-table", FS: 10}
	in.Rules = []Rule{{Origin: "author", Decls: []Decl{{P: "size", V: []int{200, 140}}, {P: "margin", V: []int{20}}, {P: "mbox", V: []int{0}}}}}
	leaf := func(id string) Item { return Item{Kind: "leaf", ID: id, H: 40} }
	u0, u1, u2, u3 := leaf("u0"), leaf("u1"), leaf("u2"), leaf("u3")
	switch variant {
	case 0:
		u1.BA, u2.BB = ba, bb
		in.Items = []Item{u0, u1, u2, u3}
	case 1: // break-after on the box whose last child is u1
		u2.BB = bb
		in.Items = []Item{{Kind: "box", ID: "u4", BA: ba, Kids: []Item{u0, u1}}, u2, u3}
	case 2: // break-before on the box whose first child is u2
		u1.BA = ba
		in.Items = []Item{u0, u1, {Kind: "box", ID: "u4", BB: bb, Kids: []Item{u2, u3}}}
	case 3: // values on the inner boxes, both nested
		u1.BA, u2.BB = ba, bb
		in.Items = []Item{{Kind: "box", ID: "u4", Kids: []Item{u0, u1}}, {Kind: "box", ID: "u5", Kids: []Item{u2, u3}}}
	}
	in.buildDoc(noLegacy)
	return in
}

// genDeco: [20px block][X][20px block] where X carries vertical padding and borders, on pages whose
// content height sweeps 40..124px in steps of 4, so that the page bottom falls on every 4px of X:
// before it, in its top decoration, between each pair of its children or lines, in its bottom
// decoration, after it.  X is, by arrangement:
//
//	0 box of three 20px blocks, bottom decoration      4 box of three 20px blocks, top decoration
//	1 box of three one-line paragraphs, bottom         5 paragraph of three lines, top
//	2 box of one three-line paragraph, bottom          6 box (top and bottom) of three paragraphs that have a bottom decoration too
//	3 paragraph of three lines, bottom                 7 fixed-height block of 60px, top and bottom
//
// and the decoration is split between border and padding as (8,0), (0,8), (4,4), (4,8).
func genDeco(j int) In {
	split := [][2]int{{8, 0}, {0, 8}, {4, 4}, {4, 8}}[j%4]
	arr := (j / 4) % 8
	H := 40 + 4*(j/32)
	in := In{Kind: "deco-table", FS: 10}
	in.Rules = []Rule{{Origin: "author", Decls: []Decl{{P: "size", V: []int{200, H + 40}}, {P: "margin", V: []int{20}}, {P: "mbox", V: []int{0}}}}}
	leaf := func(id string, h int) Item { return Item{Kind: "leaf", ID: id, H: h} }
	para := func(id string, n int) Item { return Item{Kind: "para", ID: id, N: n, LH: 20, Orph: 1, Wid: 1} }
	top := func(it *Item) { it.BorT, it.PadT = split[0], split[1] }
	bot := func(it *Item) { it.BorB, it.PadB = split[0], split[1] }
	var x Item
	switch arr {
	case 0, 4:
		x = Item{Kind: "box", ID: "u1", Kids: []Item{leaf("u2", 20), leaf("u3", 20), leaf("u4", 20)}}
	case 1, 6:
		x = Item{Kind: "box", ID: "u1", Kids: []Item{para("u2", 1), para("u3", 1), para("u4", 1)}}
	case 2:
		x = Item{Kind: "box", ID: "u1", Kids: []Item{para("u2", 3)}}
	case 3, 5:
		x = para("u1", 3)
	case 7:
		x = leaf("u1", 60)
	}
	switch arr {
	case 0, 1, 2, 3:
		bot(&x)
	case 4, 5:
		top(&x)
	case 6:
		top(&x)
		bot(&x)
		for k := range x.Kids {
			x.Kids[k].BorB = 4
		}
	case 7:
		top(&x)
		bot(&x)
	}
	x.Sp = (j / 32) % 2
	in.Items = []Item{leaf("u0", 20), x, leaf("u9", 20)}
	in.buildDoc(noLegacy)
	return in
}

// unitToks: four literal values per unit (used in this order by the 1–4 value shorthands).
var unitNames = []string{"px", "pt", "pc", "mm", "cm", "in", "Q", "em", "%", "mix"}

var unitToks = map[string][4]string{
	"px": {"12px", "8px", "20px", "4px"},
	"pt": {"9pt", "6pt", "15pt", "3pt"},
	"pc": {"1.5pc", "0.5pc", "2pc", "1pc"},
	"mm": {"5mm", "3mm", "8mm", "2mm"},
	"cm": {"0.5cm", "0.3cm", "0.8cm", "0.2cm"},
	"in": {"0.25in", "0.125in", "0.375in", "0.0625in"},
	"Q":  {"40Q", "20Q", "30Q", "10Q"},
	"em": {"1.5em", "0.5em", "2em", "1em"},
	"%":  {"10%", "5%", "12.5%", "2.5%"},
}

// genUnit: the value syntax of the page-box margins and paddings.  One declaration — one of the
// eight longhands, or the margin / padding shorthand with 1 to 4 values — written in each length
// unit, in percentages, or mixed (auto margins, percentages next to lengths), after a base rule
// `margin: 20px`, on a portrait, a landscape and a square sheet: percentages of the top and bottom
// sides refer to the sheet height, those of the left and right sides to its width, so the two
// non-square sheets tell the references apart.  Ten 50px blocks make two or three pages.
func genUnit(j int) In {
	form := j % 16
	unit := unitNames[(j/16)%10]
	sheet := [][2]int{{300, 420}, {420, 300}, {360, 360}}[j/160]
	in := In{Kind: "unit-table", FS: 10}
	var d Decl
	prop := "margin"
	if form >= 4 && form < 8 || form >= 12 {
		prop = "padding"
	}
	toks := unitToks[unit]
	if unit == "mix" {
		if prop == "margin" {
			toks = [4]string{"auto", "5%", "1em", "6pt"}
		} else {
			toks = [4]string{"7.5%", "2mm", "10%", "0.5em"}
		}
	}
	if form < 8 {
		d = Decl{P: prop + "-" + sides4[form%4], V: []int{0}, T: []string{toks[0]}}
	} else {
		cnt := (form-8)%4 + 1
		d = Decl{P: prop, V: make([]int, cnt), T: append([]string{}, toks[:cnt]...)}
	}
	in.Rules = []Rule{
		{Origin: "author", Decls: []Decl{{P: "size", V: []int{sheet[0], sheet[1]}}, {P: "margin", V: []int{20}}, {P: "mbox", V: []int{0}}}},
		{Origin: "author", Decls: []Decl{d}},
	}
	for k := 0; k < 10; k++ {
		in.Items = append(in.Items, Item{Kind: "leaf", ID: fmt.Sprintf("u%d", k), H: 50})
	}
	in.buildDoc(noLegacy)
	return in
}

// genDim: width / height of the page box (css-page-3 §5.3).  A second @page rule declares the width,
// the height or both — in px, as a percentage of the sheet, in pt, or `auto` — and the two margins
// of each declared axis (left & right, top & bottom) each as 0, a length, a percentage, `auto`, or not
// at all (the 20px of the base rule), on a portrait and a landscape sheet.  With a declared dimension
// the auto margins take what is left (both: centred; one: the rest), without auto margin the values
// are over-constrained and all used as declared; with an auto dimension auto margins are 0.  Ten 50px
// blocks make three or four pages.
func genDim(j int) In {
	axis := j % 3 // 0 width, 1 height, 2 both
	spell := (j / 3) % 4
	ma := (j / 12) % 5
	mb := (j / 60) % 5
	sheet := [][2]int{{300, 420}, {420, 300}}[j/300]
	in := In{Kind: "dim-table", FS: 10}
	wTok := []string{"160px", "40%", "90pt", "auto"}[spell]
	hTok := []string{"200px", "50%", "120pt", "auto"}[spell]
	mTok := func(k int, vertical bool) (string, bool) {
		switch k {
		case 0:
			return "0", true
		case 1:
			if vertical {
				return "28px", true
			}
			return "12px", true
		case 2:
			return "10%", true
		case 3:
			return "auto", true
		}
		return "", false // not declared: the base rule's 20px
	}
	var ds []Decl
	add := func(prop string, k int, vertical bool) {
		if t, ok := mTok(k, vertical); ok {
			ds = append(ds, Decl{P: prop, V: []int{0}, T: []string{t}})
		}
	}
	if axis != 1 {
		add("margin-left", ma, false)
		add("margin-right", mb, false)
		ds = append(ds, Decl{P: "width", V: []int{0}, T: []string{wTok}})
	}
	if axis != 0 {
		add("margin-top", ma, true)
		add("margin-bottom", mb, true)
		ds = append(ds, Decl{P: "height", V: []int{0}, T: []string{hTok}})
	}
	in.Rules = []Rule{
		{Origin: "author", Decls: []Decl{{P: "size", V: []int{sheet[0], sheet[1]}}, {P: "margin", V: []int{20}}, {P: "padding", V: []int{4, 8}}, {P: "mbox", V: []int{0}}}},
		{Origin: "author", Decls: ds},
	}
	for k := 0; k < 10; k++ {
		in.Items = append(in.Items, Item{Kind: "leaf", ID: fmt.Sprintf("u%d", k), H: 50})
	}
	in.buildDoc(noLegacy)
	return in
}

// genBlank: blank pages × named pages × :blank / :left / :right rules.  One or two pages of 60px
// blocks (one block per page), then a break to a side (left, right, recto, verso; carried by
// break-before of the next block or break-after of the previous one) that needs a blank page in half
// of the cases (the root is ltr or rtl: the first page is a right or a left page), then two more
// blocks.  The blocks before / after the break have the page names (none, a), (b, a), (a, none),
// (a, a); the @page rules give the named pages, the blank pages and the sides visibly different sizes,
// margins, paddings and margin boxes — among them `a:blank`, which no page can match since a blank
// page has no name.
func genBlank(j int) In {
	sv := []string{"left", "right", "recto", "verso"}[j%4]
	nBefore := 1 + (j/4)%2
	rtl := (j/8)%2 == 1
	after := (j/16)%2 == 1
	names := [][2]string{{"", "a"}, {"b", "a"}, {"a", ""}, {"a", "a"}}[(j/32)%4]
	rs := j / 128
	in := In{Kind: "blank-table", FS: 10, RTL: rtl}
	au := func(name string, blank bool, side string, ds ...Decl) Rule {
		return Rule{Origin: "author", Name: name, Blank: blank, Side: side, Decls: ds}
	}
	in.Rules = []Rule{au("", false, "", Decl{P: "size", V: []int{200, 140}}, Decl{P: "margin", V: []int{20}}, Decl{P: "mbox", V: []int{0}})}
	switch rs {
	case 0:
		in.Rules = append(in.Rules, au("a", false, "", Decl{P: "margin", V: []int{8}}, Decl{P: "size", V: []int{240, 140}}))
	case 1:
		in.Rules = append(in.Rules, au("a", false, "", Decl{P: "margin-top", V: []int{4}}), au("", true, "", Decl{P: "margin-left", V: []int{12}}, Decl{P: "mbox", V: []int{1}}))
	case 2:
		in.Rules = append(in.Rules, au("a", false, "left", Decl{P: "margin", V: []int{4}}), au("a", false, "right", Decl{P: "margin", V: []int{12}}), au("b", false, "", Decl{P: "padding", V: []int{4}}))
	case 3:
		in.Rules = append(in.Rules, au("a", true, "", Decl{P: "margin", V: []int{28}}), au("", true, "", Decl{P: "padding-top", V: []int{8}}))
	case 4:
		in.Rules = append(in.Rules, au("a", false, "", Decl{P: "mbox", V: []int{2}}, Decl{P: "padding-top", V: []int{8}}), au("b", false, "", Decl{P: "margin", V: []int{12}}))
	case 5:
		in.Rules = append(in.Rules, au("", true, "", Decl{P: "size", V: []int{160, 140}}), au("a", false, "", Decl{P: "size", V: []int{240, 140}, Imp: true}, Decl{P: "margin-bottom", V: []int{12}}))
	}
	for k := 0; k < nBefore+2; k++ {
		it := Item{Kind: "leaf", ID: fmt.Sprintf("u%d", k), H: 60, Page: names[0]}
		if k >= nBefore {
			it.Page = names[1]
		}
		if k == nBefore && !after {
			it.BB = sv
		}
		if k == nBefore-1 && after {
			it.BA = sv
		}
		in.Items = append(in.Items, it)
	}
	in.buildDoc(noLegacy)
	return in
}

// genDims gives a random document declared page-box dimensions: every @page rule gets, with
// probability 1/2, a `width` and / or a `height` declaration (a length in px on the 8px lattice, a
// percentage of the sheet, or `auto`, which cancels a less specific declaration), and 35% of the margin
// values of the document become `auto`, so that the cascade decides, page by page, which of the
// cases of css-page-3 §5.3 applies (auto dimension, centred, one auto margin, over-constrained).
func genDims(r *rand.Rand, in *In, scale int) {
	for ri := range in.Rules {
		ru := &in.Rules[ri]
		for di := range ru.Decls {
			d := &ru.Decls[di]
			if !strings.HasPrefix(d.P, "margin") {
				continue
			}
			if len(d.T) < len(d.V) {
				d.T = append(d.T, make([]string, len(d.V)-len(d.T))...)
			}
			for q := range d.V {
				if chance(r, 0.35) {
					d.T[q] = "auto"
				}
			}
		}
		if ri > 0 && !chance(r, 0.5) {
			continue
		}
		for _, prop := range []string{"width", "height"} {
			if !chance(r, 0.6) {
				continue
			}
			d := Decl{P: prop, V: []int{0}, Imp: chance(r, 0.15)}
			switch x := r.Float64(); {
			case x < 0.15:
				d.T = []string{"auto"}
			case x < 0.4:
				d.T = []string{pick(r, []string{"40%", "50%", "60%", "75%"})}
			default:
				if prop == "width" {
					d.V[0] = 8 * (11 + r.Intn(12)) * scale // 88..176
				} else {
					d.V[0] = 8 * (8 + r.Intn(16)) * scale // 64..184
				}
			}
			// anywhere among the declarations of the rule
			k := r.Intn(len(ru.Decls) + 1)
			ru.Decls = append(ru.Decls, Decl{})
			copy(ru.Decls[k+1:], ru.Decls[k:])
			ru.Decls[k] = d
		}
	}
}

// genUnits rewrites a part of the @page margin / padding values of a random document in other
// units, in percentages or (margins) as auto, and a part of the sizes in pt / pc (same size).
// Magnitudes stay in the range of the px values (margins up to 32px or 12.5%, paddings up to 12px
// or 5%), so the page content box keeps a positive height.
func genUnits(r *rand.Rand, in *In) {
	marginToks := []string{
		"3pt", "9pt", "12pt", "18pt", "24pt", "0.5pc", "1pc", "2pc", "2mm", "5mm", "8mm", "0.2cm", "0.5cm", "0.8cm",
		"0.125in", "0.25in", "8Q", "20Q", "32Q", "0.5em", "1em", "1.5em", "2em", "auto",
	}
	marginPerc := []string{"2%", "4%", "5%", "8%", "10%", "12.5%"}
	paddingToks := []string{"3pt", "6pt", "9pt", "0.5pc", "0.75pc", "1mm", "2mm", "3mm", "0.1cm", "0.3cm", "0.125in", "4Q", "12Q", "0.25em", "0.5em", "0.75em"}
	paddingPerc := []string{"1%", "2%", "2.5%", "4%", "5%"}
	for ri := range in.Rules {
		for di := range in.Rules[ri].Decls {
			d := &in.Rules[ri].Decls[di]
			switch {
			case d.P == "size":
				if !chance(r, 0.3) {
					continue
				}
				d.T = make([]string, 2)
				for q, v := range d.V {
					if chance(r, 0.5) {
						d.T[q] = fmt.Sprintf("%gpt", float64(v)*0.75)
					} else {
						d.T[q] = fmt.Sprintf("%gpc", float64(v)/16)
					}
				}
			case strings.HasPrefix(d.P, "margin"), strings.HasPrefix(d.P, "padding"):
				toks, perc := marginToks, marginPerc
				if strings.HasPrefix(d.P, "padding") {
					toks, perc = paddingToks, paddingPerc
				}
				d.T = make([]string, len(d.V))
				for q := range d.V {
					switch x := r.Float64(); {
					case x < 0.4:
						d.T[q] = pick(r, perc)
					case x < 0.7:
						d.T[q] = pick(r, toks)
					}
				}
			}
		}
	}
}

// genDecoration gives a block vertical padding and borders on the 4px lattice of the heights.
func genDecoration(r *rand.Rand, it *Item, scale int) {
	v := func() int { return 4 * (1 + r.Intn(3)) * scale }
	switch r.Intn(4) {
	case 0: // bottom only
		if chance(r, 0.7) {
			it.BorB = v()
		}
		if it.BorB == 0 || chance(r, 0.4) {
			it.PadB = v()
		}
	case 1: // top only
		if chance(r, 0.6) {
			it.BorT = v()
		}
		if it.BorT == 0 || chance(r, 0.4) {
			it.PadT = v()
		}
	default:
		for _, f := range []*int{&it.BorT, &it.PadT, &it.PadB, &it.BorB} {
			if chance(r, 0.6) {
				*f = v()
			}
		}
	}
	it.Sp = r.Intn(2)
	if it.Kind == "leaf" {
		// finding F-C12-fixed-height-block-bottom-decoration-overflows (repaired by ad4ef96 for the
		// pattern of table 3) and open finding F-C12-leaf-bottom-decoration-in-random-flows: with
		// bottom padding/border on fixed-height blocks inside random flows, fragments made by
		// findEarlierPageBreak still keep a stale height (split-fragment-stale-bottom) and pages end
		// early (15–22 documents per quick run when this restriction is lifted, 2026-09-27).  Bottom decorations
		// of fixed-height blocks are only generated by the deco table (arrangement 7), where the
		// pattern is recognised; random flows keep the top ones.
		it.PadB, it.BorB = 0, 0
	}
}

func pick[T any](r *rand.Rand, xs []T) T { return xs[r.Intn(len(xs))] }

func chance(r *rand.Rand, p float64) bool { return r.Float64() < p }

// nthForms: text, A, B
var nthForms = []struct {
	txt  string
	a, b int
}{
	{"2", 0, 2}, {"3", 0, 3}, {"1", 0, 1}, {"2n", 2, 0}, {"2n+1", 2, 1}, {"odd", 2, 1}, {"even", 2, 0},
	{"3n+2", 3, 2}, {"n+3", 1, 3}, {"-n+2", -1, 2}, {"3n", 3, 0}, {"2n-1", 2, -1}, {"n", 1, 0},
}

type profile struct {
	scale   int // unit scale: 1 for documents with an explicit page size, 5 for A4 pages
	pForced float64
	pAvoid  float64
	pName   float64
	pOW     float64
	legacy  float64
}

func genBreakVal(r *rand.Rand, p profile) string {
	x := r.Float64()
	switch {
	case x < p.pForced:
		return pick(r, []string{"page", "page", "page", "left", "right", "recto", "verso"})
	case x < p.pForced+p.pAvoid:
		return pick(r, []string{"avoid", "avoid", "avoid", "avoid-page"})
	case x < p.pForced+p.pAvoid+0.03:
		return pick(r, []string{"avoid-column", "column"})
	}
	return ""
}

func genLeafOrPara(r *rand.Rand, p profile, id *int, allowCtr bool) Item {
	it := Item{ID: fmt.Sprintf("u%d", *id)}
	*id++
	if chance(r, 0.4) {
		it.Kind = "leaf"
		it.H = 4 * (1 + r.Intn(15)) * p.scale
		if chance(r, 0.05) {
			it.H = 4 * (30 + r.Intn(60)) * p.scale // often taller than a page
		}
		it.Hid = chance(r, 0.2)
	} else {
		it.Kind = "para"
		it.N = 1 + r.Intn(9)
		it.LH = pick(r, []int{12, 16, 20, 24}) * p.scale
		if chance(r, p.pOW) {
			it.Orph = 1 + r.Intn(4)
		}
		if chance(r, p.pOW) {
			it.Wid = 1 + r.Intn(4)
		}
		if allowCtr && chance(r, 0.04) {
			it.Ctr = true
			it.N = 1
		}
	}
	it.BB = genBreakVal(r, p)
	it.BA = genBreakVal(r, p)
	if chance(r, p.pAvoid) {
		it.BI = pick(r, []string{"avoid", "avoid", "avoid-page", "avoid-column"})
	}
	if chance(r, p.pName) {
		it.Page = pick(r, []string{"a", "b"})
	}
	return it
}

func genRule(r *rand.Rand, origin string, base bool, sized bool) Rule {
	ru := Rule{Origin: origin}
	if !base {
		if chance(r, 0.3) {
			ru.Name = pick(r, []string{"a", "b"})
		}
		if chance(r, 0.25) {
			ru.First = true
		}
		if chance(r, 0.2) {
			ru.Blank = true
		}
		if chance(r, 0.35) {
			ru.Side = pick(r, []string{"left", "right"})
		}
		if chance(r, 0.2) {
			f := pick(r, nthForms)
			ru.Nth = &[2]int{f.a, f.b}
			ru.NthTxt = f.txt
		}
	}
	imp := func() bool { return chance(r, 0.15) }
	m := func() int { return 4 * r.Intn(9) } // 0..32
	nd := 1 + r.Intn(3)
	if base {
		// the base rule always sets every margin (the user-agent 75px margins exceed small pages)
		nd = 1 + r.Intn(3)
		ru.Decls = append(ru.Decls, Decl{P: "margin", V: []int{m(), m(), m(), m()}[:1+r.Intn(4)]})
	}
	for k := 0; k < nd; k++ {
		x := r.Intn(100)
		switch {
		case (base && k == 0 && sized) || (!base && sized && x < 25):
			ru.Decls = append(ru.Decls, Decl{P: "size", V: []int{4 * (50 + r.Intn(40)), 4 * (35 + r.Intn(45))}, Imp: imp()})
		case x < 45:
			cnt := 1 + r.Intn(4)
			v := make([]int, cnt)
			for q := range v {
				v[q] = m()
			}
			ru.Decls = append(ru.Decls, Decl{P: "margin", V: v, Imp: imp()})
		case x < 65:
			ru.Decls = append(ru.Decls, Decl{P: "margin-" + pick(r, sides4[:]), V: []int{m()}, Imp: imp()})
		case x < 72:
			ru.Decls = append(ru.Decls, Decl{P: "padding-" + pick(r, sides4[:]), V: []int{4 * r.Intn(4)}, Imp: imp()})
		case x < 76:
			ru.Decls = append(ru.Decls, Decl{P: "padding", V: []int{4 * r.Intn(3), 4 * r.Intn(3)}, Imp: imp()})
		case x < 90:
			ru.Decls = append(ru.Decls, Decl{P: "mbox", V: []int{r.Intn(len(mboxFormats))}, Imp: imp()})
		case x < 95:
			ru.Decls = append(ru.Decls, Decl{P: "counter-increment", V: []int{pick(r, []int{1, 2, 3, 10})}})
		default:
			ru.Decls = append(ru.Decls, Decl{P: "counter-reset", V: []int{pick(r, []int{0, 1, 5, 40})}})
		}
	}
	return ru
}

func genRandom(r *rand.Rand) In {
	in := In{Kind: "random", FS: 10}
	if chance(r, 0.12) {
		in.Engine = "gotext"
	}
	p := profile{scale: 1}
	switch r.Intn(4) {
	case 0: // plain flows: break positions decided by heights only
		p.pOW = 0.3
	case 1:
		p.pForced, p.pAvoid, p.pName, p.pOW = 0.12, 0.05, 0.08, 0.4
	case 2:
		p.pForced, p.pAvoid, p.pName, p.pOW = 0.04, 0.22, 0.03, 0.6
	default:
		p.pForced, p.pAvoid, p.pName, p.pOW = 0.08, 0.12, 0.1, 0.5
	}
	if chance(r, 0.2) {
		p.legacy = 0.5
	}
	// @page rules
	sized := !chance(r, 0.04) // otherwise A4 pages with the user-agent margins
	if !sized {
		p.scale = 5
		in.FS = 40
	}
	nr := r.Intn(7)
	if sized && nr == 0 {
		nr = 1
	}
	var author, user []Rule
	tiny := sized && chance(r, 0.03)
	if tiny {
		// pages lower than most lines and blocks: every unit overflows its page, which is allowed
		// only because it is the first on the page (progress guarantee)
		nr = 0
		mt, mb := 4*r.Intn(5), 4*r.Intn(5)
		author = append(author, Rule{Origin: "author", Decls: []Decl{
			{P: "margin", V: []int{mt, 4 * r.Intn(5), mb, 4 * r.Intn(5)}},
			{P: "size", V: []int{200, mt + mb + 4*(2+r.Intn(5))}},
		}})
	}
	for k := 0; k < nr; k++ {
		origin := "author"
		if chance(r, 0.2) {
			origin = "user"
		}
		ru := genRule(r, origin, k == 0 && sized, sized)
		if k == 0 && sized {
			ru.Origin = "author"
			origin = "author"
		}
		if origin == "user" {
			user = append(user, ru)
		} else {
			author = append(author, ru)
		}
	}
	if chance(r, 0.7) {
		// a margin box with the counters on most documents
		author = append(author, Rule{Origin: "author", Decls: []Decl{{P: "mbox", V: []int{r.Intn(len(mboxFormats))}}}})
		if chance(r, 0.5) {
			author[0], author[len(author)-1] = author[len(author)-1], author[0]
		}
	}
	in.Rules = append(author, user...)
	if chance(r, 0.15) {
		in.RootBreak = pick(r, []string{"left", "right", "recto", "verso"})
	}
	in.RTL = chance(r, 0.1)

	// flow
	id := 0
	ni := 3 + r.Intn(8)
	if tiny {
		ni = 2 + r.Intn(3)
	}
	for k := 0; k < ni; k++ {
		if chance(r, 0.2) {
			box := Item{Kind: "box", ID: fmt.Sprintf("u%d", id)}
			id++
			nk := 1 + r.Intn(4)
			for q := 0; q < nk; q++ {
				box.Kids = append(box.Kids, genLeafOrPara(r, p, &id, true))
			}
			box.BB = genBreakVal(r, p)
			box.BA = genBreakVal(r, p)
			if chance(r, p.pAvoid) {
				box.BI = pick(r, []string{"avoid", "avoid", "avoid-page", "avoid-column"})
			}
			if chance(r, p.pName) {
				box.Page = pick(r, []string{"a", "b"})
			}
			in.Items = append(in.Items, box)
		} else {
			in.Items = append(in.Items, genLeafOrPara(r, p, &id, true))
		}
	}
	// a forced side on the break-before chain of the first block would propagate to the root
	// (css-break-3 §3.1); keep it out (see notes)
	first := &in.Items[0]
	if isSideValue(first.BB) {
		first.BB = "page"
	}
	if first.Kind == "box" && isSideValue(first.Kids[0].BB) {
		first.Kids[0].BB = "page"
	}
	// vertical padding and borders (drawn last: the flows above are the same with and without)
	if chance(r, 0.35) {
		for k := range in.Items {
			it := &in.Items[k]
			if it.Kind == "box" {
				if chance(r, 0.7) {
					genDecoration(r, it, p.scale)
				}
				for q := range it.Kids {
					if chance(r, 0.25) {
						genDecoration(r, &it.Kids[q], p.scale)
					}
				}
			} else if chance(r, 0.3) {
				genDecoration(r, it, p.scale)
			}
		}
	}
	// values of the @page margins, paddings and sizes in other units and in percentages (drawn after
	// everything else: the other documents are the same with and without)
	in.buildDoc(func() bool { return chance(r, p.legacy) })
	if !tiny && chance(r, 0.3) {
		genUnits(r, &in)
		in.assemble()
	}
	// width / height of the page box and auto margins (drawn last of all, same reason)
	if !tiny && len(in.Rules) > 0 && chance(r, 0.12) {
		genDims(r, &in, p.scale)
		in.assemble()
	}
	return in
}
