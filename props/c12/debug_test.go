package c12

import (
	"encoding/json"
	"fmt"
	"os"
	"testing"

	"verif/internal/wr"
)

// TestDebug prints the unit table and page distribution of a replay / witness file.
func TestDebug(t *testing.T) {
	file := os.Getenv("C12_FILE")
	if file == "" {
		t.Skip()
	}
	raw, _ := os.ReadFile(file)
	var w struct {
		Input json.RawMessage `json:"input"`
	}
	json.Unmarshal(raw, &w)
	if w.Input == nil {
		w.Input = raw
	}
	var in In
	if err := json.Unmarshal(w.Input, &in); err != nil {
		t.Fatal(err)
	}
	fmt.Println(in.HTML)
	fmt.Println("USER:", in.User)
	fl := buildFlow(&in)
	leaf := map[string]bool{}
	for _, b := range fl.blocks {
		if b.it.Kind == "leaf" {
			leaf[b.it.ID] = true
		}
	}
	for k, u := range fl.units {
		b := fl.blocks[u.blk]
		par := ""
		if b.parent != nil {
			par = b.parent.ID
		}
		forced := ""
		if k < len(fl.units)-1 {
			if ok, s := fl.forcedAt(k); ok {
				forced = fmt.Sprintf(" FORCED%v", s)
			}
		}
		c0 := ""
		if k < len(fl.units)-1 {
			c0 = fmt.Sprintf(" conf0=%v conf1=%v", fl.conforms(k, 0, 0, false), fl.conforms(k, 1, 0, false))
		}
		fmt.Printf("unit %2d blk %s(in %s) line %d h=%g name=%q%s%s\n", k, b.it.ID, par, u.line, u.h, b.name, c0, forced)
	}
	r, err := wr.Render(wr.Opts{HTML: in.HTML, UserCSS: []string{in.User}, Engine: in.Engine, NoWrite: true})
	if err != nil {
		t.Fatal(err)
	}
	for i, p := range r.Pages {
		op := observePage(p, leaf)
		fmt.Printf("PAGE %d type=%+v H=%v margins=%v %v %v %v mbox=%v\n", i+1, p.PageType, p.Height, p.MarginTop, p.MarginRight, p.MarginBottom, p.MarginLeft, op.mboxes)
		for _, u := range op.units {
			fmt.Printf("    %s %q y=%g h=%g\n", u.id, u.text, u.y, u.h)
		}
	}
	res := check(w.Input)
	fmt.Printf("VERDICT %s %s %s\n%v\n", res.Verdict, res.Sig, res.Msg, res.Counters)
}
