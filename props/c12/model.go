package c12

import "math"

// Reference model of fragmentation for the restricted flows of this check, written from
// css-break-3 (§3 break-* values and propagation, §4.2 possible break points, §4.3 forced breaks,
// §4.4 unforced-break rules 1–4 and the order in which they are dropped) and css-page-3 (named
// pages).  Shares no code with /repo.

// block is a leaf block of the flow: a fixed-height empty block or a paragraph.
type block struct {
	it        *Item
	parent    *Item // enclosing box item, or nil
	firstKid  bool  // first / last child of parent
	lastKid   bool
	name      string // used value of `page`
	start     int    // index of first unit
	n         int    // number of units (lines), 1 for a leaf
	h         float64
	orph, wid int
}

// unit is the smallest thing pagination moves: a line box or a leaf block.
type unit struct {
	blk  int
	line int // index within the block
	h    float64
	// Vertical box decorations that travel with the unit (box-decoration-break: slice).  css-break-3
	// §4.2 has no break point between the top padding/border of a box and its first child or line,
	// nor between its last child or line and its bottom padding/border (class C break points need a
	// gap between the content edge and the child, and auto heights leave none): pre is the top
	// decoration of every box that starts with this unit (enclosing box first, then the block), post
	// the bottom decoration of every box that ends with it (the block, then the enclosing box).
	pre, post float64
	ownPost   float64 // part of post that belongs to the block itself
	boxPost   float64 // part of post that belongs to the enclosing box
}

// tot is the space the unit takes on a page, decorations included.
func (u unit) tot() float64 { return u.pre + u.h + u.post }

type flow struct {
	blocks []block
	units  []unit
	rtl    bool
	exact  bool // every unit height and page height is an integer number of px
	// some unit carries a top or bottom decoration
	decorated bool
}

func buildFlow(in *In) *flow {
	f := &flow{rtl: in.RTL}
	add := func(it *Item, parent *Item, first, last bool) {
		b := block{it: it, parent: parent, firstKid: first, lastKid: last, start: len(f.units)}
		b.name = it.Page
		if b.name == "" && parent != nil {
			b.name = parent.Page
		}
		if it.Kind == "leaf" {
			b.n, b.h = 1, float64(it.H)
		} else {
			b.n, b.h = it.N, float64(it.LH)
			b.orph, b.wid = it.Orph, it.Wid
			if b.orph == 0 {
				b.orph = 2
			}
			if b.wid == 0 {
				b.wid = 2
			}
		}
		for j := 0; j < b.n; j++ {
			u := unit{blk: len(f.blocks), line: j, h: b.h}
			if j == 0 {
				if parent != nil && first {
					u.pre += float64(parent.topDeco())
				}
				u.pre += float64(it.topDeco())
			}
			if j == b.n-1 {
				u.ownPost = float64(it.bottomDeco())
				if parent != nil && last {
					u.boxPost = float64(parent.bottomDeco())
				}
				u.post = u.ownPost + u.boxPost
			}
			if u.pre+u.post > 0 {
				f.decorated = true
			}
			f.units = append(f.units, u)
		}
		f.blocks = append(f.blocks, b)
	}
	for i := range in.Items {
		it := &in.Items[i]
		if it.Kind == "box" {
			for k := range it.Kids {
				add(&it.Kids[k], it, k == 0, k == len(it.Kids)-1)
			}
		} else {
			add(it, nil, false, false)
		}
	}
	return f
}

func isForcedValue(v string) bool {
	switch v {
	case "page", "left", "right", "recto", "verso":
		return true
	}
	return false
}

func isAvoidValue(v string) bool { return v == "avoid" || v == "avoid-page" }

func isSideValue(v string) bool {
	switch v {
	case "left", "right", "recto", "verso":
		return true
	}
	return false
}

// classA reports whether the break point after unit k lies between two blocks.
func (f *flow) classA(k int) bool { return f.units[k].blk != f.units[k+1].blk }

// meeting returns the break-after values of the boxes that end at the class A break point after
// block a (innermost first) and the break-before values of the boxes that start there (outermost
// first), plus the box that contains the break point (nil at top level).
func (f *flow) meeting(a int) (after, before []string, common *Item) {
	x, y := &f.blocks[a], &f.blocks[a+1]
	if x.parent != nil && x.parent == y.parent {
		return []string{x.it.BA}, []string{y.it.BB}, x.parent
	}
	after = append(after, x.it.BA)
	if x.parent != nil { // then x is the last child of its box
		after = append(after, x.parent.BA)
	}
	if y.parent != nil {
		before = append(before, y.parent.BB)
	}
	before = append(before, y.it.BB)
	return after, before, nil
}

// forcedAt: is the break point after unit k a forced break, and which page sides satisfy it
// (nil = any side).  css-break-3 §4.3: a forced value on any box meeting at the break point forces
// it; among left/right/recto/verso "the value specified on the latest element in the flow wins".
// css-page-3: a change of the used `page` value between adjacent boxes forces a page break.
func (f *flow) forcedAt(k int) (bool, []string) {
	if !f.classA(k) {
		return false, nil
	}
	a := f.units[k].blk
	after, before, _ := f.meeting(a)
	forced := f.blocks[a].name != f.blocks[a+1].name
	var sideVals []string
	for _, v := range after {
		if isForcedValue(v) {
			forced = true
		}
		if isSideValue(v) {
			sideVals = append(sideVals, v)
		}
	}
	var beforeSide string
	for _, v := range before {
		if isForcedValue(v) {
			forced = true
		}
		if isSideValue(v) {
			beforeSide = v // innermost (latest) last
		}
	}
	if !forced {
		return false, nil
	}
	resolve := func(v string) string {
		switch v {
		case "recto":
			if f.rtl {
				return "left"
			}
			return "right"
		case "verso":
			if f.rtl {
				return "right"
			}
			return "left"
		}
		return v
	}
	if beforeSide != "" {
		// boxes that start here are later in the flow than boxes that end here
		return true, []string{resolve(beforeSide)}
	}
	if len(sideVals) == 0 {
		return true, nil
	}
	// only break-after values: which of two nested boxes ending here is "latest" is a matter of
	// reading; accept either when they differ
	set := map[string]bool{}
	for _, v := range sideVals {
		set[resolve(v)] = true
	}
	var out []string
	for _, s := range []string{"left", "right"} {
		if set[s] {
			out = append(out, s)
		}
	}
	return true, out
}

// conforms: may an unforced break be taken after unit k at the given level of rule dropping?
// level 0: rules 1–4; level 1: rule 3 only (1, 2, 4 dropped); level 2: nothing.
// pageStart is the first unit of the page (orphans are counted within the fragment when strict,
// from the start of the block box when !strict: css-break-3 words rule 3 with "the start of the
// enclosing block box" but defines orphans per fragment).
func (f *flow) conforms(k, level, pageStart int, strict bool) bool {
	if level >= 2 {
		return true
	}
	if f.classA(k) {
		if level >= 1 {
			return true
		}
		a := f.units[k].blk
		after, before, common := f.meeting(a)
		for _, v := range append(append([]string{}, after...), before...) {
			if isForcedValue(v) {
				return true
			}
		}
		hasColumn := false
		for _, v := range append(append([]string{}, after...), before...) {
			if v == "column" {
				hasColumn = true
			}
		}
		for _, v := range append(append([]string{}, after...), before...) {
			if isAvoidValue(v) {
				// `column` next to `avoid`: rule 1 allows the break when "at least one of them
				// has a forced break value"; whether a column break value counts in a page
				// context is a matter of reading: accepted when taken, never demanded
				if hasColumn && !strict {
					return true
				}
				return false // rule 1
			}
		}
		if common != nil && isAvoidValue(common.BI) {
			return false // rule 2
		}
		return true
	}
	b := &f.blocks[f.units[k].blk]
	from := b.start
	if strict && pageStart > from {
		from = pageStart
	}
	before := k - from + 1
	after := b.start + b.n - 1 - k
	if before < b.orph || after < b.wid {
		return false // rule 3
	}
	if level >= 1 {
		return true
	}
	if isAvoidValue(b.it.BI) || (b.parent != nil && isAvoidValue(b.parent.BI)) {
		return false // rule 4
	}
	return true
}

// pageVerdict is the outcome of checking one page's end.
type pageVerdict struct {
	sig, msg       string // non-empty sig = violation
	kind           string // end | forced | unforced
	level          int    // rule-dropping level of an unforced boundary
	hi, e          int
	exactFit       bool // the units placed fill the page exactly
	moved          bool // constraints moved the break before the last fitting unit
	looseOK        bool // accepted only under the box-based reading of orphans
	kfInsideAvoid  bool
	firstOverflows bool // the first unit of the page is higher than the page
	deco           bool // some unit of the page carries a top or bottom decoration
	decoStraddle   bool // the content of the unit after the last fitting one fits, its bottom decoration does not
}

// knownOverflow recognises the two overflow patterns of /repo recorded as open findings (see
// notes/C12.md, "Genuine defects"): the page holds units s..b of total height used > H.
//   - a fixed-height block whose content fits and whose own bottom padding/border does not is kept
//     on the page (the second layout with a larger bottomSpace cannot change an empty block);
//   - a box that is the first thing on its page and whose content fits is never laid out again for
//     its bottom padding/border (canBreak is false on an empty page), although it has break points
//     between its children.
//
// Both are only recognised when nothing else is wrong: everything but that bottom decoration fits
// (or is within the undecided zone of fits()).
func (f *flow) knownOverflow(s, b int, used, H float64) (sig, why string) {
	if b == s {
		return "", ""
	}
	ub := f.units[b]
	blk := &f.blocks[ub.blk]
	sameBox := blk.parent != nil && blk.lastKid && ub.boxPost > 0
	if sameBox {
		for k := s; k <= b; k++ {
			if f.blocks[f.units[k].blk].parent != blk.parent {
				sameBox = false
			}
		}
	}
	leafPost := 0.0
	if blk.it.Kind == "leaf" {
		leafPost = ub.ownPost
	}
	if sameBox {
		if fit, sure := f.fits(used-ub.boxPost, H); fit || !sure {
			return "overflow-bottom-decoration-of-first-box", sprintf("known pattern: box %s is the first box of the page, its content fits and its bottom padding/border (%g px) does not", blk.parent.ID, ub.boxPost)
		}
		if leafPost > 0 {
			if fit, sure := f.fits(used-ub.boxPost-leafPost, H); fit || !sure {
				return "overflow-bottom-decoration-of-first-box", sprintf("known pattern: box %s is the first box of the page, its content fits without the bottom padding/border of its last fixed-height child %s (%g px) and its own (%g px)", blk.parent.ID, blk.it.ID, leafPost, ub.boxPost)
			}
		}
	}
	if leafPost > 0 {
		if fit, sure := f.fits(used-leafPost, H); fit || !sure {
			return "overflow-bottom-decoration-of-fixed-height-block", sprintf("known pattern: the content of the fixed-height block %s fits, its own bottom padding/border (%g px) does not", blk.it.ID, leafPost)
		}
	}
	return "", ""
}

// fits decides whether content of total height sum fits a page of content height H.  When every
// height is an integer the comparison is exact (exact fits are in the domain on purpose); with
// fractional heights (A4 pages, the go-text engine's 1/512 px line-height rounding) a sum within
// fitZone of H is undecided: sure=false.
const fitZone = 0.01

func (f *flow) fits(sum, H float64) (fit, sure bool) {
	if f.exact {
		return sum <= H, true
	}
	if math.Abs(sum-H) < fitZone {
		return sum <= H, false
	}
	return sum <= H, true
}

// checkPageEnd decides whether ending a page of content height H after unit b is allowed, the
// page having started with unit s.
func (f *flow) checkPageEnd(s, b int, H float64) pageVerdict {
	v := f.checkPageEndH(s, b, H)
	if v.sig == "early-break" || v.sig == "break-rule-ignored" {
		if x, d := f.reducedSpaceBox(s, H); x != nil {
			if w := f.checkPageEndH(s, b, H-d); w.sig == "" {
				v.sig = "break-decided-in-space-reduced-by-box-bottom-decoration"
				v.msg += sprintf("; known pattern: the content of box %s fits on the page and its bottom padding/border (%g px) does not, the box was laid out again in a space reduced by that amount for all of its children (not only the last one), and the page end is the one the rules give for a content height of %g", x.ID, d, H-d)
			}
		}
	}
	return v
}

// reducedSpaceBox finds the box whose whole content fits on the page starting at unit s while its
// bottom padding/border does not (see notes/C12.md, open finding
// F-C12-box-relayout-reduces-space-for-all-children).  On the current tree a box that is first on
// its page is not laid out again (finding F-C12-first-box-bottom-decoration-overflows, reported as
// an overflow); with the proposed repair of that finding it is, and inherits this pattern.
func (f *flow) reducedSpaceBox(s int, H float64) (*Item, float64) {
	sum := 0.0
	for k := s; k < len(f.units); k++ {
		u := f.units[k]
		sum += u.tot()
		if ok, sure := f.fits(sum-u.boxPost, H); !ok && sure {
			return nil, 0
		}
		if u.boxPost > 0 {
			blk := &f.blocks[u.blk]
			if fit, sure := f.fits(sum, H); !fit && sure {
				return blk.parent, u.boxPost
			}
		}
	}
	return nil, 0
}

func (f *flow) checkPageEndH(s, b int, H float64) pageVerdict {
	n := len(f.units)
	var v pageVerdict
	// e: last unit that surely fits, eMax: last unit that may fit (the first unit of a page is
	// placed even when it does not fit)
	e, eMax := s, s
	sum := f.units[s].tot()
	for k := s + 1; k < n; k++ {
		sum += f.units[k].tot()
		fit, sure := f.fits(sum, H)
		if fit && sure && e == k-1 {
			e = k
		}
		if fit || !sure {
			eMax = k
		} else {
			// the unit after the last fitting one: does its content fit, its bottom decoration
			// (own, or of the box it closes) being the only part below the page bottom?
			if e == k-1 && f.units[k].post > 0 {
				if fit2, sure2 := f.fits(sum-f.units[k].post, H); fit2 && sure2 {
					v.decoStraddle = true
				}
			}
			break
		}
	}
	if fit, sure := f.fits(f.units[s].tot(), H); !fit && sure {
		v.firstOverflows = true
	}
	kf := -1
	for k := s; k < n-1; k++ {
		if ok, _ := f.forcedAt(k); ok {
			kf = k
			break
		}
	}
	if kf >= 0 && kf <= e {
		v.decoStraddle = false // the forced break comes first
	}
	hi, hiMax := e, eMax
	if kf >= 0 && kf < hi {
		hi = kf
	}
	if kf >= 0 && kf < hiMax {
		hiMax = kf
	}
	v.hi, v.e = hi, e
	used := 0.0
	for k := s; k <= b && k < n; k++ {
		used += f.units[k].tot()
		if f.units[k].pre+f.units[k].post > 0 {
			v.deco = true
		}
	}
	v.exactFit = f.exact && used == H
	if b > hiMax {
		if kf >= 0 && b > kf {
			v.sig = "forced-break-missed"
			v.msg = sprintf("page starting at unit %d continues to unit %d although a forced break follows unit %d", s, b, kf)
		} else {
			v.sig = "overflow"
			v.msg = sprintf("page of content height %g starting at unit %d holds units up to %d (total height %g, vertical padding and borders included) although only units up to %d fit and a break is possible after each of them", H, s, b, used, eMax)
			if sig, why := f.knownOverflow(s, b, used, H); sig != "" {
				v.sig = sig
				v.msg += "; " + why
			}
		}
		return v
	}
	if b == n-1 {
		v.kind = "end"
		return v
	}
	if b == kf {
		v.kind = "forced"
		return v
	}
	v.kind = "unforced"
	// A forced break strictly inside a break-inside:avoid box: the property counts the whole box
	// as the unit that must fit, css-break-3 only the part before the forced break; moving the
	// box to the next page first is accepted, so the point is not used to demand a later break.
	kfInsideAvoid := false
	if kf >= 0 {
		_, _, common := f.meeting(f.units[kf].blk)
		kfInsideAvoid = common != nil && isAvoidValue(common.BI)
	}
	v.kfInsideAvoid = kfInsideAvoid
	always := func(k int) bool { return (k == kf && !kfInsideAvoid) || k == n-1 }
	for level := 0; level <= 2; level++ {
		m := -1
		for k := s; k <= hi; k++ {
			if k == kf && kfInsideAvoid && level == 0 {
				continue
			}
			if always(k) || f.conforms(k, level, s, true) {
				m = k
			}
		}
		if m < 0 {
			continue
		}
		v.level = level
		v.moved = m < e
		if level == 0 && b < m {
			v.sig = "early-break"
			v.msg = sprintf("page of content height %g starting at unit %d ends after unit %d (used %g) although units up to %d fit and a break after unit %d satisfies every break rule", H, s, b, used, m, m)
			return v
		}
		if b > hi {
			// only reachable through the undecided zone of fits()
			return v
		}
		if !f.conforms(b, level, s, false) {
			v.sig = "break-rule-ignored"
			v.msg = sprintf("page starting at unit %d ends after unit %d, which violates a break rule (avoid / orphans / widows) of dropping level %d, although a break after unit %d on the same page satisfies all of them", s, b, level, m)
			return v
		}
		v.looseOK = !f.conforms(b, level, s, true)
		return v
	}
	return v
}
