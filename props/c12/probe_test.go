package c12

import (
	"fmt"
	"os"
	"strings"
	"testing"

	bo "github.com/benoitkugler/webrender/html/boxes"
	"github.com/benoitkugler/webrender/html/layout"

	"verif/internal/wr"
)

func dumpBox(b bo.Box, depth int, sb *strings.Builder) {
	f := b.Box()
	id := ""
	if f.Element != nil {
		for _, a := range f.Element.Attr {
			if a.Key == "id" {
				id = "#" + a.Val
			}
		}
	}
	txt := ""
	if t, ok := b.(*bo.TextBox); ok {
		txt = fmt.Sprintf(" %q", t.TextS())
	}
	fmt.Fprintf(sb, "%s%T %s%s"+txt+" x=%v y=%v w=%v h=%v\n", strings.Repeat("  ", depth), b, f.ElementTag(), id, f.PositionX, f.PositionY, f.Width, f.Height)
	for _, c := range f.Children {
		dumpBox(c, depth+1, sb)
	}
}

func TestProbe(t *testing.T) {
	file := os.Getenv("PROBE_HTML")
	if file == "" {
		t.Skip()
	}
	src, _ := os.ReadFile(file)
	layout.VerifPageHook = func(index int, resumeAt string, oof, fn int, page *bo.PageBox) {
		fmt.Printf("HOOK %d resume=%s oof=%d fn=%d page=%p\n", index, resumeAt, oof, fn, page)
	}
	r, err := wr.Render(wr.Opts{HTML: string(src), NoWrite: true, Engine: os.Getenv("PROBE_ENGINE")})
	if err != nil {
		t.Fatal(err)
	}
	for i, p := range r.Pages {
		var sb strings.Builder
		fmt.Fprintf(&sb, "PAGE %d %p type=%+v margins=%v %v %v %v\n", i, p, p.PageType, p.MarginTop, p.MarginRight, p.MarginBottom, p.MarginLeft)
		dumpBox(p, 0, &sb)
		fmt.Print(sb.String())
	}
	fmt.Println("warnings:", r.Warnings)
}
