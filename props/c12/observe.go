package c12

import (
	"fmt"
	"strings"

	bo "github.com/benoitkugler/webrender/html/boxes"
)

func sprintf(f string, a ...any) string { return fmt.Sprintf(f, a...) }

// obsUnit is a line box or leaf block found on a laid-out page.
type obsUnit struct {
	id   string // element id of the owning block
	text string // text of the line ("" for a leaf)
	line bool
	y, h float64
}

type obsPage struct {
	units  []obsUnit
	mboxes map[string]string // at-keyword -> text
}

func elemID(f *bo.BoxFields) string {
	if f.Element == nil {
		return ""
	}
	for _, a := range f.Element.Attr {
		if a.Key == "id" {
			return a.Val
		}
	}
	return ""
}

func boxText(b bo.Box, sb *strings.Builder) {
	if t, ok := b.(*bo.TextBox); ok {
		sb.WriteString(t.TextS())
	}
	for _, c := range b.Box().Children {
		boxText(c, sb)
	}
}

// observePage walks the root box of a page and lists, in tree order, the line boxes of
// paragraphs and the leaf blocks, identified by the element id the generator gave them.
func observePage(p *bo.PageBox, leafIDs map[string]bool) obsPage {
	var op obsPage
	var walk func(b bo.Box, owner string)
	walk = func(b bo.Box, owner string) {
		f := b.Box()
		if _, ok := b.(*bo.LineBox); ok {
			var sb strings.Builder
			boxText(b, &sb)
			op.units = append(op.units, obsUnit{id: owner, text: sb.String(), line: true, y: float64(f.PositionY), h: float64(f.Height.V())})
			return
		}
		id := elemID(f)
		if f.PseudoType != "" {
			id = owner
		}
		if id != "" && leafIDs[id] && f.PseudoType == "" {
			op.units = append(op.units, obsUnit{id: id, y: float64(f.PositionY), h: float64(f.Height.V())})
			return
		}
		if id == "" {
			id = owner
		}
		for _, c := range f.Children {
			walk(c, id)
		}
	}
	for _, c := range p.Children {
		if mb, ok := c.(*bo.MarginBox); ok {
			if op.mboxes == nil {
				op.mboxes = map[string]string{}
			}
			var sb strings.Builder
			boxText(mb, &sb)
			op.mboxes[mb.AtKeyword] += sb.String()
			continue
		}
		if _, ok := c.(*bo.FootnoteAreaBox); ok {
			continue
		}
		walk(c, "")
	}
	return op
}
