package c12

import (
	"fmt"
	"strings"

	bo "github.com/benoitkugler/webrender/html/boxes"
)

func sprintf(f string, a ...any) string { return fmt.Sprintf(f, a...) }

// obsUnit is a line box or leaf block found on a laid-out page.
type obsUnit struct {
	id   string // element id of the owning block
	text string // text of the line ("" for a leaf)
	line bool
	y, h float64
}

// obsFrag is the fragment of a generated block (box, paragraph or fixed-height block) on a page.
type obsFrag struct {
	id             string
	y              float64 // top of the border box (margins are zero)
	bt, pt, pb, bb float64 // used vertical border widths and paddings
	h              float64 // content height
	first, last    int     // range of obsPage.units inside the fragment (last < first: none)
}

func (g obsFrag) bottom() float64 { return g.y + g.bt + g.pt + g.h + g.pb + g.bb }

type obsPage struct {
	units  []obsUnit
	frags  []obsFrag
	mboxes map[string]string // at-keyword -> text
}

func elemID(f *bo.BoxFields) string {
	if f.Element == nil {
		return ""
	}
	for _, a := range f.Element.Attr {
		if a.Key == "id" {
			return a.Val
		}
	}
	return ""
}

func boxText(b bo.Box, sb *strings.Builder) {
	if t, ok := b.(*bo.TextBox); ok {
		sb.WriteString(t.TextS())
	}
	for _, c := range b.Box().Children {
		boxText(c, sb)
	}
}

// observePage walks the root box of a page and lists, in tree order, the line boxes of
// paragraphs and the leaf blocks, identified by the element id the generator gave them.
func observePage(p *bo.PageBox, leafIDs map[string]bool) obsPage {
	var op obsPage
	var walk func(b bo.Box, owner string)
	walk = func(b bo.Box, owner string) {
		f := b.Box()
		if _, ok := b.(*bo.LineBox); ok {
			var sb strings.Builder
			boxText(b, &sb)
			op.units = append(op.units, obsUnit{id: owner, text: sb.String(), line: true, y: float64(f.PositionY), h: float64(f.Height.V())})
			return
		}
		id := elemID(f)
		if f.PseudoType != "" {
			id = owner
		}
		fi := -1
		if _, isBlock := b.(*bo.BlockBox); isBlock && f.PseudoType == "" && strings.HasPrefix(id, "u") {
			fi = len(op.frags)
			op.frags = append(op.frags, obsFrag{
				id: id, y: float64(f.PositionY) + float64(f.MarginTop.V()),
				bt: float64(f.BorderTopWidth.V()), pt: float64(f.PaddingTop.V()),
				pb: float64(f.PaddingBottom.V()), bb: float64(f.BorderBottomWidth.V()),
				h: float64(f.Height.V()), first: len(op.units),
			})
		}
		if id != "" && leafIDs[id] && f.PseudoType == "" {
			// the unit is the content box of the fixed-height block
			op.units = append(op.units, obsUnit{id: id, y: float64(f.PositionY) + float64(f.MarginTop.V()) + float64(f.BorderTopWidth.V()) + float64(f.PaddingTop.V()), h: float64(f.Height.V())})
		} else {
			if id == "" {
				id = owner
			}
			for _, c := range f.Children {
				walk(c, id)
			}
		}
		if fi >= 0 {
			op.frags[fi].last = len(op.units) - 1
		}
	}
	for _, c := range p.Children {
		if mb, ok := c.(*bo.MarginBox); ok {
			if op.mboxes == nil {
				op.mboxes = map[string]string{}
			}
			var sb strings.Builder
			boxText(mb, &sb)
			op.mboxes[mb.AtKeyword] += sb.String()
			continue
		}
		if _, ok := c.(*bo.FootnoteAreaBox); ok {
			continue
		}
		walk(c, "")
	}
	return op
}
