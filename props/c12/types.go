package c12

import (
	"fmt"
	"strings"
)

// In is the self-contained input of one case: the literal document and style sheets handed to
// webrender, plus the generator-side description the oracle needs.
type In struct {
	HTML   string `json:"html"`
	User   string `json:"user,omitempty"` // user-origin style sheet
	Engine string `json:"engine,omitempty"`
	Kind   string `json:"kind"` // "ow-table" | "pair-table" | "deco-table" | "unit-table" | "dim-table" | "blank-table" | "random"

	Rules     []Rule `json:"rules"`                // every @page rule, author sheet first (in order), then user sheet
	RootBreak string `json:"root_break,omitempty"` // break-before of the root element: "", left, right, recto, verso
	RTL       bool   `json:"rtl,omitempty"`        // direction: rtl on the root element
	FS        int    `json:"fs"`                   // font size; every word is 8 glyphs, body width 8*FS
	Items     []Item `json:"items"`

	body string // generator side only: the <body> content made by buildDoc
}

// Item is one block of the flow.
type Item struct {
	Kind string `json:"k"` // leaf | para | box
	ID   string `json:"id"`
	H    int    `json:"h,omitempty"`   // leaf: height in px
	N    int    `json:"n,omitempty"`   // para: number of lines
	LH   int    `json:"lh,omitempty"`  // para: line height in px
	Orph int    `json:"o,omitempty"`   // para: orphans (0 = not declared = 2)
	Wid  int    `json:"w,omitempty"`   // para: widows (0 = not declared = 2)
	Hid  bool   `json:"hid,omitempty"` // leaf: overflow:hidden (monolithic by definition)
	Ctr  bool   `json:"ctr,omitempty"` // para of one line whose text is generated (::before counter(page)/counter(pages))
	BB   string `json:"bb,omitempty"`  // break-before, canonical value ("" = auto)
	BA   string `json:"ba,omitempty"`
	BI   string `json:"bi,omitempty"`
	Page string `json:"pg,omitempty"` // page: <name>
	// vertical box decorations in px (box-decoration-break: slice, the initial value): the top
	// padding/border go with the first fragment of the block, the bottom ones with the last
	PadT int    `json:"dpt,omitempty"`
	PadB int    `json:"dpb,omitempty"`
	BorT int    `json:"dbt,omitempty"`
	BorB int    `json:"dbb,omitempty"`
	Sp   int    `json:"dsp,omitempty"` // spelling of the decoration declarations (0: longhands, 1: shorthands)
	Kids []Item `json:"kids,omitempty"`
}

func (it *Item) topDeco() int    { return it.PadT + it.BorT }
func (it *Item) bottomDeco() int { return it.PadB + it.BorB }
func (it *Item) decorated() bool { return it.topDeco()+it.bottomDeco() > 0 }

// Rule is one @page rule.
type Rule struct {
	Origin string  `json:"origin"` // author | user
	Name   string  `json:"name,omitempty"`
	First  bool    `json:"first,omitempty"`
	Blank  bool    `json:"blank,omitempty"`
	Side   string  `json:"side,omitempty"` // left | right
	Nth    *[2]int `json:"nth,omitempty"`  // An+B
	NthTxt string  `json:"nth_txt,omitempty"`
	Decls  []Decl  `json:"decls"`
}

// Decl is one declaration of a @page rule.  P is one of: size (W,H), margin (1–4 values),
// margin-top/right/bottom/left, padding (1–4), padding-top/…, counter-reset (page N),
// width, height (of the page box: one value, a length, a percentage of the sheet or auto),
// counter-increment (page N), mbox (format id of an @bottom-center content declaration).
// V are px values; for size, margin*, padding*, width and height T may give, value by value, the literal CSS token
// written instead ("" = V[i] px): a number with one of the units px pt pc mm cm in Q em %, or auto
// (margins only).  The reference model parses the token itself (cascade.go: parseTok).
type Decl struct {
	P   string   `json:"p"`
	V   []int    `json:"v"`
	T   []string `json:"t,omitempty"`
	Imp bool     `json:"imp,omitempty"`
}

// hasDims tells whether some @page rule of the document declares the width or height of the page box.
func (in *In) hasDims() bool {
	for _, r := range in.Rules {
		for _, d := range r.Decls {
			if d.P == "width" || d.P == "height" {
				return true
			}
		}
	}
	return false
}

// hasUnits tells whether some @page value of the document is not written in px.
func (in *In) hasUnits() bool {
	for _, r := range in.Rules {
		for _, d := range r.Decls {
			for _, t := range d.T {
				if t != "" {
					return true
				}
			}
		}
	}
	return false
}

// tok returns the literal token of value i.
func (d Decl) tok(i int) string {
	if i < len(d.T) && d.T[i] != "" {
		return d.T[i]
	}
	if d.V[i] == 0 {
		return "0"
	}
	return fmt.Sprintf("%dpx", d.V[i])
}

func (d Decl) valText() string {
	parts := make([]string, len(d.V))
	for i := range d.V {
		parts[i] = d.tok(i)
	}
	return strings.Join(parts, " ")
}

var mboxFormats = []string{
	`counter(page) "/" counter(pages)`,
	`"F" counter(page)`,
	`counter(pages) "-" counter(page)`,
}

func mboxText(format, page, pages int) string {
	switch format {
	case 0:
		return fmt.Sprintf("%d/%d", page, pages)
	case 1:
		return fmt.Sprintf("F%d", page)
	}
	return fmt.Sprintf("%d-%d", pages, page)
}

func (r Rule) selectorText() string {
	s := r.Name
	if r.First {
		s += ":first"
	}
	if r.Blank {
		s += ":blank"
	}
	if r.Side != "" {
		s += ":" + r.Side
	}
	if r.Nth != nil {
		s += ":nth(" + r.NthTxt + ")"
	}
	return s
}

func pxList(v []int) string {
	parts := make([]string, len(v))
	for i, x := range v {
		if x == 0 {
			parts[i] = "0"
		} else {
			parts[i] = fmt.Sprintf("%dpx", x)
		}
	}
	return strings.Join(parts, " ")
}

func (r Rule) cssText() string {
	var sb strings.Builder
	sb.WriteString("@page ")
	sb.WriteString(r.selectorText())
	sb.WriteString(" { ")
	for _, d := range r.Decls {
		imp := ""
		if d.Imp {
			imp = " !important"
		}
		switch d.P {
		case "counter-reset", "counter-increment":
			fmt.Fprintf(&sb, "%s: page %d%s; ", d.P, d.V[0], imp)
		case "mbox":
			fmt.Fprintf(&sb, "@bottom-center { content: %s%s } ", mboxFormats[d.V[0]], imp)
		default:
			fmt.Fprintf(&sb, "%s: %s%s; ", d.P, d.valText(), imp)
		}
	}
	sb.WriteString("}\n")
	return sb.String()
}

// legacy spellings (CSS 2.1 page-break-*) used for a fraction of the declarations
func breakDecl(prop, val string, legacy bool) string {
	if legacy {
		switch val {
		case "page":
			return "page-" + prop + ":always"
		case "left", "right", "avoid":
			return "page-" + prop + ":" + val
		}
	}
	return prop + ":" + val
}

func (it Item) styleText(legacy bool) string {
	var parts []string
	switch it.Kind {
	case "leaf":
		parts = append(parts, fmt.Sprintf("height:%dpx", it.H))
		if it.Hid {
			parts = append(parts, "overflow:hidden")
		}
	case "para":
		parts = append(parts, fmt.Sprintf("line-height:%dpx", it.LH))
		if it.Orph != 0 {
			parts = append(parts, fmt.Sprintf("orphans:%d", it.Orph))
		}
		if it.Wid != 0 {
			parts = append(parts, fmt.Sprintf("widows:%d", it.Wid))
		}
	}
	if it.BB != "" {
		parts = append(parts, breakDecl("break-before", it.BB, legacy))
	}
	if it.BA != "" {
		parts = append(parts, breakDecl("break-after", it.BA, legacy))
	}
	if it.BI != "" {
		parts = append(parts, breakDecl("break-inside", it.BI, legacy))
	}
	if it.Page != "" {
		parts = append(parts, "page:"+it.Page)
	}
	if it.decorated() {
		if it.Sp == 1 {
			if it.PadT+it.PadB > 0 {
				parts = append(parts, fmt.Sprintf("padding:%s", pxList([]int{it.PadT, 0, it.PadB})))
			}
			if it.BorT+it.BorB > 0 {
				parts = append(parts, "border-style:solid", fmt.Sprintf("border-width:%s", pxList([]int{it.BorT, 0, it.BorB})))
			}
		} else {
			if it.PadT > 0 {
				parts = append(parts, fmt.Sprintf("padding-top:%dpx", it.PadT))
			}
			if it.BorT > 0 {
				parts = append(parts, fmt.Sprintf("border-top:%dpx solid", it.BorT))
			}
			if it.PadB > 0 {
				parts = append(parts, fmt.Sprintf("padding-bottom:%dpx", it.PadB))
			}
			if it.BorB > 0 {
				parts = append(parts, fmt.Sprintf("border-bottom:%dpx solid", it.BorB))
			}
		}
	}
	return strings.Join(parts, ";")
}

func wordOf(para, line int) string { return fmt.Sprintf("p%02dl%02dxx", para%100, line%100) }

func idNum(id string) int {
	n := 0
	fmt.Sscanf(id, "u%d", &n)
	return n
}

func (it Item) htmlText(sb *strings.Builder, legacy func() bool) {
	st := it.styleText(legacy())
	switch it.Kind {
	case "leaf":
		fmt.Fprintf(sb, "<div id=%s style=\"%s\"></div>\n", it.ID, st)
	case "para":
		if it.Ctr {
			fmt.Fprintf(sb, "<p id=%s class=ctr style=\"%s\"></p>\n", it.ID, st)
			return
		}
		words := make([]string, it.N)
		for j := range words {
			words[j] = wordOf(idNum(it.ID), j)
		}
		fmt.Fprintf(sb, "<p id=%s style=\"%s\">%s</p>\n", it.ID, st, strings.Join(words, " "))
	case "box":
		fmt.Fprintf(sb, "<div id=%s style=\"%s\">\n", it.ID, st)
		for _, k := range it.Kids {
			k.htmlText(sb, legacy)
		}
		sb.WriteString("</div>\n")
	}
}

// buildDoc renders the literal document and user sheet from the description.
func (in *In) buildDoc(legacy func() bool) {
	var sb strings.Builder
	for _, it := range in.Items {
		it.htmlText(&sb, legacy)
	}
	in.body = sb.String()
	in.assemble()
}

// assemble writes the style sheets (from Rules) around the body made by buildDoc.
func (in *In) assemble() {
	var author, user strings.Builder
	for _, r := range in.Rules {
		if r.Origin == "user" {
			user.WriteString(r.cssText())
		} else {
			author.WriteString(r.cssText())
		}
	}
	var sb strings.Builder
	rootStyle := ""
	if in.RootBreak != "" {
		rootStyle += "break-before:" + in.RootBreak + ";"
	}
	if in.RTL {
		rootStyle += "direction:rtl;"
	}
	if rootStyle != "" {
		fmt.Fprintf(&sb, "<html style=\"%s\">", rootStyle)
	} else {
		sb.WriteString("<html>")
	}
	sb.WriteString("<head><style>\n")
	sb.WriteString(author.String())
	fmt.Fprintf(&sb, "html, body { margin: 0; padding: 0 }\nbody { direction: ltr; width: %dpx; font: %dpx/%dpx Ahem }\n", 8*in.FS, in.FS, 2*in.FS)
	sb.WriteString("div, p { margin: 0; padding: 0; border: 0 }\n")
	sb.WriteString("p.ctr::before { content: counter(page) \"of\" counter(pages) }\n")
	sb.WriteString("</style></head><body>\n")
	sb.WriteString(in.body)
	sb.WriteString("</body></html>\n")
	in.HTML = sb.String()
	in.User = user.String()
}
