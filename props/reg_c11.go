//go:build pC11 || pall

package props

import _ "verif/props/c11"
