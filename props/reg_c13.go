//go:build pC13 || pall

package props

import _ "verif/props/c13"
