package c13

import (
	"encoding/json"
	"fmt"
	"math/rand"
	"os"
	"strconv"
	"testing"

	"verif/internal/fw"
)

// TestMinimize is a development aid (greedy reduction of a failing generated case):
//
//	C13_MIN=<case index> [VERIF_SEED=n] [C13_SIG=sig] go test -tags verif -run TestMinimize -v ./props/c13
//	C13_MINFILE=<json input file> ...
func TestMinimize(t *testing.T) {
	var c caseIn
	if f := os.Getenv("C13_MINFILE"); f != "" {
		raw, err := os.ReadFile(f)
		if err != nil {
			t.Fatal(err)
		}
		var w struct {
			Input caseIn `json:"input"`
		}
		if json.Unmarshal(raw, &w) == nil && w.Input.HTML != "" {
			c = w.Input
		} else if err := json.Unmarshal(raw, &c); err != nil {
			t.Fatal(err)
		}
	} else {
		s := os.Getenv("C13_MIN")
		if s == "" {
			t.Skip("no C13_MIN")
		}
		idx, _ := strconv.Atoi(s)
		seed := int64(1)
		if v, err := strconv.ParseInt(os.Getenv("VERIF_SEED"), 10, 64); err == nil {
			seed = v
		}
		tier := os.Getenv("VERIF_TIER")
		if tier == "" {
			tier = "quick"
		}
		c = genCase(fw.CaseRNG(seed, "C13", idx), idx, tier)
	}
	run := func(c *caseIn) fw.Result {
		finalize(c)
		raw, _ := json.Marshal(c)
		return fw.SafeCheck(fw.Get("C13"), raw)
	}
	res := run(&c)
	if res.Verdict != fw.Violation {
		t.Fatalf("case does not fail: %s", res.Verdict)
	}
	sig := res.Sig
	if s := os.Getenv("C13_SIG"); s != "" {
		sig = s
	}
	fmt.Println("minimising for sig", sig)
	for changed := true; changed; {
		changed = false
		for k := 0; ; k++ {
			cand := cloneCase(&c)
			ok, more := applyReduction(cand, k)
			if !more {
				break
			}
			if !ok {
				continue
			}
			if os.Getenv("C13_MINFREE") == "" && !withinRestrictions(cand) {
				continue
			}
			r := run(cand)
			if r.Verdict == fw.Violation && r.Sig == sig {
				c = *cand
				changed = true
				k-- // the list shifted; retry the same index
			}
		}
	}
	res = run(&c)
	raw, _ := json.Marshal(&c)
	fmt.Printf("RESULT sig=%s\n%s\nHTML:\n%s\nJSON:\n%s\n", res.Sig, res.Msg, c.HTML, raw)
	if out := os.Getenv("C13_MINOUT"); out != "" {
		w, _ := json.MarshalIndent(map[string]any{"property": "C13", "msg": res.Msg, "input": &c}, "", " ")
		os.WriteFile(out, w, 0o644)
	}
}

// withinRestrictions reports whether the generator's restrictions (restrict.go) leave the case
// unchanged, i.e. whether the case is still inside the generated domain.
func withinRestrictions(c *caseIn) bool {
	before, _ := json.Marshal(c)
	cc := cloneCase(c)
	g := &genState{r: rand.New(rand.NewSource(1)), next: 100000, paged: c.Paged, opt: defaultOpts()}
	var rec func(t *tableSpec)
	rec = func(t *tableSpec) {
		for _, gs := range t.Groups {
			for _, rs := range gs.Rows {
				for _, cl := range rs.Cells {
					if cl.Nested != nil {
						rec(cl.Nested)
					}
				}
			}
		}
		g.restrict(t)
	}
	for _, t := range cc.Tables {
		rec(t)
	}
	after, _ := json.Marshal(cc)
	return string(before) == string(after)
}

func cloneCase(c *caseIn) *caseIn {
	raw, _ := json.Marshal(c)
	var out caseIn
	json.Unmarshal(raw, &out)
	return &out
}

// applyReduction applies the k-th candidate simplification.  ok=false: it was a no-op;
// more=false: k is past the end of the list.
func applyReduction(c *caseIn, k int) (ok, more bool) {
	var ops []func() bool
	add := func(f func() bool) { ops = append(ops, f) }
	for i := range c.Tables {
		i := i
		add(func() bool {
			if len(c.Tables) < 2 {
				return false
			}
			c.Tables = append(c.Tables[:i:i], c.Tables[i+1:]...)
			return true
		})
	}
	add(func() bool { was := c.Paged; c.Paged = false; c.PageH = 30000; return was })
	add(func() bool { was := c.BodyW; c.BodyW = 1000; return was != 1000 })
	var tableOps func(t *tableSpec)
	tableOps = func(t *tableSpec) {
		add(func() bool { was := t.Before; t.Before = ""; return was != "" })
		add(func() bool { was := t.Caption; t.Caption = ""; return was != "" })
		add(func() bool { was := len(t.Cols); t.Cols = nil; return was > 0 })
		for i := range t.Cols {
			i := i
			add(func() bool {
				if i >= len(t.Cols) {
					return false
				}
				t.Cols = append(t.Cols[:i:i], t.Cols[i+1:]...)
				return true
			})
			add(func() bool {
				if i >= len(t.Cols) || t.Cols[i].Width == "" {
					return false
				}
				t.Cols[i].Width = ""
				return true
			})
		}
		add(func() bool { was := t.Border; t.Border = ""; return was != "" })
		add(func() bool { was := t.Padding; t.Padding = ""; return was != "" })
		add(func() bool { was := t.Margin; t.Margin = ""; return was != "" })
		add(func() bool { was := t.HPx; t.HPx = 0; return was != 0 })
		add(func() bool { was := t.WKind; t.WKind = "auto"; t.WVal = 0; return was != "auto" })
		add(func() bool { was := t.Layout; t.Layout = "auto"; return was != "auto" })
		add(func() bool { was := t.Collapse; t.Collapse = false; return was })
		add(func() bool { was := t.SX; t.SX = 0; return was != 0 })
		add(func() bool { was := t.SY; t.SY = 0; return was != 0 })
		add(func() bool { was := t.Dir; t.Dir = "ltr"; return was != "ltr" })
		add(func() bool { was := t.BoxSizing; t.BoxSizing = "content-box"; return was != "content-box" })
		add(func() bool { was := t.Font; t.Font = 10; return was != 10 })
		for gi := range t.Groups {
			gi := gi
			add(func() bool {
				if len(t.Groups) < 2 || gi >= len(t.Groups) {
					return false
				}
				t.Groups = append(t.Groups[:gi:gi], t.Groups[gi+1:]...)
				return true
			})
			g := t.Groups[gi]
			add(func() bool { was := g.Kind; g.Kind = "tbody"; return was != "tbody" })
			for ri := range g.Rows {
				ri := ri
				add(func() bool {
					if len(g.Rows) < 2 || ri >= len(g.Rows) {
						return false
					}
					g.Rows = append(g.Rows[:ri:ri], g.Rows[ri+1:]...)
					return true
				})
				r := g.Rows[ri]
				add(func() bool { was := r.Height; r.Height = 0; return was != 0 })
				add(func() bool { was := r.Avoid; r.Avoid = false; return was })
				for ci := range r.Cells {
					ci := ci
					add(func() bool {
						if ci >= len(r.Cells) {
							return false
						}
						r.Cells = append(r.Cells[:ci:ci], r.Cells[ci+1:]...)
						return true
					})
					cl := r.Cells[ci]
					add(func() bool { was := cl.Colspan; cl.Colspan = ""; return was != "" })
					add(func() bool { was := cl.Rowspan; cl.Rowspan = ""; return was != "" })
					add(func() bool { was := cl.Padding; cl.Padding = "0"; return was != "0" })
					add(func() bool { was := cl.Border; cl.Border = ""; return was != "" })
					add(func() bool { was := cl.Width; cl.Width = ""; return was != "" })
					add(func() bool { was := cl.Height; cl.Height = 0; return was != 0 })
					add(func() bool { was := cl.VAlign; cl.VAlign = ""; return was != "" })
					add(func() bool { was := cl.NoWrap; cl.NoWrap = false; return was })
					add(func() bool {
						if cl.Kind == "empty" {
							return false
						}
						cl.Kind, cl.Nested, cl.Text, cl.Text2 = "empty", nil, "", ""
						return true
					})
					add(func() bool {
						if cl.Kind == "words" && cl.Text == "x" || cl.Kind == "empty" {
							return false
						}
						cl.Kind, cl.Nested, cl.Text, cl.Text2 = "words", nil, "x", ""
						return true
					})
					add(func() bool {
						if cl.Kind == "words" || cl.Kind == "empty" || cl.Kind == "table" {
							return false
						}
						cl.Kind, cl.Text2 = "words", ""
						return true
					})
					if cl.Nested != nil {
						tableOps(cl.Nested)
					}
				}
			}
		}
	}
	for _, t := range c.Tables {
		tableOps(t)
	}
	if k >= len(ops) {
		return false, false
	}
	return ops[k](), true
}

// TestWitness is a development aid: C13_SPEC=<json description without html> C13_OUT=<finding file>
// finalizes the description (HTML, derived fields), runs the check and writes a finding file.
func TestWitness(t *testing.T) {
	f := os.Getenv("C13_SPEC")
	if f == "" {
		t.Skip("no C13_SPEC")
	}
	raw, err := os.ReadFile(f)
	if err != nil {
		t.Fatal(err)
	}
	var c caseIn
	if err := json.Unmarshal(raw, &c); err != nil {
		t.Fatal(err)
	}
	if c.PageH == 0 {
		c.PageH = 30000
	}
	if c.BodyW == 0 {
		c.BodyW = 1000
	}
	var fill func(tb *tableSpec)
	fill = func(tb *tableSpec) {
		if tb.Font == 0 {
			tb.Font = 10
		}
		if tb.Layout == "" {
			tb.Layout = "auto"
		}
		if tb.Dir == "" {
			tb.Dir = "ltr"
		}
		if tb.WKind == "" {
			tb.WKind = "auto"
		}
		if tb.BoxSizing == "" {
			tb.BoxSizing = "content-box"
		}
		for _, g := range tb.Groups {
			if g.Kind == "" {
				g.Kind = "tbody"
			}
			for _, r := range g.Rows {
				for _, cl := range r.Cells {
					if cl.Kind == "" {
						cl.Kind = "empty"
						if cl.Text != "" {
							cl.Kind = "words"
						}
						if cl.Nested != nil {
							cl.Kind = "table"
						}
					}
					if cl.Padding == "" {
						cl.Padding = "0"
					}
					if cl.Nested != nil {
						cl.Nested.Nested = true
						fill(cl.Nested)
					}
				}
			}
		}
	}
	for _, tb := range c.Tables {
		fill(tb)
	}
	finalize(&c)
	in, _ := json.Marshal(&c)
	res := fw.SafeCheck(fw.Get("C13"), in)
	fmt.Printf("verdict=%s sig=%s\n%s\nwithin generator restrictions: %v\n%s\n", res.Verdict, res.Sig, res.Msg, withinRestrictions(&c), c.HTML)
	if out := os.Getenv("C13_OUT"); out != "" && res.Verdict == fw.Violation {
		w, _ := json.MarshalIndent(map[string]any{"property": "C13", "sig": res.Sig, "msg": res.Msg, "input": &c}, "", " ")
		os.WriteFile(out, w, 0o644)
	}
}
