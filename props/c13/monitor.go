package c13

import (
	"fmt"
	"math"

	pr "github.com/benoitkugler/webrender/css/properties"
	bo "github.com/benoitkugler/webrender/html/boxes"

	"verif/internal/fw"
)

// The grid monitor: purely relational checks over every laid-out table fragment.

func near(a, b float64) bool {
	return math.Abs(a-b) <= 0.02+1e-4*math.Max(math.Abs(a), math.Abs(b))
}

// geq reports a >= b within tolerance.
func geq(a, b float64) bool { return a >= b || near(a, b) }

func mf(v pr.MaybeFloat) (float64, bool) {
	if v == nil {
		return 0, false
	}
	f, ok := v.(pr.Float)
	if !ok {
		return 0, false
	}
	x := float64(f)
	if math.IsNaN(x) || math.IsInf(x, 0) {
		return x, false
	}
	return x, true
}

func elemID(b *bo.BoxFields) string {
	if b.Element == nil {
		return ""
	}
	for _, a := range b.Element.Attr {
		if a.Key == "id" {
			return a.Val
		}
	}
	return ""
}

type monitor struct {
	res   *fw.Result
	in    *caseIn
	specs map[string]*tableSpec
	refs  map[string]*refGrid
	frags map[string]int // fragments seen per table id
	// first violation context
	page int
}

func newMonitor(in *caseIn, res *fw.Result) *monitor {
	m := &monitor{res: res, in: in, specs: map[string]*tableSpec{}, refs: map[string]*refGrid{}, frags: map[string]int{}}
	var add func(t *tableSpec)
	add = func(t *tableSpec) {
		m.specs[t.ID] = t
		m.refs[t.ID] = buildRef(t)
		for _, g := range t.Groups {
			for _, r := range g.Rows {
				for _, c := range r.Cells {
					if c.Nested != nil {
						add(c.Nested)
					}
				}
			}
		}
	}
	for _, t := range in.Tables {
		add(t)
	}
	return m
}

func (m *monitor) fail(sig, format string, a ...any) {
	m.res.Fail(sig, fmt.Sprintf("page %d: ", m.page)+fmt.Sprintf(format, a...))
}

// walk visits a box tree; cb is the width of the nearest block container's content box.
func (m *monitor) walk(b bo.Box, cb float64, cbKnown bool) {
	f := b.Box()
	if tb, ok := b.(bo.TableBoxITF); ok {
		id := elemID(f)
		if spec := m.specs[id]; spec != nil {
			m.fragment(tb.Table(), spec, cb, cbKnown)
		}
	}
	// containing block for children
	ncb, nk := cb, cbKnown
	if f.IsTableWrapper {
		// keep the wrapper's containing block for the table inside
	} else if bo.BlockContainerT.IsInstance(b) || bo.TableCellT.IsInstance(b) {
		if w, ok := mf(f.Width); ok {
			ncb, nk = w, true
		} else {
			nk = false
		}
	}
	for _, ch := range f.Children {
		m.walk(ch, ncb, nk)
	}
}

type obsCell struct {
	id   string
	spec *cellSpec
	s    *slot
	f    *bo.BoxFields
	l, r float64 // border box
	t, b float64
	cut  bool // last spanned row is not in this fragment
}

func (m *monitor) fragment(tb *bo.TableBox, spec *tableSpec, cb float64, cbKnown bool) {
	res := m.res
	ref := m.refs[spec.ID]
	fragNo := m.frags[spec.ID]
	m.frags[spec.ID]++
	res.Count("fragments", 1)
	if fragNo == 1 {
		res.Count("tables_fragmented", 1)
	}
	T := "table " + spec.ID
	sx, sy := spec.SX, spec.SY
	if spec.Collapse {
		sx, sy = 0, 0
	}
	rtl := spec.Dir == "rtl"
	fixed := fixedApplies(spec)

	// ---- tracks -------------------------------------------------------------------------
	n := len(tb.ColumnWidths)
	if len(tb.ColumnPositions) != n {
		m.fail("column-arrays", "%s: %d column widths but %d column positions", T, n, len(tb.ColumnPositions))
		return
	}
	w := make([]float64, n)
	pos := make([]float64, n)
	for i := range w {
		w[i] = float64(tb.ColumnWidths[i])
		pos[i] = float64(tb.ColumnPositions[i])
		if math.IsNaN(w[i]) || math.IsInf(w[i], 0) || math.IsNaN(pos[i]) {
			m.fail("column-nan", "%s: column %d has width %v position %v", T, i, w[i], pos[i])
			return
		}
		if w[i] < 0 && !near(w[i], 0) {
			m.fail("negative-column", "%s: column %d has negative used width %v (widths %v)", T, i, w[i], w)
			return
		}
	}
	tw, ok := mf(tb.Width)
	if !ok {
		m.fail("table-width-unresolved", "%s: used width is %v", T, tb.Width)
		return
	}
	th, ok := mf(tb.Height)
	if !ok {
		m.fail("table-height-unresolved", "%s: used height is %v", T, tb.Height)
		return
	}
	if tw < 0 && !near(tw, 0) || th < 0 && !near(th, 0) {
		m.fail("negative-table", "%s: used width %v height %v", T, tw, th)
		return
	}
	cx := float64(tb.ContentBoxX())
	cy := float64(tb.ContentBoxY())
	if n > 0 {
		// adjacent columns are border-spacing apart, the first/last one is border-spacing away
		// from the table's content edge, and together they fill the used width.
		if !rtl {
			exp := cx + sx
			for i := 0; i < n; i++ {
				if !near(pos[i], exp) {
					m.fail("column-position", "%s: column %d starts at %v, expected %v (content x %v, spacing %v, widths %v, positions %v)", T, i, pos[i], exp, cx, sx, w, pos)
					return
				}
				exp += w[i] + sx
			}
			if !near(exp, cx+tw) {
				m.fail("columns-fill", "%s: columns plus spacing end at %v but the table content box ends at %v (used width %v, spacing %v, widths %v)", T, exp, cx+tw, tw, sx, w)
				return
			}
		} else {
			exp := cx + tw - sx
			for i := 0; i < n; i++ {
				if !near(pos[i]+w[i], exp) {
					m.fail("column-position", "%s (rtl): column %d ends at %v, expected %v (widths %v, positions %v)", T, i, pos[i]+w[i], exp, w, pos)
					return
				}
				exp -= w[i] + sx
			}
			if !near(exp, cx) {
				m.fail("columns-fill", "%s (rtl): columns plus spacing start at %v but the table content box starts at %v (used width %v, spacing %v, widths %v)", T, exp, cx, tw, sx, w)
				return
			}
		}
		res.Count("columns", int64(n))
		res.Count("eq_columns_fill", 1)
		// evidence for the "every column constrained" family (constrained.go): automatic layout,
		// px table width, every column with a px width of its own and no percentage anywhere.
		// "surplus": the width to assign to the columns provably exceeds the sum of their
		// max-content widths (so the distribution of a surplus that no column may absorb by the
		// regular rules was exercised);
		// "empty_origin": at least one of the columns has no originating cell.
		if !fixed && spec.WKind == "px" && n == ref.NCols {
			if all, declared := allPxConstrained(spec, ref, n); all {
				res.Count("fragments_all_constrained", 1)
				// upper bound of the sum of the columns' max-content widths, from the description
				bound, known := maxContentUpper(spec, ref, declared)
				surplus := known && tw-float64(n+1)*sx > bound+0.05
				empty := emptyOriginColumns(ref, n) > 0
				if surplus {
					res.Count("all_constrained_surplus", 1)
				}
				if empty {
					res.Count("all_constrained_empty_origin", 1)
				}
				if surplus && empty {
					res.Count("all_constrained_surplus_empty_origin", 1)
				}
			}
		}
		// evidence for the "percentage columns next to length columns" family (mixed.go):
		// automatic layout, px or auto table width, every column sized, at least one by a
		// percentage and at least one by a px width.
		// "surplus" (px table width): the width to assign provably exceeds what the columns ask
		// for (percentage shares of that width, max-content widths of the length columns and of
		// the spanning cells), so a surplus had to be placed although no column is unsized;
		// "pct_below_share" (observed, no floor): a percentage column ended narrower than its
		// percentage of the assigned width, i.e. the percentages gave way to the lengths.
		if !fixed && spec.WKind != "pct" && n == ref.NCols {
			decls := columnDecls(spec, ref, n)
			if mixed, _, _ := mixedShape(decls); mixed {
				if spec.WKind == "auto" {
					res.Count("fragments_mixed_constrained_auto_width", 1)
				} else {
					res.Count("fragments_mixed_constrained", 1)
					assignable := tw - float64(n+1)*sx
					bound, known := mixedMaxContentUpper(spec, ref, decls, assignable)
					if known && assignable > bound+0.05 {
						res.Count("mixed_constrained_surplus", 1)
						if emptyOriginColumns(ref, n) > 0 {
							res.Count("mixed_constrained_surplus_empty_origin", 1)
						}
						if ref.NCols >= 3 {
							res.Count("mixed_constrained_surplus_3plus_columns", 1)
						}
					}
					for i, d := range decls {
						if d.eff > 0 && w[i] < d.eff/100*assignable-0.5 {
							res.Count("mixed_constrained_pct_below_share", 1)
							break
						}
					}
				}
			}
		}
	}

	// ---- specified width ----------------------------------------------------------------
	if spec.WKind != "auto" {
		want, known := spec.WVal, true
		if spec.WKind == "pct" {
			if cbKnown {
				want = spec.WVal / 100 * cb
			} else {
				known = false
			}
		}
		if known {
			have, what := tw, "content-box"
			if spec.BoxSizing == "border-box" || spec.Collapse {
				// CSS 2.1 §17.6.2: in the collapsing model the width of the table includes
				// half of the table border (and the table has no padding).
				have, what = float64(tb.BorderWidth()), "border-box"
			}
			if !geq(have, want) {
				m.fail("narrower-than-specified", "%s: specified width %v (%s %v, box-sizing %s, collapse %v) but used %s width is %v", T, want, spec.WKind, spec.WVal, spec.BoxSizing, spec.Collapse, what, have)
				return
			}
			res.Count("specified_width_checked", 1)
		}
	}

	// ---- groups, rows, cells --------------------------------------------------------------
	groupIdx := map[string]int{}
	for i, g := range ref.Order {
		groupIdx[g.ID] = i
	}
	var cells []*obsCell
	var rowsLeft, rowsWidth float64
	if n > 0 {
		if !rtl {
			rowsLeft = pos[0]
			rowsWidth = pos[n-1] + w[n-1] - pos[0]
		} else {
			rowsLeft = pos[n-1]
			rowsWidth = pos[0] + w[0] - pos[n-1]
		}
	}
	var prevGroupBottom, prevRowBottom float64
	havePrevRow := false
	prevOrder := -1
	for gi, gb := range tb.Children {
		gf := gb.Box()
		gid := elemID(gf)
		oi, known := groupIdx[gid]
		if !known {
			m.fail("unknown-group", "%s: row group %q is not one of the table's groups", T, gid)
			return
		}
		// groups appear in layout order: header first, footer last (CSS 2.1 §17.2)
		if gi > 0 && oi <= prevOrder {
			m.fail("group-order", "%s: row group %s (layout position %d) is laid out after position %d", T, gid, oi, prevOrder)
			return
		}
		prevOrder = oi
		gs := ref.Order[oi]
		gh, ok := mf(gf.Height)
		if !ok || gh < 0 && !near(gh, 0) && !m.in.Paged {
			m.fail("negative-group", "%s group %s: used height %v", T, gid, gf.Height)
			return
		}
		gy := float64(gf.PositionY)
		if gi == 0 {
			// first group: one border-spacing below the content edge (a continuation fragment
			// may start flush with the edge).
			// (on a continuation fragment the offset is representation dependent and only
			// containment is required.)
			if fragNo == 0 && !near(gy, cy+sy) || fragNo > 0 && !geq(gy, cy) {
				m.fail("first-group-offset", "%s group %s: top at %v, table content top %v, vertical spacing %v (fragment %d)", T, gid, gy, cy, sy, fragNo)
				return
			}
		} else if !near(gy, prevGroupBottom+sy) {
			m.fail("group-spacing", "%s group %s: top at %v but previous group ends at %v and vertical spacing is %v", T, gid, gy, prevGroupBottom, sy)
			return
		}
		prevGroupBottom = gy + gh
		if n > 0 && len(gf.Children) > 0 {
			gw, _ := mf(gf.Width)
			if !near(float64(gf.PositionX), rowsLeft) || !near(gw, rowsWidth) {
				m.fail("group-extent", "%s group %s: x %v width %v, expected x %v width %v", T, gid, gf.PositionX, gw, rowsLeft, rowsWidth)
				return
			}
		}
		rowIdx := map[string]int{}
		for i, r := range gs.Rows {
			rowIdx[r.ID] = i
		}
		// rows of this fragment of the group
		type obsRow struct {
			idx  int
			f    *bo.BoxFields
			y, h float64
		}
		var rows []obsRow
		byIdx := map[int]*obsRow{}
		for ri, rb := range gf.Children {
			rf := rb.Box()
			rid := elemID(rf)
			idx, known := rowIdx[rid]
			if !known {
				m.fail("unknown-row", "%s group %s: row %q is not one of the group's rows", T, gid, rid)
				return
			}
			rh, ok := mf(rf.Height)
			if !ok || rh < 0 && !near(rh, 0) {
				m.fail("negative-row", "%s row %s: used height %v", T, rid, rf.Height)
				return
			}
			ry := float64(rf.PositionY)
			if ri == 0 {
				if !near(ry, gy) {
					m.fail("first-row-offset", "%s row %s: top %v but its group starts at %v", T, rid, ry, gy)
					return
				}
			} else {
				p := rows[len(rows)-1]
				if !near(ry, p.y+p.h+sy) {
					m.fail("row-spacing", "%s row %s: top %v but previous row spans [%v,%v] and vertical spacing is %v", T, rid, ry, p.y, p.y+p.h, sy)
					return
				}
				if idx != p.idx+1 {
					m.fail("row-order", "%s row %s: index %d follows index %d", T, rid, idx, p.idx)
					return
				}
				res.Count("eq_row_spacing", 1)
			}
			if n > 0 {
				rw, _ := mf(rf.Width)
				if !near(float64(rf.PositionX), rowsLeft) || !near(rw, rowsWidth) {
					m.fail("row-extent", "%s row %s: x %v width %v, expected x %v width %v", T, rid, rf.PositionX, rw, rowsLeft, rowsWidth)
					return
				}
			}
			rows = append(rows, obsRow{idx: idx, f: rf, y: ry, h: rh})
		}
		for i := range rows {
			byIdx[rows[i].idx] = &rows[i]
		}
		if len(rows) > 0 {
			last := rows[len(rows)-1]
			// (a row group cut by a page break may be recorded one spacing short; the row to row
			// relation below does not depend on it.)
			if !m.in.Paged && !near(gy+gh, last.y+last.h) {
				m.fail("group-height", "%s group %s: spans [%v,%v] but its last row ends at %v", T, gid, gy, gy+gh, last.y+last.h)
				return
			}
			// adjacent rows across a group boundary are one vertical spacing apart
			// (a footer repeated below a row that was cut by a page break is placed flush.)
			if havePrevRow && !near(rows[0].y, prevRowBottom+sy) && !(m.in.Paged && gs.Kind == "tfoot" && near(rows[0].y, prevRowBottom)) {
				m.fail("row-spacing-across-groups", "%s row %s: top %v but the last row of the previous group ends at %v and vertical spacing is %v", T, gs.Rows[rows[0].idx].ID, rows[0].y, prevRowBottom, sy)
				return
			}
			havePrevRow, prevRowBottom = true, last.y+last.h
		}
		res.Count("rows", int64(len(rows)))

		for _, orow := range rows {
			rspec := gs.Rows[orow.idx]
			rid := rspec.ID
			cellSpecs := map[string]*cellSpec{}
			for _, c := range rspec.Cells {
				cellSpecs[c.ID] = c
			}
			seen := map[string]bool{}
			rowTop, rowTopSet := 0.0, false
			for _, cbx := range orow.f.Children {
				cf := cbx.Box()
				cid := elemID(cf)
				cs := cellSpecs[cid]
				if cs == nil {
					m.fail("unknown-cell", "%s row %s: cell %q does not belong to this row", T, rid, cid)
					return
				}
				if seen[cid] {
					m.fail("cell-twice", "%s row %s: cell %s appears twice in the row fragment", T, rid, cid)
					return
				}
				seen[cid] = true
				s := ref.Slots[cid]
				C := fmt.Sprintf("%s cell %s (row %s)", T, cid, rid)
				if s.Dropped {
					m.fail("cell-beyond-grid", "%s: laid out although the fixed layout has only %d columns and the cell starts in column %d", C, ref.FixedCols, s.GX)
					return
				}
				// slot assignment
				if cf.GridX != s.GX || cf.Colspan != s.CS || cf.Rowspan != s.RS {
					m.fail("slot-assignment", "%s: observed column %d colspan %d rowspan %d, the table model gives column %d colspan %d rowspan %d (attributes colspan=%q rowspan=%q)", C, cf.GridX, cf.Colspan, cf.Rowspan, s.GX, s.CS, s.RS, cs.Colspan, cs.Rowspan)
					return
				}
				if s.GX+s.CS > n {
					m.fail("cell-beyond-columns", "%s: covers columns [%d,%d) but the table has %d columns", C, s.GX, s.GX+s.CS, n)
					return
				}
				cw, ok1 := mf(cf.Width)
				ch, ok2 := mf(cf.Height)
				if !ok1 || !ok2 {
					m.fail("cell-unresolved", "%s: used width %v height %v", C, cf.Width, cf.Height)
					return
				}
				if cw < 0 && !near(cw, 0) || ch < 0 && !near(ch, 0) {
					m.fail("negative-cell", "%s: used content width %v height %v", C, cw, ch)
					return
				}
				// paddings and borders are part of the cell's used size: none may be negative
				// (row-height resolution adds padding to cells, it must never remove any)
				// (not on continuation fragments of collapsed-border tables: the cells of a
				// continued row are shifted as a whole there, see cell-top-edge below and the
				// notes.)
				for _, v := range []pr.MaybeFloat{cf.PaddingTop, cf.PaddingBottom, cf.PaddingLeft, cf.PaddingRight, cf.BorderTopWidth, cf.BorderBottomWidth, cf.BorderLeftWidth, cf.BorderRightWidth} {
					if spec.Collapse && fragNo > 0 {
						break
					}
					if x, ok := mf(v); !ok || x < 0 && !near(x, 0) {
						m.fail("negative-cell-padding", "%s: used padding [%v %v %v %v] border [%v %v %v %v] (top right bottom left)", C, cf.PaddingTop, cf.PaddingRight, cf.PaddingBottom, cf.PaddingLeft, cf.BorderTopWidth, cf.BorderRightWidth, cf.BorderBottomWidth, cf.BorderLeftWidth)
						return
					}
				}
				o := &obsCell{id: cid, spec: cs, s: s, f: cf}
				o.l = float64(cf.BorderBoxX())
				o.r = o.l + float64(cf.BorderWidth())
				o.t = float64(cf.BorderBoxY())
				o.b = o.t + float64(cf.BorderHeight())
				// horizontal edges: a cell covers exactly its columns plus the spacing between them
				first, last := s.GX, s.GX+s.CS-1
				if rtl {
					first, last = last, first
				}
				if !near(o.l, pos[first]) {
					m.fail("cell-left-edge", "%s: left edge %v, column %d starts at %v", C, o.l, first, pos[first])
					return
				}
				if !near(o.r, pos[last]+w[last]) {
					m.fail("cell-right-edge", "%s: right edge %v, column %d ends at %v (colspan %d, spacing %v)", C, o.r, last, pos[last]+w[last], s.CS, sx)
					return
				}
				res.Count("eq_cell_edges", 2)
				// vertical: top of the row; bottom of the last spanned row
				// (when a row of a collapsed-border table is continued on a new page the cells
				// are shifted below the repeated header's border as a whole: they still share
				// their top edge, which is what is asserted there.)
				if !(spec.Collapse && fragNo > 0) && !near(o.t, orow.y) {
					m.fail("cell-top-edge", "%s: top edge %v but its row starts at %v", C, o.t, orow.y)
					return
				}
				if rowTopSet && !near(o.t, rowTop) {
					m.fail("cells-top-differ", "%s: top edge %v but another cell of the row has top edge %v", C, o.t, rowTop)
					return
				}
				rowTop, rowTopSet = o.t, true
				if end := byIdx[orow.idx+s.RS-1]; end != nil {
					if !near(o.b, end.y+end.h) {
						m.fail("cell-bottom-edge", "%s: bottom edge %v but the last spanned row (index %d, rowspan %d) ends at %v", C, o.b, orow.idx+s.RS-1, s.RS, end.y+end.h)
						return
					}
					res.Count("eq_cell_bottom", 1)
					if s.RS > 1 {
						res.Count("rowspan_resolved", 1)
					}
				} else {
					// the rows this cell spans continue on another page: CSS does not define its
					// box on this page; it is left out of the bottom-edge and no-overlap relations.
					o.cut = true
					res.Count("rowspan_cut_by_break", 1)
				}
				// content minimum (automatic layout only; the fixed layout ignores contents)
				if !fixed && cs.MinC > 0 {
					if !geq(cw, cs.MinC) {
						m.fail("below-content-minimum", "%s: content width %v is smaller than the minimum content width %v of its unbreakable content (columns %v)", C, cw, cs.MinC, w[s.GX:s.GX+s.CS])
						return
					}
					res.Count("content_minimum_checked", 1)
				}
				if s.CS > 1 {
					res.Count("cells_colspan", 1)
				}
				if s.RS > 1 {
					res.Count("cells_rowspan", 1)
				}
				if parseSpan(cs.Colspan, false) >= 7 || parseSpan(cs.Rowspan, true) >= 7 {
					res.Count("cells_overflowing_span", 1)
				}
				if cs.Rowspan == "0" {
					res.Count("cells_rowspan_zero", 1)
				}
				cells = append(cells, o)
			}
			for _, c := range rspec.Cells {
				if !seen[c.ID] && !ref.Slots[c.ID].Dropped {
					m.fail("cell-missing", "%s row %s: cell %s is not in the laid-out row", T, rid, c.ID)
					return
				}
			}
		}
	}
	// the last group is followed by one spacing inside the content box
	if len(tb.Children) > 0 {
		if !geq(cy+th, prevGroupBottom) {
			m.fail("groups-overflow-table", "%s: last row group ends at %v, table content box ends at %v", T, prevGroupBottom, cy+th)
			return
		}
	}
	res.Count("cells", int64(len(cells)))

	// ---- cells on disjoint slots never overlap ------------------------------------------------
	for i := 0; i < len(cells); i++ {
		for j := i + 1; j < len(cells); j++ {
			a, b := cells[i], cells[j]
			if a.s.Overlaps && b.s.Overlaps && !disjoint(a.s, b.s) {
				continue
			}
			if !disjoint(a.s, b.s) || a.cut || b.cut {
				continue
			}
			ox := math.Min(a.r, b.r) - math.Max(a.l, b.l)
			oy := math.Min(a.b, b.b) - math.Max(a.t, b.t)
			if ox > 0.05 && oy > 0.05 {
				m.fail("cells-overlap", "%s: cells %s [x %v..%v, y %v..%v] and %s [x %v..%v, y %v..%v] occupy disjoint slots but overlap by %v x %v", T, a.id, a.l, a.r, a.t, a.b, b.id, b.l, b.r, b.t, b.b, ox, oy)
				return
			}
			res.Count("nooverlap_pairs", 1)
		}
	}

	if spec.Collapse {
		res.Count("fragments_collapsed", 1)
	}
	if fixed {
		res.Count("fragments_fixed", 1)
	}
	if rtl {
		res.Count("fragments_rtl", 1)
	}
	if spec.Nested {
		res.Count("fragments_nested", 1)
	}
	if spec.Caption != "" {
		res.Count("fragments_with_caption", 1)
	}
}
