// Package c13 monitors property C13: table cells form a consistent grid.
//
// Every case is one generated HTML document with one or two tables (and possibly nested tables).
// The real layout (layout.Layout through wr.Render, Ahem font) is run, and every laid-out table
// fragment is handed to the grid monitor (monitor.go), which checks the relations of the property
// against the observed TableBox.ColumnWidths/ColumnPositions, row-group, row and cell boxes, using
// an independent slot-assignment model (model.go) built from the generator's table description.
package c13

import (
	"encoding/json"
	"fmt"
	"math/rand"
	"sync"

	bo "github.com/benoitkugler/webrender/html/boxes"
	"github.com/benoitkugler/webrender/html/layout"
	"github.com/benoitkugler/webrender/text"

	"verif/internal/fw"
	"verif/internal/wr"
)

var (
	fontsOnce sync.Once
	fonts     text.FontConfiguration
	fontsErr  error
)

func sharedFonts() (text.FontConfiguration, error) {
	fontsOnce.Do(func() { fonts, fontsErr = wr.NewPangoConfig() })
	return fonts, fontsErr
}

func init() {
	fw.Register(&fw.Prop{
		ID: "C13",
		Rule: "inputs: generated HTML documents with 1-2 tables of 1-6 rows x 1-6 cells (colspan/rowspan in {absent,0,1,2,3,7}, missing cells, empty rows, thead/tbody/tfoot in any source order, col/colgroup with span and widths, captions, nested tables, Ahem text), " +
			"width auto/px/% on table, columns and cells, table-layout auto/fixed, border-spacing with one or two values, border-collapse, paddings/borders, containing widths 20-2000px, 30% of the documents on short pages (tables fragment). " +
			"One table in six is drawn from the 'every column constrained' family: automatic layout, px table width 100-800, a px width on every column (col, colgroup with span, or a single-column cell), no percentage, including columns without originating cell that are only covered by a colspan; " +
			"counters fragments_all_constrained / all_constrained_surplus (width to assign provably above the sum of the columns' max-content widths: the surplus can only be placed by the last-resort distribution) / all_constrained_empty_origin / all_constrained_surplus_empty_origin count the fragments of that family that were checked. " +
			"One table in six is drawn from the 'percentage columns next to length columns' family (mixed.go): automatic layout, px (3 in 4, 100-800) or auto table width, every column sized and none left to absorb free space -- 1..n-1 columns by a percentage (5-50%, sum below 100 in 7 tables of 8), the others by a px width 10-160 -- declared on col, colgroup (span) or a single-column cell, columns without originating cell and colspans included; " +
			"the cells of a percentage column hold contents that fit in the share the column keeps next to the declared lengths (pct/(100-sum pct) x sum of the declared px widths; below that share the open finding F8b applies). " +
			"Counters fragments_mixed_constrained (px table width) / fragments_mixed_constrained_auto_width count the checked fragments of that family, mixed_constrained_surplus those whose width to assign provably exceeds what the columns ask for (percentage shares + max-content bounds from the description), so that a surplus had to be placed without any unsized column; _3plus_columns / _empty_origin refine it; mixed_constrained_pct_below_share (observed, no floor) counts fragments in which a percentage column ended below its percentage of the assigned width. " +
			"A case is non-trivial when at least one laid-out table fragment with at least two cells had every relation of the monitor evaluated; distinct = distinct document text.",
		N: func(tier string) int {
			if tier == "thorough" {
				return 100000
			}
			return 4000
		},
		Gen:   func(r *rand.Rand, i int, tier string) any { return genCase(r, i, tier) },
		Check: check,
		Floor: func(tier string) int {
			if tier == "thorough" {
				return 80000
			}
			return 3000
		},
		CounterFloors: func(tier string) map[string]int64 {
			k := int64(1)
			if tier == "thorough" {
				k = 25
			}
			return map[string]int64{
				"fragments":               4000 * k,
				"cells":                   30000 * k,
				"cells_colspan":           3000 * k,
				"cells_rowspan":           2000 * k,
				"rowspan_resolved":        1500 * k,
				"cells_overflowing_span":  1000 * k,
				"eq_columns_fill":         3500 * k,
				"eq_cell_edges":           60000 * k,
				"eq_row_spacing":          5000 * k,
				"nooverlap_pairs":         100000 * k,
				"content_minimum_checked": 10000 * k,
				"specified_width_checked": 1000 * k,
				"fragments_collapsed":     500 * k,
				"fragments_fixed":         300 * k,
				"fragments_nested":        200 * k,
				"tables_fragmented":       200 * k,
				"fragments_with_caption":  300 * k,
				// "every column constrained" family (constrained.go)
				"fragments_all_constrained":            600 * k,
				"all_constrained_surplus":              250 * k,
				"all_constrained_empty_origin":         300 * k,
				"all_constrained_surplus_empty_origin": 90 * k,
				// "percentage columns next to length columns" family (mixed.go)
				"fragments_mixed_constrained":             300 * k,
				"mixed_constrained_surplus":               80 * k,
				"mixed_constrained_surplus_3plus_columns": 30 * k,
				"mixed_constrained_surplus_empty_origin":  25 * k,
			}
		},
		Assumptions: []string{
			"the Ahem test font of /repo/resources_test is metric exact (every glyph 1em wide), so the minimum content width of a cell is known to the generator",
			"slot assignment is compared with an independent model of the HTML table model (first free slot of the row, spans clipped to the row group, rowspan=0 to the end of the group)",
			"nothing is asserted about which widths the automatic algorithm chooses, only the relations of the property",
			"generator restrictions of the open findings stay in force: F3, F5, F6 (a column-spanning cell over columns that all carry a width is generated only when its minimum content provably fits in the px widths of the spanned column elements), F8/F8b/F8c (a table in which every column carries a width is generated only with a px or auto table width, and with percentage columns only when at least one column carries a px width and the cells of the percentage columns fit in pct/(100-sum pct) x sum of the declared px widths), F11",
		},
		Batch: 100,
	})
}

const maxPages = 400

type runawayPanic struct{}

// renderBounded lays the document out; the page hook aborts a page loop that does not end.
func renderBounded(html string, fc text.FontConfiguration) (out *wr.Rendered, runaway bool, err error) {
	layout.VerifPageHook = func(index int, resumeAt string, oof, fn int, page *bo.PageBox) {
		if index > maxPages {
			panic(runawayPanic{})
		}
	}
	defer func() {
		layout.VerifPageHook = nil
		if r := recover(); r != nil {
			if _, ok := r.(runawayPanic); ok {
				runaway = true
				return
			}
			panic(r)
		}
	}()
	// NoProgressMonitor: wr.Render's own stall monitor would replace the hook installed above (it
	// only sees a state repeated on consecutive pages; the runaway met here alternates states).
	out, err = wr.Render(wr.Opts{HTML: html, NoWrite: true, Fonts: fc, NoProgressMonitor: true})
	return out, false, err
}

func check(raw json.RawMessage) fw.Result {
	var in caseIn
	if err := json.Unmarshal(raw, &in); err != nil {
		return fw.Result{Verdict: fw.Inconclusive, Msg: err.Error()}
	}
	var res fw.Result
	fc, err := sharedFonts()
	if err != nil {
		return fw.Result{Verdict: fw.Inconclusive, Msg: "fonts: " + err.Error()}
	}
	out, runaway, err := renderBounded(in.HTML, fc)
	if runaway {
		// not a clause of C13 (it is C01's bounded-progress property), but never passed silently
		res.Fail("pagination-runaway", fmt.Sprintf("the page loop produced more than %d pages for a document of at most two small tables (no progress; C01 domain)", maxPages))
		return res
	}
	if err != nil {
		return fw.Result{Verdict: fw.Inconclusive, Msg: "render: " + err.Error()}
	}
	m := newMonitor(&in, &res)
	for pi, page := range out.Pages {
		m.page = pi
		m.walk(page, 0, false)
	}
	res.Count("pages", int64(len(out.Pages)))
	// every top-level table must have been laid out at least once
	for _, t := range in.Tables {
		if m.frags[t.ID] == 0 && res.Verdict != fw.Violation {
			res.Fail("table-not-laid-out", "table "+t.ID+" does not appear in any page")
		}
	}
	if res.Verdict != fw.Violation {
		cells := res.Counters["cells"]
		res.Nontrivial = cells >= 2
	}
	return res
}
