package c13

import (
	"os"
	"strconv"
	"testing"

	"verif/internal/fw"
)

// TestIdem checks that the generator's restrictions are stable (re-applying them to a generated
// case changes nothing): C13_IDEM=<n> checks cases [0,n) of seeds 1..3.
func TestIdem(t *testing.T) {
	n := 300
	if s := os.Getenv("C13_IDEM"); s != "" {
		n, _ = strconv.Atoi(s)
	}
	for seed := int64(1); seed <= 3; seed++ {
		for idx := 0; idx < n; idx++ {
			c := genCase(fw.CaseRNG(seed, "C13", idx), idx, "quick")
			if !withinRestrictions(&c) {
				t.Errorf("seed %d case %d: restrictions are not stable", seed, idx)
			}
		}
	}
}
