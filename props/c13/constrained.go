package c13

import (
	"strconv"
	"strings"
)

// The "every column constrained" family.
//
// A table of the automatic layout with a specified px width whose columns ALL carry a px width
// (on a <col>, on a <colgroup>, or on a single-column cell) and none a percentage is laid out by
// the last resort of the width distribution: no column may absorb the surplus by the regular
// rules, the table may not shrink below its specified width, so the surplus is spread over the
// columns "breaking the rules".  The sub-generator below produces that family on purpose
// (constrainAll), including columns that have no originating cell (only covered by a colspan
// from an earlier column, hence constrained through a column element) and including colspans
// over such columns.  The oracle is the ordinary grid monitor (columns + spacing exactly fill the
// used width, used width >= specified width, cells cover their columns, content minima).

// constrainAll turns t into a member of the family.  It is applied before restrict().
func (g *genState) constrainAll(t *tableSpec) {
	r := g.r
	t.Layout = "auto"
	t.WKind, t.WVal = "px", pickF(r, 100, 150, 200, 300, 500, 800)
	ref := buildRef(t)
	n := ref.NCols
	if n == 0 {
		return
	}
	singles := map[int][]*cellSpec{}
	for _, gs := range t.Groups {
		for _, rs := range gs.Rows {
			for _, c := range rs.Cells {
				if strings.HasSuffix(c.Width, "%") {
					c.Width = ""
				}
				s := ref.Slots[c.ID]
				if s.CS == 1 {
					singles[s.GX] = append(singles[s.GX], c)
					continue
				}
				// column-spanning cell: two times out of three short contents, so that its
				// minimum fits in the declared widths of the columns it spans (else the F6
				// restriction frees one of its columns)
				if r.Intn(3) != 0 {
					c.Kind, c.Text, c.Text2, c.Nested, c.NoWrap = "words", g.word(2), "", nil, false
					c.Padding = px(pickF(r, 0, 1, 2))
				}
			}
		}
	}
	colW := make([]string, n)
	for x := 0; x < n; x++ {
		if cs := singles[x]; len(cs) > 0 && r.Intn(2) == 0 {
			// constrained by one of its single-column cells
			c := cs[r.Intn(len(cs))]
			c.Width = px(pickF(r, 5, 10, 20, 40, 80))
		} else {
			colW[x] = px(pickF(r, 5, 10, 20, 40, 80))
		}
	}
	// column elements covering exactly the n columns
	t.Cols = nil
	for x := 0; x < n; {
		k := n - x
		if k > 3 {
			k = 3
		}
		k = 1 + r.Intn(k)
		switch r.Intn(3) {
		case 0:
			w := ""
			for i := x; i < x+k; i++ {
				if colW[i] != "" {
					w = colW[i]
					break
				}
			}
			t.Cols = append(t.Cols, &colGroupSpec{Kind: "span", Span: k, Width: w})
		case 1:
			cg := &colGroupSpec{Kind: "cols"}
			for i := x; i < x+k; i++ {
				cg.Cols = append(cg.Cols, &colSpec{Span: 1, Width: colW[i]})
			}
			t.Cols = append(t.Cols, cg)
		default:
			k = 1
			t.Cols = append(t.Cols, &colGroupSpec{Kind: "bare", Width: colW[x]})
		}
		x += k
	}
}

// pxOf parses "12px" / "0" / "2.5px"; ok is false for anything else ("", percentages).
func pxOf(s string) (float64, bool) {
	s = strings.TrimSpace(s)
	if s == "0" {
		return 0, true
	}
	if !strings.HasSuffix(s, "px") {
		return 0, false
	}
	v, err := strconv.ParseFloat(strings.TrimSuffix(s, "px"), 64)
	return v, err == nil
}

// sidesLR returns the left and right components of a 1-4 value px shorthand.
func sidesLR(v string) (l, r float64) {
	f := strings.Fields(v)
	get := func(i int) float64 { x, _ := pxOf(f[i]); return x }
	switch len(f) {
	case 0:
		return 0, 0
	case 1:
		return get(0), get(0)
	case 2, 3:
		return get(1), get(1)
	default:
		return get(3), get(1)
	}
}

// borderLR returns upper bounds of the left and right border widths declared by a border
// declaration string of the generator ("border:2px solid black" or "border-style:..;
// border-width:<sides>;border-color:black"); a style of none/hidden only makes them smaller.
func borderLR(decl string) (l, r float64) {
	for _, d := range strings.Split(decl, ";") {
		kv := strings.SplitN(d, ":", 2)
		if len(kv) != 2 {
			continue
		}
		switch strings.TrimSpace(kv[0]) {
		case "border":
			for _, f := range strings.Fields(kv[1]) {
				if v, ok := pxOf(f); ok {
					return v, v
				}
			}
		case "border-width":
			return sidesLR(kv[1])
		}
	}
	return 0, 0
}

// maxBorder is the largest border width declared anywhere in the table (table box and cells).
func maxBorder(t *tableSpec) float64 {
	m := 0.0
	up := func(decl string) {
		l, r := borderLR(decl)
		if l > m {
			m = l
		}
		if r > m {
			m = r
		}
	}
	up(t.Border)
	for _, gs := range t.Groups {
		for _, rs := range gs.Rows {
			for _, c := range rs.Cells {
				up(c.Border)
			}
		}
	}
	return m
}

// colElemPx returns, per column, the largest px width declared on the column's <col> or
// <colgroup> (0 when none): a lower bound of the column's min-content width (css-tables-3
// §"intrinsic widths of columns": a column element with a definite width contributes it).
func colElemPx(t *tableSpec, n int) []float64 {
	out := make([]float64, n)
	x := 0
	set := func(w string) {
		if v, ok := pxOf(w); ok && x < n && v > out[x] {
			out[x] = v
		}
		x++
	}
	for _, cg := range t.Cols {
		switch cg.Kind {
		case "span":
			for k := 0; k < cg.Span; k++ {
				set(cg.Width)
			}
		case "cols":
			for _, c := range cg.Cols {
				k := c.Span
				if k < 1 {
					k = 1
				}
				for ; k > 0; k-- {
					set(c.Width)
				}
			}
		default:
			set(cg.Width)
		}
	}
	return out
}

// plainMinC is the exact min-content width of the contents of a cell without nested table.
func plainMinC(font float64, c *cellSpec) float64 {
	unit := func(s string) float64 {
		if c.NoWrap {
			return float64(lineLen(s)) * font
		}
		return float64(longestWord(s)) * font
	}
	switch c.Kind {
	case "words":
		return unit(c.Text)
	case "lines":
		m := unit(c.Text)
		if m2 := unit(c.Text2); m2 > m {
			m = m2
		}
		return m
	case "div":
		return unit(c.Text) + c.DivPL + c.DivPR + 2*c.DivBW
	}
	return 0
}

// spanFits reports whether the outer min-content width of the column-spanning cell c is certainly
// covered by the px widths declared on the column elements of the columns it spans (plus the
// spacing inside the span): then the cell has no min-content excess to distribute and the open
// finding F6 (excess of a spanning cell over constrained columns is not distributed) cannot be
// met.
func spanFits(t *tableSpec, c *cellSpec, s *slot, n int) bool {
	if c.Kind == "table" {
		return false
	}
	need := plainMinC(t.Font, c)
	pl, prr := sidesLR(c.Padding)
	need += pl + prr
	if t.Collapse {
		// used collapsed borders: at most half of the widest border of the table on each side
		need += maxBorder(t)
	} else {
		bl, br := borderLR(c.Border)
		need += bl + br
	}
	have := 0.0
	cols := colElemPx(t, n)
	for x := s.GX; x < s.GX+s.CS && x < n; x++ {
		have += cols[x]
	}
	if !t.Collapse {
		have += float64(s.CS-1) * t.SX
	}
	return need <= have
}

// allPxConstrained reports whether every one of the n columns of the table carries at least one
// px width declaration of its own (column element, column group, single-column cell) and none a
// percentage; declared[x] is the largest px width declared for column x.
func allPxConstrained(t *tableSpec, ref *refGrid, n int) (ok bool, declared []float64) {
	refs := widthRefs(t, ref)
	declared = make([]float64, n)
	for x := 0; x < n; x++ {
		if len(refs[x]) == 0 {
			return false, nil
		}
		for _, p := range refs[x] {
			v, isPx := pxOf(*p)
			if !isPx {
				return false, nil
			}
			if v > declared[x] {
				declared[x] = v
			}
		}
	}
	return true, declared
}

// anyPercentColumn reports whether a column of the table carries a percentage width.
func anyPercentColumn(refs map[int][]*string) bool {
	for _, ps := range refs {
		for _, p := range ps {
			if strings.HasSuffix(*p, "%") {
				return true
			}
		}
	}
	return false
}

// emptyOriginColumns counts the columns in which no cell originates.
func emptyOriginColumns(ref *refGrid, n int) int {
	origin := make([]bool, n)
	for _, s := range ref.Slots {
		if !s.Dropped && s.GX < n {
			origin[s.GX] = true
		}
	}
	k := 0
	for _, o := range origin {
		if !o {
			k++
		}
	}
	return k
}

// maxContentUpper returns an upper bound of the sum of the max-content widths of the columns of a
// table whose columns all carry px widths (declared[x] = largest px width declared for column x):
// per column the largest of the declared width and the outer max-content widths of its
// single-column cells, plus the outer max-content width of every column-spanning cell (a
// spanning cell adds at most its own max-content width to the columns it spans).  known is false
// when a cell holds a nested table (its max-content width is not derived here).
func maxContentUpper(t *tableSpec, ref *refGrid, declared []float64) (bound float64, known bool) {
	n := len(declared)
	col := append([]float64{}, declared...)
	mb := maxBorder(t)
	for _, gs := range t.Groups {
		for _, rs := range gs.Rows {
			for _, c := range rs.Cells {
				s := ref.Slots[c.ID]
				if s == nil || s.Dropped {
					continue
				}
				if c.Kind == "table" {
					return 0, false
				}
				font := t.Font
				line := func(x string) float64 { return float64(lineLen(x)) * font }
				content := 0.0
				switch c.Kind {
				case "words":
					content = line(c.Text)
				case "lines":
					content = line(c.Text)
					if v := line(c.Text2); v > content {
						content = v
					}
				case "div":
					content = line(c.Text) + c.DivPL + c.DivPR + 2*c.DivBW
				}
				if v, ok := pxOf(c.Width); ok && v > content {
					content = v
				}
				pl, prr := sidesLR(c.Padding)
				outer := content + pl + prr
				if t.Collapse {
					outer += mb
				} else {
					bl, br := borderLR(c.Border)
					outer += bl + br
				}
				if s.CS == 1 && s.GX < n {
					if outer > col[s.GX] {
						col[s.GX] = outer
					}
				} else {
					bound += outer
				}
			}
		}
	}
	for _, v := range col {
		bound += v
	}
	return bound, true
}
