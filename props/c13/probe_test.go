package c13

import (
	"fmt"
	"os"
	"testing"

	bo "github.com/benoitkugler/webrender/html/boxes"

	"verif/internal/wr"
)

// TestProbe is a development aid: C13_PROBE=<html file> go test -tags verif -run TestProbe -v ./props/c13
func TestProbe(t *testing.T) {
	path := os.Getenv("C13_PROBE")
	if path == "" {
		t.Skip("no C13_PROBE")
	}
	src, err := os.ReadFile(path)
	if err != nil {
		t.Fatal(err)
	}
	out, err := wr.Render(wr.Opts{HTML: string(src), NoWrite: true})
	if err != nil {
		t.Fatal(err)
	}
	for _, w := range out.Warnings {
		fmt.Println("WARN", w)
	}
	for pi, p := range out.Pages {
		fmt.Printf("== page %d\n", pi)
		dump(p, 0)
	}
}

func dump(b bo.Box, depth int) {
	f := b.Box()
	ind := ""
	for i := 0; i < depth; i++ {
		ind += "  "
	}
	extra := ""
	if tb, ok := b.(bo.TableBoxITF); ok {
		extra = fmt.Sprintf(" colW=%v colX=%v", tb.Table().ColumnWidths, tb.Table().ColumnPositions)
	}
	if bo.TableCellT.IsInstance(b) {
		extra = fmt.Sprintf(" gx=%d cs=%d rs=%d", f.GridX, f.Colspan, f.Rowspan)
	}
	txt := ""
	if tb, ok := b.(*bo.TextBox); ok {
		txt = fmt.Sprintf(" %q", tb.TextS())
	}
	fmt.Printf("%s%s#%s x=%v y=%v w=%v h=%v m=[%v %v %v %v] p=[%v %v %v %v] b=[%v %v %v %v]%s%s\n", ind, b.Type(), elemID(f), f.PositionX, f.PositionY, f.Width, f.Height,
		f.MarginTop, f.MarginRight, f.MarginBottom, f.MarginLeft, f.PaddingTop, f.PaddingRight, f.PaddingBottom, f.PaddingLeft,
		f.BorderTopWidth, f.BorderRightWidth, f.BorderBottomWidth, f.BorderLeftWidth, extra, txt)
	for _, c := range f.Children {
		dump(c, depth+1)
	}
}
