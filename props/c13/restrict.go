package c13

import (
	"fmt"
	"strings"
)

// restrict keeps feature combinations that trigger recorded defects of the tree out of the random
// generator (BUILDERS.md hard rule 3).  Every restriction is documented in notes/C13.md with its
// finding.  The oracle itself is not weakened: a replayed witness still fails.
//
// In force: F3, F5, F6, F8, F11 (open findings).  Lifted since the repairs in /repo (711386e F1,
// 32eb969 F2, bb2901d F4, c9e0651 F6b, ffc291c F7): the code of those restrictions is kept and
// switched off by defaultOpts; VERIF_C13_RESTRICT=F1,... re-imposes them (development only).
func (g *genState) restrict(t *tableSpec) {
	o := g.opt
	fixed := fixedApplies(t)

	// F11: on short pages a table with a repeated header or footer holds only cells that cannot
	// be split between pages (at most one word), or has no header/footer at all.
	if g.paged && !t.Nested && !o.allowHeaderWithSplittableCells {
		hf := false
		for _, gs := range t.Groups {
			if gs.Kind != "tbody" {
				hf = true
			}
		}
		splittable := func(c *cellSpec) bool {
			return !(c.Kind == "empty" || c.Kind == "words" && len(strings.Fields(c.Text)) <= 1)
		}
		any := false
		for _, gs := range t.Groups {
			for _, rs := range gs.Rows {
				for _, c := range rs.Cells {
					if splittable(c) {
						any = true
					}
				}
			}
		}
		if hf && any {
			if g.r.Intn(2) == 0 {
				for _, gs := range t.Groups {
					gs.Kind = "tbody"
				}
			} else {
				for _, gs := range t.Groups {
					for _, rs := range gs.Rows {
						for _, c := range rs.Cells {
							if splittable(c) {
								c.Kind, c.Nested, c.Text2 = "words", nil, ""
								if f := strings.Fields(c.Text); len(f) > 0 {
									c.Text = f[0]
								} else {
									c.Text = "x"
								}
							}
						}
					}
				}
			}
		}
	}

	// F5: no percentage width on column-spanning cells.
	// F4: fixed layout: no width on column-spanning cells of the first row.
	// (both need only the raw attribute: an effective colspan > 1)
	firstRow := map[string]bool{}
	if ord := layoutOrder(t); len(ord) > 0 && len(ord[0].Rows) > 0 {
		for _, c := range ord[0].Rows[0].Cells {
			firstRow[c.ID] = true
		}
	}
	for _, gs := range t.Groups {
		for _, rs := range gs.Rows {
			for _, c := range rs.Cells {
				span := parseSpan(c.Colspan, false) > 1
				if span && !o.allowSpanPercent && strings.HasSuffix(c.Width, "%") {
					c.Width = ""
				}
				if span && fixed && !o.allowFixedSpanWidth && firstRow[c.ID] {
					c.Width = ""
				}
			}
		}
	}

	// F2: every row in which a row-spanning cell ends also holds a (rendered) cell with rowspan 1.
	if !o.allowLoneSpanEnd {
		ok := false
		for iter := 0; iter < 12 && !ok; iter++ {
			ref := buildRef(t)
			ok = true
			for gi, grp := range ref.Order {
				ends := make([]bool, len(grp.Rows))
				single := make([]bool, len(grp.Rows))
				for _, row := range grp.Rows {
					for _, c := range row.Cells {
						s := ref.Slots[c.ID]
						if s.Group != gi || s.Dropped {
							continue
						}
						if s.RS > 1 {
							ends[s.Row+s.RS-1] = true
						} else {
							single[s.Row] = true
						}
					}
				}
				for y, row := range grp.Rows {
					if !ends[y] || single[y] {
						continue
					}
					ok = false
					done := false
					for _, c := range row.Cells {
						if !ref.Slots[c.ID].Dropped {
							c.Rowspan = "1"
							done = true
							break
						}
					}
					if !done {
						row.Cells = append([]*cellSpec{{ID: g.id("c"), Kind: "empty", Padding: "0"}}, row.Cells...)
					}
				}
			}
		}
		if !ok {
			// give up on row spans in this table
			for _, gs := range t.Groups {
				for _, rs := range gs.Rows {
					for _, c := range rs.Cells {
						c.Rowspan = ""
					}
				}
			}
		}
	}

	// F3: fixed layout: cells carry horizontal padding/borders only where the column is known to
	// be at least as wide (first row, colspan 1, px width, no column elements, separate borders).
	if fixed && !o.allowFixedCellBoxes {
		if t.Collapse {
			t.Border = ""
		}
		for _, gs := range t.Groups {
			for _, rs := range gs.Rows {
				for _, c := range rs.Cells {
					keep := firstRow[c.ID] && !t.Collapse && len(t.Cols) == 0 &&
						parseSpan(c.Colspan, false) == 1 && strings.HasSuffix(c.Width, "px")
					if keep {
						continue
					}
					c.Border = ""
					c.Padding = verticalOnly(c.Padding)
				}
			}
		}
	}

	// F6: (automatic layout) every column-spanning cell covers at least one column that carries
	// no width at all (neither on a column element nor on a single-column cell).
	if !fixed && !o.allowSpanAllConstrained {
		for iter := 0; iter < 40; iter++ {
			ref := buildRef(t)
			refs := widthRefs(t, ref)
			slack := map[int]bool{}
			for _, gs := range t.Groups {
				for _, rs := range gs.Rows {
					for _, c := range rs.Cells {
						if s := ref.Slots[c.ID]; s.CS == 1 && hasSlack(c) {
							slack[s.GX] = true
						}
					}
				}
			}
			fixedOne := false
		scan:
			for _, gs := range t.Groups {
				for _, rs := range gs.Rows {
					for _, c := range rs.Cells {
						s := ref.Slots[c.ID]
						if s.CS < 2 {
							continue
						}
						free := false
						for x := s.GX; x < s.GX+s.CS; x++ {
							if len(refs[x]) == 0 {
								free = true
							} else if !o.allowSpanSlack && (slack[x] || hasPx(refs[x])) {
								// F6b: a spanned column carries no px width, and a percentage
								// only with contents whose min-content and max-content widths
								// coincide (a px width alone makes them differ).
								for _, p := range refs[x] {
									*p = ""
								}
								fixedOne = true
								break scan
							}
						}
						if !free && spanFits(t, c, s, ref.NCols) {
							// the cell's minimum is covered by the declared widths of its column
							// elements: nothing to distribute, F6 cannot be met
							continue
						}
						if !free {
							for _, p := range refs[s.GX] {
								*p = ""
							}
							fixedOne = true
							break scan
						}
					}
				}
			}
			if !fixedOne {
				break
			}
		}
	}

	// F7: the percentages of the columns sum to at most 100.
	if !o.allowPercentOver100 {
		for iter := 0; iter < 40; iter++ {
			ref := buildRef(t)
			refs := widthRefs(t, ref)
			total := 0.0
			last := -1
			for x := 0; x < ref.NCols || x < t.nColElems(); x++ {
				m := 0.0
				for _, p := range refs[x] {
					if strings.HasSuffix(*p, "%") {
						var v float64
						fmt.Sscanf(*p, "%g%%", &v)
						if v > m {
							m = v
						}
					}
				}
				if m > 0 {
					total += m
					last = x
				}
			}
			if total <= 100 || last < 0 {
				break
			}
			for _, p := range refs[last] {
				if strings.HasSuffix(*p, "%") {
					*p = ""
				}
			}
		}
	}

	// F8: (automatic layout) at least one column carries no width declaration at all -- when the
	// table width is a percentage (F8: the table is shrunk below it) or a column carries a
	// percentage (F8b: that column is reduced below its minimum).  A table with a px or auto width
	// whose columns all carry px widths is in the domain (constrained.go), and so is one whose
	// columns are percentage and px columns when the cells of the percentage columns fit in the
	// share those columns keep next to the declared px widths (mixed.go, mixedFits): F8b cannot
	// be met there.
	if !fixed && !o.allowAllConstrainedSpecified {
		ref := buildRef(t)
		refs := widthRefs(t, ref)
		free := t.WKind != "pct" && (!anyPercentColumn(refs) || mixedFits(t, ref))
		for x := 0; x < ref.NCols; x++ {
			if len(refs[x]) == 0 {
				free = true
				break
			}
		}
		if !free {
			for _, p := range refs[0] {
				*p = ""
			}
		}
	}

	// F1: separate borders with horizontal spacing in the automatic layout: every column has an
	// originating cell (else: no horizontal spacing, or a filler row group that originates a cell
	// in every column).
	if !t.Collapse && t.SX > 0 && !fixed && !o.allowEmptyOriginColumns {
		if hasEmptyOriginColumn(t) {
			if g.r.Intn(2) == 0 {
				t.SX = 0
			} else {
				ref := buildRef(t)
				row := &rowSpec{ID: g.id("r")}
				for x := 0; x < ref.NCols; x++ {
					row.Cells = append(row.Cells, &cellSpec{ID: g.id("c"), Kind: "empty", Padding: "0"})
				}
				fill := &groupSpec{ID: g.id("g"), Kind: "tbody", Rows: []*rowSpec{row}}
				t.Groups = append(t.Groups, fill)
				if hasEmptyOriginColumn(t) {
					t.SX = 0
				}
			}
			if t.SX != t.SY {
				t.OneSpacing = false
			}
		}
	}
}

func hasEmptyOriginColumn(t *tableSpec) bool {
	ref := buildRef(t)
	origin := make([]bool, ref.NCols)
	for _, s := range ref.Slots {
		if s.GX < len(origin) {
			origin[s.GX] = true
		}
	}
	for _, o := range origin {
		if !o {
			return true
		}
	}
	return false
}

// widthRefs returns, per column, pointers to every width declaration that applies to the column
// alone: column elements (and their groups) and cells with colspan 1 originating in the column.
func widthRefs(t *tableSpec, ref *refGrid) map[int][]*string {
	out := map[int][]*string{}
	x := 0
	for _, cg := range t.Cols {
		switch cg.Kind {
		case "span":
			for k := 0; k < cg.Span; k++ {
				if cg.Width != "" {
					out[x] = append(out[x], &cg.Width)
				}
				x++
			}
		case "cols":
			for _, c := range cg.Cols {
				n := c.Span
				if n < 1 {
					n = 1
				}
				for k := 0; k < n; k++ {
					if c.Width != "" {
						out[x] = append(out[x], &c.Width)
					}
					x++
				}
			}
		default:
			if cg.Width != "" {
				out[x] = append(out[x], &cg.Width)
			}
			x++
		}
	}
	for _, gs := range t.Groups {
		for _, rs := range gs.Rows {
			for _, c := range rs.Cells {
				s := ref.Slots[c.ID]
				if s.CS == 1 && c.Width != "" {
					out[s.GX] = append(out[s.GX], &c.Width)
				}
			}
		}
	}
	return out
}

// verticalOnly keeps the top/bottom components of a padding shorthand and zeroes left/right.
func verticalOnly(p string) string {
	f := strings.Fields(p)
	switch len(f) {
	case 0:
		return "0"
	case 1:
		return f[0] + " 0"
	case 2:
		return f[0] + " 0"
	case 3:
		return f[0] + " 0 " + f[2]
	default:
		return f[0] + " 0 " + f[2] + " 0"
	}
}

func (t *tableSpec) nColElems() int {
	n := 0
	for _, cg := range t.Cols {
		switch cg.Kind {
		case "span":
			n += cg.Span
		case "cols":
			for _, c := range cg.Cols {
				if c.Span > 1 {
					n += c.Span
				} else {
					n++
				}
			}
		default:
			n++
		}
	}
	return n
}

// hasSlack reports whether the max-content width of the cell's content may exceed its min-content
// width (more than one word on a line that may wrap, or a nested table).
func hasSlack(c *cellSpec) bool {
	if c.Kind == "table" {
		return true
	}
	if c.NoWrap {
		return false
	}
	return len(strings.Fields(c.Text)) > 1 || len(strings.Fields(c.Text2)) > 1
}

func hasPx(refs []*string) bool {
	for _, p := range refs {
		if strings.HasSuffix(*p, "px") {
			return true
		}
	}
	return false
}
