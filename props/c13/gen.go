package c13

import (
	"fmt"
	"math/rand"
	"os"
	"strings"
)

// Generator-side description of a case.  The description is complete: the HTML text is a pure
// function of it (render.go), which is what makes cases minimisable by editing the description.
// The input of a case stores both (the HTML actually laid out, and the description the oracle
// reads: structure, raw span attributes, the style values the relations refer to, and the exact
// Ahem content minimum of every cell).

type caseIn struct {
	HTML   string       `json:"html"`
	BodyW  float64      `json:"body_w"` // containing-block width of top-level tables
	PageH  float64      `json:"page_h"`
	Paged  bool         `json:"paged,omitempty"` // page is short: tables are expected to fragment
	Tables []*tableSpec `json:"tables"`
}

type tableSpec struct {
	ID         string          `json:"id"`
	Before     string          `json:"before,omitempty"` // paragraph text before the table
	Nested     bool            `json:"nested,omitempty"`
	Font       float64         `json:"font"`
	Layout     string          `json:"layout"` // auto | fixed
	Collapse   bool            `json:"collapse,omitempty"`
	SX         float64         `json:"sx"` // border-spacing (ignored when Collapse)
	SY         float64         `json:"sy"`
	OneSpacing bool            `json:"one_spacing,omitempty"` // written with one value
	Dir        string          `json:"dir"`                   // ltr | rtl
	WKind      string          `json:"wkind"`                 // auto | px | pct
	WVal       float64         `json:"wval,omitempty"`        // px or percent
	BoxSizing  string          `json:"boxsizing"`             // content-box | border-box
	HPx        float64         `json:"hpx,omitempty"`         // specified height, 0 = auto
	Border     string          `json:"border,omitempty"`      // declarations
	Padding    string          `json:"padding,omitempty"`
	Margin     string          `json:"margin,omitempty"`
	Caption    string          `json:"caption,omitempty"` // "", top, bottom
	CapText    string          `json:"cap_text,omitempty"`
	CapPad     float64         `json:"cap_pad,omitempty"`
	Cols       []*colGroupSpec `json:"cols,omitempty"`
	Groups     []*groupSpec    `json:"groups"` // source order
	// derived (finalize)
	NColElems int `json:"ncolelems"` // columns made by <col>/<colgroup>
}

type colGroupSpec struct {
	Kind  string     `json:"kind"` // span | cols | bare
	Span  int        `json:"span,omitempty"`
	Width string     `json:"width,omitempty"`
	Cols  []*colSpec `json:"cols,omitempty"`
}

type colSpec struct {
	Span  int    `json:"span,omitempty"`
	Width string `json:"width,omitempty"`
}

type groupSpec struct {
	ID   string     `json:"id"`
	Kind string     `json:"kind"` // thead | tbody | tfoot
	Rows []*rowSpec `json:"rows"`
}

type rowSpec struct {
	ID     string      `json:"id"`
	Height float64     `json:"height,omitempty"`
	Avoid  bool        `json:"avoid,omitempty"` // break-inside: avoid
	Cells  []*cellSpec `json:"cells"`
}

type cellSpec struct {
	ID      string  `json:"id"`
	Colspan string  `json:"colspan,omitempty"` // raw attribute text, "" = absent
	Rowspan string  `json:"rowspan,omitempty"`
	Padding string  `json:"padding,omitempty"` // value of the padding shorthand
	Border  string  `json:"border,omitempty"`  // declarations
	Width   string  `json:"width,omitempty"`   // value or ""
	Height  float64 `json:"height,omitempty"`
	VAlign  string  `json:"valign,omitempty"`
	NoWrap  bool    `json:"nowrap,omitempty"`
	// content
	Kind   string     `json:"kind"` // empty | words | lines | div | table
	Text   string     `json:"text,omitempty"`
	Text2  string     `json:"text2,omitempty"`
	DivPL  float64    `json:"div_pl,omitempty"`
	DivPR  float64    `json:"div_pr,omitempty"`
	DivBW  float64    `json:"div_bw,omitempty"`
	Nested *tableSpec `json:"nested,omitempty"`
	// derived (finalize): exact lower bound of the min-content width of the cell's content, px
	MinC float64 `json:"minc"`
}

type genState struct {
	r     *rand.Rand
	next  int
	opt   genOpts
	paged bool // the document is laid out on short pages
}

// genOpts switch the documented restrictions of the random generator (restrict.go, notes/C13.md).
// Each "allow" flag re-admits a feature combination that is kept out because it triggers a
// recorded defect of the unchanged tree (findings/C13/*.json).
type genOpts struct {
	rtl bool // generate direction:rtl tables

	allowEmptyOriginColumns bool // F1: separate borders, spacing > 0, a column without originating cell (auto layout)
	allowLoneSpanEnd        bool // F2: a row in which only row-spanning cells end
	allowFixedCellBoxes     bool // F3: fixed layout with horizontal cell padding/borders not covered by a column width
	allowFixedSpanWidth     bool // F4: fixed layout, width on a column-spanning cell of the first row
	allowSpanPercent        bool // F5: percentage width on a column-spanning cell
	allowSpanAllConstrained bool // F6: column-spanning cell over columns that all carry a width
	allowSpanSlack          bool // F6b: spanned column with a px width, or a percentage and contents with min-content < max-content
	allowPercentOver100     bool // F7: column percentages summing to more than 100
	// F8: automatic layout, every column carries a width and (the table width is a percentage
	// or one of the column widths is a percentage)
	allowAllConstrainedSpecified bool
	// F11 (C01 domain): repeated header/footer on short pages together with cells that can be
	// split between pages (the page loop may never end)
	allowHeaderWithSplittableCells bool
}

// defaultOpts returns the generator options: the restrictions of open findings (F3, F5, F6, F8, F11)
// are in force, those of repaired defects (F1, F2, F4, F6b, F7) are lifted.  Development only:
// VERIF_C13_ALLOW="F5,F8" lifts more, VERIF_C13_RESTRICT="F1,F6b" re-imposes lifted ones.
func defaultOpts() genOpts {
	o := genOpts{rtl: true,
		allowEmptyOriginColumns: true, allowLoneSpanEnd: true, allowFixedSpanWidth: true,
		allowSpanSlack: true, allowPercentOver100: true}
	set := func(list string, v bool) {
		for _, f := range strings.Split(list, ",") {
			switch strings.TrimSpace(f) {
			case "F1":
				o.allowEmptyOriginColumns = v
			case "F2":
				o.allowLoneSpanEnd = v
			case "F3":
				o.allowFixedCellBoxes = v
			case "F4":
				o.allowFixedSpanWidth = v
			case "F5":
				o.allowSpanPercent = v
			case "F6":
				o.allowSpanAllConstrained = v
			case "F6b":
				o.allowSpanSlack = v
			case "F7":
				o.allowPercentOver100 = v
			case "F8":
				o.allowAllConstrainedSpecified = v
			case "F11":
				o.allowHeaderWithSplittableCells = v
			}
		}
	}
	set(os.Getenv("VERIF_C13_ALLOW"), true)
	set(os.Getenv("VERIF_C13_RESTRICT"), false)
	return o
}

func (g *genState) id(prefix string) string {
	g.next++
	return fmt.Sprintf("%s%d", prefix, g.next)
}

func pickF(r *rand.Rand, xs ...float64) float64 { return xs[r.Intn(len(xs))] }
func pickS(r *rand.Rand, xs ...string) string   { return xs[r.Intn(len(xs))] }

func px(v float64) string {
	if v == 0 {
		return "0"
	}
	return fmt.Sprintf("%gpx", v)
}

var letters = "abcdefghkmnopqrstuvxyz"

func (g *genState) word(maxLen int) string {
	n := 1 + g.r.Intn(maxLen)
	b := make([]byte, n)
	for i := range b {
		b[i] = letters[g.r.Intn(len(letters))]
	}
	return string(b)
}

func (g *genState) words(n, maxLen int) string {
	var ws []string
	for i := 0; i < n; i++ {
		ws = append(ws, g.word(maxLen))
	}
	return strings.Join(ws, " ")
}

var spanChoices = []string{"", "", "", "", "", "", "1", "2", "2", "3", "0", "7"}

func (g *genState) spanAttr() string { return spanChoices[g.r.Intn(len(spanChoices))] }

// genCase builds one document.
func genCase(r *rand.Rand, i int, tier string) caseIn {
	g := &genState{r: r, opt: defaultOpts()}
	var c caseIn
	c.BodyW = pickF(r, 20, 40, 60, 90, 120, 160, 200, 300, 400, 600, 1000, 2000)
	c.Paged = r.Intn(10) < 3
	if c.Paged {
		c.PageH = pickF(r, 60, 100, 150, 250)
	} else {
		c.PageH = 30000
	}
	g.paged = c.Paged
	nt := 1
	if r.Intn(5) == 0 {
		nt = 2
	}
	for k := 0; k < nt; k++ {
		t := g.table(false, 10)
		if r.Intn(3) == 0 {
			t.Before = g.words(1+r.Intn(3), 5)
		}
		c.Tables = append(c.Tables, t)
	}
	finalize(&c)
	return c
}

func (g *genState) sides(vals ...float64) string {
	r := g.r
	switch r.Intn(3) {
	case 0:
		return px(pickF(r, vals...))
	case 1:
		return px(pickF(r, vals...)) + " " + px(pickF(r, vals...))
	}
	return px(pickF(r, vals...)) + " " + px(pickF(r, vals...)) + " " + px(pickF(r, vals...)) + " " + px(pickF(r, vals...))
}

var borderStyles = []string{"solid", "solid", "solid", "dashed", "double", "none", "hidden", "dotted"}

func (g *genState) borderDecl() string {
	r := g.r
	if r.Intn(3) == 0 {
		// per-side widths
		return fmt.Sprintf("border-style:%s;border-width:%s;border-color:black", pickS(r, borderStyles...), g.sides(0, 1, 2, 3, 4, 6))
	}
	return fmt.Sprintf("border:%s %s black", px(pickF(r, 0, 1, 1, 2, 3, 4, 6)), pickS(r, borderStyles...))
}

func (g *genState) colWidth() string {
	r := g.r
	switch r.Intn(4) {
	case 0:
		return px(pickF(r, 5, 10, 20, 40, 80))
	case 1:
		return fmt.Sprintf("%g%%", pickF(r, 10, 25, 50))
	}
	return ""
}

// table generates one table description.
func (g *genState) table(nested bool, parentFont float64) *tableSpec {
	r := g.r
	t := &tableSpec{ID: g.id("t"), Nested: nested, Dir: "ltr", Layout: "auto", WKind: "auto", BoxSizing: "content-box"}
	t.Font = pickF(r, 8, 10, 10, 16, 20)
	if nested {
		t.Font = parentFont
	}
	if r.Intn(4) == 0 {
		t.Collapse = true
	}
	switch r.Intn(6) {
	case 0:
		t.SX, t.SY = 0, 0
	case 1:
		t.SX = pickF(r, 1, 2, 3, 5, 10, 2.5)
		t.SY = t.SX
	case 2, 3:
		t.SX = pickF(r, 0, 1, 2, 3, 5, 10, 2.5)
		t.SY = pickF(r, 0, 1, 2, 3, 5, 10, 0.5)
	default:
		t.SX, t.SY = 2, 2
	}
	t.OneSpacing = t.SX == t.SY && r.Intn(2) == 0
	if r.Intn(3) == 0 {
		t.Layout = "fixed"
	}
	switch r.Intn(10) {
	case 0, 1, 2:
		t.WKind, t.WVal = "px", pickF(r, 10, 30, 50, 100, 150, 200, 300, 500)
	case 3, 4:
		t.WKind, t.WVal = "pct", pickF(r, 10, 25, 50, 100)
	}
	if t.Layout == "fixed" && t.WKind == "auto" && r.Intn(3) != 0 {
		t.WKind, t.WVal = "px", pickF(r, 30, 50, 100, 150, 200, 300)
	}
	if r.Intn(2) == 0 {
		t.BoxSizing = "border-box"
	}
	if g.opt.rtl && r.Intn(8) == 0 {
		t.Dir = "rtl"
	}
	if r.Intn(8) == 0 {
		t.HPx = pickF(r, 20, 50, 100, 200)
	}
	if r.Intn(2) == 0 {
		t.Border = g.borderDecl()
	}
	if r.Intn(3) == 0 {
		t.Padding = g.sides(0, 1, 2, 3, 5)
	}
	switch r.Intn(4) {
	case 0:
		t.Margin = g.sides(0, 2, 4, 10)
	case 1:
		t.Margin = "0 auto"
	}
	if r.Intn(5) == 0 {
		t.Caption = pickS(r, "top", "bottom")
		t.CapText = g.words(1+r.Intn(3), 6)
		t.CapPad = pickF(r, 0, 2, 4)
	}

	// column elements
	if r.Intn(3) == 0 {
		ng := 1 + r.Intn(3)
		for k := 0; k < ng; k++ {
			switch r.Intn(3) {
			case 0:
				t.Cols = append(t.Cols, &colGroupSpec{Kind: "span", Span: 1 + r.Intn(3), Width: g.colWidth()})
			case 1:
				cg := &colGroupSpec{Kind: "cols"}
				nc := 1 + r.Intn(3)
				for q := 0; q < nc; q++ {
					sp := 1
					if r.Intn(4) == 0 {
						sp = 2
					}
					cg.Cols = append(cg.Cols, &colSpec{Span: sp, Width: g.colWidth()})
				}
				t.Cols = append(t.Cols, cg)
			default:
				t.Cols = append(t.Cols, &colGroupSpec{Kind: "bare", Width: g.colWidth()})
			}
		}
	}

	// row groups
	nrows := 1 + r.Intn(6)
	ncells := 1 + r.Intn(6)
	if nested {
		nrows = 1 + r.Intn(2)
		ncells = 1 + r.Intn(3)
	}
	type gk struct {
		kind string
		n    int
	}
	var plan []gk
	switch {
	case nested || nrows == 1 || r.Intn(2) == 0:
		plan = []gk{{"tbody", nrows}}
	default:
		rest := nrows
		if r.Intn(2) == 0 && rest > 1 {
			plan = append(plan, gk{"thead", 1})
			rest--
		}
		foot := false
		if r.Intn(3) == 0 && rest > 1 {
			foot = true
			rest--
		}
		if rest > 2 && r.Intn(2) == 0 {
			a := 1 + r.Intn(rest-1)
			plan = append(plan, gk{"tbody", a}, gk{"tbody", rest - a})
		} else {
			plan = append(plan, gk{"tbody", rest})
		}
		if foot {
			// the footer may come before the bodies in the source
			if r.Intn(2) == 0 {
				plan = append(plan, gk{"tfoot", 1})
			} else {
				plan = append([]gk{{"tfoot", 1}}, plan...)
			}
		}
	}
	for _, p := range plan {
		gs := &groupSpec{ID: g.id("g"), Kind: p.kind}
		for y := 0; y < p.n; y++ {
			rs := &rowSpec{ID: g.id("r")}
			if r.Intn(5) == 0 {
				rs.Height = pickF(r, 5, 20, 40)
			}
			if r.Intn(12) == 0 {
				rs.Avoid = true
			}
			n := ncells
			if r.Intn(3) == 0 {
				n = 1 + r.Intn(ncells) // missing cells
			}
			if r.Intn(25) == 0 {
				n = 0 // empty row
			}
			for x := 0; x < n; x++ {
				rs.Cells = append(rs.Cells, g.cell(t, nested))
			}
			gs.Rows = append(gs.Rows, rs)
		}
		t.Groups = append(t.Groups, gs)
	}
	// one table in six is drawn from the "every column constrained" family (constrained.go):
	// px table width, a px width on every column, no percentages
	// and one in six from the "percentage columns next to length columns" family (mixed.go):
	// every column sized, some by a percentage, the others by a px width, px or auto table width
	switch v := r.Intn(24); {
	case os.Getenv("VERIF_C13_FAMILY") == "mixed": // development only: every table from the family
		g.constrainMixed(t)
	case v < 4:
		g.constrainAll(t)
	case v < 8:
		g.constrainMixed(t)
	}
	g.restrict(t)
	return t
}

func (g *genState) cell(t *tableSpec, nested bool) *cellSpec {
	r := g.r
	c := &cellSpec{ID: g.id("c")}
	c.Colspan = g.spanAttr()
	c.Rowspan = g.spanAttr()
	switch r.Intn(4) {
	case 0:
		c.Padding = "0"
	case 1:
		c.Padding = g.sides(0, 1, 2, 3, 5, 8)
	default:
		c.Padding = px(pickF(r, 0, 1, 2, 3))
	}
	if r.Intn(3) != 0 {
		c.Border = g.borderDecl()
	}
	switch r.Intn(20) {
	case 0, 1, 2, 3, 4:
		c.Width = px(pickF(r, 5, 10, 20, 40, 80))
	case 5, 6, 7:
		c.Width = fmt.Sprintf("%g%%", pickF(r, 10, 25, 50))
	}
	if r.Intn(5) == 0 {
		c.Height = pickF(r, 5, 10, 30, 50)
	}
	if r.Intn(3) == 0 {
		c.VAlign = pickS(r, "top", "middle", "bottom", "baseline")
	}
	c.NoWrap = r.Intn(10) == 0
	kind := r.Intn(10)
	if nested && kind >= 8 {
		kind = 1
	}
	switch {
	case kind == 0:
		c.Kind = "empty"
	case kind <= 5:
		c.Kind = "words"
		c.Text = g.words(1+r.Intn(4), 6)
	case kind == 6:
		c.Kind = "lines"
		c.Text = g.words(1+r.Intn(2), 5)
		c.Text2 = g.words(1+r.Intn(2), 5)
	case kind == 7:
		c.Kind = "div"
		c.DivPL, c.DivPR = pickF(r, 0, 1, 2, 4), pickF(r, 0, 1, 2, 4)
		c.DivBW = pickF(r, 0, 1, 2)
		c.Text = g.words(1+r.Intn(3), 6)
	default:
		c.Kind = "table"
		c.Nested = g.table(true, t.Font)
	}
	return c
}
