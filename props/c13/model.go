package c13

import (
	"strconv"
	"strings"
)

// Reference slot assignment, written from HTML "forming a table" (WHATWG HTML §4.9.12, the
// algorithm CSS 2.1 §17.5 defers to for the source language) and CSS 2.1 §17.2/§17.5:
//   - the first thead is laid out first, the first tfoot last, other groups in source order;
//   - in each row the current cell is placed at the first column whose slot in this row is not
//     already covered by a cell growing down from an earlier row; it covers colspan columns;
//   - colspan: attribute parsed as a non-negative integer, absent/invalid/zero -> 1;
//   - rowspan: absent/invalid -> 1; 0 -> "to the end of the row group"; spans are clipped at the
//     end of the row group.
// It shares no code with the repository.

type slot struct {
	Group, Row int // group index in layout order, row index inside the group
	GX, CS, RS int
	// Dropped: the fixed layout determined fewer columns than this cell needs (CSS 2.1
	// §17.5.2.1: "additional columns may not be rendered").
	Dropped bool
	// Overlaps is set when the cell shares at least one slot with another cell (HTML "table
	// model error"); such cells are not constrained by the no-overlap relation.
	Overlaps bool
}

func parseSpan(attr string, zeroAllowed bool) int {
	s := strings.TrimSpace(attr)
	if s == "" {
		return 1
	}
	v, err := strconv.Atoi(s)
	if err != nil || v < 0 {
		return 1
	}
	if v == 0 && !zeroAllowed {
		return 1
	}
	return v
}

// layoutOrder returns the groups in the order CSS 2.1 §17.2 lays them out.
func layoutOrder(t *tableSpec) []*groupSpec {
	var head, foot *groupSpec
	var bodies []*groupSpec
	for _, g := range t.Groups {
		switch {
		case g.Kind == "thead" && head == nil:
			head = g
		case g.Kind == "tfoot" && foot == nil:
			foot = g
		default:
			bodies = append(bodies, g)
		}
	}
	var out []*groupSpec
	if head != nil {
		out = append(out, head)
	}
	out = append(out, bodies...)
	if foot != nil {
		out = append(out, foot)
	}
	return out
}

type refGrid struct {
	Order []*groupSpec
	Slots map[string]*slot // by cell id
	NCols int              // number of columns needed by cells (max gx+cs) before any fixed-layout cut
	// FixedCols is the column count of the fixed layout (only meaningful when fixed applies).
	FixedCols int
}

func fixedApplies(t *tableSpec) bool { return t.Layout == "fixed" && t.WKind != "auto" }

func buildRef(t *tableSpec) *refGrid {
	g := &refGrid{Order: layoutOrder(t), Slots: map[string]*slot{}}
	type key struct{ gi, y, x int }
	owner := map[key]string{}
	for gi, grp := range g.Order {
		n := len(grp.Rows)
		// down[y][x]: slot (x,y) covered by a cell that started in an earlier row
		down := make([]map[int]bool, n)
		for y := range down {
			down[y] = map[int]bool{}
		}
		for y, row := range grp.Rows {
			x := 0
			for _, c := range row.Cells {
				for down[y][x] {
					x++
				}
				cs := parseSpan(c.Colspan, false)
				rs := parseSpan(c.Rowspan, true)
				if rs == 0 || rs > n-y {
					rs = n - y
				}
				s := &slot{Group: gi, Row: y, GX: x, CS: cs, RS: rs}
				g.Slots[c.ID] = s
				for yy := y; yy < y+rs; yy++ {
					for xx := x; xx < x+cs; xx++ {
						if yy > y {
							down[yy][xx] = true
						}
						k := key{gi, yy, xx}
						if o, dup := owner[k]; dup {
							s.Overlaps = true
							g.Slots[o].Overlaps = true
						} else {
							owner[k] = c.ID
						}
					}
				}
				x += cs
				if x > g.NCols {
					g.NCols = x
				}
			}
		}
	}
	// fixed layout: columns = max(column elements, cells of the first row)
	first := 0
	if len(g.Order) > 0 && len(g.Order[0].Rows) > 0 {
		for _, c := range g.Order[0].Rows[0].Cells {
			first += parseSpan(c.Colspan, false)
		}
	}
	g.FixedCols = first
	if n := t.nColElems(); n > g.FixedCols {
		g.FixedCols = n
	}
	if fixedApplies(t) {
		for _, grp := range g.Order {
			for _, row := range grp.Rows {
				for _, c := range row.Cells {
					s := g.Slots[c.ID]
					if s.GX >= g.FixedCols {
						s.Dropped = true
					} else if s.GX+s.CS > g.FixedCols {
						s.CS = g.FixedCols - s.GX
					}
				}
			}
		}
	}
	return g
}

// disjoint reports whether two cells cover no common slot.
func disjoint(a, b *slot) bool {
	if a.Group != b.Group {
		return true
	}
	if a.Row+a.RS <= b.Row || b.Row+b.RS <= a.Row {
		return true
	}
	return a.GX+a.CS <= b.GX || b.GX+b.CS <= a.GX
}
