package c13

import (
	"fmt"
	"strings"
)

// finalize computes the derived fields of a description (content minima, column-element counts)
// and the HTML text.  It is a pure function of the description.
func finalize(c *caseIn) {
	var sb strings.Builder
	fmt.Fprintf(&sb, "<!DOCTYPE html><html><head><style>@page{size:3000px %gpx;margin:0}html,body{margin:0;padding:0}body{width:%gpx;font-family:Ahem;font-size:10px;line-height:1}p{margin:5px 0}</style></head><body>", c.PageH, c.BodyW)
	for _, t := range c.Tables {
		if t.Before != "" {
			fmt.Fprintf(&sb, "<p>%s</p>", t.Before)
		}
		writeTable(&sb, t)
	}
	sb.WriteString("</body></html>")
	c.HTML = sb.String()
}

func longestWord(s string) int {
	m := 0
	for _, w := range strings.Fields(s) {
		if len(w) > m {
			m = len(w)
		}
	}
	return m
}

func lineLen(s string) int { return len(strings.Join(strings.Fields(s), " ")) }

func maxI(a, b int) int {
	if a > b {
		return a
	}
	return b
}

func writeTable(sb *strings.Builder, t *tableSpec) {
	var st []string
	st = append(st, fmt.Sprintf("font-size:%gpx", t.Font))
	st = append(st, "table-layout:"+t.Layout)
	if t.Collapse {
		st = append(st, "border-collapse:collapse")
	} else {
		st = append(st, "border-collapse:separate")
	}
	if t.OneSpacing && t.SX == t.SY {
		st = append(st, "border-spacing:"+px(t.SX))
	} else {
		st = append(st, "border-spacing:"+px(t.SX)+" "+px(t.SY))
	}
	switch t.WKind {
	case "px":
		st = append(st, "width:"+px(t.WVal))
	case "pct":
		st = append(st, fmt.Sprintf("width:%g%%", t.WVal))
	default:
		st = append(st, "width:auto")
	}
	st = append(st, "box-sizing:"+t.BoxSizing)
	if t.HPx > 0 {
		st = append(st, "height:"+px(t.HPx))
	}
	st = append(st, "direction:"+t.Dir)
	if t.Border != "" {
		st = append(st, t.Border)
	} else {
		st = append(st, "border:0 none")
	}
	if t.Padding != "" {
		st = append(st, "padding:"+t.Padding)
	} else {
		st = append(st, "padding:0")
	}
	if t.Margin != "" {
		st = append(st, "margin:"+t.Margin)
	} else {
		st = append(st, "margin:0")
	}
	fmt.Fprintf(sb, "<table id=%s style=\"%s\">", t.ID, strings.Join(st, ";"))
	if t.Caption != "" {
		fmt.Fprintf(sb, "<caption style=\"caption-side:%s;padding:%s\">%s</caption>", t.Caption, px(t.CapPad), t.CapText)
	}
	wattr := func(w string) string {
		if w == "" {
			return ""
		}
		return fmt.Sprintf(" style=\"width:%s\"", w)
	}
	t.NColElems = 0
	for _, cg := range t.Cols {
		switch cg.Kind {
		case "span":
			fmt.Fprintf(sb, "<colgroup span=%d%s></colgroup>", cg.Span, wattr(cg.Width))
			t.NColElems += cg.Span
		case "cols":
			sb.WriteString("<colgroup>")
			for _, c := range cg.Cols {
				if c.Span > 1 {
					fmt.Fprintf(sb, "<col span=%d%s>", c.Span, wattr(c.Width))
					t.NColElems += c.Span
				} else {
					fmt.Fprintf(sb, "<col%s>", wattr(c.Width))
					t.NColElems++
				}
			}
			sb.WriteString("</colgroup>")
		default:
			fmt.Fprintf(sb, "<col%s>", wattr(cg.Width))
			t.NColElems++
		}
	}
	for _, g := range t.Groups {
		fmt.Fprintf(sb, "<%s id=%s>", g.Kind, g.ID)
		for _, r := range g.Rows {
			var rst []string
			if r.Height > 0 {
				rst = append(rst, "height:"+px(r.Height))
			}
			if r.Avoid {
				rst = append(rst, "break-inside:avoid")
			}
			if len(rst) > 0 {
				fmt.Fprintf(sb, "<tr id=%s style=\"%s\">", r.ID, strings.Join(rst, ";"))
			} else {
				fmt.Fprintf(sb, "<tr id=%s>", r.ID)
			}
			for _, c := range r.Cells {
				writeCell(sb, t, c)
			}
			sb.WriteString("</tr>")
		}
		fmt.Fprintf(sb, "</%s>", g.Kind)
	}
	sb.WriteString("</table>")
}

func writeCell(sb *strings.Builder, t *tableSpec, c *cellSpec) {
	attrs := ""
	if c.Colspan != "" {
		attrs += " colspan=" + c.Colspan
	}
	if c.Rowspan != "" {
		attrs += " rowspan=" + c.Rowspan
	}
	var st []string
	if c.Padding != "" {
		st = append(st, "padding:"+c.Padding)
	} else {
		st = append(st, "padding:0")
	}
	if c.Border != "" {
		st = append(st, c.Border)
	} else {
		st = append(st, "border:0 none")
	}
	if c.Width != "" {
		st = append(st, "width:"+c.Width)
	}
	if c.Height > 0 {
		st = append(st, "height:"+px(c.Height))
	}
	if c.VAlign != "" {
		st = append(st, "vertical-align:"+c.VAlign)
	}
	if c.NoWrap {
		st = append(st, "white-space:nowrap")
	}
	fmt.Fprintf(sb, "<td id=%s%s style=\"%s\">", c.ID, attrs, strings.Join(st, ";"))
	c.MinC = plainMinC(t.Font, c)
	switch c.Kind {
	case "words":
		sb.WriteString(c.Text)
	case "lines":
		sb.WriteString(c.Text + "<br>" + c.Text2)
	case "div":
		fmt.Fprintf(sb, "<div style=\"padding:0 %s 0 %s;border:%s solid black;margin:0\">%s</div>", px(c.DivPR), px(c.DivPL), px(c.DivBW), c.Text)
	case "table":
		if c.Nested != nil {
			writeTable(sb, c.Nested)
			// weak but valid lower bound: the widest unbreakable content of any nested cell
			// (a nested table in the fixed layout ignores its contents: no bound)
			if fixedApplies(c.Nested) {
				break
			}
			for _, gs := range c.Nested.Groups {
				for _, rs := range gs.Rows {
					for _, nc := range rs.Cells {
						if nc.MinC > c.MinC {
							c.MinC = nc.MinC
						}
					}
				}
			}
		}
	}
	sb.WriteString("</td>")
}
