package c13

import (
	"fmt"
	"math"
	"strings"
)

// The "percentage columns next to length columns" family.
//
// A table of the automatic layout in which EVERY column is sized -- some by a percentage, the
// others by a px width -- and none is left to absorb free space.  When the table is wider than its
// columns ask for, the surplus cannot go to an unsized column: the width distribution has to
// reconcile the percentages with the lengths (webrender: "fourth group" of distributeExcessWidth,
// which brings the percentage columns to the share that lets the length columns keep theirs, and
// hands what is left to the last resort of autoTableLayout).  Whatever it decides, the relations of
// the property must hold: the columns plus spacing exactly fill the used width, the used width is
// not below the specified one, every cell covers its columns and holds its content minimum.
//
// constrainMixed produces that family on purpose.  It stays outside the open findings:
//   - F8 (a table with a PERCENTAGE width whose columns are all sized is shrunk below that width):
//     the table width is a px width (three in four) or auto;
//   - F8b (a percentage column is reduced below its min-content width "to respect the
//     percentage"): the contents of the cells of a percentage column fit in the share the column
//     keeps when the length columns get exactly their declared widths,
//     pct_i / (100 - sum pct) * sum(declared px of the length columns)      (mixedFits);
//     the column can be reduced to that share, never below it.

// colDecl is what the description declares for one grid column (column elements, column groups
// and single-column cells originating in it).
type colDecl struct {
	any   bool    // some width declaration applies to the column alone
	pct   float64 // largest percentage declared (0: none)
	px    float64 // largest px width declared
	hasPx bool
	// eff is the percentage that counts for the column once the percentages of the table are
	// capped at 100 % in column order (css-tables-3 §"intrinsic percentage width of a column":
	// min(percentage, 100% - sum of the earlier columns)).
	eff float64
}

func columnDecls(t *tableSpec, ref *refGrid, n int) []colDecl {
	refs := widthRefs(t, ref)
	out := make([]colDecl, n)
	cum := 0.0
	for x := 0; x < n; x++ {
		d := &out[x]
		for _, p := range refs[x] {
			d.any = true
			if strings.HasSuffix(*p, "%") {
				var v float64
				fmt.Sscanf(*p, "%g%%", &v)
				if v > d.pct {
					d.pct = v
				}
			} else if v, ok := pxOf(*p); ok {
				d.hasPx = true
				if v > d.px {
					d.px = v
				}
			}
		}
		d.eff = math.Max(0, math.Min(d.pct, 100-cum))
		cum += d.pct
	}
	return out
}

// mixedShape classifies the columns of a table: mixed is true when every column carries a width
// declaration of its own, at least one column counts as a percentage column and every other column
// carries a px width (at least one of them).  sumEff is the sum of the effective percentages and
// fixedPx the sum of the px widths declared on the length columns.
func mixedShape(decls []colDecl) (mixed bool, sumEff, fixedPx float64) {
	npct, npx := 0, 0
	for _, d := range decls {
		if !d.any {
			return false, 0, 0
		}
		if d.eff > 0 {
			npct++
			sumEff += d.eff
			continue
		}
		if !d.hasPx {
			// a percentage capped to nothing and no length: the column is not sized at all
			return false, 0, 0
		}
		npx++
		fixedPx += d.px
	}
	return npct > 0 && npx > 0, sumEff, fixedPx
}

// pctShare is the width a percentage column keeps when the length columns of a mixed table get
// exactly their declared widths: the smallest width the reconciliation of percentages and lengths
// can give it.  +Inf when the percentages reach 100 % (then the table has no surplus to
// reconcile: the percentage columns alone ask for its whole width).
func pctShare(d colDecl, sumEff, fixedPx float64) float64 {
	if sumEff >= 100 {
		return math.Inf(1)
	}
	return d.eff / (100 - sumEff) * fixedPx
}

// outerMin is the exact outer min-content width of a cell without nested table: content minimum
// plus declared horizontal padding plus borders (collapsing model: at most half of the widest
// border of the table on each side).
func outerMin(t *tableSpec, c *cellSpec) float64 {
	need := plainMinC(t.Font, c)
	pl, prr := sidesLR(c.Padding)
	need += pl + prr
	if t.Collapse {
		need += maxBorder(t)
	} else {
		bl, br := borderLR(c.Border)
		need += bl + br
	}
	return need
}

const shareMargin = 0.5 // px kept between a cell's outer minimum and its column's share

// mixedFits reports whether the table, whose columns are all sized and include a percentage
// column, is outside the open finding F8b: no cell of a percentage column needs more than the
// share the column keeps (pctShare).  A table without any length column (percentages only) is not
// admitted.
func mixedFits(t *tableSpec, ref *refGrid) bool {
	n := ref.NCols
	decls := columnDecls(t, ref, n)
	mixed, sumEff, fixedPx := mixedShape(decls)
	if !mixed {
		return false
	}
	for _, gs := range t.Groups {
		for _, rs := range gs.Rows {
			for _, c := range rs.Cells {
				s := ref.Slots[c.ID]
				if s == nil || s.Dropped || s.CS != 1 || s.GX >= n || decls[s.GX].eff == 0 {
					continue
				}
				if c.Kind == "table" {
					return false
				}
				if outerMin(t, c) > pctShare(decls[s.GX], sumEff, fixedPx)-shareMargin {
					return false
				}
			}
		}
	}
	return true
}

// constrainMixed turns t into a member of the family.  It is applied before restrict().
func (g *genState) constrainMixed(t *tableSpec) {
	r := g.r
	t.Layout = "auto"
	if r.Intn(4) == 0 {
		t.WKind, t.WVal = "auto", 0
	} else {
		t.WKind, t.WVal = "px", pickF(r, 100, 150, 200, 300, 500, 800)
	}
	ref := buildRef(t)
	n := ref.NCols
	if n < 2 {
		g.constrainAll(t)
		return
	}
	singles := map[int][]*cellSpec{}
	for _, gs := range t.Groups {
		for _, rs := range gs.Rows {
			for _, c := range rs.Cells {
				c.Width = ""
				s := ref.Slots[c.ID]
				if s.CS == 1 {
					singles[s.GX] = append(singles[s.GX], c)
					continue
				}
				// column-spanning cell: mostly short contents, so that its minimum fits in the
				// declared widths of the column elements it spans (else the F6 restriction frees
				// one of its columns and the table leaves the family)
				if r.Intn(4) != 0 {
					c.Kind, c.Text, c.Text2, c.Nested, c.NoWrap = "words", g.word(2), "", nil, false
					c.Padding = px(pickF(r, 0, 1, 2))
				}
			}
		}
	}
	// which columns are percentage columns: at least one, at least one length column
	isPct := make([]bool, n)
	k := 1 + r.Intn(n-1)
	for _, x := range r.Perm(n)[:k] {
		isPct[x] = true
	}
	budget := 95.0 // the percentages stay below 100 in seven tables out of eight
	if r.Intn(8) == 0 {
		budget = 1000
	}
	colW := make([]string, n)
	for x := 0; x < n; x++ {
		var w string
		onCell := false
		if isPct[x] {
			p := pickF(r, 10, 20, 25, 30, 40, 50)
			for p > budget && p > 10 {
				p = pickF(r, 10, 20, 25)
			}
			if p > budget {
				p = 5
			}
			budget -= p
			w = fmt.Sprintf("%g%%", p)
			onCell = r.Intn(2) == 0
		} else {
			w = px(pickF(r, 10, 20, 40, 80, 160))
			onCell = r.Intn(3) == 0
		}
		if cs := singles[x]; onCell && len(cs) > 0 {
			cs[r.Intn(len(cs))].Width = w
		} else {
			colW[x] = w
		}
	}
	// column elements covering exactly the n columns; a <colgroup span=k> only over columns that
	// share the same declaration
	t.Cols = nil
	for x := 0; x < n; {
		k := 1
		for x+k < n && k < 3 && r.Intn(2) == 0 {
			k++
		}
		same := true
		for i := x + 1; i < x+k; i++ {
			if colW[i] != colW[x] {
				same = false
			}
		}
		switch c := r.Intn(3); {
		case c == 0 && same:
			t.Cols = append(t.Cols, &colGroupSpec{Kind: "span", Span: k, Width: colW[x]})
		case c <= 1:
			cg := &colGroupSpec{Kind: "cols"}
			for i := x; i < x+k; i++ {
				cg.Cols = append(cg.Cols, &colSpec{Span: 1, Width: colW[i]})
			}
			t.Cols = append(t.Cols, cg)
		default:
			k = 1
			t.Cols = append(t.Cols, &colGroupSpec{Kind: "bare", Width: colW[x]})
		}
		x += k
	}
	// contents of the percentage columns: keep what fits in the column's share, shorten the rest
	decls := columnDecls(t, ref, n)
	mixed, sumEff, fixedPx := mixedShape(decls)
	if !mixed {
		return
	}
	for x := 0; x < n; x++ {
		if decls[x].eff == 0 {
			continue
		}
		share := pctShare(decls[x], sumEff, fixedPx) - shareMargin
		for _, c := range singles[x] {
			if c.Kind != "table" && outerMin(t, c) <= share {
				continue
			}
			c.Kind, c.Text, c.Text2, c.Nested, c.NoWrap = "empty", "", "", nil, false
			c.Padding = verticalOnly(c.Padding)
			c.Border = ""
			room := share - outerMin(t, c)
			if l := int(math.Floor(room / t.Font)); l >= 1 {
				if l > 6 {
					l = 6
				}
				c.Kind, c.Text = "words", g.word(l)
				if r.Intn(3) == 0 && room-float64(len(c.Text))*t.Font >= 2 {
					c.Padding = "0 1px"
				}
			}
		}
	}
}

// mixedMaxContentUpper returns an upper bound of the sum of the widths the columns of a mixed
// table ask for when the width to assign is `assignable`: per percentage column the larger of its
// percentage of the assignable width and its max-content bound, per length column its max-content
// bound (declared width, outer max-content of its single-column cells), plus the outer
// max-content width of every column-spanning cell.  known is false when a cell holds a nested
// table.  When assignable exceeds the bound, the table has a surplus that no unsized column can
// absorb.
func mixedMaxContentUpper(t *tableSpec, ref *refGrid, decls []colDecl, assignable float64) (bound float64, known bool) {
	declared := make([]float64, len(decls))
	for i, d := range decls {
		declared[i] = d.px
	}
	n := len(decls)
	col := append([]float64{}, declared...)
	spans := 0.0
	for _, gs := range t.Groups {
		for _, rs := range gs.Rows {
			for _, c := range rs.Cells {
				s := ref.Slots[c.ID]
				if s == nil || s.Dropped {
					continue
				}
				if c.Kind == "table" {
					return 0, false
				}
				outer := outerMax(t, c)
				if s.CS == 1 && s.GX < n {
					if outer > col[s.GX] {
						col[s.GX] = outer
					}
				} else {
					spans += outer
				}
			}
		}
	}
	bound = spans
	for i, d := range decls {
		v := col[i]
		if share := d.eff / 100 * assignable; d.eff > 0 && share > v {
			v = share
		}
		bound += v
	}
	return bound, true
}

// outerMax is an upper bound of the outer max-content width of a cell without nested table.
func outerMax(t *tableSpec, c *cellSpec) float64 {
	font := t.Font
	line := func(x string) float64 { return float64(lineLen(x)) * font }
	content := 0.0
	switch c.Kind {
	case "words":
		content = line(c.Text)
	case "lines":
		content = line(c.Text)
		if v := line(c.Text2); v > content {
			content = v
		}
	case "div":
		content = line(c.Text) + c.DivPL + c.DivPR + 2*c.DivBW
	}
	if v, ok := pxOf(c.Width); ok && v > content {
		content = v
	}
	pl, prr := sidesLR(c.Padding)
	outer := content + pl + prr
	if t.Collapse {
		outer += maxBorder(t)
	} else {
		bl, br := borderLR(c.Border)
		outer += bl + br
	}
	return outer
}
