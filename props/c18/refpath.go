package c18

import (
	"fmt"
	"math"
)

// ---------------------------------------------------------------------------------------------
// Reference interpreter of SVG path data, written from SVG 1.1 §8.3 / SVG 2 §9.3 and the
// implementation notes (SVG 1.1 appendix F.6, SVG 2 §9.5.1 / B.2).  It works on the generator's
// command AST — it never parses text — and shares no code with /repo.
// ---------------------------------------------------------------------------------------------

// Cmd is one path command of the generator AST: a letter and its argument groups (implicit
// repetition = more than one group).  Z has no group.
type Cmd struct {
	L string      `json:"l"`
	A [][]float64 `json:"a,omitempty"`
}

func arity(letter byte) int {
	switch letter | 0x20 {
	case 'm', 'l', 't':
		return 2
	case 'h', 'v':
		return 1
	case 'c':
		return 6
	case 's', 'q':
		return 4
	case 'a':
		return 7
	case 'z':
		return 0
	}
	return -1
}

// seg is one expected operation in absolute coordinates.
// K: 'M','L','C','Z' as for op;  'A' elliptical arc from P0 to P[0] (endpoint parameterisation);
// 'O' one full positive-angle turn around the axis-aligned ellipse of centre P[1], radii Rx,Ry,
// starting and ending at P[0].
type seg struct {
	K            byte
	P            [3]pt
	P0           pt
	Rx, Ry, Phi  float64 // Phi in degrees
	Large, Sweep bool
	Cmd          int // index of the source command, for messages
}

func (s seg) String() string {
	switch s.K {
	case 'M', 'L':
		return fmt.Sprintf("%c%v", s.K, s.P[0])
	case 'C':
		return fmt.Sprintf("C%v%v%v", s.P[0], s.P[1], s.P[2])
	case 'A':
		return fmt.Sprintf("A[%v→%v r=(%.5g,%.5g) φ=%.5g large=%v sweep=%v]", s.P0, s.P[0], s.Rx, s.Ry, s.Phi, s.Large, s.Sweep)
	case 'O':
		return fmt.Sprintf("O[centre %v r=(%.5g,%.5g) from %v]", s.P[1], s.Rx, s.Ry, s.P[0])
	}
	return string(s.K)
}

func (s seg) end() pt {
	if s.K == 'C' {
		return s.P[2]
	}
	return s.P[0]
}

// pathState is the interpreter state; exported to the generator so that it can keep arcs
// non-degenerate (it needs the current point).
type pathState struct {
	cur, start pt
	lastCubic  pt   // second control point of the previous C/S
	lastQuad   pt   // control point of the previous Q/T
	prev       byte // lower-case letter of the previous command ('c','s','q','t' matter), 0 at start
	needMove   bool // a closepath was the last thing: the next drawing command opens a sub-path at start
	open       bool // a sub-path exists
	segs       []seg
}

// step interprets one argument group of command `letter`.
func (st *pathState) step(letter byte, g []float64, cmdIndex int) error {
	rel := letter >= 'a'
	lc := letter | 0x20
	if len(g) != arity(letter) {
		return fmt.Errorf("command %c: group of %d numbers", letter, len(g))
	}
	abs := func(x, y float64) pt {
		if rel {
			return pt{st.cur.X + x, st.cur.Y + y}
		}
		return pt{x, y}
	}
	emit := func(s seg) {
		s.Cmd = cmdIndex
		st.segs = append(st.segs, s)
	}
	begin := func() error {
		if !st.open {
			return fmt.Errorf("command %c before any moveto", letter)
		}
		if st.needMove {
			emit(seg{K: 'M', P: [3]pt{st.start}})
			st.needMove = false
		}
		return nil
	}
	switch lc {
	case 'm':
		p := abs(g[0], g[1])
		emit(seg{K: 'M', P: [3]pt{p}})
		st.cur, st.start = p, p
		st.open, st.needMove = true, false
	case 'z':
		if !st.open {
			return fmt.Errorf("closepath before any moveto")
		}
		emit(seg{K: 'Z'})
		st.cur = st.start
		st.needMove = true
	case 'l':
		if err := begin(); err != nil {
			return err
		}
		p := abs(g[0], g[1])
		emit(seg{K: 'L', P: [3]pt{p}})
		st.cur = p
	case 'h':
		if err := begin(); err != nil {
			return err
		}
		p := pt{g[0], st.cur.Y}
		if rel {
			p.X += st.cur.X
		}
		emit(seg{K: 'L', P: [3]pt{p}})
		st.cur = p
	case 'v':
		if err := begin(); err != nil {
			return err
		}
		p := pt{st.cur.X, g[0]}
		if rel {
			p.Y += st.cur.Y
		}
		emit(seg{K: 'L', P: [3]pt{p}})
		st.cur = p
	case 'c':
		if err := begin(); err != nil {
			return err
		}
		c1, c2, p := abs(g[0], g[1]), abs(g[2], g[3]), abs(g[4], g[5])
		emit(seg{K: 'C', P: [3]pt{c1, c2, p}})
		st.lastCubic, st.cur = c2, p
	case 's':
		if err := begin(); err != nil {
			return err
		}
		c1 := st.cur
		if st.prev == 'c' || st.prev == 's' {
			c1 = st.cur.mul(2).sub(st.lastCubic)
		}
		c2, p := abs(g[0], g[1]), abs(g[2], g[3])
		emit(seg{K: 'C', P: [3]pt{c1, c2, p}})
		st.lastCubic, st.cur = c2, p
	case 'q', 't':
		if err := begin(); err != nil {
			return err
		}
		var q, p pt
		if lc == 'q' {
			q, p = abs(g[0], g[1]), abs(g[2], g[3])
		} else {
			q = st.cur
			if st.prev == 'q' || st.prev == 't' {
				q = st.cur.mul(2).sub(st.lastQuad)
			}
			p = abs(g[0], g[1])
		}
		// exact degree elevation
		c1 := st.cur.add(q.sub(st.cur).mul(2.0 / 3))
		c2 := p.add(q.sub(p).mul(2.0 / 3))
		emit(seg{K: 'C', P: [3]pt{c1, c2, p}})
		st.lastQuad, st.cur = q, p
	case 'a':
		if !st.open {
			return fmt.Errorf("command %c before any moveto", letter)
		}
		p := abs(g[5], g[6])
		rx, ry := math.Abs(g[0]), math.Abs(g[1])
		if p == st.cur {
			// F.6.2: identical end points: "omitting the elliptical arc segment entirely"
			break
		}
		if err := begin(); err != nil {
			return err
		}
		if rx == 0 || ry == 0 {
			emit(seg{K: 'L', P: [3]pt{p}})
		} else {
			emit(seg{K: 'A', P: [3]pt{p}, P0: st.cur, Rx: rx, Ry: ry, Phi: g[2], Large: g[3] != 0, Sweep: g[4] != 0})
		}
		st.cur = p
	default:
		return fmt.Errorf("unknown command %c", letter)
	}
	st.prev = lc
	return nil
}

// interpret runs the whole AST.
func interpret(cmds []Cmd) ([]seg, error) {
	var st pathState
	for i, c := range cmds {
		if len(c.L) != 1 || arity(c.L[0]) < 0 {
			return nil, fmt.Errorf("bad command %q", c.L)
		}
		letter := c.L[0]
		if arity(letter) == 0 {
			if err := st.step(letter, nil, i); err != nil {
				return nil, err
			}
			continue
		}
		if len(c.A) == 0 {
			return nil, fmt.Errorf("command %c without arguments", letter)
		}
		for k, g := range c.A {
			l := letter
			if k > 0 && (letter == 'M' || letter == 'm') {
				l = letter - 'M' + 'L' // extra pairs of a moveto are linetos of the same relativity
			}
			if err := st.step(l, g, i); err != nil {
				return nil, err
			}
		}
	}
	return st.segs, nil
}

// arcCentre converts the endpoint parameterisation to the centre parameterisation (SVG 1.1 F.6.5,
// with the radius correction of F.6.6).  theta1/dtheta are in radians in the ellipse's own frame.
type arcCentre struct {
	C              pt
	Rx, Ry         float64 // corrected radii
	Phi            float64 // radians
	Theta1, DTheta float64
	Scaled         bool // radii were too small and have been scaled up (the arc is half the ellipse)
}

func centreOf(s seg) arcCentre {
	phi := s.Phi * math.Pi / 180
	cos, sin := math.Cos(phi), math.Sin(phi)
	x1, y1, x2, y2 := s.P0.X, s.P0.Y, s.P[0].X, s.P[0].Y
	dx, dy := (x1-x2)/2, (y1-y2)/2
	x1p := cos*dx + sin*dy
	y1p := -sin*dx + cos*dy
	rx, ry := math.Abs(s.Rx), math.Abs(s.Ry)
	out := arcCentre{Phi: phi}
	lambda := x1p*x1p/(rx*rx) + y1p*y1p/(ry*ry)
	if lambda > 1 {
		k := math.Sqrt(lambda)
		rx, ry = rx*k, ry*k
		out.Scaled = lambda > 1+1e-9
	}
	num := rx*rx*ry*ry - rx*rx*y1p*y1p - ry*ry*x1p*x1p
	den := rx*rx*y1p*y1p + ry*ry*x1p*x1p
	coef := 0.0
	if num > 0 && den > 0 {
		coef = math.Sqrt(num / den)
	}
	if s.Large == s.Sweep {
		coef = -coef
	}
	cxp := coef * rx * y1p / ry
	cyp := -coef * ry * x1p / rx
	out.C = pt{cos*cxp - sin*cyp + (x1+x2)/2, sin*cxp + cos*cyp + (y1+y2)/2}
	ux, uy := (x1p-cxp)/rx, (y1p-cyp)/ry
	vx, vy := (-x1p-cxp)/rx, (-y1p-cyp)/ry
	out.Theta1 = math.Atan2(uy, ux)
	d := math.Atan2(ux*vy-uy*vx, ux*vx+uy*vy)
	if !s.Sweep && d > 0 {
		d -= 2 * math.Pi
	} else if s.Sweep && d < 0 {
		d += 2 * math.Pi
	}
	out.DTheta = d
	out.Rx, out.Ry = rx, ry
	return out
}

// unit maps a point into the frame where the ellipse is the unit circle.
func (a arcCentre) unit(p pt) pt {
	cos, sin := math.Cos(a.Phi), math.Sin(a.Phi)
	d := p.sub(a.C)
	return pt{(cos*d.X + sin*d.Y) / a.Rx, (-sin*d.X + cos*d.Y) / a.Ry}
}

func bezier(p0 pt, c op, t float64) pt {
	u := 1 - t
	a, b, cc, d := u*u*u, 3*u*u*t, 3*u*t*t, t*t*t
	return pt{a*p0.X + b*c.P[0].X + cc*c.P[1].X + d*c.P[2].X, a*p0.Y + b*c.P[0].Y + cc*c.P[1].Y + d*c.P[2].Y}
}

func near(a, b float64) bool {
	return math.Abs(a-b) <= 0.02+1e-4*math.Max(math.Abs(a), math.Abs(b))
}

func nearPt(a, b pt) bool { return near(a.X, b.X) && near(a.Y, b.Y) }

// followArc consumes the chain of cubics obs[i:] that must trace the elliptical arc described by
// (centre parameterisation a, total signed angle want, end point end) starting at point p0.
// Every cubic is sampled at 8 parameters: each sample must satisfy the ellipse equation within
// curveTol (relative to the radii), and must advance in the direction of `want`.
func followArc(a arcCentre, want float64, p0, end pt, obs []op, i int, curveTol float64) (next int, cubics int, msg string) {
	if !nearPt(p0, a.C.add(rot(pt{a.Rx * math.Cos(a.Theta1), a.Ry * math.Sin(a.Theta1)}, a.Phi))) {
		// the reference itself is inconsistent: never blame the code under test for that
		return i, 0, "internal: reference arc does not start at the current point"
	}
	sign := 1.0
	if want < 0 {
		sign = -1
	}
	acc := 0.0
	prevU := a.unit(p0)
	cur := p0
	const angEps = 2e-3
	for math.Abs(acc) < math.Abs(want)-angEps {
		if i >= len(obs) || obs[i].K != 'C' {
			got := "end of path"
			if i < len(obs) {
				got = obs[i].String()
			}
			return i, cubics, fmt.Sprintf("arc chain stops after sweeping %.5f rad of %.5f rad (next operation: %s)", acc, want, got)
		}
		c := obs[i]
		for k := 0; k < 3; k++ {
			if !c.P[k].finite() {
				return i, cubics, fmt.Sprintf("non-finite coordinate in arc cubic %s", c)
			}
		}
		turned := 0.0
		for k := 1; k <= 8; k++ {
			p := bezier(cur, c, float64(k)/8)
			u := a.unit(p)
			r := math.Hypot(u.X, u.Y)
			if math.Abs(r-1) > curveTol {
				return i, cubics, fmt.Sprintf("arc cubic #%d %s (from %v) at t=%d/8 is at %v: ellipse equation gives radius ratio %.5f (centre %v, radii %.5g,%.5g, rotation %.5g rad), tolerance %.4g",
					cubics+1, c, cur, k, p, r, a.C, a.Rx, a.Ry, a.Phi, curveTol)
			}
			step := math.Atan2(prevU.X*u.Y-prevU.Y*u.X, prevU.X*u.X+prevU.Y*u.Y)
			if step*sign < -1e-4 {
				return i, cubics, fmt.Sprintf("arc cubic #%d %s (from %v) turns by %.5f rad at t=%d/8, against the sweep direction (expected total %.5f rad)", cubics+1, c, cur, step, k, want)
			}
			turned += step
			prevU = u
		}
		if math.Abs(turned) > math.Pi/2+0.01 {
			return i, cubics, fmt.Sprintf("arc cubic #%d %s spans %.4f rad", cubics+1, c, turned)
		}
		acc += turned
		cur = c.P[2]
		i++
		cubics++
	}
	if math.Abs(acc) > math.Abs(want)+angEps {
		return i, cubics, fmt.Sprintf("arc chain sweeps %.5f rad, expected %.5f rad", acc, want)
	}
	if !nearPt(cur, end) {
		return i, cubics, fmt.Sprintf("arc chain ends at %v, expected end point %v", cur, end)
	}
	return i, cubics, ""
}

func rot(p pt, phi float64) pt {
	c, s := math.Cos(phi), math.Sin(phi)
	return pt{c*p.X - s*p.Y, s*p.X + c*p.Y}
}

// matchStats is what a comparison observed.
type matchStats struct {
	Ops, Arcs, ArcCubics, ScaledArcs int
}

// matchPath compares expected segments with observed (normalised) operations.
func matchPath(exp []seg, obs []op, curveTol float64) (matchStats, string) {
	var ms matchStats
	i := 0
	var cur pt
	ctx := func(k int) string {
		return fmt.Sprintf(" [expected op %d of %d, observed op %d of %d]", k+1, len(exp), i+1, len(obs))
	}
	for k, s := range exp {
		switch s.K {
		case 'M', 'L', 'C', 'Z':
			if i >= len(obs) {
				return ms, fmt.Sprintf("observed path ends early: expected %s%s", s, ctx(k))
			}
			o := obs[i]
			if o.K != s.K {
				return ms, fmt.Sprintf("expected %s, observed %s%s", s, o, ctx(k))
			}
			n := 1
			if s.K == 'C' {
				n = 3
			} else if s.K == 'Z' {
				n = 0
			}
			for j := 0; j < n; j++ {
				if !o.P[j].finite() || !nearPt(o.P[j], s.P[j]) {
					return ms, fmt.Sprintf("expected %s, observed %s%s", s, o, ctx(k))
				}
			}
			if s.K != 'Z' {
				cur = o.end()
			}
			i++
		case 'A':
			a := centreOf(s)
			if a.Scaled {
				ms.ScaledArcs++
			}
			// flags/geometry cross-check of the reference itself (design: > π iff large-arc)
			if !a.Scaled && math.Abs(math.Abs(a.DTheta)-math.Pi) > 1e-2 && (math.Abs(a.DTheta) > math.Pi) != s.Large {
				return ms, "internal: reference arc violates the large-arc rule"
			}
			next, n, msg := followArc(a, a.DTheta, cur, s.P[0], obs, i, curveTol)
			ms.ArcCubics += n
			if msg != "" {
				return ms, fmt.Sprintf("%s: %s%s", s, msg, ctx(k))
			}
			ms.Arcs++
			i = next
			cur = s.P[0]
		case 'O':
			a := arcCentre{C: s.P[1], Rx: s.Rx, Ry: s.Ry}
			u := a.unit(s.P[0])
			a.Theta1 = math.Atan2(u.Y, u.X)
			next, n, msg := followArc(a, 2*math.Pi, cur, s.P[0], obs, i, curveTol)
			ms.ArcCubics += n
			if msg != "" {
				return ms, fmt.Sprintf("%s: %s%s", s, msg, ctx(k))
			}
			ms.Arcs++
			i = next
			cur = s.P[0]
		}
		ms.Ops++
	}
	if i != len(obs) {
		return ms, fmt.Sprintf("observed path has %d extra operation(s) starting with %s", len(obs)-i, obs[i])
	}
	return ms, ""
}

// segsString renders expected segments for messages.
func segsString(ss []seg) string {
	out := ""
	for i, s := range ss {
		if i > 0 {
			out += " "
		}
		if i >= 60 {
			out += fmt.Sprintf("… (%d)", len(ss))
			break
		}
		out += s.String()
	}
	return out
}
