package c18

import (
	"math"
	"math/rand"
	"strconv"
	"strings"
)

// ---------------------------------------------------------------------------------------------
// Text side of the generator: renders numbers and path data in the many spellings the SVG number
// and path grammars allow, so that webrender's scanner is exercised while the reference only
// ever sees the AST values.
// ---------------------------------------------------------------------------------------------

// syntax switches.  All three forms were defective on the snapshot tree (findings/C18/number-*.json,
// repaired since) and are on in the random generator.
type numSyntax struct {
	UpperE      bool // exponent written with 'E'
	PlusExp     bool // exponent with an explicit '+' sign
	DotAfterExp bool // a '.'-started number glued to a number that ends with an exponent: 1e1.5
}

var fullSyntax = numSyntax{UpperE: true, PlusExp: true, DotAfterExp: true}

// fmtNumber renders v (a multiple of 1/8 of moderate size) in a random valid spelling.
// The returned flags tell the separator logic what may follow without a separator.
func fmtNumber(r *rand.Rand, v float64, syn numSyntax, count func(string)) (text string, hasDot, hasExp bool) {
	neg := v < 0 || (v == 0 && math.Signbit(v))
	a := math.Abs(v)
	body := strconv.FormatFloat(a, 'f', -1, 64)
	form := r.Intn(12)
	switch {
	case form == 0 && a == math.Trunc(a) && a != 0 && math.Mod(a, 10) == 0:
		// 120 -> 12e1
		body = strconv.FormatFloat(a/10, 'f', -1, 64) + expo(r, 1, syn, count)
		hasExp = true
		count("exp")
	case form == 1 && a != 0:
		// 12.25 -> 1225e-2 ; 3 -> 300e-2 ; .5 -> 5e-1
		e := 1 + r.Intn(3)
		m := a * math.Pow(10, float64(e))
		if m == math.Trunc(m) && m < 1e7 {
			body = strconv.FormatFloat(m, 'f', -1, 64) + expo(r, -e, syn, count)
			hasExp = true
			count("exp_neg")
		}
	case form == 2 && a == math.Trunc(a) && a != 0 && a < 1e4:
		// 12 -> 0.12e2 / .12e2
		e := len(body)
		body = "0." + body + expo(r, e, syn, count)
		hasExp = true
		count("exp")
	case form == 3 && strings.Contains(body, "."):
		body += "0" // trailing zero
		count("trailing_zero")
	case form == 4:
		body = "0" + body // leading zero
		count("leading_zero")
	}
	if strings.HasPrefix(body, "0.") && r.Intn(2) == 0 {
		body = body[1:] // .5
		count("bare_dot")
	}
	hasDot = strings.Contains(body, ".")
	switch {
	case neg:
		text = "-" + body
	case r.Intn(12) == 0:
		text = "+" + body
		count("plus_sign")
	default:
		text = body
	}
	return text, hasDot, hasExp
}

func expo(r *rand.Rand, e int, syn numSyntax, count func(string)) string {
	letter := "e"
	if syn.UpperE && r.Intn(2) == 0 {
		letter = "E"
		count("upper_E")
	}
	s := strconv.Itoa(e)
	if e >= 0 && syn.PlusExp && r.Intn(2) == 0 {
		s = "+" + s
		count("exp_plus")
	}
	return letter + s
}

var (
	sepsRequired = []string{" ", ",", " ,", ", ", " , ", "  ", "\t", "\n", "\r\n", " \n "}
	sepsCmd      = []string{"", "", " ", "\n", "\t "}
)

// numList renders a list of numbers separated as compactly or as loosely as the grammar allows.
// flagAt reports whether the i-th number is an arc flag (rendered as a single 0/1 character).
type numWriter struct {
	r        *rand.Rand
	sb       strings.Builder
	syn      numSyntax
	count    func(string)
	prevKind int // 0 nothing / command letter, 1 number, 2 flag
	prevDot  bool
	prevExp  bool
}

func (w *numWriter) command(letter byte) {
	if w.prevKind != 0 || w.sb.Len() > 0 {
		w.sb.WriteString(sepsCmd[w.r.Intn(len(sepsCmd))])
	}
	w.sb.WriteByte(letter)
	w.sb.WriteString(sepsCmd[w.r.Intn(len(sepsCmd))])
	w.prevKind = 0
}

func (w *numWriter) sep(nextText string) {
	if w.prevKind == 0 {
		return
	}
	canOmit := false
	switch {
	case w.prevKind == 2:
		canOmit = true // a flag is exactly one character
	case nextText[0] == '-' || nextText[0] == '+':
		canOmit = true
	case nextText[0] == '.' && w.prevDot && !w.prevExp:
		canOmit = true // 1.5.5
	case nextText[0] == '.' && w.prevExp && w.syn.DotAfterExp:
		canOmit = true // 1e1.5 : the exponent is an integer, the '.' starts a new number
		if w.r.Intn(2) == 0 {
			w.count("dot_after_exp")
			return
		}
	}
	if canOmit && w.r.Intn(2) == 0 {
		w.count("sep_omitted")
		return
	}
	w.sb.WriteString(sepsRequired[w.r.Intn(len(sepsRequired))])
}

func (w *numWriter) number(v float64) {
	t, dot, exp := fmtNumber(w.r, v, w.syn, w.count)
	w.sep(t)
	w.sb.WriteString(t)
	w.prevKind, w.prevDot, w.prevExp = 1, dot, exp
}

func (w *numWriter) flag(v float64) {
	t := "0"
	if v != 0 {
		t = "1"
	}
	w.sep(t)
	w.sb.WriteString(t)
	w.prevKind, w.prevDot, w.prevExp = 2, false, false
	w.count("flags")
}

// pathText renders the AST as path data.
func pathText(r *rand.Rand, cmds []Cmd, syn numSyntax, count func(string)) string {
	w := &numWriter{r: r, syn: syn, count: count}
	for _, c := range cmds {
		w.command(c.L[0])
		isArc := c.L == "A" || c.L == "a"
		for _, g := range c.A {
			for j, v := range g {
				if isArc && (j == 3 || j == 4) {
					w.flag(v)
				} else {
					w.number(v)
				}
			}
		}
	}
	return w.sb.String()
}

// listText renders a bare number list (points attribute, viewBox).
func listText(r *rand.Rand, vals []float64, syn numSyntax, count func(string)) string {
	w := &numWriter{r: r, syn: syn, count: count}
	for _, v := range vals {
		w.number(v)
	}
	return w.sb.String()
}

// q returns a random multiple of 1/4 in [lo,hi].
func q(r *rand.Rand, lo, hi float64) float64 {
	n := int((hi - lo) * 4)
	return lo + float64(r.Intn(n+1))/4
}

// coord returns a coordinate with a bias towards integers and small values.
func coord(r *rand.Rand, lo, hi float64) float64 {
	if r.Intn(7) == 0 && lo <= -1 && hi >= 1 {
		// proper fractions: spelled ".5", "-.25", and glued as ".5.5"
		return float64(r.Intn(15)-7) / 8
	}
	switch r.Intn(4) {
	case 0:
		return q(r, lo, hi)
	case 1:
		return math.Trunc(q(r, lo, hi)/10) * 10
	default:
		return math.Trunc(q(r, lo, hi))
	}
}
