// Package c18 is the runtime-monitoring check of property C18: SVG shapes and paths are drawn with
// the geometry SVG defines.
//
// Every case is an SVG document generated from an AST.  The document is parsed and drawn by the
// real code (svg.Parse + (*SVGImage).Draw on the recording backend, or the whole HTML pipeline for
// a share of the cases); the recorded MoveTo/LineTo/CubicTo/ClosePath/Rectangle/Transform calls are
// replayed by an own graphics-state machine (trace.go) and compared with what an independent
// interpreter of the SVG specification (refpath.go, shapes.go, viewbox.go, refs.go) computes from
// the AST.
package c18

import (
	"encoding/json"
	"fmt"
	"math/rand"
	"runtime/debug"
	"strings"

	"github.com/benoitkugler/webrender/svg"

	"verif/internal/fw"
	"verif/internal/rec"
	"verif/internal/wr"
)

// In is the self-contained input of one case.
type In struct {
	Mode string  `json:"mode"` // path | patherr | shape | viewbox | refs
	Via  string  `json:"via,omitempty"`
	SVG  string  `json:"svg"` // the document handed to webrender
	W    float64 `json:"w"`   // size passed to Draw
	H    float64 `json:"h"`
	// Color is the 24-bit fill colour identifying the element under test.
	Color int `json:"color,omitempty"`
	// CurveTol is the relative tolerance of the ellipse equation for curved parts.
	CurveTol float64 `json:"curve_tol,omitempty"`

	// FeatC: generator-side feature counts (number spellings used …), copied to the evidence counters.
	FeatC Feat `json:"feat,omitempty"`

	Cmds  []Cmd      `json:"cmds,omitempty"`  // path: the command AST
	Shape *ShapeSpec `json:"shape,omitempty"` // shape: element and resolved attribute values
	VB    *VBSpec    `json:"vb,omitempty"`    // viewbox
	Refs  *RefSpec   `json:"refs,omitempty"`  // refs
}

const (
	svgNS    = `xmlns="http://www.w3.org/2000/svg" xmlns:xlink="http://www.w3.org/1999/xlink"`
	arcTol   = 1e-3 // DESIGN: every arc sample satisfies the ellipse equation within 1e-3·r
	pathFill = 0x0a141e
)

// Workload of one tier: the exhaustive viewBox block first, then `rest` random cases whose modes
// are interleaved by a weighted round-robin over shares per mille.  Interleaving matters: a case
// that kills its worker (unbounded recursion) costs a worker restart, and the driver gives up
// after 200 restarts within one batch.
type workload struct {
	rest  int
	share [6]int // per mille: path, html, patherr, shape, viewbox (random), refs
}

const (
	mPath = iota
	mHTML
	mPathErr
	mShape
	mVB
	mRefs
)

func workloadOf(tier string) workload {
	if tier == "thorough" {
		return workload{rest: 760000, share: [6]int{780, 8, 26, 105, 26, 55}}
	}
	return workload{rest: 40400, share: [6]int{726, 10, 37, 148, 15, 64}}
}

var schedules = map[[6]int][]uint8{}

// schedule returns the 1000-slot mode table of a share vector (smooth weighted round-robin).
func schedule(share [6]int) []uint8 {
	if t, ok := schedules[share]; ok {
		return t
	}
	t := make([]uint8, 0, 1000)
	var credit [6]int
	for len(t) < 1000 {
		best := 0
		for m := range share {
			credit[m] += share[m]
			if credit[m] > credit[best] {
				best = m
			}
		}
		credit[best] -= 1000
		t = append(t, uint8(best))
	}
	schedules[share] = t
	return t
}

func init() {
	fw.Register(&fw.Prop{
		ID: "C18",
		Rule: "cases: (1) path data of 1–12 commands over all 20 letters with implicit repetition, rendered in random valid number/separator spellings, compared operation by operation with an independent interpreter of the command AST (arcs: sampled ellipse equation, sweep direction, large-arc rule, end point); " +
			"(2) the same through the HTML pipeline (inline <svg>, <img> data URI); (3) malformed path data (no crash, error or ignored); (4) rect/circle/ellipse/line/polyline/polygon against closed forms; " +
			"(5) viewBox × preserveAspectRatio, exhaustive over align × meetOrSlice × 5 aspect relations × root/nested × origin, plus random triples; (6) reference graphs over use/gradients/patterns/markers/clipPath/mask with missing targets and cycles; clipPath, mask and marker definitions have one to three children (shapes or <g> around a shape) and any child may reference any definition, its own included, through clip-path / mask / marker / marker-start / -mid / -end (cycles of any length, through definitions of different kinds, closed by the first or a later or a nested child); marker content consists of probe shapes whose number of painted instances is compared with the vertex rules of SVG 1.1 §11.6.2 (asserted when no marker cycle had to be cut, bounded otherwise). " +
			"A case is non-trivial when the element under test was found in the trace by its unique fill colour and at least two path operations (path: two commands) were compared, or for (3) when the parser returned, or for (6) when the graph contains at least one missing or cyclic reference and the render returned; distinct = distinct document text.",
		N: func(tier string) int { return vbExhaustive + workloadOf(tier).rest },
		Gen: func(r *rand.Rand, i int, tier string) any {
			if i < vbExhaustive {
				return genViewBox(r, i)
			}
			i -= vbExhaustive
			switch schedule(workloadOf(tier).share)[i%1000] {
			case mHTML:
				in := genPath(r)
				in.Via = []string{"html-inline", "html-img"}[r.Intn(2)]
				return in
			case mPathErr:
				return genPathErr(r)
			case mShape:
				return genShape(r)
			case mVB:
				return genViewBox(r, -1)
			case mRefs:
				return genRefs(r)
			}
			return genPath(r)
		},
		Check: Check,
		Floor: func(tier string) int {
			if tier == "thorough" {
				return 500000
			}
			return 30000
		},
		CounterFloors: func(tier string) map[string]int64 {
			k := int64(1)
			if tier == "thorough" {
				k = 10
			}
			m := map[string]int64{
				"paths_matched": 25000 * k, "path_ops_matched": 150000 * k, "arcs_followed": 8000 * k, "arc_cubics_sampled": 30000 * k,
				"arcs_radius_scaled": 500 * k, "arcs_negative_radius": 50 * k, "arcs_one_negative_radius": 1000 * k, "arcs_zero_length_omitted": 100 * k, "arcs_zero_radius_as_line": 400 * k,
				"arcs_in_repeated_groups": 3000 * k, "z_closing_implicit_subpath": 300 * k, "num_upper_E": 5000 * k, "num_exp_plus": 2000 * k, "num_dot_after_exp": 100 * k,
				"shape_rect_rx_ne_ry": 300 * k, "vb_nested_scroll_clip_checked": 10 * k,
				"refs_cycle_clip": 40 * k, "refs_cycle_mask": 40 * k, "refs_cycle_marker": 40 * k, "refs_cycle_def_used": 50 * k, "implicit_groups": 15000 * k, "z_then_draw": 1500 * k, "smooth_after_curve": 3000 * k, "smooth_after_other": 2000 * k,
				"num_sep_omitted": 20000 * k, "num_bare_dot": 5000 * k, "num_exp": 1000 * k, "num_exp_neg": 3000 * k, "num_flags": 16000 * k, "num_plus_sign": 3000 * k,
				"html_inline_matched": 150 * k, "html_img_matched": 150 * k,
				"patherr_returned": 1200 * k, "patherr_rejected": 300 * k,
				"shape_rect_plain": 300 * k, "shape_rect_rounded": 800 * k, "shape_circle": 500 * k, "shape_ellipse": 500 * k, "shape_line": 300 * k, "shape_polyline": 300 * k, "shape_polygon": 300 * k, "shape_not_rendered": 100 * k,
				"vb_matched": vbExhaustive, "vb_nested_clip_checked": vbExhaustive / 3,
				"refs_returned": 1500 * k, "refs_missing": 1500 * k, "refs_cycle_use_rejected": 100 * k, "refs_cycle_gradient": 100 * k, "refs_cycle_pattern": 50 * k, "refs_shapes_counted": 3000 * k,
				// definitions with several children, back references held by a child other than the first
				// one / by a nested child, such definitions referenced by rendered elements, markers of
				// that sort really instantiated; cycles through definitions of two kinds; marker content
				// whose number of instances was asserted (and was not zero)
				"refs_def_multi_child": 1500 * k, "refs_cycle_via_later_child": 400 * k, "refs_cycle_via_nested_child": 150 * k, "refs_cycle_later_child_used": 250 * k,
				"refs_marker_cycle_later_child_drawn": 120 * k, "refs_cycle_cross_kind": 15 * k,
				"refs_marker_content_counted": 1000 * k, "refs_marker_content_drawn": 120 * k, "refs_marker_instances_expected": 150 * k,
			}
			for _, l := range "MmLlHhVvCcSsQqTtAaZz" {
				m["cmd_"+string(l)] = 2000 * k
			}
			return m
		},
		Exhaustive: func(tier string) bool { return false },
		Assumptions: []string{
			"the oracle's own interpreter of SVG path data, basic shapes and the viewBox transform (props/c18, written from SVG 1.1 §7.7–7.8, §8.3, §9, appendix F.6) is taken as the specification",
			"the recording backend's trace is replayed with PDF semantics (Rectangle = moveto + 3 lineto + closepath; after ClosePath the current point is the sub-path start; Transform right-multiplies the CTM)",
			"coordinates are multiples of 1/8 below 2^13, so every expected value is exact in float32; comparison tolerance 0.02 + 1e-4·|v|, ellipse equation within 1e-3 (relative) at 8 samples per cubic",
			"path data starts with a moveto and has no two consecutive closepaths",
			"reference graphs: the number of marker instances is asserted only for documents where the finite expansion meets no marker cycle, no marker property sits on a <use> (inheritance into the referenced content is not modelled) and no <polygon> has a mid marker (vertex of the closing segment); in the other documents marker content must be painted at most 5 000 times; the `marker` shorthand is never combined with marker-start/-mid/-end on one element; marker properties are put on shapes only, never on <g>",
			"not generated (open findings): <circle r> in percent, a single <rect> radius in percent, a paint-server href that points to a <use>; a document with a cyclic <use> may be rejected as a whole",
		},
		Batch: 2000,
	})
}

// Check runs one case.
func Check(raw json.RawMessage) fw.Result {
	var in In
	if err := json.Unmarshal(raw, &in); err != nil {
		return fw.Result{Verdict: fw.Inconclusive, Msg: err.Error()}
	}
	// an unbounded recursion must end the process quickly, not after filling 1 GB of stack
	debug.SetMaxStack(64 << 20)
	wr.Quiet()
	var res fw.Result
	switch in.Mode {
	case "path":
		checkPath(&in, &res)
	case "patherr":
		checkPathErr(&in, &res)
	case "shape":
		checkShape(&in, &res)
	case "viewbox":
		checkViewBox(&in, &res)
	case "refs":
		checkRefs(&in, &res)
	default:
		res.Verdict = fw.Inconclusive
		res.Msg = "unknown mode " + in.Mode
	}
	return res
}

// drawn is what one execution of the real code produced.
type drawn struct {
	err   error
	doc   *rec.Doc
	paths []tPath
	nEv   int
	base  aff // device transform of the SVG viewport origin (identity for direct draws)
}

// drawDirect parses and draws a document on the recording backend.
func drawDirect(src string, w, h float64) drawn {
	// no image loader is needed (no <image>); every fetch fails: no check touches the network or the disk
	img, err := svg.Parse(strings.NewReader(src), "", nil, wr.MemFetcher(nil))
	if err != nil {
		return drawn{err: err}
	}
	d := rec.New()
	d.CheckProtocol = false // the call protocol is property C14's business
	page := d.AddPage(0, 0, rec.Fl(w), rec.Fl(h))
	img.Draw(page, rec.Fl(w), rec.Fl(h), nil)
	out := drawn{doc: d, base: affID}
	out.paths, out.nEv = walkTrace(d)
	return out
}

// drawHTML sends the document through the HTML pipeline, as an inline <svg> or an <img> with a
// base64 data URI, on a page of the same size with no margins.
func drawHTML(src, via string, w, h float64) drawn {
	body := src
	if via == "html-img" {
		body = `<img src="data:image/svg+xml;base64,` + b64(src) + `">`
	}
	html := fmt.Sprintf(`<html><head><style>@page{size:%gpx %gpx;margin:0}html,body{margin:0;padding:0}svg,img{display:block}</style></head><body>%s</body></html>`, w, h, body)
	r, err := wr.Render(wr.Opts{HTML: html})
	if err != nil {
		return drawn{err: err}
	}
	out := drawn{doc: r.Rec, base: affID}
	out.paths, out.nEv = walkTrace(r.Rec)
	// CSS px -> device: the page is drawn under a flip to PDF axes and the px->pt scale; both are
	// recorded as the first two Transform calls of the page.  They are C14/C12 matter: factor them out.
	n := 0
	for _, e := range r.Rec.Events {
		if e.Op == "Transform" && n < 2 {
			out.base = out.base.then(aff{float64(e.F[0]), float64(e.F[1]), float64(e.F[2]), float64(e.F[3]), float64(e.F[4]), float64(e.F[5])})
			n++
		} else if e.Op == "MoveTo" || e.Op == "Rectangle" {
			break
		}
	}
	for _, w := range r.Warnings {
		if strings.Contains(w, "failed to load image") || strings.Contains(w, "invalid") {
			out.err = fmt.Errorf("%s", w)
		}
	}
	return out
}

// byColor returns the painted paths whose fill colour is the given 24-bit colour.
func (d drawn) byColor(c int) []tPath {
	var out []tPath
	for _, p := range d.paths {
		if p.Kind == "paint" && p.rgbKey() == c && len(p.Ops) > 0 {
			out = append(out, p)
		}
	}
	return out
}

func colorAttr(c int) string { return fmt.Sprintf("#%06x", c) }

func trunc(s string, n int) string {
	if len(s) > n {
		return s[:n] + "…"
	}
	return s
}
