package c18

import (
	"fmt"
	"math/rand"
	"strings"

	"verif/internal/fw"
)

// ---------------------------------------------------------------------------------------------
// Reference graphs: use / gradients / patterns / markers / clipPath / mask with missing targets,
// self-loops and cycles.  The render must return (an unbounded recursion ends the process and is
// reported by the driver with this case as the culprit), references to missing targets must be
// ignored, and everything outside a cycle must be painted exactly as often as a finite expansion
// of <use> says.
// ---------------------------------------------------------------------------------------------

// RefShape is a probe shape: identified in the trace by Color (plain fills) or by the x coordinate
// of its first point (fills through paint servers), expected to be painted Count times.
type RefShape struct {
	Color int     `json:"color,omitempty"`
	X     float64 `json:"x,omitempty"`
	Count int     `json:"count"`
}

// RefSpec is the generator-side knowledge about a reference graph.
type RefSpec struct {
	Shapes   []RefShape `json:"shapes"`
	UseCycle bool       `json:"use_cycle"` // the expansion of some <use> revisits an id in progress
	Missing  int        `json:"missing"`   // references to ids that do not exist (or exist with another element kind)
	CycGrad  int        `json:"cyc_grad"`  // gradient href cycles (incl. self)
	CycPat   int        `json:"cyc_pat"`   // pattern href cycles / pattern content painting with the pattern
	Uses     int        `json:"uses"`
	// clipPath / mask / marker definitions whose content (or own attribute) leads back to a
	// definition under way, and how many rendered elements reference such a definition
	CycClip   int `json:"cyc_clip"`
	CycMask   int `json:"cyc_mask"`
	CycMarker int `json:"cyc_marker"`
	CycUsed   int `json:"cyc_used"`
}

type rnode struct {
	tag      string
	id       string
	attrs    string
	href     string // for use / gradients / patterns
	children []*rnode
	color    int // probe shapes: unique colour (0 = not a probe)
	probeX   float64
}

type refGen struct {
	r      *rand.Rand
	ids    []string          // ids that exist
	byID   map[string]*rnode // id -> element
	nextC  int
	nextX  float64
	spec   *RefSpec
	counts map[int]int
}

func (g *refGen) anyID(kinds ...string) string {
	// existing id of any kind, a missing id, or (for the caller) its own id
	if g.r.Intn(4) == 0 || len(g.ids) == 0 {
		return "zz" + fmt.Sprint(g.r.Intn(3))
	}
	return g.ids[g.r.Intn(len(g.ids))]
}

func (g *refGen) probe() *rnode {
	g.nextC++
	c := 0x400000 + g.nextC*0x010305
	n := &rnode{color: c}
	x, y := float64(5*g.r.Intn(30)), float64(5*g.r.Intn(30))
	switch g.r.Intn(4) {
	case 0:
		n.tag = "rect"
		n.attrs = fmt.Sprintf(` x="%g" y="%g" width="%d" height="%d"`, x, y, 5+g.r.Intn(40), 5+g.r.Intn(40))
	case 1:
		n.tag = "path"
		n.attrs = fmt.Sprintf(` d="M%g %g l20 0 l0 20 z"`, x, y)
	case 2:
		n.tag = "line"
		n.attrs = fmt.Sprintf(` x1="%g" y1="%g" x2="%g" y2="%g" stroke="#111"`, x, y, x+30, y+10)
	default:
		n.tag = "polygon"
		n.attrs = fmt.Sprintf(` points="%g,%g %g,%g %g,%g"`, x, y, x+25, y, x, y+25)
	}
	n.attrs += fmt.Sprintf(` fill="%s"`, colorAttr(c))
	return n
}

func hrefAttr(r *rand.Rand, id string) string {
	if r.Intn(2) == 0 {
		return fmt.Sprintf(` xlink:href="#%s"`, id)
	}
	return fmt.Sprintf(` href="#%s"`, id)
}

func (n *rnode) write(sb *strings.Builder, r *rand.Rand) {
	sb.WriteString("<" + n.tag)
	if n.id != "" {
		fmt.Fprintf(sb, ` id="%s"`, n.id)
	}
	sb.WriteString(n.attrs)
	if n.href != "" {
		sb.WriteString(hrefAttr(r, n.href))
	}
	if len(n.children) == 0 {
		sb.WriteString("/>")
		return
	}
	sb.WriteString(">")
	for _, c := range n.children {
		c.write(sb, r)
	}
	sb.WriteString("</" + n.tag + ">")
}

// expand models the rendering of a subtree: probes are counted, <use> is replaced by its target.
// inProgress holds the ids whose expansion is under way; revisiting one is a cycle (cut there).
func (g *refGen) expand(n *rnode, inProgress map[string]bool, render bool, budget *int) {
	if *budget <= 0 {
		return
	}
	*budget--
	switch n.tag {
	case "use":
		t := g.byID[n.href]
		if t == nil {
			return
		}
		if inProgress[n.href] {
			g.spec.UseCycle = true
			return
		}
		inProgress[n.href] = true
		g.expand(t, inProgress, render, budget)
		delete(inProgress, n.href)
	case "g", "svg":
		for _, c := range n.children {
			g.expand(c, inProgress, render, budget)
		}
	case "rect", "path", "line", "polygon":
		if render && n.color != 0 {
			g.counts[n.color]++
		}
	}
	// definitions (gradients, patterns, clipPath, mask, marker, defs) render nothing when used
}

func genRefs(r *rand.Rand) *In {
	for {
		in := genRefsOnce(r)
		if in != nil {
			return in
		}
	}
}

func genRefsOnce(r *rand.Rand) *In {
	in := &In{Mode: "refs", W: 200, H: 200}
	g := &refGen{r: r, byID: map[string]*rnode{}, spec: &RefSpec{}, counts: map[int]int{}}
	in.Refs = g.spec
	nDefs := 1 + r.Intn(6)
	var defs, all []*rnode
	// first choose kinds and ids so that references can point forwards and backwards
	kinds := []string{"g", "g", "use", "use", "shape", "linearGradient", "radialGradient", "pattern", "clipPath", "mask", "marker"}
	for i := 0; i < nDefs; i++ {
		k := kinds[r.Intn(len(kinds))]
		n := &rnode{tag: k, id: fmt.Sprintf("n%d", i)}
		if k == "shape" {
			n = g.probe()
			n.id = fmt.Sprintf("n%d", i)
		}
		defs = append(defs, n)
		g.ids = append(g.ids, n.id)
		g.byID[n.id] = n
	}
	refTo := func(self string) string {
		if self != "" && r.Intn(6) == 0 {
			return self
		}
		return g.anyID()
	}
	// href of a paint server: any id except a <use> — on the unchanged tree the template lookup
	// deletes the href attribute of whatever element it points to, which disables that <use>
	// (findings/C18/paint-server-href-strips-use.json)
	serverRef := func(self string) string {
		for {
			id := refTo(self)
			if t := g.byID[id]; t == nil || t.tag != "use" {
				return id
			}
		}
	}
	newUse := func(id string) *rnode {
		n := &rnode{tag: "use", id: id, href: refTo(id)}
		if r.Intn(3) == 0 {
			n.attrs = fmt.Sprintf(` x="%d" y="%d"`, r.Intn(50), r.Intn(50))
		}
		return n
	}
	defRef := map[string][]string{} // clipPath/mask/marker id -> ids referenced from its content or itself
	for _, n := range defs {
		switch n.tag {
		case "g":
			for k := 0; k < 1+r.Intn(2); k++ {
				if r.Intn(2) == 0 {
					n.children = append(n.children, g.probe())
				} else {
					n.children = append(n.children, newUse(""))
				}
			}
		case "use":
			*n = *newUse(n.id)
		case "linearGradient", "radialGradient":
			if r.Intn(3) > 0 {
				n.href = serverRef(n.id)
			}
			for k := 0; k < r.Intn(3); k++ {
				n.children = append(n.children, &rnode{tag: "stop", attrs: fmt.Sprintf(` offset="%g" stop-color="#%06x"`, float64(k)/2, r.Intn(1<<24))})
			}
		case "pattern":
			n.attrs = ` width="10" height="10" patternUnits="userSpaceOnUse"`
			if r.Intn(2) == 0 {
				n.href = serverRef(n.id)
			}
			fill := `#777`
			if r.Intn(2) == 0 {
				fill = fmt.Sprintf("url(#%s)", refTo(n.id)) // pattern content painted with a pattern, possibly itself
			}
			n.children = append(n.children, &rnode{tag: "rect", attrs: fmt.Sprintf(` width="6" height="6" fill="%s"`, fill)})
		case "clipPath":
			// content (and the definition itself) may be clipped by any clipPath, itself included:
			// such references must be ignored, not followed (cycles recursed without end on the
			// snapshot tree: findings/C18/clip-path-cycle.json, repaired)
			child := &rnode{tag: "rect", attrs: ` x="0" y="0" width="150" height="150"`}
			if r.Intn(2) == 0 {
				id := refTo(n.id)
				child.attrs += fmt.Sprintf(` clip-path="url(#%s)"`, id)
				defRef[n.id] = append(defRef[n.id], id)
			}
			if r.Intn(4) == 0 {
				id := refTo(n.id)
				n.attrs += fmt.Sprintf(` clip-path="url(#%s)"`, id)
				defRef[n.id] = append(defRef[n.id], id)
			}
			n.children = append(n.children, child)
		case "mask":
			child := &rnode{tag: "rect", attrs: ` x="0" y="0" width="150" height="150" fill="#fff"`}
			if r.Intn(2) == 0 {
				id := refTo(n.id)
				child.attrs += fmt.Sprintf(` mask="url(#%s)"`, id)
				defRef[n.id] = append(defRef[n.id], id)
			}
			if r.Intn(4) == 0 {
				id := refTo(n.id)
				n.attrs += fmt.Sprintf(` mask="url(#%s)"`, id)
				defRef[n.id] = append(defRef[n.id], id)
			}
			n.children = append(n.children, child)
		case "marker":
			n.attrs = ` markerWidth="4" markerHeight="4"`
			child := &rnode{tag: "path", attrs: ` d="M0 0 L4 2 L0 4 z" fill="#333"`}
			if r.Intn(2) == 0 {
				id := refTo(n.id)
				child.attrs += fmt.Sprintf(` %s="url(#%s)"`, []string{"marker", "marker-start", "marker-mid", "marker-end"}[r.Intn(4)], id)
				defRef[n.id] = append(defRef[n.id], id)
			}
			n.children = append(n.children, child)
		}
	}
	// which clipPath / mask / marker definitions lead into a cycle of their own kind
	cyclic := map[string]bool{}
	for _, n := range defs {
		if n.tag != "clipPath" && n.tag != "mask" && n.tag != "marker" {
			continue
		}
		var visit func(id string, path map[string]bool) bool
		visit = func(id string, path map[string]bool) bool {
			if path[id] {
				return true
			}
			path[id] = true
			defer delete(path, id)
			for _, nx := range defRef[id] {
				if t := g.byID[nx]; t != nil && t.tag == n.tag && visit(nx, path) {
					return true
				}
			}
			return false
		}
		if visit(n.id, map[string]bool{}) {
			cyclic[n.id] = true
			switch n.tag {
			case "clipPath":
				g.spec.CycClip++
			case "mask":
				g.spec.CycMask++
			default:
				g.spec.CycMarker++
			}
		}
	}
	// rendered content
	var top []*rnode
	refAttrs := func() string {
		s := ""
		for _, a := range []string{"clip-path", "mask", "marker-start", "marker-mid", "marker-end", "marker", "filter"} {
			if r.Intn(5) == 0 {
				id := g.anyID()
				// half of the time a definition of the right kind, when there is one
				var fit []string
				for _, d := range defs {
					if kindMatches(a, d.tag) {
						fit = append(fit, d.id)
					}
				}
				if len(fit) > 0 && r.Intn(2) == 0 {
					id = fit[r.Intn(len(fit))]
				}
				s += fmt.Sprintf(` %s="url(#%s)"`, a, id)
				if t := g.byID[id]; t == nil || !kindMatches(a, t.tag) {
					g.spec.Missing++
				} else if cyclic[id] {
					g.spec.CycUsed++
				}
			}
		}
		return s
	}
	nTop := 1 + r.Intn(4)
	for i := 0; i < nTop; i++ {
		var n *rnode
		switch r.Intn(5) {
		case 0, 1:
			n = g.probe()
			n.attrs += refAttrs()
		case 2:
			n = newUse("")
			n.attrs += refAttrs()
		case 3:
			// paint-server user: identified by geometry
			g.nextX += 10
			n = &rnode{tag: "rect", probeX: 1000 + g.nextX}
			id := g.anyID()
			fb := ""
			if r.Intn(2) == 0 {
				fb = " #0f0"
			}
			which := "fill"
			other := ""
			if r.Intn(4) == 0 {
				which, other = "stroke", ` fill="none"`
			}
			n.attrs = fmt.Sprintf(` x="%g" y="3" width="30" height="20" %s="url(#%s)%s"%s`, n.probeX, which, id, fb, other) + refAttrs()
			if t := g.byID[id]; t == nil || !kindMatches("fill", t.tag) {
				g.spec.Missing++
			}
		default:
			n = &rnode{tag: "g"}
			n.children = append(n.children, g.probe(), newUse(""))
		}
		top = append(top, n)
	}
	all = append(all, defs...)
	all = append(all, top...)

	// model: missing use targets, cycles
	var walk func(n *rnode)
	walk = func(n *rnode) {
		if n.tag == "use" {
			g.spec.Uses++
			if g.byID[n.href] == nil {
				g.spec.Missing++
			}
		}
		for _, c := range n.children {
			walk(c)
		}
	}
	for _, n := range all {
		walk(n)
	}
	for _, n := range defs {
		switch n.tag {
		case "linearGradient", "radialGradient", "pattern":
			// follow href among paint servers
			seen := map[string]bool{n.id: true}
			cur := n
			for cur != nil && cur.href != "" {
				nx := g.byID[cur.href]
				if nx == nil {
					g.spec.Missing++
					break
				}
				if seen[nx.id] {
					if n.tag == "pattern" {
						g.spec.CycPat++
					} else {
						g.spec.CycGrad++
					}
					break
				}
				seen[nx.id] = true
				cur = nx
			}
			if n.tag == "pattern" && strings.Contains(n.children[0].attrs, "url(#"+n.id+")") {
				g.spec.CycPat++
			}
		}
	}
	budget := 5000
	// every <use> in the document is resolved by an implementation, rendered or not: look for cycles everywhere
	for _, n := range defs {
		g.expand(n, map[string]bool{}, false, &budget)
	}
	for _, n := range top {
		g.expand(n, map[string]bool{}, true, &budget)
	}
	if budget <= 0 {
		return nil // expansion too large: draw another graph
	}
	var collect func(n *rnode)
	collect = func(n *rnode) {
		if n.color != 0 {
			g.spec.Shapes = append(g.spec.Shapes, RefShape{Color: n.color, Count: g.counts[n.color]})
		}
		for _, c := range n.children {
			collect(c)
		}
	}
	for _, n := range all {
		collect(n)
	}
	for _, n := range top {
		if n.probeX != 0 {
			g.spec.Shapes = append(g.spec.Shapes, RefShape{X: n.probeX, Count: 1})
		}
	}
	var sb strings.Builder
	fmt.Fprintf(&sb, `<svg %s width="200" height="200">`, svgNS)
	// definitions before, after or around the content
	writeDefs := func() {
		sb.WriteString("<defs>")
		for _, n := range defs {
			n.write(&sb, r)
		}
		sb.WriteString("</defs>")
	}
	before := r.Intn(2) == 0
	if before {
		writeDefs()
	}
	for _, n := range top {
		n.write(&sb, r)
	}
	if !before {
		writeDefs()
	}
	sb.WriteString("</svg>")
	in.SVG = sb.String()
	return in
}

func kindMatches(attr, tag string) bool {
	switch attr {
	case "clip-path":
		return tag == "clipPath"
	case "mask":
		return tag == "mask"
	case "filter":
		return tag == "filter"
	case "fill":
		return tag == "linearGradient" || tag == "radialGradient" || tag == "pattern"
	}
	return tag == "marker"
}

func checkRefs(in *In, res *fw.Result) {
	sp := in.Refs
	if sp == nil {
		res.Verdict = fw.Inconclusive
		res.Msg = "no refs spec"
		return
	}
	d := drawDirect(in.SVG, in.W, in.H) // must return: recursion without end is fatal to the worker
	res.Count("refs_returned", 1)
	res.Count("refs_missing", int64(sp.Missing))
	res.Count("refs_cycle_gradient", int64(sp.CycGrad))
	res.Count("refs_cycle_pattern", int64(sp.CycPat))
	res.Count("refs_uses", int64(sp.Uses))
	res.Count("refs_cycle_clip", int64(sp.CycClip))
	res.Count("refs_cycle_mask", int64(sp.CycMask))
	res.Count("refs_cycle_marker", int64(sp.CycMarker))
	res.Count("refs_cycle_def_used", int64(sp.CycUsed))
	res.Nontrivial = sp.Missing+sp.CycGrad+sp.CycPat+sp.CycUsed > 0 || sp.UseCycle
	if d.err != nil {
		if sp.UseCycle {
			// a cyclic <use> makes the document erroneous; rejecting it as a whole is tolerated
			res.Count("refs_cycle_use_rejected", 1)
			return
		}
		res.Fail("refs-rejected", fmt.Sprintf("%s has no cyclic <use> (only missing targets / paint-server cycles, which must be ignored) but is rejected: %v", in.SVG, d.err))
		return
	}
	if sp.UseCycle {
		res.Count("refs_cycle_use_accepted", 1)
	}
	for _, s := range sp.Shapes {
		n := 0
		for _, p := range d.paths {
			if p.Kind != "paint" || len(p.Ops) == 0 || p.Cv != 1 {
				continue
			}
			if s.Color != 0 && p.rgbKey() == s.Color {
				n++
			}
			if s.Color == 0 && p.Ops[0].K == 'M' && near(p.Ops[0].P[0].X, s.X) {
				n++
			}
		}
		if sp.UseCycle {
			// the document was accepted although it has a cyclic <use>: the cut is the implementation's
			// choice, only unbounded repetition is excluded
			if n > 5000 {
				res.Fail("refs-count", fmt.Sprintf("%s: probe %v painted %d times", in.SVG, s, n))
				return
			}
			continue
		}
		if n != s.Count {
			what := fmt.Sprintf("fill %s", colorAttr(s.Color))
			if s.Color == 0 {
				what = fmt.Sprintf("x=%g", s.X)
			}
			res.Fail("refs-count", fmt.Sprintf("%s: the shape with %s must be painted %d time(s) (finite expansion of <use>, missing and cyclic paint-server references ignored) but is painted %d time(s)", in.SVG, what, s.Count, n))
			return
		}
		res.Count("refs_shapes_counted", 1)
	}
}
