package c18

import (
	"fmt"
	"math/rand"
	"strings"

	"verif/internal/fw"
)

// ---------------------------------------------------------------------------------------------
// Reference graphs: use / gradients / patterns / markers / clipPath / mask with missing targets,
// self-loops and cycles.  The render must return (an unbounded recursion ends the process and is
// reported by the driver with this case as the culprit), references to missing targets must be
// ignored, and everything outside a cycle must be painted exactly as often as a finite expansion
// of <use> says.
// ---------------------------------------------------------------------------------------------

// RefShape is a probe shape: identified in the trace by Color (plain fills) or by the x coordinate
// of its first point (fills through paint servers), expected to be painted Count times.
type RefShape struct {
	Color int     `json:"color,omitempty"`
	X     float64 `json:"x,omitempty"`
	Count int     `json:"count"`
	// Mk: the shape is content of a <marker>; Count is then the number of marker instances the
	// vertex rules of SVG 1.1 §11.6.2 give (0 when the marker is never drawn on the main canvas).
	// Loose: the count is not asserted (only bounded), see RefSpec.MarkerLoose.
	Mk    bool `json:"mk,omitempty"`
	Loose bool `json:"loose,omitempty"`
}

// RefSpec is the generator-side knowledge about a reference graph.
type RefSpec struct {
	Shapes   []RefShape `json:"shapes"`
	UseCycle bool       `json:"use_cycle"` // the expansion of some <use> revisits an id in progress
	Missing  int        `json:"missing"`   // references to ids that do not exist (or exist with another element kind)
	CycGrad  int        `json:"cyc_grad"`  // gradient href cycles (incl. self)
	CycPat   int        `json:"cyc_pat"`   // pattern href cycles / pattern content painting with the pattern
	Uses     int        `json:"uses"`
	// clipPath / mask / marker definitions whose content (or own attribute) leads back to a
	// definition under way, and how many rendered elements reference such a definition
	CycClip   int `json:"cyc_clip"`
	CycMask   int `json:"cyc_mask"`
	CycMarker int `json:"cyc_marker"`
	CycUsed   int `json:"cyc_used"`
	// definitions (clipPath / mask / marker / pattern) with two or more children
	MultiChild int `json:"multi_child,omitempty"`
	// definitions on a cycle that goes through a definition of another kind (marker -> clipPath -> marker)
	CycCross int `json:"cyc_cross,omitempty"`
	// definitions with a reference leading back to themselves that sits in a child other than the
	// first one, resp. below a <g> of the content; rendered elements referencing a definition that
	// leads to such a definition; markers with such a back reference really instantiated by the model
	CycLater      int `json:"cyc_later,omitempty"`
	CycNested     int `json:"cyc_nested,omitempty"`
	CycLaterUsed  int `json:"cyc_later_used,omitempty"`
	CycLaterDrawn int `json:"cyc_later_drawn,omitempty"`
	// MarkerDraws: marker instances of the finite expansion (vertices × uses).  MarkerLoose: the
	// number of instances is not asserted for this document (a marker cycle was cut, markers on a
	// <use>, mid markers of a <polygon>) and why.
	MarkerDraws int    `json:"marker_draws,omitempty"`
	MarkerLoose string `json:"marker_loose,omitempty"`
}

type rnode struct {
	tag      string
	id       string
	attrs    string
	href     string // for use / gradients / patterns
	children []*rnode
	color    int // probe shapes: unique colour (0 = not a probe)
	probeX   float64
	refs     []nref // clip-path / mask / marker* / filter attributes
	nverts   int    // vertices that can carry markers: line 2, polyline / polygon one per point, path one per command
	closed   bool   // polygon
	inMarker bool
}

// nref is one referencing presentation attribute: attr="url(#id)".
type nref struct{ attr, id string }

// markerAt returns the id the element gives for the marker position (marker-start / -mid / -end);
// the generator never combines the `marker` shorthand with the specific attributes.
func (n *rnode) markerAt(pos string) string {
	for _, rf := range n.refs {
		if rf.attr == pos || rf.attr == "marker" {
			return rf.id
		}
	}
	return ""
}

type refGen struct {
	r      *rand.Rand
	ids    []string          // ids that exist
	byID   map[string]*rnode // id -> element
	defs   []*rnode
	nextC  int
	nextX  float64
	spec   *RefSpec
	counts map[int]int
	// laterBack: definitions with a back reference in a child other than the first one;
	// leadsLater: definitions from which such a definition can be reached (itself included)
	laterBack  map[string]bool
	leadsLater map[string]bool
}

func (g *refGen) anyID(kinds ...string) string {
	// existing id of any kind, a missing id, or (for the caller) its own id
	if g.r.Intn(4) == 0 || len(g.ids) == 0 {
		return "zz" + fmt.Sprint(g.r.Intn(3))
	}
	return g.ids[g.r.Intn(len(g.ids))]
}

// fitID: half of the time a definition of the kind the attribute wants (when there is one),
// otherwise any id (existing of any kind, or missing).
func (g *refGen) fitID(attr string) string {
	if g.r.Intn(2) == 0 {
		var fit []string
		for _, d := range g.defs {
			if kindMatches(attr, d.tag) {
				fit = append(fit, d.id)
			}
		}
		if len(fit) > 0 {
			return fit[g.r.Intn(len(fit))]
		}
	}
	return g.anyID()
}

func (g *refGen) probe() *rnode {
	g.nextC++
	c := 0x400000 + g.nextC*0x010305
	n := &rnode{color: c}
	x, y := float64(5*g.r.Intn(30)), float64(5*g.r.Intn(30))
	switch g.r.Intn(6) {
	case 0:
		n.tag = "rect"
		n.attrs = fmt.Sprintf(` x="%g" y="%g" width="%d" height="%d"`, x, y, 5+g.r.Intn(40), 5+g.r.Intn(40))
	case 1:
		n.tag = "path"
		n.attrs = fmt.Sprintf(` d="M%g %g l20 0 l0 20 z"`, x, y)
		n.nverts = 4 // one vertex per segment end, the closing segment included
	case 2:
		n.tag = "line"
		n.attrs = fmt.Sprintf(` x1="%g" y1="%g" x2="%g" y2="%g" stroke="#111"`, x, y, x+30, y+10)
		n.nverts = 2
	case 3:
		n.tag = "polygon"
		n.attrs = fmt.Sprintf(` points="%g,%g %g,%g %g,%g"`, x, y, x+25, y, x, y+25)
		n.nverts, n.closed = 3, true
	case 4:
		n.tag = "polyline"
		n.nverts = 2 + g.r.Intn(3)
		pts := ""
		for i := 0; i < n.nverts; i++ {
			pts += fmt.Sprintf(" %g,%g", x+float64(10*i), y+float64(15*(i%2)))
		}
		n.attrs = fmt.Sprintf(` points="%s"`, pts[1:])
	default:
		n.tag = "path"
		n.nverts = 2 + g.r.Intn(3)
		d := fmt.Sprintf("M%g %g", x, y)
		for i := 1; i < n.nverts; i++ {
			d += []string{" l15 5", " h12", " v-9", " q5 5 10 0"}[g.r.Intn(4)]
		}
		n.attrs = fmt.Sprintf(` d="%s"`, d)
	}
	n.attrs += fmt.Sprintf(` fill="%s"`, colorAttr(c))
	return n
}

// markerContent is a probe shape sized for a 4×4 marker; three of four kinds have vertices and
// can carry markers themselves.
func (g *refGen) markerContent() *rnode {
	g.nextC++
	c := 0x400000 + g.nextC*0x010305
	n := &rnode{color: c, inMarker: true}
	switch g.r.Intn(4) {
	case 0:
		n.tag = "rect"
		n.attrs = ` width="3" height="2"`
	case 1:
		n.tag = "path"
		n.attrs = ` d="M0 0 L4 2 L0 4 z"`
		n.nverts = 4
	case 2:
		n.tag = "line"
		n.attrs = ` x1="0" y1="1" x2="4" y2="3" stroke="#111"`
		n.nverts = 2
	default:
		n.tag = "polyline"
		n.attrs = ` points="0,0 4,2 0,4"`
		n.nverts = 3
	}
	n.attrs += fmt.Sprintf(` fill="%s"`, colorAttr(c))
	return n
}

func hrefAttr(r *rand.Rand, id string) string {
	if r.Intn(2) == 0 {
		return fmt.Sprintf(` xlink:href="#%s"`, id)
	}
	return fmt.Sprintf(` href="#%s"`, id)
}

func (n *rnode) write(sb *strings.Builder, r *rand.Rand) {
	sb.WriteString("<" + n.tag)
	if n.id != "" {
		fmt.Fprintf(sb, ` id="%s"`, n.id)
	}
	sb.WriteString(n.attrs)
	for _, rf := range n.refs {
		fmt.Fprintf(sb, ` %s="url(#%s)"`, rf.attr, rf.id)
	}
	if n.href != "" {
		sb.WriteString(hrefAttr(r, n.href))
	}
	if len(n.children) == 0 {
		sb.WriteString("/>")
		return
	}
	sb.WriteString(">")
	for _, c := range n.children {
		c.write(sb, r)
	}
	sb.WriteString("</" + n.tag + ">")
}

func (g *refGen) loose(why string) {
	if g.spec.MarkerLoose == "" {
		g.spec.MarkerLoose = why
	}
}

// expand models the rendering of a subtree on the main canvas: probes are counted, <use> is
// replaced by its target, a shape with vertices is followed by the content of its markers, once per
// vertex of the position (SVG 1.1 §11.6.2: start = first vertex, end = last vertex, mid = every
// other one).  inProgress holds the ids whose expansion is under way; revisiting one is a cycle
// (cut there).  mult is the number of instances of the subtree.
func (g *refGen) expand(n *rnode, inProgress map[string]bool, render bool, mult int, budget *int) {
	if *budget <= 0 {
		return
	}
	*budget--
	switch n.tag {
	case "use":
		t := g.byID[n.href]
		if t == nil {
			return
		}
		if inProgress[n.href] {
			g.spec.UseCycle = true
			return
		}
		if render {
			for _, rf := range n.refs {
				if m := g.byID[rf.id]; m != nil && m.tag == "marker" && kindMatches(rf.attr, "marker") {
					// marker properties are inherited by the referenced content: not modelled
					g.loose("marker property on a <use>")
				}
			}
		}
		inProgress[n.href] = true
		g.expand(t, inProgress, render, mult, budget)
		delete(inProgress, n.href)
	case "g", "svg":
		for _, c := range n.children {
			g.expand(c, inProgress, render, mult, budget)
		}
	case "rect", "path", "line", "polygon", "polyline":
		if !render {
			return
		}
		if n.color != 0 {
			g.counts[n.color] += mult
		}
		if n.nverts == 0 {
			return
		}
		for _, pos := range []string{"marker-start", "marker-mid", "marker-end"} {
			k := 1
			switch {
			case pos == "marker-mid":
				k = n.nverts - 2
			case pos == "marker-end" && n.nverts < 2:
				k = 0
			}
			m := g.byID[n.markerAt(pos)]
			if k <= 0 || m == nil || m.tag != "marker" {
				continue
			}
			if n.closed && pos == "marker-mid" {
				// the closing segment of a polygon ends at a vertex of its own: implementations differ
				g.loose("mid markers of a <polygon>")
			}
			key := "marker:" + m.id
			if inProgress[key] {
				g.loose("marker cycle cut")
				continue
			}
			if mult*k > 4000 {
				*budget = 0
				return
			}
			g.spec.MarkerDraws += mult * k
			if g.laterBack[m.id] {
				g.spec.CycLaterDrawn++
			}
			inProgress[key] = true
			for _, c := range m.children {
				g.expand(c, inProgress, render, mult*k, budget)
			}
			delete(inProgress, key)
		}
	}
	// definitions (gradients, patterns, clipPath, mask, marker, defs) render nothing when used
}

func genRefs(r *rand.Rand) *In {
	for {
		in := genRefsOnce(r)
		if in != nil {
			return in
		}
	}
}

// dref is a reference found in the content of a clipPath / mask / marker definition.
type dref struct {
	attr, id string
	child    int  // index of the child of the definition holding it (-1: the definition element itself)
	nested   bool // below a <g> of the content
}

func genRefsOnce(r *rand.Rand) *In {
	in := &In{Mode: "refs", W: 200, H: 200}
	g := &refGen{r: r, byID: map[string]*rnode{}, spec: &RefSpec{}, counts: map[int]int{}, laterBack: map[string]bool{}, leadsLater: map[string]bool{}}
	in.Refs = g.spec
	nDefs := 1 + r.Intn(6)
	var defs, all []*rnode
	// first choose kinds and ids so that references can point forwards and backwards
	kinds := []string{"g", "g", "use", "use", "shape", "linearGradient", "radialGradient", "pattern", "clipPath", "mask", "marker", "marker", "marker"}
	for i := 0; i < nDefs; i++ {
		k := kinds[r.Intn(len(kinds))]
		n := &rnode{tag: k, id: fmt.Sprintf("n%d", i)}
		if k == "shape" {
			n = g.probe()
			n.id = fmt.Sprintf("n%d", i)
		}
		defs = append(defs, n)
		g.ids = append(g.ids, n.id)
		g.byID[n.id] = n
	}
	g.defs = defs
	refTo := func(self string) string {
		if self != "" && r.Intn(6) == 0 {
			return self
		}
		return g.anyID()
	}
	// href of a paint server: any id except a <use> — on the unchanged tree the template lookup
	// deletes the href attribute of whatever element it points to, which disables that <use>
	// (findings/C18/paint-server-href-strips-use.json)
	serverRef := func(self string) string {
		for {
			id := refTo(self)
			if t := g.byID[id]; t == nil || t.tag != "use" {
				return id
			}
		}
	}
	newUse := func(id string) *rnode {
		n := &rnode{tag: "use", id: id, href: refTo(id)}
		if r.Intn(3) == 0 {
			n.attrs = fmt.Sprintf(` x="%d" y="%d"`, r.Intn(50), r.Intn(50))
		}
		return n
	}
	// markerRefs: the `marker` shorthand alone, or any subset of the three specific properties
	markerRefs := func(n *rnode, p int, target func(attr string) string) {
		if r.Intn(4) == 0 {
			if r.Intn(p) == 0 {
				n.refs = append(n.refs, nref{"marker", target("marker")})
			}
			return
		}
		for _, a := range []string{"marker-start", "marker-mid", "marker-end"} {
			if r.Intn(p) == 0 {
				n.refs = append(n.refs, nref{a, target(a)})
			}
		}
	}
	// content of a clipPath / mask / marker definition: one to three children, each a shape or a
	// <g> around a shape; every child may reference any definition — the one it belongs to
	// included — through clip-path / mask / marker*, the property of its own definition's kind
	// being the most frequent.  Such references must be ignored when they lead back to a definition
	// under way, whichever child holds them (cycles recursed without end on the snapshot tree:
	// findings/C18/clip-path-cycle.json …, repaired).
	defRefs := map[string][]dref{}
	defContent := func(n *rnode, own string, shape func() *rnode) {
		target := func(attr string) string {
			if r.Intn(5) == 0 {
				return n.id
			}
			return g.fitID(attr)
		}
		nc := []int{1, 1, 2, 2, 3}[r.Intn(5)]
		for ci := 0; ci < nc; ci++ {
			sh := shape()
			holder := sh // element carrying clip-path / mask (markers always sit on the shape: the property is inherited)
			child := sh
			nested := false
			if r.Intn(5) == 0 {
				child = &rnode{tag: "g", children: []*rnode{sh}}
				nested = true
				if r.Intn(2) == 0 {
					holder = child
				}
			}
			for _, a := range []string{"clip-path", "mask"} {
				p := 5
				if a == own {
					p = 2
				}
				if r.Intn(p) == 0 {
					holder.refs = append(holder.refs, nref{a, target(a)})
				}
			}
			if sh.nverts > 0 {
				p := 5
				if own == "marker" {
					p = 3
				}
				markerRefs(sh, p, target)
			}
			for _, e := range []*rnode{child, sh} {
				for _, rf := range e.refs {
					defRefs[n.id] = append(defRefs[n.id], dref{rf.attr, rf.id, ci, nested})
				}
				if e == sh && child == sh {
					break
				}
			}
			n.children = append(n.children, child)
		}
		if own != "marker" && r.Intn(4) == 0 {
			id := target(own)
			n.refs = append(n.refs, nref{own, id})
			defRefs[n.id] = append(defRefs[n.id], dref{own, id, -1, false})
		}
		if nc > 1 {
			g.spec.MultiChild++
		}
	}
	plain := func(fill string) func() *rnode {
		return func() *rnode {
			switch r.Intn(3) {
			case 0:
				return &rnode{tag: "path", attrs: fmt.Sprintf(` d="M0 0 L150 20 L20 150 z"%s`, fill), nverts: 4}
			case 1:
				return &rnode{tag: "polyline", attrs: fmt.Sprintf(` points="0,0 150,0 150,150"%s`, fill), nverts: 3}
			}
			return &rnode{tag: "rect", attrs: fmt.Sprintf(` x="0" y="0" width="150" height="150"%s`, fill)}
		}
	}
	for _, n := range defs {
		switch n.tag {
		case "g":
			for k := 0; k < 1+r.Intn(2); k++ {
				if r.Intn(2) == 0 {
					n.children = append(n.children, g.probe())
				} else {
					n.children = append(n.children, newUse(""))
				}
			}
		case "use":
			*n = *newUse(n.id)
		case "linearGradient", "radialGradient":
			if r.Intn(3) > 0 {
				n.href = serverRef(n.id)
			}
			for k := 0; k < r.Intn(3); k++ {
				n.children = append(n.children, &rnode{tag: "stop", attrs: fmt.Sprintf(` offset="%g" stop-color="#%06x"`, float64(k)/2, r.Intn(1<<24))})
			}
		case "pattern":
			n.attrs = ` width="10" height="10" patternUnits="userSpaceOnUse"`
			if r.Intn(2) == 0 {
				n.href = serverRef(n.id)
			}
			nc := 1 + r.Intn(3)/2
			for ci := 0; ci < nc; ci++ {
				fill := `#777`
				if r.Intn(2) == 0 {
					fill = fmt.Sprintf("url(#%s)", refTo(n.id)) // pattern content painted with a pattern, possibly itself
				}
				n.children = append(n.children, &rnode{tag: "rect", attrs: fmt.Sprintf(` x="%d" width="6" height="6" fill="%s"`, 2*ci, fill)})
			}
			if nc > 1 {
				g.spec.MultiChild++
			}
		case "clipPath":
			defContent(n, "clip-path", plain(""))
		case "mask":
			defContent(n, "mask", plain(` fill="#fff"`))
		case "marker":
			n.attrs = ` markerWidth="4" markerHeight="4"`
			if r.Intn(4) == 0 {
				n.attrs += fmt.Sprintf(` overflow="%s"`, []string{"visible", "hidden", "scroll", "auto"}[r.Intn(4)])
			}
			if r.Intn(4) == 0 {
				n.attrs += ` markerUnits="userSpaceOnUse"`
			}
			defContent(n, "marker", g.markerContent)
		}
	}
	// the reference graph among clipPath / mask / marker definitions (an edge needs an attribute of
	// the kind of its target: clip-path="url(#aMarker)" references nothing)
	isDef := func(t *rnode) bool { return t != nil && (t.tag == "clipPath" || t.tag == "mask" || t.tag == "marker") }
	succ := map[string][]string{}
	for _, n := range defs {
		if !isDef(n) {
			continue
		}
		for _, d := range defRefs[n.id] {
			if t := g.byID[d.id]; isDef(t) && kindMatches(d.attr, t.tag) {
				succ[n.id] = append(succ[n.id], d.id)
			}
		}
	}
	reach := map[string]map[string]bool{} // id -> definitions reachable in one step or more
	for _, n := range defs {
		if !isDef(n) {
			continue
		}
		seen := map[string]bool{}
		stack := append([]string(nil), succ[n.id]...)
		for len(stack) > 0 {
			id := stack[len(stack)-1]
			stack = stack[:len(stack)-1]
			if seen[id] {
				continue
			}
			seen[id] = true
			stack = append(stack, succ[id]...)
		}
		reach[n.id] = seen
	}
	onCycle := func(id string) bool { return reach[id][id] }
	cyclic := map[string]bool{} // leads into a cycle
	for _, n := range defs {
		if !isDef(n) {
			continue
		}
		c := onCycle(n.id)
		for id := range reach[n.id] {
			c = c || onCycle(id)
		}
		if c {
			cyclic[n.id] = true
			switch n.tag {
			case "clipPath":
				g.spec.CycClip++
			case "mask":
				g.spec.CycMask++
			default:
				g.spec.CycMarker++
			}
		}
		if onCycle(n.id) {
			for id := range reach[n.id] {
				if g.byID[id].tag != n.tag && reach[id][n.id] {
					g.spec.CycCross++
					break
				}
			}
		}
		later, nested := false, false
		for _, d := range defRefs[n.id] {
			t := g.byID[d.id]
			if !isDef(t) || !kindMatches(d.attr, t.tag) || !(d.id == n.id || reach[d.id][n.id]) {
				continue
			}
			later = later || d.child >= 1
			nested = nested || d.nested
		}
		if later {
			g.laterBack[n.id] = true
			g.spec.CycLater++
		}
		if nested {
			g.spec.CycNested++
		}
	}
	for _, n := range defs {
		if !isDef(n) {
			continue
		}
		l := g.laterBack[n.id]
		for id := range reach[n.id] {
			l = l || g.laterBack[id]
		}
		g.leadsLater[n.id] = l
	}
	// rendered content
	var top []*rnode
	note := func(rf nref) {
		if t := g.byID[rf.id]; t == nil || !kindMatches(rf.attr, t.tag) {
			g.spec.Missing++
		} else {
			if cyclic[rf.id] {
				g.spec.CycUsed++
			}
			if g.leadsLater[rf.id] {
				g.spec.CycLaterUsed++
			}
		}
	}
	refAttrs := func(n *rnode) {
		from := len(n.refs)
		for _, a := range []string{"clip-path", "mask", "filter"} {
			if r.Intn(5) == 0 {
				n.refs = append(n.refs, nref{a, g.fitID(a)})
			}
		}
		mp := 4
		if n.nverts > 0 {
			mp = 2 // elements that have vertices carry markers more often
		}
		markerRefs(n, mp, g.fitID)
		for _, rf := range n.refs[from:] {
			note(rf)
		}
	}
	for _, n := range defs {
		// a shape of <defs> is rendered through <use> only; it may carry references as well
		if n.color != 0 && r.Intn(3) == 0 {
			refAttrs(n)
		}
	}
	nTop := 1 + r.Intn(4)
	for i := 0; i < nTop; i++ {
		var n *rnode
		switch r.Intn(5) {
		case 0, 1:
			n = g.probe()
			refAttrs(n)
		case 2:
			n = newUse("")
			refAttrs(n)
		case 3:
			// paint-server user: identified by geometry
			g.nextX += 10
			n = &rnode{tag: "rect", probeX: 1000 + g.nextX}
			id := g.anyID()
			fb := ""
			if r.Intn(2) == 0 {
				fb = " #0f0"
			}
			which := "fill"
			other := ""
			if r.Intn(4) == 0 {
				which, other = "stroke", ` fill="none"`
			}
			n.attrs = fmt.Sprintf(` x="%g" y="3" width="30" height="20" %s="url(#%s)%s"%s`, n.probeX, which, id, fb, other)
			refAttrs(n)
			if t := g.byID[id]; t == nil || !kindMatches("fill", t.tag) {
				g.spec.Missing++
			}
		default:
			n = &rnode{tag: "g"}
			n.children = append(n.children, g.probe(), newUse(""))
		}
		top = append(top, n)
	}
	if g.nextC > 48 {
		return nil // the colour scheme identifies at most 50 probes
	}
	all = append(all, defs...)
	all = append(all, top...)

	// model: missing use targets, cycles
	var walk func(n *rnode)
	walk = func(n *rnode) {
		if n.tag == "use" {
			g.spec.Uses++
			if g.byID[n.href] == nil {
				g.spec.Missing++
			}
		}
		for _, c := range n.children {
			walk(c)
		}
	}
	for _, n := range all {
		walk(n)
	}
	for _, n := range defs {
		switch n.tag {
		case "linearGradient", "radialGradient", "pattern":
			// follow href among paint servers
			seen := map[string]bool{n.id: true}
			cur := n
			for cur != nil && cur.href != "" {
				nx := g.byID[cur.href]
				if nx == nil {
					g.spec.Missing++
					break
				}
				if seen[nx.id] {
					if n.tag == "pattern" {
						g.spec.CycPat++
					} else {
						g.spec.CycGrad++
					}
					break
				}
				seen[nx.id] = true
				cur = nx
			}
			if n.tag == "pattern" {
				for _, c := range n.children {
					if strings.Contains(c.attrs, "url(#"+n.id+")") {
						g.spec.CycPat++
						break
					}
				}
			}
		}
	}
	budget := 5000
	// every <use> in the document is resolved by an implementation, rendered or not: look for cycles everywhere
	for _, n := range defs {
		g.expand(n, map[string]bool{}, false, 1, &budget)
	}
	for _, n := range top {
		g.expand(n, map[string]bool{}, true, 1, &budget)
	}
	if budget <= 0 {
		return nil // expansion too large: draw another graph
	}
	var collect func(n *rnode)
	collect = func(n *rnode) {
		if n.color != 0 {
			g.spec.Shapes = append(g.spec.Shapes, RefShape{Color: n.color, Count: g.counts[n.color], Mk: n.inMarker, Loose: n.inMarker && g.spec.MarkerLoose != ""})
		}
		for _, c := range n.children {
			collect(c)
		}
	}
	for _, n := range all {
		collect(n)
	}
	for _, n := range top {
		if n.probeX != 0 {
			g.spec.Shapes = append(g.spec.Shapes, RefShape{X: n.probeX, Count: 1})
		}
	}
	var sb strings.Builder
	fmt.Fprintf(&sb, `<svg %s width="200" height="200">`, svgNS)
	// definitions before, after or around the content
	writeDefs := func() {
		sb.WriteString("<defs>")
		for _, n := range defs {
			n.write(&sb, r)
		}
		sb.WriteString("</defs>")
	}
	before := r.Intn(2) == 0
	if before {
		writeDefs()
	}
	for _, n := range top {
		n.write(&sb, r)
	}
	if !before {
		writeDefs()
	}
	sb.WriteString("</svg>")
	in.SVG = sb.String()
	return in
}

func kindMatches(attr, tag string) bool {
	switch attr {
	case "clip-path":
		return tag == "clipPath"
	case "mask":
		return tag == "mask"
	case "filter":
		return tag == "filter"
	case "fill":
		return tag == "linearGradient" || tag == "radialGradient" || tag == "pattern"
	}
	return tag == "marker"
}

// maxRepeat bounds how often a shape may be painted when the specification leaves the number open
// (document with a cyclic <use>, marker content when a marker cycle had to be cut): the finite
// expansions of the generated graphs stay below 4 000 instances, anything above is "followed
// without end" stopped by luck.
const maxRepeat = 5000

func checkRefs(in *In, res *fw.Result) {
	sp := in.Refs
	if sp == nil {
		res.Verdict = fw.Inconclusive
		res.Msg = "no refs spec"
		return
	}
	d := drawDirect(in.SVG, in.W, in.H) // must return: recursion without end is fatal to the worker
	res.Count("refs_returned", 1)
	res.Count("refs_missing", int64(sp.Missing))
	res.Count("refs_cycle_gradient", int64(sp.CycGrad))
	res.Count("refs_cycle_pattern", int64(sp.CycPat))
	res.Count("refs_uses", int64(sp.Uses))
	res.Count("refs_cycle_clip", int64(sp.CycClip))
	res.Count("refs_cycle_mask", int64(sp.CycMask))
	res.Count("refs_cycle_marker", int64(sp.CycMarker))
	res.Count("refs_cycle_def_used", int64(sp.CycUsed))
	res.Count("refs_def_multi_child", int64(sp.MultiChild))
	res.Count("refs_cycle_cross_kind", int64(sp.CycCross))
	res.Count("refs_cycle_via_later_child", int64(sp.CycLater))
	res.Count("refs_cycle_via_nested_child", int64(sp.CycNested))
	res.Count("refs_cycle_later_child_used", int64(sp.CycLaterUsed))
	res.Count("refs_marker_cycle_later_child_drawn", int64(sp.CycLaterDrawn))
	res.Nontrivial = sp.Missing+sp.CycGrad+sp.CycPat+sp.CycUsed > 0 || sp.UseCycle
	if d.err != nil {
		if sp.UseCycle {
			// a cyclic <use> makes the document erroneous; rejecting it as a whole is tolerated
			res.Count("refs_cycle_use_rejected", 1)
			return
		}
		res.Fail("refs-rejected", fmt.Sprintf("%s has no cyclic <use> (only missing targets / paint-server cycles, which must be ignored) but is rejected: %v", in.SVG, d.err))
		return
	}
	if sp.UseCycle {
		res.Count("refs_cycle_use_accepted", 1)
	}
	if !sp.UseCycle && sp.MarkerLoose == "" {
		res.Count("refs_marker_instances_expected", int64(sp.MarkerDraws))
	}
	for _, s := range sp.Shapes {
		n := 0
		for _, p := range d.paths {
			if p.Kind != "paint" || len(p.Ops) == 0 || p.Cv != 1 {
				continue
			}
			if s.Color != 0 && p.rgbKey() == s.Color {
				n++
			}
			if s.Color == 0 && p.Ops[0].K == 'M' && near(p.Ops[0].P[0].X, s.X) {
				n++
			}
		}
		if sp.UseCycle || s.Loose {
			// the document was accepted although it has a cyclic <use>, or a marker cycle was cut:
			// where to cut is the implementation's choice, only unbounded repetition is excluded
			if n > maxRepeat {
				res.Fail("refs-count", fmt.Sprintf("%s: probe %+v painted %d times", in.SVG, s, n))
				return
			}
			if s.Loose {
				res.Count("refs_marker_content_bounded", 1)
			}
			continue
		}
		if n != s.Count {
			what := fmt.Sprintf("fill %s", colorAttr(s.Color))
			if s.Color == 0 {
				what = fmt.Sprintf("x=%g", s.X)
			}
			rule := "finite expansion of <use>, missing and cyclic paint-server references ignored"
			if s.Mk {
				rule = "content of a <marker>: one instance per vertex of the position on every rendered path / line / polyline / polygon referencing it, none otherwise"
			}
			res.Fail("refs-count", fmt.Sprintf("%s: the shape with %s must be painted %d time(s) (%s) but is painted %d time(s)", in.SVG, what, s.Count, rule, n))
			return
		}
		res.Count("refs_shapes_counted", 1)
		if s.Mk {
			res.Count("refs_marker_content_counted", 1)
			if s.Count > 0 {
				res.Count("refs_marker_content_drawn", 1)
			}
		}
	}
}
