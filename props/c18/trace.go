package c18

import (
	"fmt"
	"math"
	"strings"

	"verif/internal/rec"
)

// ---------------------------------------------------------------------------------------------
// Observation side: the recorded backend trace is replayed by a small PDF-like graphics-state
// machine (own float64 affine arithmetic, Save/Restore stack, current path, current fill colour)
// and turned into a list of painted / clipped paths in *device* coordinates.
// ---------------------------------------------------------------------------------------------

type pt struct{ X, Y float64 }

func (p pt) sub(q pt) pt       { return pt{p.X - q.X, p.Y - q.Y} }
func (p pt) add(q pt) pt       { return pt{p.X + q.X, p.Y + q.Y} }
func (p pt) mul(k float64) pt  { return pt{p.X * k, p.Y * k} }
func (p pt) dist(q pt) float64 { return math.Hypot(p.X-q.X, p.Y-q.Y) }
func (p pt) String() string    { return fmt.Sprintf("(%.5g,%.5g)", p.X, p.Y) }
func (p pt) finite() bool {
	return !math.IsNaN(p.X) && !math.IsInf(p.X, 0) && !math.IsNaN(p.Y) && !math.IsInf(p.Y, 0)
}

// aff maps (x,y) to (A x + C y + E, B x + D y + F)  — the PDF / SVG matrix(a b c d e f) convention.
type aff struct{ A, B, C, D, E, F float64 }

var affID = aff{A: 1, D: 1}

func (m aff) apply(p pt) pt { return pt{m.A*p.X + m.C*p.Y + m.E, m.B*p.X + m.D*p.Y + m.F} }

// then returns the matrix of "first n, then m" : p -> m(n(p)).  A backend Transform(n) call on a
// state whose CTM is m replaces the CTM by m.then(n).
func (m aff) then(n aff) aff {
	return aff{
		A: m.A*n.A + m.C*n.B, B: m.B*n.A + m.D*n.B,
		C: m.A*n.C + m.C*n.D, D: m.B*n.C + m.D*n.D,
		E: m.A*n.E + m.C*n.F + m.E, F: m.B*n.E + m.D*n.F + m.F,
	}
}

// op is one path construction operation in device space.
// K: 'M' moveto P[0]; 'L' lineto P[0]; 'C' curveto P[0],P[1] controls, P[2] end; 'Z' closepath.
type op struct {
	K byte
	P [3]pt
}

func (o op) end() pt {
	if o.K == 'C' {
		return o.P[2]
	}
	return o.P[0]
}

func (o op) String() string {
	switch o.K {
	case 'M', 'L':
		return fmt.Sprintf("%c%v", o.K, o.P[0])
	case 'C':
		return fmt.Sprintf("C%v%v%v", o.P[0], o.P[1], o.P[2])
	}
	return string(o.K)
}

func opsString(ops []op) string {
	var sb strings.Builder
	for i, o := range ops {
		if i > 0 {
			sb.WriteByte(' ')
		}
		if i >= 60 {
			fmt.Fprintf(&sb, "… (%d ops)", len(ops))
			break
		}
		sb.WriteString(o.String())
	}
	return sb.String()
}

// tPath is one path consumed by a Paint or a Clip call.
type tPath struct {
	Cv      int    // canvas id
	Kind    string // "paint" | "clip"
	PaintOp int
	Ops     []op
	Fill    [4]float64 // fill colour in force (r,g,b,a), valid when HasFill
	HasFill bool
	Rects   int // how many of the sub-paths came from a Rectangle call
	Ev      int // index of the consuming event
}

// rgbKey packs an 8-bit colour for identification of shapes by their unique fill.
func (p tPath) rgbKey() int {
	if !p.HasFill {
		return -1
	}
	r := int(math.Round(p.Fill[0] * 255))
	g := int(math.Round(p.Fill[1] * 255))
	b := int(math.Round(p.Fill[2] * 255))
	return r<<16 | g<<8 | b
}

type gstate struct {
	ctm     aff
	fill    [4]float64
	hasFill bool
}

type cvState struct {
	cur   gstate
	stack []gstate
	ops   []op
	rects int
}

// walkTrace replays the events. It returns all consumed paths in trace order and the number of
// path construction events seen.
func walkTrace(d *rec.Doc) (paths []tPath, nPathEvents int) {
	states := map[int]*cvState{}
	get := func(cv int) *cvState {
		s := states[cv]
		if s == nil {
			s = &cvState{cur: gstate{ctm: affID}}
			states[cv] = s
		}
		return s
	}
	f := func(e *rec.Event, i int) float64 { return float64(e.F[i]) }
	for i := range d.Events {
		e := &d.Events[i]
		s := get(e.Cv)
		switch e.Op {
		case "Save":
			s.stack = append(s.stack, s.cur)
		case "Restore":
			if n := len(s.stack); n > 0 {
				s.cur = s.stack[n-1]
				s.stack = s.stack[:n-1]
			}
		case "Transform":
			s.cur.ctm = s.cur.ctm.then(aff{f(e, 0), f(e, 1), f(e, 2), f(e, 3), f(e, 4), f(e, 5)})
		case "SetColorRgba":
			if e.F[4] == 0 {
				s.cur.fill = [4]float64{f(e, 0), f(e, 1), f(e, 2), f(e, 3)}
				s.cur.hasFill = true
			}
		case "SetColorPattern":
			if e.F[8] == 0 {
				s.cur.hasFill = false
			}
		case "MoveTo":
			nPathEvents++
			s.ops = append(s.ops, op{K: 'M', P: [3]pt{s.cur.ctm.apply(pt{f(e, 0), f(e, 1)})}})
		case "LineTo":
			nPathEvents++
			s.ops = append(s.ops, op{K: 'L', P: [3]pt{s.cur.ctm.apply(pt{f(e, 0), f(e, 1)})}})
		case "CubicTo":
			nPathEvents++
			s.ops = append(s.ops, op{K: 'C', P: [3]pt{
				s.cur.ctm.apply(pt{f(e, 0), f(e, 1)}), s.cur.ctm.apply(pt{f(e, 2), f(e, 3)}), s.cur.ctm.apply(pt{f(e, 4), f(e, 5)}),
			}})
		case "ClosePath":
			nPathEvents++
			s.ops = append(s.ops, op{K: 'Z'})
		case "Rectangle":
			// PDF "re": moveto, three linetos, closepath
			nPathEvents++
			x, y, w, h := f(e, 0), f(e, 1), f(e, 2), f(e, 3)
			m := s.cur.ctm
			s.ops = append(s.ops,
				op{K: 'M', P: [3]pt{m.apply(pt{x, y})}},
				op{K: 'L', P: [3]pt{m.apply(pt{x + w, y})}},
				op{K: 'L', P: [3]pt{m.apply(pt{x + w, y + h})}},
				op{K: 'L', P: [3]pt{m.apply(pt{x, y + h})}},
				op{K: 'Z'})
			s.rects++
		case "Paint", "Clip":
			kind := "paint"
			po := 0
			if e.Op == "Clip" {
				kind = "clip"
			} else {
				po = int(e.F[0])
			}
			paths = append(paths, tPath{Cv: e.Cv, Kind: kind, PaintOp: po, Ops: s.ops, Fill: s.cur.fill, HasFill: s.cur.hasFill, Rects: s.rects, Ev: i})
			s.ops = nil
			s.rects = 0
		}
	}
	return paths, nPathEvents
}

// normalizeObserved makes the implicit sub-path start after a closepath explicit: in the backend
// model (PDF) as in SVG, after closepath the current point is the start of the closed sub-path and
// a following drawing operation begins a new sub-path there.
func normalizeObserved(ops []op) []op {
	out := make([]op, 0, len(ops)+2)
	var start pt
	haveStart := false
	afterZ := false
	for _, o := range ops {
		switch o.K {
		case 'M':
			start, haveStart = o.P[0], true
			afterZ = false
		case 'Z':
			afterZ = true
			out = append(out, o)
			continue
		default:
			if afterZ && haveStart {
				out = append(out, op{K: 'M', P: [3]pt{start}})
			}
			afterZ = false
		}
		out = append(out, o)
	}
	return out
}

// inv returns the inverse of a non-singular matrix.
func (m aff) inv() aff {
	det := m.A*m.D - m.B*m.C
	return aff{
		A: m.D / det, B: -m.B / det, C: -m.C / det, D: m.A / det,
		E: (m.C*m.F - m.D*m.E) / det, F: (m.B*m.E - m.A*m.F) / det,
	}
}

// mapOps applies m to every point.
func mapOps(ops []op, m aff) []op {
	out := make([]op, len(ops))
	for i, o := range ops {
		out[i] = op{K: o.K, P: [3]pt{m.apply(o.P[0]), m.apply(o.P[1]), m.apply(o.P[2])}}
		if o.K == 'Z' {
			out[i].P = [3]pt{}
		}
	}
	return out
}
