package c18

import (
	"fmt"
	"math"
	"math/rand"
	"strings"

	"verif/internal/fw"
)

// ---------------------------------------------------------------------------------------------
// viewBox / preserveAspectRatio against SVG 1.1 §7.7–7.8 (SVG 2 §8.2 "computing the equivalent
// transform of an SVG viewport").
// ---------------------------------------------------------------------------------------------

var vbAligns = []string{"none", "xMinYMin", "xMidYMin", "xMaxYMin", "xMinYMid", "xMidYMid", "xMaxYMid", "xMinYMax", "xMidYMax", "xMaxYMax"}
var vbMOS = []string{"", "meet", "slice"}

// five aspect relations viewport : viewBox  (viewBox w,h ; viewport w,h)
var vbAspects = [5][4]float64{
	{50, 40, 100, 80},    // same aspect ratio, enlarged
	{40, 40, 120, 60},    // viewport wider than the viewBox
	{40, 40, 60, 120},    // viewport taller
	{400, 100, 100, 100}, // viewBox much wider, reduced
	{30, 80, 90, 60},     // viewBox taller, non-uniform factors 3 and 3/4
}

// align × meetOrSlice × aspect × root/nested × origin at 0 / elsewhere
const vbExhaustive = 10 * 3 * 5 * 2 * 2

// VBSpec is the generator-side description of a viewBox case.
type VBSpec struct {
	Nested         bool
	VX, VY, VW, VH float64 // viewBox
	Align, MOS     string  // MOS "" = not written (meet)
	HasPAR         bool    // attribute written at all (absent = xMidYMid meet)
	PX, PY, PW, PH float64 // viewport of the element carrying the viewBox, in device space
	Overflow       string  // nested only: attribute value, "" = absent (hidden)
	Pts            []float64
}

func genViewBox(r *rand.Rand, i int) *In {
	in := &In{Mode: "viewbox", Color: 0x28323c, FeatC: Feat{}}
	vb := &VBSpec{HasPAR: true}
	in.VB = vb
	if i >= 0 {
		vb.Align = vbAligns[i%10]
		vb.MOS = vbMOS[(i/10)%3]
		a := vbAspects[(i/30)%5]
		vb.Nested = (i/150)%2 == 1
		vb.VW, vb.VH, vb.PW, vb.PH = a[0], a[1], a[2], a[3]
		if (i/300)%2 == 1 {
			vb.VX, vb.VY = -15, 25
		}
		in.FeatC["vb_exhaustive"]++
	} else {
		vb.Align = vbAligns[r.Intn(10)]
		vb.MOS = vbMOS[r.Intn(3)]
		vb.Nested = r.Intn(2) == 0
		vb.VW, vb.VH = q(r, 1, 400), q(r, 1, 400)
		vb.PW, vb.PH = q(r, 8, 400), q(r, 8, 400)
		vb.VX, vb.VY = coord(r, -200, 200), coord(r, -200, 200)
		if r.Intn(8) == 0 {
			vb.HasPAR = false
			vb.Align, vb.MOS = "xMidYMid", ""
		}
	}
	if vb.Nested {
		vb.PX, vb.PY = coord(r, 0, 60), coord(r, 0, 60)
		if r.Intn(5) == 0 {
			// "scroll" clips like "hidden" (SVG 1.1 §14.3.3; findings/C18/nested-svg-overflow-scroll.json, repaired)
			vb.Overflow = []string{"hidden", "visible", "auto", "scroll"}[r.Intn(4)]
		}
	}
	// three probe points inside (and one outside) the viewBox
	for k := 0; k < 3; k++ {
		vb.Pts = append(vb.Pts, vb.VX+q(r, 0, vb.VW), vb.VY+q(r, 0, vb.VH))
	}
	vb.Pts = append(vb.Pts, vb.VX-5, vb.VY+vb.VH+5)

	par := ""
	if vb.HasPAR {
		v := vb.Align
		if vb.MOS != "" {
			v += " " + vb.MOS
		}
		par = fmt.Sprintf(` preserveAspectRatio="%s"`, v)
	}
	count := func(k string) { in.FeatC["num_"+k]++ }
	vbAttr := fmt.Sprintf(` viewBox="%s"`, listText(r, []float64{vb.VX, vb.VY, vb.VW, vb.VH}, numSyntax{}, count))
	var d strings.Builder
	for k := 0; k < len(vb.Pts); k += 2 {
		if k == 0 {
			d.WriteString("M")
		} else {
			d.WriteString(" L")
		}
		fmt.Fprintf(&d, "%g %g", vb.Pts[k], vb.Pts[k+1])
	}
	path := fmt.Sprintf(`<path fill="%s" d="%s"/>`, colorAttr(in.Color), d.String())
	if vb.Nested {
		in.W, in.H = vb.PX+vb.PW+float64(r.Intn(40)), vb.PY+vb.PH+float64(r.Intn(40))
		ov := ""
		if vb.Overflow != "" {
			ov = fmt.Sprintf(` overflow="%s"`, vb.Overflow)
		}
		pos := ""
		if vb.PX != 0 || r.Intn(2) == 0 {
			pos += fmt.Sprintf(` x="%g"`, vb.PX)
		}
		if vb.PY != 0 || r.Intn(2) == 0 {
			pos += fmt.Sprintf(` y="%g"`, vb.PY)
		}
		in.SVG = fmt.Sprintf(`<svg %s width="%g" height="%g"><svg%s width="%g" height="%g"%s%s%s>%s</svg></svg>`,
			svgNS, in.W, in.H, pos, vb.PW, vb.PH, vbAttr, par, ov, path)
	} else {
		in.W, in.H = vb.PW, vb.PH
		size := ""
		if r.Intn(2) == 0 {
			size = fmt.Sprintf(` width="%g" height="%g"`, in.W, in.H)
		}
		in.SVG = fmt.Sprintf(`<svg %s%s%s%s>%s</svg>`, svgNS, size, vbAttr, par, path)
	}
	return in
}

// expectedViewBoxTransform is the equivalent transform of SVG 2 §8.2.
func expectedViewBoxTransform(vb *VBSpec) aff {
	sx, sy := vb.PW/vb.VW, vb.PH/vb.VH
	if vb.Align != "none" {
		s := math.Min(sx, sy)
		if vb.MOS == "slice" {
			s = math.Max(sx, sy)
		}
		sx, sy = s, s
	}
	tx := vb.PX - vb.VX*sx
	ty := vb.PY - vb.VY*sy
	if strings.Contains(vb.Align, "xMid") {
		tx += (vb.PW - vb.VW*sx) / 2
	}
	if strings.Contains(vb.Align, "xMax") {
		tx += vb.PW - vb.VW*sx
	}
	if strings.Contains(vb.Align, "YMid") {
		ty += (vb.PH - vb.VH*sy) / 2
	}
	if strings.Contains(vb.Align, "YMax") {
		ty += vb.PH - vb.VH*sy
	}
	return aff{A: sx, D: sy, E: tx, F: ty}
}

func checkViewBox(in *In, res *fw.Result) {
	vb := in.VB
	if vb == nil {
		res.Verdict = fw.Inconclusive
		res.Msg = "no viewbox spec"
		return
	}
	d := drawDirect(in.SVG, in.W, in.H)
	if d.err != nil {
		res.Fail("viewbox-rejected", fmt.Sprintf("valid document %s is rejected: %v", in.SVG, d.err))
		return
	}
	T := expectedViewBoxTransform(vb)
	var exp []seg
	for k := 0; k < len(vb.Pts); k += 2 {
		s := seg{K: 'L', P: [3]pt{T.apply(pt{vb.Pts[k], vb.Pts[k+1]})}}
		if k == 0 {
			s.K = 'M'
		}
		exp = append(exp, s)
	}
	got := d.byColor(in.Color)
	if len(got) != 1 {
		res.Fail("viewbox-not-drawn", fmt.Sprintf("%s: %d painted paths carry the probe's colour (expected 1)", in.SVG, len(got)))
		return
	}
	obs := normalizeObserved(got[0].Ops)
	if _, msg := matchPath(exp, obs, arcTol); msg != "" {
		res.Fail("viewbox-transform", fmt.Sprintf("%s drawn at %gx%g: viewport (%g,%g,%g,%g), viewBox (%g,%g,%g,%g), align %q meetOrSlice %q: expected user→device transform matrix(%.6g 0 0 %.6g %.6g %.6g); %s\n  expected: %s\n  observed: %s",
			in.SVG, in.W, in.H, vb.PX, vb.PY, vb.PW, vb.PH, vb.VX, vb.VY, vb.VW, vb.VH, vb.Align, vb.MOS, T.A, T.D, T.E, T.F, msg, segsString(exp), opsString(obs)))
		return
	}
	res.Count("vb_matched", 1)
	res.Count("vb_align_"+vb.Align, 1)
	mos := vb.MOS
	if mos == "" {
		mos = "default"
	}
	res.Count("vb_"+mos, 1)
	if vb.Nested {
		res.Count("vb_nested", 1)
		// a nested <svg> clips to its viewport unless overflow is visible/auto
		clipExpected := vb.Overflow == "" || vb.Overflow == "hidden" || vb.Overflow == "scroll"
		want := []seg{
			{K: 'M', P: [3]pt{{vb.PX, vb.PY}}}, {K: 'L', P: [3]pt{{vb.PX + vb.PW, vb.PY}}},
			{K: 'L', P: [3]pt{{vb.PX + vb.PW, vb.PY + vb.PH}}}, {K: 'L', P: [3]pt{{vb.PX, vb.PY + vb.PH}}}, {K: 'Z'},
		}
		found := false
		for _, p := range d.paths {
			if p.Kind == "clip" && p.Cv == got[0].Cv && p.Ev < got[0].Ev {
				if _, msg := matchPath(want, normalizeObserved(p.Ops), arcTol); msg == "" {
					found = true
				}
			}
		}
		if clipExpected {
			if !found {
				res.Fail("viewbox-nested-clip", fmt.Sprintf("%s: the nested <svg> (overflow %q) must clip to its viewport (%g,%g,%g,%g) but no such clip precedes its content", in.SVG, vb.Overflow, vb.PX, vb.PY, vb.PW, vb.PH))
				return
			}
			res.Count("vb_nested_clip_checked", 1)
			if vb.Overflow == "scroll" {
				res.Count("vb_nested_scroll_clip_checked", 1)
			}
		} else {
			if found {
				res.Fail("viewbox-nested-clip", fmt.Sprintf("%s: the nested <svg> has overflow=%q but its content is clipped to the viewport", in.SVG, vb.Overflow))
				return
			}
			res.Count("vb_nested_noclip_checked", 1)
		}
	}
	for k, v := range in.FeatC {
		res.Count(k, int64(v))
	}
	res.Nontrivial = true
}
