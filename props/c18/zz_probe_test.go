package c18

import (
	"fmt"
	"os"
	"testing"
)

func TestZZProbe(t *testing.T) {
	src, _ := os.ReadFile(os.Getenv("C18_PROBE"))
	d := drawDirect(fmt.Sprintf(`<svg %s width="200" height="200">%s</svg>`, svgNS, string(src)), 200, 200)
	if d.err != nil {
		t.Log("ERR", d.err)
		return
	}
	for _, p := range d.paths {
		t.Logf("cv=%d %s fill=%06x %s", p.Cv, p.Kind, p.rgbKey(), opsString(p.Ops))
	}
}
