package c18

import (
	"encoding/json"
	"fmt"
	"os"
	"path/filepath"
	"testing"

	"verif/internal/fw"
)

// Hand-written inputs for the defects of the unchanged tree.  `go test -run TestWitnesses -v` shows
// what the check says about each; with C18_WRITE_FINDINGS=1 the files of /verif/findings/C18 are
// (re)written.  Witnesses whose defect is an unbounded recursion are not executed here (they kill
// the process); they are replayed by the driver in a worker process.

type witness struct {
	name, what string
	in         In
	fatal      bool
}

func pathIn(d string, cmds []Cmd) In {
	return In{Mode: "path", Color: pathFill, CurveTol: arcTol, W: 400, H: 300, Cmds: cmds,
		SVG: fmt.Sprintf(`<svg %s width="400" height="300"><path fill="%s" d="%s"/></svg>`, svgNS, colorAttr(pathFill), d)}
}

func refsIn(body string, spec RefSpec) In {
	return In{Mode: "refs", W: 200, H: 200, Refs: &spec, SVG: fmt.Sprintf(`<svg %s width="200" height="200">%s</svg>`, svgNS, body)}
}

func shapeIn(el string, sp ShapeSpec, tol float64) In {
	sp.SX, sp.SY = 1, 1
	return In{Mode: "shape", Color: 0x1e2832, W: 200, H: 100, CurveTol: tol, Shape: &sp,
		SVG: fmt.Sprintf(`<svg %s width="200" height="100">%s</svg>`, svgNS, fmt.Sprintf(el, colorAttr(0x1e2832)))}
}

func witnesses() []witness {
	return []witness{
		{name: "arc-implicit-repetition", what: "second argument group of an arc command is drawn with the first group's values",
			in: pathIn("M10 10 A5 5 0 0 1 20 10 8 8 0 0 0 36 10", []Cmd{{L: "M", A: [][]float64{{10, 10}}}, {L: "A", A: [][]float64{{5, 5, 0, 0, 1, 20, 10}, {8, 8, 0, 0, 0, 36, 10}}}})},
		{name: "closepath-after-implicit-subpath", what: "closepath of a sub-path opened by drawing right after a closepath is dropped",
			in: pathIn("M0 0 L10 0 L10 10 Z L20 20 L20 0 Z", []Cmd{{L: "M", A: [][]float64{{0, 0}}}, {L: "L", A: [][]float64{{10, 0}}}, {L: "L", A: [][]float64{{10, 10}}}, {L: "Z"}, {L: "L", A: [][]float64{{20, 20}}}, {L: "L", A: [][]float64{{20, 0}}}, {L: "Z"}})},
		{name: "number-exponent-plus", what: "a number with an explicitly positive exponent (1e+1) makes the whole path invalid",
			in: pathIn("M1e+1 0 L5 5", []Cmd{{L: "M", A: [][]float64{{10, 0}}}, {L: "L", A: [][]float64{{5, 5}}}})},
		{name: "number-exponent-upper-e", what: "a number with an upper-case exponent (1E1) is read as a command letter",
			in: pathIn("M1E1 0 L5 5", []Cmd{{L: "M", A: [][]float64{{10, 0}}}, {L: "L", A: [][]float64{{5, 5}}}})},
		{name: "number-dot-after-exponent", what: "1e1.5 is not split into 1e1 and .5",
			in: pathIn("M1e1.5 L5 5", []Cmd{{L: "M", A: [][]float64{{10, 0.5}}}, {L: "L", A: [][]float64{{5, 5}}}})},
		{name: "arc-zero-radius", what: "an arc with a zero radius is not drawn as a straight line",
			in: pathIn("M10 10 A0 5 0 0 1 20 20 L0 5", []Cmd{{L: "M", A: [][]float64{{10, 10}}}, {L: "A", A: [][]float64{{0, 5, 0, 0, 1, 20, 20}}}, {L: "L", A: [][]float64{{0, 5}}}})},
		{name: "arc-zero-length", what: "an arc whose end point is the current point must be omitted",
			in: pathIn("M20 20 A5 5 0 0 1 20 20 L30 30", []Cmd{{L: "M", A: [][]float64{{20, 20}}}, {L: "A", A: [][]float64{{5, 5, 0, 0, 1, 20, 20}}}, {L: "L", A: [][]float64{{30, 30}}}})},
		{name: "arc-one-negative-radius", what: "an arc with one negative radius is mirrored instead of using the absolute value (SVG 1.1 F.6.6)",
			in: pathIn("M30 30 A20 -9 0 0 1 60 32 L0 5", []Cmd{{L: "M", A: [][]float64{{30, 30}}}, {L: "A", A: [][]float64{{20, -9, 0, 0, 1, 60, 32}}}, {L: "L", A: [][]float64{{0, 5}}}})},
		{name: "arc-negative-radii", what: "negative arc radii are used by absolute value",
			in: pathIn("M30 30 A-5 -9 30 0 1 40 32 L0 5", []Cmd{{L: "M", A: [][]float64{{30, 30}}}, {L: "A", A: [][]float64{{-5, -9, 30, 0, 1, 40, 32}}}, {L: "L", A: [][]float64{{0, 5}}}})},
		{name: "rect-ry-from-rx", what: "<rect rx ry>: ry is parsed from the rx attribute",
			in: shapeIn(`<rect fill="%s" x="10" y="10" width="100" height="50" rx="5" ry="20"/>`, ShapeSpec{Kind: "rect", X: 10, Y: 10, Wd: 100, Ht: 50, Rx: 5, Ry: 20, HasRx: true, HasRy: true}, rectCurveTol)},
		{name: "rect-corner-control-point", what: "rounded <rect> corners: the second control point of each corner cubic is at c·r from the wrong end (2.7 % off the ellipse)",
			in: shapeIn(`<rect fill="%s" x="10" y="10" width="100" height="50" rx="20" ry="20"/>`, ShapeSpec{Kind: "rect", X: 10, Y: 10, Wd: 100, Ht: 50, Rx: 20, Ry: 20, HasRx: true, HasRy: true}, arcTol)},
		{name: "ellipse-control-ratio", what: "<circle>/<ellipse>: control offset r/√π instead of 4(√2−1)/3·r (0.63 % off the ellipse)",
			in: shapeIn(`<circle fill="%s" cx="50" cy="50" r="40"/>`, ShapeSpec{Kind: "circle", Cx: 50, Cy: 50, Rx: 40, Ry: 40}, arcTol)},
		{name: "rect-single-radius-percent", what: "<rect rx=10%%> with ry auto: ry must equal the used rx, not 10%% of the height",
			in: shapeIn(`<rect fill="%s" x="10" y="10" width="100" height="50" rx="10%%"/>`, ShapeSpec{Kind: "rect", X: 10, Y: 10, Wd: 100, Ht: 50, Rx: 20, HasRx: true}, rectCurveTol)},
		{name: "circle-radius-percent", what: "<circle r=10%%>: the percentage refers to the normalised diagonal, the circle must stay a circle",
			in: shapeIn(`<circle fill="%s" cx="100" cy="50" r="10%%"/>`, ShapeSpec{Kind: "circle", Cx: 100, Cy: 50, Rx: 15.8113883, Ry: 15.8113883}, ellipseCurveTol)},
		{name: "nested-svg-overflow-scroll", what: "nested <svg overflow=scroll> is not clipped to its viewport",
			in: In{Mode: "viewbox", Color: 0x28323c, W: 160, H: 120, VB: &VBSpec{Nested: true, VW: 50, VH: 40, Align: "xMidYMid", HasPAR: true, PX: 20, PY: 10, PW: 100, PH: 80, Overflow: "scroll", Pts: []float64{5, 5, 30, 20, 10, 30}},
				SVG: fmt.Sprintf(`<svg %s width="160" height="120"><svg x="20" y="10" width="100" height="80" viewBox="0 0 50 40" preserveAspectRatio="xMidYMid" overflow="scroll"><path fill="#28323c" d="M5 5 L30 20 L10 30"/></svg></svg>`, svgNS)}},
		{name: "preserve-aspect-ratio-short-panics", what: "preserveAspectRatio=\"x\" (or empty) panics in parsePreserveAspectRatio (slice bounds out of range); a crash on document-supplied text, C07/C01 territory",
			in: In{Mode: "viewbox", Color: 0x28323c, W: 100, H: 100, VB: &VBSpec{VW: 50, VH: 50, Align: "xMidYMid", HasPAR: true, PW: 100, PH: 100, Pts: []float64{5, 5, 30, 20, 10, 30}},
				SVG: fmt.Sprintf(`<svg %s width="100" height="100" viewBox="0 0 50 50" preserveAspectRatio="x"><path fill="#28323c" d="M5 5 L30 20 L10 30"/></svg>`, svgNS)}},
		{name: "paint-server-href-strips-use", what: "a pattern/gradient href that points to a <use> deletes the href of that <use>, which then draws nothing",
			in: refsIn(`<defs><rect id="r" width="9" height="9" fill="#123456"/><pattern id="p" href="#u"/></defs><use id="u" href="#r"/>`, RefSpec{Shapes: []RefShape{{Color: 0x123456, Count: 1}}, Missing: 1, Uses: 1})},
		{name: "clip-path-cycle", fatal: true, what: "a clipPath whose content is clipped by the same clipPath recurses until the stack is exhausted",
			in: refsIn(`<clipPath id="c"><rect width="10" height="10" clip-path="url(#c)"/></clipPath><rect width="20" height="20" fill="#123456" clip-path="url(#c)"/>`, RefSpec{Shapes: []RefShape{{Color: 0x123456, Count: 1}}})},
		{name: "mask-cycle", fatal: true, what: "a mask whose content is masked by the same mask recurses until the stack is exhausted",
			in: refsIn(`<mask id="m"><rect width="10" height="10" fill="#fff" mask="url(#m)"/></mask><rect width="20" height="20" fill="#123456" mask="url(#m)"/>`, RefSpec{Shapes: []RefShape{{Color: 0x123456, Count: 1}}})},
		{name: "marker-cycle", fatal: true, what: "a marker whose content carries the same marker recurses until the stack is exhausted",
			in: refsIn(`<marker id="k"><path d="M0 0 L1 1" marker-start="url(#k)"/></marker><path d="M0 0 L5 5" fill="#123456" marker-start="url(#k)"/>`, RefSpec{Shapes: []RefShape{{Color: 0x123456, Count: 1}}})},
	}
}

func TestWitnesses(t *testing.T) {
	write := os.Getenv("C18_WRITE_FINDINGS") != ""
	for _, w := range witnesses() {
		raw, _ := json.Marshal(w.in)
		verdict, sig, msg := "not executed (fatal)", "", w.what
		if !w.fatal {
			res := fw.SafeCheck(fw.Get("C18"), raw)
			verdict, sig = res.Verdict, res.Sig
			if res.Msg != "" {
				msg = res.Msg
			}
		}
		t.Logf("%-36s %-10s %-24s %.300s", w.name, verdict, sig, msg)
		if write && (w.fatal || verdict == "violation") {
			out, _ := json.MarshalIndent(map[string]any{"property": "C18", "sig": sig, "msg": w.what, "input": json.RawMessage(raw)}, "", " ")
			dir := "/verif/findings/C18"
			os.MkdirAll(dir, 0o755)
			if err := os.WriteFile(filepath.Join(dir, w.name+".json"), append(out, '\n'), 0o644); err != nil {
				t.Fatal(err)
			}
		}
	}
}
