package c18

import (
	"fmt"
	"math"
	"math/rand"
	"strings"

	"verif/internal/fw"
)

// ---------------------------------------------------------------------------------------------
// Basic shapes against the closed forms of SVG 1.1 §9.2–9.7 (SVG 2 §10).
// ---------------------------------------------------------------------------------------------

// Tolerances of the ellipse equation for the curved parts of *shapes*: the design value, as for
// path arcs.  (On the snapshot tree <circle>/<ellipse> were 0.63 % and rounded <rect> corners
// 2.7 % off the ellipse — findings/C18/ellipse-control-ratio.json, rect-corner-control-point.json,
// repaired since; until then these were 1 % and 3 %.)
const (
	ellipseCurveTol = arcTol
	rectCurveTol    = arcTol
)

// ShapeSpec is the generator-side description: the element, the attribute values resolved to user
// units by the generator (so the oracle never parses attribute text), and the user→device map.
type ShapeSpec struct {
	Kind string `json:"kind"`
	// rect
	X, Y, Wd, Ht float64
	Rx, Ry       float64
	HasRx, HasRy bool
	// circle / ellipse (Rx,Ry above; for circle Rx=Ry=r)
	Cx, Cy float64
	// line
	X1, Y1, X2, Y2 float64
	// polyline / polygon: the numbers as written (an odd trailing one is dropped by the oracle)
	Pts []float64
	// user space -> device space (viewBox with preserveAspectRatio="none", else identity)
	SX, SY, TX, TY float64
}

type unitVal struct {
	text string
	px   float64
}

// length renders a length whose value in px is v (v is what the oracle uses), possibly through a
// unit.  pctBase > 0 allows percentages of that base.
func length(r *rand.Rand, v float64, pctBase float64, feat Feat) string {
	k := r.Intn(16)
	switch {
	case k == 0:
		feat["unit_px"]++
		return fmt.Sprintf("%gpx", v)
	case k == 1 && math.Mod(v, 96) == 0:
		feat["unit_in"]++
		return fmt.Sprintf("%gin", v/96)
	case k == 2 && math.Mod(v, 16) == 0:
		feat["unit_pc"]++
		return fmt.Sprintf("%gpc", v/16)
	case k == 3 && math.Mod(v, 4) == 0:
		feat["unit_pt"]++
		return fmt.Sprintf("%gpt", v/4*3)
	case k == 4 && math.Mod(v, 16) == 0:
		feat["unit_em"]++ // default font size: medium = 16px
		return fmt.Sprintf("%gem", v/16)
	case k == 5 && pctBase > 0:
		p := v / pctBase * 100
		if p*8 == math.Trunc(p*8) {
			feat["unit_percent"]++
			return fmt.Sprintf("%g%%", p)
		}
	case k == 6:
		feat["unit_ws"]++
		return fmt.Sprintf(" %g ", v)
	}
	return fmt.Sprintf("%g", v)
}

func genShape(r *rand.Rand) *In {
	in := &In{Mode: "shape", Color: 0x1e2832, FeatC: Feat{}}
	sp := &ShapeSpec{SX: 1, SY: 1}
	in.Shape = sp
	in.W, in.H = float64(80+8*r.Intn(60)), float64(80+8*r.Intn(60))
	uw, uh := in.W, in.H // user-space viewport size = percentage bases
	rootAttrs := fmt.Sprintf(`width="%g" height="%g"`, in.W, in.H)
	if r.Intn(3) == 0 {
		// a viewBox that is not the viewport, mapped without aspect preservation
		uw, uh = float64(40+10*r.Intn(40)), float64(40+10*r.Intn(40))
		ox, oy := float64(10*r.Intn(7)-30), float64(10*r.Intn(7)-30)
		sp.SX, sp.SY = in.W/uw, in.H/uh
		sp.TX, sp.TY = -ox*sp.SX, -oy*sp.SY
		rootAttrs += fmt.Sprintf(` viewBox="%g %g %g %g" preserveAspectRatio="none"`, ox, oy, uw, uh)
		in.FeatC["shape_in_viewbox"]++
	}
	attr := func(name string, v float64, base float64) string {
		return fmt.Sprintf(` %s="%s"`, name, length(r, v, base, in.FeatC))
	}
	var el string
	kinds := []string{"rect", "rect", "rect", "circle", "ellipse", "ellipse", "line", "polyline", "polygon"}
	sp.Kind = kinds[r.Intn(len(kinds))]
	fill := fmt.Sprintf(` fill="%s"`, colorAttr(in.Color))
	switch sp.Kind {
	case "rect":
		sp.X, sp.Y = coord(r, -20, uw), coord(r, -20, uh)
		sp.Wd, sp.Ht = coord(r, 1, uw), coord(r, 1, uh)
		if r.Intn(12) == 0 {
			sp.Wd = 0
		}
		if r.Intn(12) == 0 {
			sp.Ht = 0
		}
		el = "<rect" + fill
		if sp.X != 0 || r.Intn(2) == 0 {
			el += attr("x", sp.X, uw)
		}
		if sp.Y != 0 || r.Intn(2) == 0 {
			el += attr("y", sp.Y, uh)
		}
		el += attr("width", sp.Wd, uw) + attr("height", sp.Ht, uh)
		// radii: none / one of them (the other is "auto": the same length) / both, equal or not.
		// A single radius is only written as a plain length: "auto" copying a percentage is an open
		// finding (findings/C18/rect-single-radius-percent.json).
		rad := coord(r, 0.25, math.Max(sp.Wd, sp.Ht)*0.75+1)
		if r.Intn(10) == 0 {
			rad = 0
		}
		switch r.Intn(6) {
		case 0:
		case 1:
			sp.Rx, sp.HasRx = rad, true
			el += attr("rx", rad, 0)
		case 2:
			sp.Ry, sp.HasRy = rad, true
			el += attr("ry", rad, 0)
		case 3:
			sp.Rx, sp.Ry, sp.HasRx, sp.HasRy = rad, rad, true, true
			el += attr("rx", rad, uw) + attr("ry", rad, uh)
		default:
			rad2 := coord(r, 0.25, math.Max(sp.Wd, sp.Ht)*0.75+1)
			if r.Intn(12) == 0 {
				rad2 = 0
			}
			sp.Rx, sp.Ry, sp.HasRx, sp.HasRy = rad, rad2, true, true
			el += attr("rx", rad, uw) + attr("ry", rad2, uh)
			if rad != rad2 {
				in.FeatC["shape_rect_rx_ne_ry"]++
			}
		}
		el += "/>"
	case "circle":
		sp.Cx, sp.Cy = coord(r, -20, uw), coord(r, -20, uh)
		sp.Rx = coord(r, 0.5, 120)
		if r.Intn(12) == 0 {
			sp.Rx = 0
		}
		sp.Ry = sp.Rx
		// r in percent refers to the normalised diagonal: not generated (see notes)
		el = "<circle" + fill + attr("cx", sp.Cx, uw) + attr("cy", sp.Cy, uh) + attr("r", sp.Rx, 0) + "/>"
	case "ellipse":
		sp.Cx, sp.Cy = coord(r, -20, uw), coord(r, -20, uh)
		sp.Rx, sp.Ry = coord(r, 0.5, 120), coord(r, 0.5, 120)
		if r.Intn(16) == 0 {
			sp.Rx = 0
		}
		if r.Intn(16) == 0 {
			sp.Ry = 0
		}
		el = "<ellipse" + fill + attr("cx", sp.Cx, uw) + attr("cy", sp.Cy, uh) + attr("rx", sp.Rx, uw) + attr("ry", sp.Ry, uh) + "/>"
	case "line":
		sp.X1, sp.Y1, sp.X2, sp.Y2 = coord(r, -20, uw), coord(r, -20, uh), coord(r, -20, uw), coord(r, -20, uh)
		el = "<line" + fill
		// omitted attributes default to 0
		if r.Intn(8) == 0 {
			sp.X1 = 0
		} else {
			el += attr("x1", sp.X1, uw)
		}
		if r.Intn(8) == 0 {
			sp.Y2 = 0
		} else {
			el += attr("y2", sp.Y2, uh)
		}
		el += attr("y1", sp.Y1, uh) + attr("x2", sp.X2, uw) + "/>"
	default:
		n := r.Intn(9) * 2
		if r.Intn(8) == 0 {
			n++ // odd: the last number is dropped
		}
		for i := 0; i < n; i++ {
			sp.Pts = append(sp.Pts, coord(r, -50, 300))
		}
		txt := listText(r, sp.Pts, numSyntax{}, func(k string) { in.FeatC["num_"+k]++ })
		if r.Intn(4) == 0 {
			txt = " " + txt + "\n"
		}
		el = "<" + sp.Kind + fill + ` points="` + txt + `"/>`
	}
	if r.Intn(4) == 0 {
		el = "<g>" + el + "</g>"
	}
	in.SVG = fmt.Sprintf(`<svg %s %s>%s</svg>`, svgNS, rootAttrs, el)
	return in
}

// expectedShape returns the outline in device space (nil = nothing is rendered) and the curve
// tolerance to apply.
func expectedShape(sp *ShapeSpec) (segs []seg, rendered bool, curveTol float64) {
	dev := func(p pt) pt { return pt{sp.SX*p.X + sp.TX, sp.SY*p.Y + sp.TY} }
	M := func(x, y float64) seg { return seg{K: 'M', P: [3]pt{dev(pt{x, y})}} }
	L := func(x, y float64) seg { return seg{K: 'L', P: [3]pt{dev(pt{x, y})}} }
	curveTol = arcTol
	switch sp.Kind {
	case "rect":
		x, y, w, h := sp.X, sp.Y, sp.Wd, sp.Ht
		if w <= 0 || h <= 0 {
			return nil, false, 0
		}
		rx, ry := sp.Rx, sp.Ry
		switch {
		case !sp.HasRx && !sp.HasRy:
			rx, ry = 0, 0
		case !sp.HasRx:
			rx = ry
		case !sp.HasRy:
			ry = rx
		}
		rx, ry = math.Min(rx, w/2), math.Min(ry, h/2)
		if rx == 0 || ry == 0 {
			return []seg{M(x, y), L(x+w, y), L(x+w, y+h), L(x, y+h), {K: 'Z'}}, true, curveTol
		}
		corner := func(fx, fy, tx, ty float64) seg {
			return seg{K: 'A', P0: dev(pt{fx, fy}), P: [3]pt{dev(pt{tx, ty})}, Rx: rx * sp.SX, Ry: ry * sp.SY, Sweep: true}
		}
		return []seg{
			M(x+rx, y), L(x+w-rx, y), corner(x+w-rx, y, x+w, y+ry),
			L(x+w, y+h-ry), corner(x+w, y+h-ry, x+w-rx, y+h),
			L(x+rx, y+h), corner(x+rx, y+h, x, y+h-ry),
			L(x, y+ry), corner(x, y+ry, x+rx, y), {K: 'Z'},
		}, true, rectCurveTol
	case "circle", "ellipse":
		if sp.Rx <= 0 || sp.Ry <= 0 {
			return nil, false, 0
		}
		start := dev(pt{sp.Cx + sp.Rx, sp.Cy})
		return []seg{
			{K: 'M', P: [3]pt{start}},
			{K: 'O', P: [3]pt{start, dev(pt{sp.Cx, sp.Cy})}, Rx: sp.Rx * sp.SX, Ry: sp.Ry * sp.SY},
			{K: 'Z'},
		}, true, ellipseCurveTol
	case "line":
		return []seg{M(sp.X1, sp.Y1), L(sp.X2, sp.Y2)}, true, curveTol
	case "polyline", "polygon":
		n := len(sp.Pts) / 2
		if n == 0 {
			return nil, false, 0
		}
		for i := 0; i < n; i++ {
			if i == 0 {
				segs = append(segs, M(sp.Pts[0], sp.Pts[1]))
			} else {
				segs = append(segs, L(sp.Pts[2*i], sp.Pts[2*i+1]))
			}
		}
		if sp.Kind == "polygon" {
			segs = append(segs, seg{K: 'Z'})
		}
		return segs, true, curveTol
	}
	return nil, false, 0
}

func checkShape(in *In, res *fw.Result) {
	sp := in.Shape
	if sp == nil {
		res.Verdict = fw.Inconclusive
		res.Msg = "no shape"
		return
	}
	exp, rendered, tol := expectedShape(sp)
	if in.CurveTol != 0 {
		tol = in.CurveTol
	}
	d := drawDirect(in.SVG, in.W, in.H)
	if d.err != nil {
		res.Fail("shape-rejected", fmt.Sprintf("valid document %s is rejected: %v", in.SVG, d.err))
		return
	}
	got := d.byColor(in.Color)
	if !rendered {
		if len(got) != 0 {
			res.Fail("shape-should-not-render", fmt.Sprintf("%s: the element must not be rendered (zero size / no points) but a path is painted: %s", in.SVG, opsString(got[0].Ops)))
			return
		}
		res.Count("shape_not_rendered", 1)
		res.Nontrivial = true
		return
	}
	if len(got) != 1 {
		res.Fail("shape-not-drawn", fmt.Sprintf("%s: %d painted paths carry the element's fill colour (expected 1); expected outline %s", in.SVG, len(got), segsString(exp)))
		return
	}
	obs := normalizeObserved(got[0].Ops)
	// An outline that returns to its start with a final lineto instead of closepath traces the same
	// point set: accepted, counted as a report-only remark (stroke joins at the start point differ).
	if n := len(obs); n >= 2 && exp[len(exp)-1].K == 'Z' && obs[n-1].K == 'L' && obs[0].K == 'M' && nearPt(obs[n-1].P[0], obs[0].P[0]) && nearPt(obs[n-2].end(), obs[0].P[0]) {
		obs = append(obs[:n-1:n-1], op{K: 'Z'})
		res.Reports = append(res.Reports, "shape outline ends with a zero-length lineto to its start instead of closepath (<"+sp.Kind+">)")
	}
	ms, msg := matchPath(exp, obs, tol)
	if msg != "" {
		if strings.Contains(msg, "internal:") {
			res.Verdict = fw.Inconclusive
			res.Msg = msg
			return
		}
		res.Fail("shape-"+sp.Kind, fmt.Sprintf("%s: %s\n  expected: %s\n  observed: %s", in.SVG, msg, segsString(exp), opsString(obs)))
		return
	}
	name := "shape_" + sp.Kind
	if sp.Kind == "rect" {
		if ms.Arcs > 0 {
			name = "shape_rect_rounded"
		} else {
			name = "shape_rect_plain"
		}
	}
	res.Count(name, 1)
	res.Count("shape_ops_matched", int64(ms.Ops))
	res.Count("shape_arc_cubics_sampled", int64(ms.ArcCubics))
	for k, v := range in.FeatC {
		res.Count(k, int64(v))
	}
	res.Nontrivial = ms.Ops >= 2
}
