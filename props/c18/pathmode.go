package c18

import (
	"fmt"
	"math"
	"math/rand"
	"strings"

	"verif/internal/fw"
)

const letters = "MmLlHhVvCcSsQqTtAaZz"

// Feat carries generator-side feature counts (number spellings used …) to the evidence counters.
type Feat map[string]int

var arcAngles = []float64{0, 0, 0, 30, 45, 90, -60, 135, 180, 360, -90, 12.5}

// genCmds builds a random command AST. The reference interpreter runs alongside so that the
// generator knows the current point (arcs must have distinct end points) and keeps values bounded.
//
// Two feature combinations were defective on the snapshot tree (repaired since; notes/C18.md,
// findings/C18) and are only generated when `all` is set, which the random workload does: an arc
// command with more than one argument group, and a closepath ending a sub-path that was opened
// implicitly by drawing after a closepath.
func genCmds(r *rand.Rand, maxCmds int, all bool) []Cmd {
	n := 1 + r.Intn(maxCmds)
	var cmds []Cmd
	var st pathState
	prevZ := false
	implicitSub := false // the current sub-path was opened by drawing right after a closepath
	for i := 0; i < n; i++ {
		var letter byte
		switch {
		case i == 0:
			letter = "Mm"[r.Intn(2)]
		case r.Intn(8) == 0 && i == n-1 && !prevZ && (all || !implicitSub):
			letter = "Zz"[r.Intn(2)]
		case len(cmds) > 0 && r.Intn(4) == 0 && strings.ContainsAny(cmds[len(cmds)-1].L, "CcSsQqTt"):
			// smooth continuation of the previous curve (reflection of its control point)
			if strings.ContainsAny(cmds[len(cmds)-1].L, "CcSs") {
				letter = "Ss"[r.Intn(2)]
			} else {
				letter = "Tt"[r.Intn(2)]
			}
		default:
			for {
				letter = letters[r.Intn(len(letters))]
				if (letter|0x20) == 'z' && (prevZ || (implicitSub && !all)) {
					continue
				}
				// fewer movetos and closepaths than drawing commands
				if ((letter|0x20) == 'm' || (letter|0x20) == 'z') && r.Intn(2) == 0 {
					continue
				}
				break
			}
		}
		c := Cmd{L: string(letter)}
		ar := arity(letter)
		if ar == 0 {
			st.step(letter, nil, i)
			cmds = append(cmds, c)
			prevZ = true
			continue
		}
		if (letter | 0x20) == 'm' {
			implicitSub = false
		} else if prevZ {
			implicitSub = true
		}
		prevZ = false
		groups := 1
		switch r.Intn(20) {
		case 0, 1, 2, 3, 4:
			groups = 2
		case 5, 6, 7:
			groups = 3
		case 8:
			groups = 4 + r.Intn(3)
		}
		if (letter|0x20) == 'a' && !all {
			groups = 1
		}
		for k := 0; k < groups; k++ {
			l := letter
			if k > 0 && (letter|0x20) == 'm' {
				l = letter - 'M' + 'L'
			}
			g := genGroup(r, l, &st)
			c.A = append(c.A, g)
			st.step(l, g, i)
		}
		cmds = append(cmds, c)
	}
	return cmds
}

func genGroup(r *rand.Rand, letter byte, st *pathState) []float64 {
	rel := letter >= 'a'
	cx := func() float64 { // x-like value
		if rel {
			return clampRel(coord(r, -120, 120), st.cur.X)
		}
		return coord(r, -100, 500)
	}
	cy := func() float64 {
		if rel {
			return clampRel(coord(r, -120, 120), st.cur.Y)
		}
		return coord(r, -100, 500)
	}
	switch letter | 0x20 {
	case 'm', 'l', 't':
		return []float64{cx(), cy()}
	case 'h':
		return []float64{cx()}
	case 'v':
		return []float64{cy()}
	case 'c':
		return []float64{cx(), cy(), cx(), cy(), cx(), cy()}
	case 's', 'q':
		return []float64{cx(), cy(), cx(), cy()}
	case 'a':
		var ex, ey float64 // end point as written
		var abs pt
		for {
			ex, ey = cx(), cy()
			abs = pt{ex, ey}
			if rel {
				abs = pt{st.cur.X + ex, st.cur.Y + ey}
			}
			if abs.dist(st.cur) >= 1 {
				break
			}
		}
		if r.Intn(50) == 0 {
			// end point = current point: the segment is omitted (F.6.2)
			ex, ey = st.cur.X, st.cur.Y
			if rel {
				ex, ey = 0, 0
			}
			return []float64{q(r, 1, 50), q(r, 1, 50), arcAngles[r.Intn(len(arcAngles))], float64(r.Intn(2)), float64(r.Intn(2)), ex, ey}
		}
		d := abs.dist(st.cur)
		var rx, ry float64
		phi := arcAngles[r.Intn(len(arcAngles))]
		if r.Intn(6) == 0 {
			phi = float64(r.Intn(721) - 360)
		}
		switch r.Intn(10) {
		case 0, 1: // radii too small: must be scaled up uniformly
			rx = q(r, 0.25, math.Max(0.5, d/2-0.25))
			ry = q(r, 0.25, math.Max(0.5, d/2-0.25))
		case 2: // circle of exactly half the chord when the chord is axis parallel: a semicircle
			if abs.X == st.cur.X || abs.Y == st.cur.Y {
				rx, ry = d/2, d/2
			} else {
				rx, ry = math.Ceil(d), math.Ceil(d)
			}
		case 3: // circle
			rx = q(r, math.Ceil(d/2), math.Ceil(d/2)+80)
			ry = rx
		default:
			rx = q(r, 1, 160)
			ry = q(r, 1, 160)
		}
		if rx < 0.25 {
			rx = 0.25
		}
		if ry < 0.25 {
			ry = 0.25
		}
		// negative radii are used by absolute value (F.6.6)
		if r.Intn(12) == 0 {
			rx = -rx
		}
		if r.Intn(12) == 0 {
			ry = -ry
		}
		// a zero radius makes the arc a straight line to the end point (F.6.2)
		switch r.Intn(60) {
		case 0:
			rx = 0
		case 1:
			ry = 0
		case 2:
			rx, ry = 0, 0
		}
		return []float64{rx, ry, phi, float64(r.Intn(2)), float64(r.Intn(2)), ex, ey}
	}
	return nil
}

// clampRel keeps the running absolute coordinate within ±2000.
func clampRel(d, cur float64) float64 {
	if cur+d > 2000 || cur+d < -2000 {
		return -d
	}
	return d
}

func genPath(r *rand.Rand) *In {
	in := &In{Mode: "path", Color: pathFill, CurveTol: arcTol}
	in.Cmds = genCmds(r, 12, true)
	feat := Feat{}
	d := pathText(r, in.Cmds, fullSyntax, func(k string) { feat["num_"+k]++ })
	in.W, in.H = 400, 300
	in.SVG = pathDoc(r, d, in.W, in.H)
	in.FeatC = feat
	return in
}

func pathDoc(r *rand.Rand, d string, w, h float64) string {
	extra := ""
	switch r.Intn(4) {
	case 0:
		extra = ` stroke="#445566" stroke-width="2"`
	case 1:
		extra = ` id="p"`
	}
	path := fmt.Sprintf(`<path fill="%s"%s d="%s"/>`, colorAttr(pathFill), extra, d)
	if r.Intn(4) == 0 {
		path = "<g>" + path + "</g>"
	}
	return fmt.Sprintf(`<svg %s width="%g" height="%g">%s</svg>`, svgNS, w, h, path)
}

func checkPath(in *In, res *fw.Result) {
	exp, err := interpret(in.Cmds)
	if err != nil {
		res.Verdict = fw.Inconclusive
		res.Msg = "generator produced an AST outside the reference's domain: " + err.Error()
		return
	}
	var d drawn
	if in.Via == "" {
		d = drawDirect(in.SVG, in.W, in.H)
	} else {
		d = drawHTML(in.SVG, in.Via, in.W, in.H)
	}
	dAttr := pathData(in.SVG)
	if d.err != nil {
		res.Fail("path-rejected", fmt.Sprintf("valid path data %q (AST %s) is rejected: %v", dAttr, astString(in.Cmds), d.err))
		return
	}
	got := d.byColor(in.Color)
	if len(got) != 1 {
		res.Fail("path-not-drawn", fmt.Sprintf("path data %q: %d painted paths carry the fill colour of the <path> (expected 1); expected %s", dAttr, len(got), segsString(exp)))
		return
	}
	obs := normalizeObserved(mapOps(got[0].Ops, d.base.inv()))
	tol := in.CurveTol
	if tol == 0 {
		tol = arcTol
	}
	ms, msg := matchPath(exp, obs, tol)
	if msg != "" {
		sig := "path-geometry"
		if strings.Contains(msg, "internal:") {
			res.Verdict = fw.Inconclusive
			res.Msg = msg
			return
		}
		if strings.Contains(msg, "A[") {
			sig = "path-arc"
		}
		res.Fail(sig, fmt.Sprintf("path data %q: %s\n  expected: %s\n  observed: %s", dAttr, msg, segsString(exp), opsString(obs)))
		return
	}
	// evidence
	if in.Via == "" {
		res.Count("paths_matched", 1)
	} else {
		res.Count(strings.ReplaceAll(in.Via, "-", "_")+"_matched", 1)
	}
	res.Count("path_ops_matched", int64(ms.Ops))
	res.Count("arcs_followed", int64(ms.Arcs))
	res.Count("arc_cubics_sampled", int64(ms.ArcCubics))
	res.Count("arcs_radius_scaled", int64(ms.ScaledArcs))
	arcGroups, arcSegs, arcZero := 0, 0, 0
	for _, s := range exp {
		if s.K == 'A' {
			arcSegs++
		}
	}
	prev := byte(0)
	implicitSub := false
	for _, c := range in.Cmds {
		res.Count("cmd_"+c.L, 1)
		if c.L == "A" || c.L == "a" {
			arcGroups += len(c.A)
			if len(c.A) > 1 {
				res.Count("arcs_in_repeated_groups", int64(len(c.A)-1))
			}
			for _, g := range c.A {
				if g[0] == 0 || g[1] == 0 {
					arcZero++
				} else if (g[0] < 0) != (g[1] < 0) {
					res.Count("arcs_one_negative_radius", 1)
				} else if g[0] < 0 {
					res.Count("arcs_negative_radius", 1)
				}
			}
		}
		if len(c.A) > 1 {
			res.Count("implicit_groups", int64(len(c.A)-1))
		}
		lc := c.L[0] | 0x20
		if prev == 'z' && lc != 'm' {
			res.Count("z_then_draw", 1)
			implicitSub = true
		}
		if lc == 'm' {
			implicitSub = false
		}
		if lc == 'z' && implicitSub {
			res.Count("z_closing_implicit_subpath", 1)
		}
		if lc == 's' || lc == 't' {
			curvePrev := (lc == 's' && (prev == 'c' || prev == 's')) || (lc == 't' && (prev == 'q' || prev == 't'))
			if curvePrev {
				res.Count("smooth_after_curve", 1)
			} else {
				res.Count("smooth_after_other", 1)
			}
		}
		prev = lc
	}
	res.Count("arcs_zero_radius_as_line", int64(arcZero))
	if n := arcGroups - arcSegs - arcZero; n > 0 {
		res.Count("arcs_zero_length_omitted", int64(n))
	}
	for k, v := range in.FeatC {
		res.Count(k, int64(v))
	}
	res.Nontrivial = len(in.Cmds) >= 2 && ms.Ops >= 2
}

func pathData(svg string) string {
	i := strings.Index(svg, ` d="`)
	if i < 0 {
		return svg
	}
	j := strings.Index(svg[i+4:], `"`)
	if j < 0 {
		return svg[i+4:]
	}
	return svg[i+4 : i+4+j]
}

func astString(cmds []Cmd) string {
	var sb strings.Builder
	for _, c := range cmds {
		sb.WriteString(c.L)
		for _, g := range c.A {
			fmt.Fprint(&sb, g)
		}
	}
	return trunc(sb.String(), 600)
}

// ---- malformed path data: only "error value or ignored, no crash" is asserted -----------------

func genPathErr(r *rand.Rand) *In {
	in := &In{Mode: "patherr", Color: pathFill, W: 400, H: 300}
	cmds := genCmds(r, 6, true)
	good := pathText(r, cmds, fullSyntax, func(string) {})
	var d string
	switch r.Intn(14) {
	case 0: // drop the last number: wrong argument count
		k := strings.LastIndexAny(good, " ,")
		if k > 0 {
			d = good[:k]
		} else {
			d = "M 1"
		}
	case 1:
		d = good + " L 1"
	case 2:
		d = good + []string{" X 1 2", " b3 4", " K", " é", " U+1F"}[r.Intn(5)]
	case 3:
		d = good + ","
	case 4:
		d = "M 1e2e3 4" + good
	case 5:
		d = []string{"", " ", "M", "m", "Z", "z", "M ,", "L 1 2", "1 2 3 4", "A", "a 1"}[r.Intn(11)]
	case 6:
		d = good + []string{" A5 5 0 2 1 9 9", " a5 5 0 1 7 9 9", " A5 5 0 -1 1 9 9", " A 5 5 0 1 1 9", " a5,5,0,1"}[r.Intn(5)]
	case 7:
		d = good + []string{" L - 5", " L . 5", " L 5 -", " L 5 .", " L -. 5", " L 1..2 3", " L 1e 2", " L e1 2", " L 1e- 2", " L --1 2", " L 1-.e1 2"}[r.Intn(11)]
	case 8:
		d = good + []string{" L 1e400 2", " L -1e400 2", " L 1e-400 2", " L 99999999999999999999999999999999999999999 1", " L 0x10 2", " L 1_0 2", " L Infinity 1", " L NaN 1", " L inf 1"}[r.Intn(9)]
	case 9:
		d = good + " Z5 5"
	case 10:
		d = good + " H" + []string{"", " ", ","}[r.Intn(3)]
	case 11:
		// random byte soup over the path alphabet
		const soup = "MmLlZzAaCcSsQqTtHhVv0123456789.-+eE, \t\n"
		n := 1 + r.Intn(30)
		b := make([]byte, n)
		for i := range b {
			b[i] = soup[r.Intn(len(soup))]
		}
		d = string(b)
	case 12:
		d = strings.Repeat("M1 1", 1+r.Intn(3)) + strings.Repeat("a1 1 0 1 1 1 1 ", r.Intn(3)) + "A0 0 0 0 0 5 5 a 1 0 0 0 0 0 0 A -3 -4 0 1 1 8 8"
	default:
		d = good + " ZZ z Z L 1 1"
	}
	in.SVG = fmt.Sprintf(`<svg %s width="%g" height="%g"><path fill="%s" d="%s"/></svg>`, svgNS, in.W, in.H, colorAttr(pathFill), escAttr(d))
	return in
}

func escAttr(s string) string {
	return strings.NewReplacer("&", "&amp;", `"`, "&quot;", "<", "&lt;").Replace(s)
}

func checkPathErr(in *In, res *fw.Result) {
	d := drawDirect(in.SVG, in.W, in.H) // a panic is caught by the framework and reported with its call site
	res.Count("patherr_returned", 1)
	if d.err != nil {
		res.Count("patherr_rejected", 1)
	} else {
		res.Count("patherr_drawn", 1)
	}
	res.Nontrivial = true
}
