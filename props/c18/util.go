package c18

import "encoding/base64"

func b64(s string) string { return base64.StdEncoding.EncodeToString([]byte(s)) }
