// Package c11 is the runtime monitor of property C11: lines are broken greedily and fit their
// container.
package c11

import (
	"encoding/json"
	"fmt"
	"math"
	"math/rand"
	"os"
	"strings"

	"verif/internal/fw"
	"verif/internal/wr"
)

// Input of one case: one paragraph (generator AST) laid out at a list of container widths.
type c11In struct {
	Mode   string `json:"mode"`             // "ahem": exact comparison with the reference model
	Engine string `json:"engine,omitempty"` // "pango" (default) | "gotext"
	Feat   string `json:"feat,omitempty"`   // informational: features drawn by the generator
	Para   Para   `json:"para"`
	Widths []int  `json:"widths"` // container widths in px
	// modes "split" / "real": a single already white-space-processed text
	Text *TextIn `json:"text,omitempty"`
	// NoGuard disables the known-defect guards of the reference model (never set by the
	// generator; used by the witnesses under findings/C11)
	NoGuard bool `json:"noguard,omitempty"`
}

func tol(a, b float64) float64 {
	return 0.02 + 1e-4*math.Max(math.Abs(a), math.Abs(b))
}

func near(a, b float64) bool { return math.Abs(a-b) <= tol(a, b) }

// within: lo <= v <= hi up to the tolerance.
func within(v, lo, hi float64) bool { return v >= lo-tol(v, lo) && v <= hi+tol(v, hi) }

func rangeStr(lo, hi float64) string {
	if near(lo, hi) {
		return fmt.Sprintf("%g", lo)
	}
	return fmt.Sprintf("between %g and %g", lo, hi)
}

func init() {
	fw.Register(&fw.Prop{
		ID: "C11",
		Rule: "case i mod 20: 0-11 a generated paragraph (words, nested inline boxes with margins/borders/padding, inline-blocks, <br>, preserved newlines; white-space, text-align, line-height, text-indent, font sizes drawn; in one paragraph out of three a third of the words are made of 2-5 inline pieces with no white space between them - text runs and one-word inline boxes, adjacent or nested, with their own spacing and font sizes: b<b>o</b>ld, un<em>believ</em><i>a</i>ble) set in Ahem and laid out by the pango engine at up to 64 container widths (every multiple of font-size/2 from 1 up to 40, then a random sample up to the paragraph's full length + 2), each block compared line by line with the reference line breaker; in one third of these paragraphs ((case/20+slot) mod 3 = 0) the inline boxes and inline-blocks draw vertical-align top/bottom (one time in two, also nested inside one another: aligned subtrees of CSS 2.1 10.8.1; line height = tallest of the baseline-aligned rest and the aligned subtrees, top/bottom edges of each aligned subtree on the line's top/bottom, baseline of the rest anywhere it fits when a subtree is taller); in another third (mod 3 = 1) the page is 2-6 lines high so that every block is fragmented over several pages: the lines of all its fragments together are compared with the same reference (indent on the very first line only, first line of a page at y=0); 12-13 the same with overflow-wrap:anywhere/break-word on plain text or (3 cases in 4) with top-level inline boxes holding one text node each (own margins/borders/padding and font sizes), inline-blocks and <br> between them: an overlong word is cut only where the line has no other opportunity, a word that does not fit the rest of a line moves to the next line whole; 14-15 the same on plain text with the go-text engine; 16-17 direct calls of text.SplitFirstLine (Ahem exact, DejaVu Sans inequalities; pango / go-text) over a sweep of maximum widths, one case in four with overflow-wrap (break-word and anywhere in turn) on a text that does not start its line (isLineStart=false: no word may be cut); 18-19 a plain paragraph in DejaVu Sans at 48 widths, inequalities only (pango / go-text). " +
			"A case is non-trivial when at least one width produced a soft wrap and no comparison of the case failed; distinct = distinct input",
		N: func(tier string) int {
			if tier == "thorough" {
				return 16000
			}
			return 800
		},
		Gen:   genCase,
		Check: check,
		Floor: func(tier string) int {
			if tier == "thorough" {
				return 8000
			}
			return 400
		},
		CounterFloors: func(tier string) map[string]int64 {
			k := int64(1)
			if tier == "thorough" {
				k = 20
			}
			return map[string]int64{
				"blocks_compared":         15000 * k,
				"lines_compared":          80000 * k,
				"soft_breaks":             60000 * k,
				"exact_fit_lines":         5000 * k,
				"lines_with_inline_boxes": 5000 * k,
				"justified_lines":         2000 * k,
				"atomic_inlines":          1000 * k,
				"forced_breaks":           3000 * k,
				"paragraphs_with_indent":  80 * k,
				"split_calls":             3000 * k,
				"split_soft_breaks":       1500 * k,
				"real_blocks":             1500 * k,
				"real_soft_breaks":        3000 * k,
				// overflow-wrap next to inline boxes: blocks compared, words cut inside or at the edge of
				// an inline box, and overlong words that had to move to the next line whole although a
				// prefix fitted the rest of the line and they begin a text box in the middle of the line
				"ow_blocks_with_inline_boxes":              800 * k,
				"ow_word_splits_at_inline_box":             800 * k,
				"ow_words_deferred_midline_box":            120 * k,
				"ow_break-word_words_deferred_midline_box": 30 * k,
				"ow_anywhere_words_deferred_midline_box":   30 * k,
				"split_ow_not_line_start_calls":            800 * k,
				"split_ow_not_line_start_overlong":         60 * k,
				// words made of several inline pieces: units of three or more pieces generated, soft breaks
				// taken inside a text node in front of such a word (the text box holding the start of the
				// word is split again), and those where the first two pieces still fitted: the overflow
				// shows in the third or a later piece, the re-break has to step back over whole
				// unbreakable inline pieces
				"words_of_3_or_more_inline_pieces":             150 * k,
				"rebreaks_inside_text_before_multi_piece_word": 3000 * k,
				"rebreaks_past_unbreakable_inline_piece":       500 * k,
				// vertical-align top/bottom: lines holding such aligned subtrees (inline boxes, inline-blocks),
				// lines holding one nested inside a top/bottom aligned inline box, lines whose height is that
				// of a top/bottom aligned subtree taller than the baseline-aligned rest, and lines whose
				// height is decided by a nested one alone
				"lines_with_top_bottom_aligned_subtrees":       3000 * k,
				"lines_with_nested_top_bottom_subtrees":        500 * k,
				"lines_as_tall_as_a_top_bottom_subtree":        600 * k,
				"lines_as_tall_as_a_nested_top_bottom_subtree": 60 * k,
				// small pages: blocks compared, page breaks between two lines of a block, and those of
				// blocks with a text-indent (the indent must not come back on the continuation)
				"paged_blocks_compared":              3000 * k,
				"page_breaks_inside_blocks":          3000 * k,
				"page_breaks_inside_indented_blocks": 600 * k,
			}
		},
		Assumptions: []string{
			"exact positions are asserted only with the Ahem font (1em square glyphs, ascent 0.8em, descent 0.2em), left-to-right ASCII text, no floats, no hyphenation, no letter/word spacing",
			"with DejaVu Sans (/usr/share/fonts/truetype/dejavu/DejaVuSans.ttf) only inequalities with 2px slack are asserted",
			"feature combinations that trigger the open defects of notes/C11.md (D2, D3, D5, D7-D11, D11b, D13-D16, D18, D19, G1, G3; D1, D4, D6, D12, D17, D20, D21, D22 are fixed and compared) are not generated or are skipped by the reference model's guards (counted as blocks_skipped_known_defect_*)",
			"pre-wrap: plain text, single spaces, no space before a forced break; go-text engine: plain text in white-space normal/nowrap; overflow-wrap: pango engine, no word runs across an inline-box edge (D18), no indent (D14); word-break:break-all not compared",
			"vertical-align: only top and bottom (other values: baseline); a top/bottom aligned inline box holds text, inline-blocks, baseline-aligned and top/bottom aligned inline boxes (D21 nested subtree moved twice, D22 baseline-aligned inline box not moved with it: repaired in /repo 1c32c03, compared); not combined with multi-piece words",
			"small pages: paragraphs without inline-blocks and own font sizes (lines of one height), orphans/widows 1; which line goes to which page is not asserted, only that fragmentation changes nothing in the lines",
			"words made of several inline pieces: their boxes hold one run of letters (or one box holding one run), no white space between the two start / end edges of a nested piece (D11b); not generated with overflow-wrap (D18), pre-wrap or the go-text engine",
		},
		Batch: 10,
		// hang detection only; generous because kernel time is charged to the worker when the
		// machine is short of memory (a case costs < 1.5 CPU-s)
		CPUBudget: 900,
	})
}

func widthsFor(r *rand.Rand, p *Para) []int {
	u := p.F / 2
	total := paraLen(p.Nodes, p.F)/u + 2 + (p.Indent+u-1)/u
	var ws []int
	if total <= 64 {
		for k := 1; k <= total; k++ {
			ws = append(ws, k*u)
		}
		return ws
	}
	for k := 1; k <= 40; k++ {
		ws = append(ws, k*u)
	}
	seen := map[int]bool{}
	for len(ws) < 64 {
		k := 41 + r.Intn(total-40)
		if !seen[k] {
			seen[k] = true
			ws = append(ws, k*u)
		}
	}
	return ws
}

func genCase(r *rand.Rand, i int, tier string) any {
	slot := i % 20
	switch slot {
	case 16:
		return genSplit(r, "pango", i/20)
	case 17:
		return genSplit(r, "gotext", i/20)
	case 18:
		return genReal(r, "pango")
	case 19:
		return genReal(r, "gotext")
	}
	var ft features
	// one case in eight is a plain paragraph; features are otherwise drawn independently
	if i%8 != 0 {
		ft.Spans = r.Intn(2) == 0
		ft.Spacing = ft.Spans && r.Intn(2) == 0
		ft.IB = r.Intn(4) == 0
		ft.Br = r.Intn(4) == 0
		ft.MultiSp = r.Intn(3) == 0
		ft.Glue = r.Intn(3) == 0
		ft.FontSize = ft.Spans && r.Intn(4) == 0
		ft.Hyphen = r.Intn(5) == 0
		// words made of several inline pieces (b<b>o</b>ld): one paragraph in three
		ft.Pieces = r.Intn(3) == 0
		// vertical-align top/bottom on inline boxes and inline-blocks: one paragraph in three of
		// slots 0-11 (drawn from the case number: the other paragraphs keep their random stream)
		if slot < 12 && (i/20+slot)%3 == 0 {
			ft.VAlign, ft.Spans, ft.IB, ft.Pieces = true, true, true, false
		}
	}
	// small pages, the blocks continue on the following pages: another third of slots 0-11 (lines of
	// one height only: no inline-blocks, no own font sizes)
	pagedCase := slot < 12 && (i/20+slot)%3 == 1
	if pagedCase {
		ft.IB, ft.FontSize = false, false
	}
	ws := wpick(r, "normal", 10, "pre-wrap", 2, "pre-line", 3, "nowrap", 1, "pre", 1)
	engine, ow := "", ""
	switch slot {
	case 12, 13:
		// overflow-wrap: compared on plain text (see notes: D14 and the is-line-start rule)
		// overflow-wrap: plain text, or top-level inline boxes holding one text node each (with
		// spacing and own font sizes), inline-blocks and <br> between them; no glue across box
		// edges, no nesting, no indent (see notes: D14, D17, D18)
		sp := i%8 != 0 && (ft.Spans || r.Intn(2) == 0)
		ft = features{Hyphen: ft.Hyphen, MultiSp: ft.MultiSp, Br: ft.Br, IB: ft.IB, Spans: sp, Leaf: !lifted("D17"), Glue: ft.Glue && lifted("D18")}
		ft.Spacing = sp && r.Intn(2) == 0
		ft.FontSize = sp && r.Intn(4) == 0
		ws = wpick(r, "normal", 3, "pre-line", 1)
		ow = pick(r, "anywhere", "break-word")
	case 14, 15:
		// go-text engine: compared on plain text in the collapsing modes (see notes)
		ft = features{Hyphen: ft.Hyphen, MultiSp: ft.MultiSp}
		ws = wpick(r, "normal", 5, "nowrap", 1)
		engine = "gotext"
	}
	if ws == "pre-wrap" {
		// pre-wrap is compared on plain text only (see notes: hanging spaces at box boundaries)
		ft = features{MultiSp: ft.MultiSp, Hyphen: ft.Hyphen}
	}
	p := genPara(r, ft, 25, ws)
	p.Align = wpick(r, "left", 4, "right", 2, "center", 2, "justify", 2)
	f := p.F
	switch r.Intn(4) {
	case 0:
		p.LH = "normal"
	case 1:
		p.LH = fmt.Sprintf("%dpx", pick(r, f, f+4, 2*f, 30, f+f/2))
	default:
		p.LH = pick(r, "1", "1.25", "1.5", "2", "3", "0.75")
	}
	switch r.Intn(8) {
	case 0, 1:
		p.Indent = pick(r, 1, 2, 3, 4, 5, 6) * (f / 2)
	case 2:
		p.IndPct = pick(r, 10, 25, 50)
	}
	if ow != "" {
		p.OW = ow
		p.Indent, p.IndPct = 0, 0
	}
	if pagedCase {
		// 2 to 6 lines per page
		if L, err := parseLH(p.LH, float64(f)); err == nil && L > 0 {
			p.PageH = L * float64(2+(i/20)%5)
		}
	}
	return c11In{Mode: "ahem", Engine: engine, Feat: ft.String(), Para: *p, Widths: widthsFor(r, p)}
}

func check(raw json.RawMessage) fw.Result {
	var in c11In
	if err := json.Unmarshal(raw, &in); err != nil {
		return fw.Result{Verdict: fw.Inconclusive, Msg: err.Error()}
	}
	switch in.Mode {
	case "ahem":
		return checkAhem(&in)
	case "split":
		if in.Text == nil {
			break
		}
		if in.Engine == "" {
			in.Engine = "pango"
		}
		return checkSplit(&in)
	case "real":
		if in.Text == nil {
			break
		}
		if in.Engine == "" {
			in.Engine = "pango"
		}
		return checkReal(&in)
	}
	return fw.Result{Verdict: fw.Inconclusive, Msg: "unknown mode " + in.Mode}
}

func checkAhem(in *c11In) fw.Result {
	var res fw.Result
	m, err := newModel(&in.Para)
	if err != nil {
		return fw.Result{Verdict: fw.Inconclusive, Msg: err.Error()}
	}
	doc := in.Para.Doc("Ahem", in.Widths)
	rd, err := wr.Render(wr.Opts{HTML: doc, Engine: in.Engine, NoWrite: true})
	if err != nil {
		return fw.Result{Verdict: fw.Inconclusive, Msg: "render: " + err.Error()}
	}
	paged := in.Para.PageH > 0
	if !paged && len(rd.Pages) != len(in.Widths) {
		res.Fail("structure", fmt.Sprintf("%d pages for %d blocks separated by forced page breaks", len(rd.Pages), len(in.Widths)))
		return res
	}
	multi := false
	pg := 0 // next page to read
	for k, W := range in.Widths {
		if !paged {
			pg = k
		}
		if pg >= len(rd.Pages) {
			res.Fail("structure", fmt.Sprintf("no page left for the div of width %d (%d pages)", W, len(rd.Pages)))
			return res
		}
		div := findBlock(rd.Pages[pg])
		if div == nil {
			res.Fail("structure", fmt.Sprintf("page %d has no block for the div of width %d", pg, W))
			return res
		}
		obs, bw, err := observeBlock(div)
		if err != nil {
			res.Fail("structure", fmt.Sprintf("width %d: %v; %s", W, err, witness(&in.Para, W)))
			return res
		}
		if !near(bw, float64(W)) {
			res.Fail("structure", fmt.Sprintf("block width %g, declared %d", bw, W))
			return res
		}
		pg++
		// small pages: the block continues on the following pages (every block ends with a forced page
		// break and the widths are all different: a page whose block has this width is a continuation)
		nfrag := 1
		for paged && pg < len(rd.Pages) {
			d2 := findBlock(rd.Pages[pg])
			if d2 == nil {
				res.Fail("structure", fmt.Sprintf("page %d has no block (div of width %d or the next one expected); %s", pg, W, witness(&in.Para, W)))
				return res
			}
			o2, bw2, err := observeBlock(d2)
			if err != nil {
				res.Fail("structure", fmt.Sprintf("width %d, page %d: %v; %s", W, pg, err, witness(&in.Para, W)))
				return res
			}
			if !near(bw2, float64(W)) {
				break
			}
			if len(o2) > 0 {
				o2[0].PageStart = true
			}
			obs = append(obs, o2...)
			nfrag++
			pg++
		}
		exp, guard := m.Layout(float64(W))
		if guard != "" && !in.NoGuard {
			res.Count("blocks_skipped_known_defect_"+guard, 1)
			continue
		}
		if sig, msg := compare(m, float64(W), exp, obs); sig != "" {
			res.Fail(sig, fmt.Sprintf("container width %dpx: %s\n  expected lines: %s\n  observed lines: %s\n  %s", W, msg, expText(exp), obsText(obs), witness(&in.Para, W)))
			res.Count("blocks_failed", 1)
			if os.Getenv("C11_DEBUG") != "" {
				// development only: every failing block, not only the first one of the case
				fmt.Fprintf(os.Stderr, "DEBUG %s W=%d %s\n   exp %s\n   obs %s\n   %s\n", sig, W, msg, expText(exp), obsText(obs), witness(&in.Para, W))
			}
			continue
		}
		res.Count("blocks_compared", 1)
		if paged {
			res.Count("paged_blocks_compared", 1)
			res.Count("page_breaks_inside_blocks", int64(nfrag-1))
			if m.indent(float64(W)) != 0 {
				res.Count("page_breaks_inside_indented_blocks", int64(nfrag-1))
			}
		}
		if m.owAny {
			res.Count("ow_blocks", 1)
			if len(m.boxes) > 1 {
				res.Count("ow_blocks_with_inline_boxes", 1)
			}
			res.Count("ow_word_splits", int64(m.owSplits))
			res.Count("ow_word_splits_at_inline_box", int64(m.owSplitsInBox))
			res.Count("ow_words_deferred", int64(m.owDeferred))
			res.Count("ow_words_deferred_midline_box", int64(m.owDeferredBox))
			res.Count("ow_"+in.Para.OW+"_blocks", 1)
			res.Count("ow_"+in.Para.OW+"_words_deferred_midline_box", int64(m.owDeferredBox))
		}
		res.Count("rebreaks_inside_text_before_multi_piece_word", int64(m.pieceRebreaks))
		res.Count("rebreaks_past_unbreakable_inline_piece", int64(m.pieceRebreaksPast))
		res.Count("lines_compared", int64(len(exp)))
		soft := 0
		for i, l := range exp {
			if !l.Last {
				soft++
			}
			start := 0.0
			if i == 0 {
				start = m.indent(float64(W))
			}
			if !l.Last && near(start+l.Content, float64(W)) && l.Content > 0 {
				res.Count("exact_fit_lines", 1)
			}
			if len(l.Spans) > 0 {
				res.Count("lines_with_inline_boxes", 1)
			}
			if l.Justified {
				res.Count("justified_lines", 1)
			}
			if l.NVA > 0 {
				res.Count("lines_with_top_bottom_aligned_subtrees", 1)
				res.Count("top_bottom_aligned_subtrees", int64(l.NVA))
			}
			if l.NVANested > 0 {
				res.Count("lines_with_nested_top_bottom_subtrees", 1)
			}
			if l.VADecides {
				res.Count("lines_as_tall_as_a_top_bottom_subtree", 1)
			}
			if l.VANestedOnly {
				res.Count("lines_as_tall_as_a_nested_top_bottom_subtree", 1)
			}
			if l.Last && i < len(exp)-1 {
				res.Count("forced_breaks", 1)
			}
			for _, f := range l.Frags {
				if f.Kind == "a" {
					res.Count("atomic_inlines", 1)
				}
			}
		}
		res.Count("soft_breaks", int64(soft))
		if soft > 0 {
			multi = true
		}
	}
	res.Count("words_of_3_or_more_inline_pieces", int64(m.multiPieceWords()))
	res.Count("ws_"+in.Para.WS, 1)
	res.Count("align_"+in.Para.Align, 1)
	if in.Para.Indent != 0 || in.Para.IndPct != 0 {
		res.Count("paragraphs_with_indent", 1)
	}
	res.Nontrivial = multi && res.Verdict != fw.Violation
	return res
}

func (m *model) indent(W float64) float64 {
	if m.p.IndPct != 0 {
		return W * float64(m.p.IndPct) / 100
	}
	return float64(m.p.Indent)
}

func expText(ls []Line) string {
	var fr [][]Frag
	for _, l := range ls {
		fr = append(fr, l.Frags)
	}
	return linesText(fr)
}

func obsText(ls []OLine) string {
	var fr [][]Frag
	for _, l := range ls {
		fr = append(fr, l.Frags)
	}
	return linesText(fr)
}

func lineStr(fr []Frag) string {
	var sb strings.Builder
	for _, f := range fr {
		if f.Kind == "a" {
			sb.WriteString("￼")
		} else {
			sb.WriteString(f.Text)
		}
	}
	return sb.String()
}

// witness is the minimal standalone document of the failing block.
func witness(p *Para, W int) string {
	return "document: " + p.Doc("Ahem", []int{W})
}

// compare checks the observed lines of one block against the expected ones.  It returns the
// signature and text of the first disagreement.
func compare(m *model, W float64, exp []Line, obs []OLine) (string, string) {
	// phantom line boxes (CSS 2.1 §9.4.2: no text, no atomic, no edge with width; zero height) are
	// treated as not existing
	{
		var kept []OLine
		for _, o := range obs {
			if len(o.Frags) == 0 && len(solidSpans(o.Spans)) == 0 && len(o.Other) == 0 && math.Abs(o.H) < 0.01 {
				continue
			}
			kept = append(kept, o)
		}
		obs = kept
	}
	for k := 0; k < len(exp) || k < len(obs); k++ {
		if k >= len(obs) {
			return "line-missing", fmt.Sprintf("line %d %q expected, block has only %d lines", k+1, lineStr(exp[k].Frags), len(obs))
		}
		if len(obs[k].Other) != 0 {
			return "structure", fmt.Sprintf("line %d contains %v", k+1, obs[k].Other)
		}
		if k >= len(exp) {
			return "line-extra", fmt.Sprintf("unexpected line %d %q", k+1, lineStr(obs[k].Frags))
		}
		e, o := lineStr(exp[k].Frags), lineStr(obs[k].Frags)
		if e != o {
			et, ot := strings.TrimRight(e, " "), strings.TrimRight(o, " ")
			switch {
			case et == ot:
				return "edge-space", fmt.Sprintf("line %d: white space at the line end: expected %q, observed %q", k+1, e, o)
			case strings.TrimLeft(et, " ") == strings.TrimLeft(ot, " "):
				return "edge-space", fmt.Sprintf("line %d: white space at the line start: expected %q, observed %q", k+1, e, o)
			case strings.HasPrefix(et, ot) && !m.wrap:
				return "break-too-early", fmt.Sprintf("line %d breaks after %q although white-space:%s allows no soft wrap (the line goes on with %q up to the next forced break)", k+1, o, m.p.WS, strings.TrimPrefix(et, ot))
			case strings.HasPrefix(et, ot):
				return "break-too-early", fmt.Sprintf("line %d breaks after %q although %q fits in %gpx (content %gpx)", k+1, o, e, W, exp[k].Content)
			case strings.HasPrefix(ot, et) && k+1 < len(obs) && strings.ContainsAny(strings.TrimSpace(ot), " -￼") && m.cutInsideWord(inkCount(obs[:k+1])):
				return "forbidden-break", fmt.Sprintf("line %d holds %q and the next line starts with %q: a word is cut although the line has a soft wrap opportunity before it (expected break after %q; overflow-wrap:%q only allows a break inside a word when the line has no other opportunity)", k+1, o, lineStr(obs[k+1].Frags), e, m.p.OW)
			case strings.HasPrefix(ot, et):
				return "break-too-late", fmt.Sprintf("line %d holds %q (expected break after %q: the rest does not fit %gpx)", k+1, o, e, W)
			}
			return "line-content", fmt.Sprintf("line %d: expected %q, observed %q", k+1, e, o)
		}
	}
	for k := range exp {
		e, o := &exp[k], &obs[k]
		if len(e.Frags) != len(o.Frags) {
			return "fragments", fmt.Sprintf("line %d: expected fragments %s, observed %s", k+1, fragsString(e.Frags), fragsString(o.Frags))
		}
		for i := range e.Frags {
			ef, of := e.Frags[i], o.Frags[i]
			if ef.Kind != of.Kind || ef.Text != of.Text {
				return "fragments", fmt.Sprintf("line %d: expected fragments %s, observed %s", k+1, fragsString(e.Frags), fragsString(o.Frags))
			}
		}
		// stacking: the first line starts at the top of the block, every other line where the
		// previous one ends (observed positions: a rounding drift of the heights must not add up
		// into a verdict), and each line is as tall as line-height and its contents require
		if k == 0 || o.PageStart {
			if !near(0, o.Y) {
				return "line-y", fmt.Sprintf("line %d %q, first of its page: top at y=%g, expected 0", k+1, lineStr(e.Frags), o.Y)
			}
		} else if prev := obs[k-1].Y + obs[k-1].H; !near(prev, o.Y) {
			return "line-y", fmt.Sprintf("line %d %q: top at y=%g but the previous line ends at y=%g (lines must stack without gap or overlap)", k+1, lineStr(e.Frags), o.Y, prev)
		}
		if !near(e.H, o.H) {
			return "line-height", fmt.Sprintf("line %d %q: height %g, expected %g", k+1, lineStr(e.Frags), o.H, e.H)
		}
		for i := range e.Frags {
			ef, of := e.Frags[i], o.Frags[i]
			if !near(ef.X, of.X) && !(e.Hang > 0 && m.p.Align != "left" && hangOK(m, W, e, ef.X, of.X)) {
				return "x-" + m.p.Align, fmt.Sprintf("line %d: %s starts at x=%g, expected %g (text-align:%s, container %g, expected fragments %s, observed %s)", k+1, fragName(ef), of.X, ef.X, m.p.Align, W, fragsString(e.Frags), fragsString(o.Frags))
			}
			if !near(ef.W, of.W) {
				return "width", fmt.Sprintf("line %d: %s is %g wide, expected %g (expected fragments %s, observed %s)", k+1, fragName(ef), of.W, ef.W, fragsString(e.Frags), fragsString(o.Frags))
			}
		}
		ti, ai := 0, 0
		for _, ef := range e.Frags {
			if ef.Kind == "t" {
				if b := o.BaselineYs[ti] - o.Y; !within(b, ef.BLo, ef.BHi) {
					return "baseline", fmt.Sprintf("line %d: baseline of %q %g below the line top, expected %s (line height %g)", k+1, ef.Text, b, rangeStr(ef.BLo, ef.BHi), e.H)
				}
				ti++
			} else {
				if !near(ef.H, o.Frags[ti+ai].H) {
					return "atomic-size", fmt.Sprintf("line %d: inline-block height %g, expected %g", k+1, o.Frags[ti+ai].H, ef.H)
				}
				if b := o.AtomicBottoms[ai] - o.Y; !within(b, ef.BLo, ef.BHi) {
					return "baseline", fmt.Sprintf("line %d: bottom margin edge of the empty inline-block (height %g) %g below the line top, expected %s (on its baseline, or at the line's top/bottom with vertical-align top/bottom; line height %g)", k+1, ef.H, b, rangeStr(ef.BLo, ef.BHi), e.H)
				}
				ai++
			}
		}
		// inline-box fragments
		// (fragments without content and without width are not compared: <br>, boxes holding only
		// a removed space)
		os, es := solidSpans(o.Spans), solidSpans(e.Spans)
		if len(os) != len(es) {
			return "inline-box", fmt.Sprintf("line %d %q: inline-box fragments %s, expected %s", k+1, lineStr(e.Frags), fragsString(os), fragsString(es))
		}
		for i := range os {
			dx := 0.0
			if e.Hang > 0 && len(e.Frags) > 0 && len(o.Frags) > 0 {
				dx = o.Frags[0].X - e.Frags[0].X // accepted alignment of hanging spaces
			}
			if !near(os[i].X, es[i].X+dx) || !near(os[i].W, es[i].W) {
				return "inline-box", fmt.Sprintf("line %d %q: inline-box fragment %d margin box at x=%g width %g, expected x=%g width %g", k+1, lineStr(e.Frags), i+1, os[i].X, os[i].W, es[i].X+dx, es[i].W)
			}
		}
	}
	return "", ""
}

// inkCount is the number of non-space characters and atomic inlines held by the lines.
func inkCount(ls []OLine) (n int) {
	for _, l := range ls {
		for _, f := range l.Frags {
			if f.Kind == "a" {
				n++
				continue
			}
			for _, r := range f.Text {
				if r != ' ' {
					n++
				}
			}
		}
	}
	return n
}

// cutInsideWord reports whether a line break after the n-th non-space content item of the paragraph
// separates two characters that have no soft wrap opportunity between them.
func (m *model) cutInsideWord(n int) bool {
	for i, it := range m.items {
		if (it.k == 'c' && !it.sp) || it.k == 'a' {
			n--
		}
		if n == 0 {
			j := m.nextContent(i + 1)
			return it.k == 'c' && j < len(m.items) && m.items[j].k == 'c' && !m.items[j].sp && !m.breakAfter(i, j)
		}
	}
	return false
}

func solidSpans(in []Frag) []Frag {
	var out []Frag
	for _, s := range in {
		if s.Text == "empty" && math.Abs(s.W) < 0.01 {
			continue
		}
		out = append(out, s)
	}
	return out
}

// hangOK: preserved spaces at the end of a pre-wrap line.  CSS Text 3 makes them hang (not
// measured for alignment); CSS 2.1 §16.6.1 lets a UA keep them as ordinary content.  Both
// placements are accepted: the model aligns with the spaces hanging, the alternative shifts the
// whole line by the amount the spaces take from the free room.  (Justified lines never hang:
// pre-wrap text is not justified by the model.)
func hangOK(m *model, W float64, e *Line, ex, ox float64) bool {
	extraHang := math.Max(0, W-(e.Start+e.Content-e.Hang))
	extraFull := math.Max(0, W-(e.Start+e.Content))
	d := extraFull - extraHang
	switch m.p.Align {
	case "right":
	case "center":
		d /= 2
	default:
		return false
	}
	return near(ox, ex+d)
}

func fragName(f Frag) string {
	if f.Kind == "a" {
		return "inline-block"
	}
	return fmt.Sprintf("text %q", f.Text)
}
