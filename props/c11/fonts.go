package c11

import (
	"fmt"
	"io"
	"log"
	"os"
	"path/filepath"
	"sync"

	fc "github.com/benoitkugler/textprocessing/fontconfig"
	"github.com/benoitkugler/textprocessing/pango/fcfonts"
	pr "github.com/benoitkugler/webrender/css/properties"
	"github.com/benoitkugler/webrender/text"
	"github.com/benoitkugler/webrender/text/hyphen"
	"github.com/go-text/typesetting/fontscan"
)

// Font configurations holding the metric-exact test fonts of /repo/resources_test (Ahem) plus one
// real proportional font (DejaVu Sans from the image) for the inequality checks.

var realFontFiles = []string{
	"/usr/share/fonts/truetype/dejavu/DejaVuSans.ttf",
}

const realFamily = "DejaVu Sans"

var (
	fontDirOnce sync.Once
	fontDir     string
	fontDirErr  error
	fsOnce      sync.Once
	fsAll       fc.Fontset
	fsErr       error
)

// realDir is a private directory with links to the real font files (fontconfig scans directories).
func realDir() (string, error) {
	fontDirOnce.Do(func() {
		// one shared directory (not one per worker process: they were never removed)
		d := filepath.Join(os.TempDir(), "c11fonts-shared")
		if err := os.MkdirAll(d, 0o755); err != nil {
			fontDirErr = err
			return
		}
		for _, f := range realFontFiles {
			if _, err := os.Stat(f); err != nil {
				fontDirErr = fmt.Errorf("real font missing: %v", err)
				return
			}
			if err := os.Symlink(f, filepath.Join(d, filepath.Base(f))); err != nil && !os.IsExist(err) {
				fontDirErr = err
				return
			}
		}
		fontDir = d
	})
	return fontDir, fontDirErr
}

func fontsFor(engine string) (text.FontConfiguration, error) {
	if engine == "gotext" {
		fm := fontscan.NewFontMap(log.New(io.Discard, "", 0))
		files := append([]string{"/repo/resources_test/AHEM____.TTF"}, realFontFiles...)
		for _, f := range files {
			fh, err := os.Open(f)
			if err != nil {
				return nil, err
			}
			err = fm.AddFont(fh, f, "")
			fh.Close()
			if err != nil {
				return nil, err
			}
		}
		return text.NewFontConfigurationGotext(fm), nil
	}
	fsOnce.Do(func() {
		d, err := realDir()
		if err != nil {
			fsErr = err
			return
		}
		fsAll, fsErr = fc.Standard.Copy().ScanFontDirectories("/repo/resources_test", d)
	})
	if fsErr != nil {
		return nil, fsErr
	}
	cp := append(fc.Fontset(nil), fsAll...)
	return text.NewFontConfigurationPango(fcfonts.NewFontMap(fc.Standard.Copy(), cp)), nil
}

// textCtx implements text.TextLayoutContext for direct calls of text.SplitFirstLine.
type textCtx struct {
	fonts  text.FontConfiguration
	hyph   map[text.HyphenDictKey]hyphen.Hyphener
	struts map[text.StrutLayoutKey][2]pr.Float
}

func newTextCtx(f text.FontConfiguration) *textCtx {
	return &textCtx{fonts: f, hyph: map[text.HyphenDictKey]hyphen.Hyphener{}, struts: map[text.StrutLayoutKey][2]pr.Float{}}
}

func (c *textCtx) Fonts() text.FontConfiguration                          { return c.fonts }
func (c *textCtx) HyphenCache() map[text.HyphenDictKey]hyphen.Hyphener    { return c.hyph }
func (c *textCtx) StrutLayoutsCache() map[text.StrutLayoutKey][2]pr.Float { return c.struts }
