package c11

import (
	"fmt"
	"strings"
)

// Generator-side AST of one paragraph.  Everything the reference model needs is here; the HTML
// text is derived from it (html()) and stored next to it in the case input.

// Node kinds
const (
	KText = "t"  // text run (source text, may contain spaces / newlines)
	KSpan = "s"  // inline box
	KIB   = "ib" // empty inline-block of fixed size (atomic inline)
	KBr   = "br" // forced line break
)

// Node is one inline-level node of the paragraph.
type Node struct {
	K string `json:"k"`
	T string `json:"t,omitempty"`
	C []Node `json:"c,omitempty"`
	// span: horizontal margin / border / padding (px) at the start (L) and end (R) edge
	ML int `json:"ml,omitempty"`
	BL int `json:"bl,omitempty"`
	PL int `json:"pl,omitempty"`
	PR int `json:"pr,omitempty"`
	BR int `json:"br,omitempty"`
	MR int `json:"mr,omitempty"`
	// span: vertical padding/border (must not change the line height)
	PV int `json:"pv,omitempty"`
	// span: own font size (0 = inherited)
	FS int `json:"fs,omitempty"`
	// inline-block: content width/height and horizontal margin (px)
	W int `json:"w,omitempty"`
	H int `json:"h,omitempty"`
	M int `json:"m,omitempty"`
	// span / inline-block: vertical-align "top" | "bottom" ("" = baseline)
	VA string `json:"va,omitempty"`
}

// Para is a paragraph with its block-level text properties.
type Para struct {
	F      int    `json:"f"`                // font-size px
	WS     string `json:"ws"`               // white-space
	Align  string `json:"align"`            // text-align
	LH     string `json:"lh"`               // line-height: "normal", "<n>px", "<number>"
	Indent int    `json:"indent,omitempty"` // text-indent px
	IndPct int    `json:"indpct,omitempty"` // text-indent in percent of the container width (if != 0)
	OW     string `json:"ow,omitempty"`     // overflow-wrap
	WB     string `json:"wb,omitempty"`     // word-break
	Nodes  []Node `json:"nodes"`
	// PageH: page height in px (0: one tall page per block); with a small page the block is fragmented
	// and continues on the following pages
	PageH float64 `json:"pageh,omitempty"`
}

func (n *Node) ls() float64 { return float64(n.ML + n.BL + n.PL) }
func (n *Node) rs() float64 { return float64(n.MR + n.BR + n.PR) }

func escText(s string) string {
	s = strings.ReplaceAll(s, "&", "&amp;")
	s = strings.ReplaceAll(s, "<", "&lt;")
	return s
}

func (n *Node) html(sb *strings.Builder) {
	switch n.K {
	case KText:
		sb.WriteString(escText(n.T))
	case KBr:
		sb.WriteString("<br>")
	case KIB:
		fmt.Fprintf(sb, `<b style="display:inline-block;width:%dpx;height:%dpx`, n.W, n.H)
		if n.M != 0 {
			fmt.Fprintf(sb, ";margin:0 %dpx", n.M)
		}
		if n.VA != "" {
			sb.WriteString(";vertical-align:" + n.VA)
		}
		sb.WriteString(`"></b>`)
	case KSpan:
		sb.WriteString(`<span`)
		var st []string
		if n.ML != 0 {
			st = append(st, fmt.Sprintf("margin-left:%dpx", n.ML))
		}
		if n.MR != 0 {
			st = append(st, fmt.Sprintf("margin-right:%dpx", n.MR))
		}
		if n.PL != 0 {
			st = append(st, fmt.Sprintf("padding-left:%dpx", n.PL))
		}
		if n.PR != 0 {
			st = append(st, fmt.Sprintf("padding-right:%dpx", n.PR))
		}
		if n.BL != 0 {
			st = append(st, fmt.Sprintf("border-left:%dpx solid", n.BL))
		}
		if n.BR != 0 {
			st = append(st, fmt.Sprintf("border-right:%dpx solid", n.BR))
		}
		if n.PV != 0 {
			st = append(st, fmt.Sprintf("padding-top:%dpx;padding-bottom:%dpx;border-top:%dpx solid", n.PV, n.PV, n.PV))
		}
		if n.FS != 0 {
			st = append(st, fmt.Sprintf("font-size:%dpx", n.FS))
		}
		if n.VA != "" {
			st = append(st, "vertical-align:"+n.VA)
		}
		if len(st) != 0 {
			sb.WriteString(` style="` + strings.Join(st, ";") + `"`)
		}
		sb.WriteString(`>`)
		for i := range n.C {
			n.C[i].html(sb)
		}
		sb.WriteString(`</span>`)
	}
}

// divStyle is the style of the paragraph's block at container width w (px).
func (p *Para) divStyle(w int) string {
	st := []string{fmt.Sprintf("width:%dpx", w)}
	if p.Align != "" && p.Align != "left" {
		st = append(st, "text-align:"+p.Align)
	}
	if p.Indent != 0 {
		st = append(st, fmt.Sprintf("text-indent:%dpx", p.Indent))
	}
	if p.IndPct != 0 {
		st = append(st, fmt.Sprintf("text-indent:%d%%", p.IndPct))
	}
	return strings.Join(st, ";")
}

// css is the style sheet shared by all blocks of the paragraph.
func (p *Para) css(family string) string {
	var sb strings.Builder
	if p.PageH > 0 {
		fmt.Fprintf(&sb, "@page{size:20000px %gpx;margin:0}html,body{margin:0;padding:0;display:block}", p.PageH)
	} else {
		sb.WriteString("@page{size:20000px 60000px;margin:0}html,body{margin:0;padding:0;display:block}")
	}
	fmt.Fprintf(&sb, "div{font-family:%s;font-size:%dpx;white-space:%s;line-height:%s;margin:0;padding:0;orphans:1;widows:1;break-after:page", family, p.F, p.WS, p.LH)
	if p.OW != "" {
		sb.WriteString(";overflow-wrap:" + p.OW)
	}
	if p.WB != "" {
		sb.WriteString(";word-break:" + p.WB)
	}
	sb.WriteString("}")
	return sb.String()
}

func (p *Para) inner() string {
	var sb strings.Builder
	for i := range p.Nodes {
		p.Nodes[i].html(&sb)
	}
	return sb.String()
}

// Doc builds the document: one block per container width, all holding the same paragraph.
func (p *Para) Doc(family string, widths []int) string {
	var sb strings.Builder
	sb.WriteString("<html><head><style>")
	sb.WriteString(p.css(family))
	sb.WriteString("</style></head><body>")
	in := p.inner()
	for _, w := range widths {
		fmt.Fprintf(&sb, `<div style="%s">%s</div>`, p.divStyle(w), in)
	}
	sb.WriteString("</body></html>")
	return sb.String()
}
