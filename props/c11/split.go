package c11

import (
	"fmt"
	"math/rand"
	"strings"

	pr "github.com/benoitkugler/webrender/css/properties"
	bo "github.com/benoitkugler/webrender/html/boxes"
	"github.com/benoitkugler/webrender/text"

	"verif/internal/fw"
	"verif/internal/wr"
)

// Direct monitor of text.SplitFirstLine (mode "split") and inequality checks of laid-out
// paragraphs with a real proportional font (mode "real").

// TextIn is the input of the "split" and "real" modes: one already white-space-processed text.
type TextIn struct {
	Text      string  `json:"text"`
	Family    string  `json:"family"`
	Size      float64 `json:"size"` // font-size px
	WS        string  `json:"ws"`
	OW        string  `json:"ow,omitempty"`
	Align     string  `json:"align,omitempty"` // "real" mode
	LineStart bool    `json:"linestart"`
}

func genWords(r *rand.Rand, n int, real, hyphen bool) []string {
	var ws []string
	li := r.Intn(26)
	for i := 0; i < n; i++ {
		k := 1 + r.Intn(12)
		if r.Intn(3) != 0 {
			k = 1 + r.Intn(5)
		}
		var sb strings.Builder
		for j := 0; j < k; j++ {
			c := letters[li%26]
			li += 1 + r.Intn(3)
			if real && r.Intn(6) == 0 {
				c = c - 'a' + 'A' // capitals have other advances
			}
			sb.WriteByte(c)
		}
		w := sb.String()
		if hyphen && k >= 3 && r.Intn(5) == 0 {
			p := 1 + r.Intn(k-2)
			w = w[:p] + "-" + w[p:]
		}
		if real && r.Intn(8) == 0 {
			w += pick(r, ",", ".", ";")
		}
		ws = append(ws, w)
	}
	return ws
}

// k is the number of the case among those of its slot: one case in four puts overflow-wrap on a
// text that does not start its line, where no word may be cut (anywhere and break-word in turn).
func genSplit(r *rand.Rand, engine string, k int) c11In {
	owMid := k%4 == 1
	t := TextIn{Family: "Ahem", Size: float64(pick(r, 8, 10, 16, 20)), LineStart: r.Intn(4) != 0}
	real := r.Intn(3) == 0
	if real {
		t.Family = realFamily
		t.Size = pick(r, 9, 11, 12, 13.5, 16, 21.25)
	}
	t.WS = wpick(r, "normal", 6, "pre-line", 2, "nowrap", 1, "pre", 1, "pre-wrap", 1)
	if engine == "gotext" {
		// the go-text engine does not break at preserved line breaks (finding G1): collapsing
		// modes only
		t.WS = wpick(r, "normal", 6, "nowrap", 1)
	}
	if owMid && t.WS != "normal" && (t.WS != "pre-line" || engine == "gotext") {
		t.WS = "normal"
	}
	words := genWords(r, 1+r.Intn(14), real, r.Intn(4) == 0)
	sep := " "
	var sb strings.Builder
	for i, w := range words {
		if i > 0 {
			s := sep
			if t.WS != "normal" && t.WS != "nowrap" && r.Intn(6) == 0 {
				s = "\n"
			}
			sb.WriteString(s)
		}
		sb.WriteString(w)
	}
	t.Text = sb.String()
	if (t.WS == "normal" || t.WS == "pre-line") && r.Intn(5) == 0 {
		t.OW = pick(r, "anywhere", "break-word")
	}
	if owMid {
		t.OW = []string{"break-word", "anywhere"}[(k/4)%2]
		t.LineStart = false
	}
	// widths: every half font size up to the text's length for Ahem; integer pixels around the
	// measured word boundaries cannot be known here for the real font: a dense sweep instead
	var ws []int
	n := len([]rune(t.Text))
	if real {
		max := int(float64(n)*t.Size*0.7) + 10
		step := 1
		if max > 160 {
			step = max / 160
		}
		for w := 1; w <= max; w += step {
			ws = append(ws, w)
		}
	} else {
		u := int(t.Size) / 2
		for k := 1; k <= 2*n+2 && k <= 120; k++ {
			ws = append(ws, k*u)
		}
	}
	return c11In{Mode: "split", Engine: engine, Text: &t, Widths: ws}
}

func genReal(r *rand.Rand, engine string) c11In {
	t := TextIn{Family: realFamily, Size: pick(r, 9, 11, 12, 13.5, 16, 21.25), WS: "normal", LineStart: true}
	t.Align = wpick(r, "left", 3, "right", 2, "center", 2, "justify", 2)
	t.Text = strings.Join(genWords(r, 3+r.Intn(30), true, r.Intn(4) == 0), " ")
	n := len([]rune(t.Text))
	max := int(float64(n)*t.Size*0.7) + 10
	var ws []int
	for len(ws) < 48 {
		ws = append(ws, 1+r.Intn(max))
	}
	return c11In{Mode: "real", Engine: engine, Text: &t, Widths: ws}
}

// styleFor renders a one-word block with the requested text properties and returns the style of
// its text box (the only way to obtain a complete computed style from outside the module).
func styleFor(t *TextIn, engine string, fonts text.FontConfiguration) (pr.ElementStyle, error) {
	css := fmt.Sprintf("font-family:'%s';font-size:%gpx;white-space:%s;line-height:normal", t.Family, t.Size, t.WS)
	if t.OW != "" {
		css += ";overflow-wrap:" + t.OW
	}
	doc := `<html><body><div style="` + css + `">x</div></body></html>`
	rd, err := wr.Render(wr.Opts{HTML: doc, Engine: engine, NoWrite: true, Fonts: fonts})
	if err != nil {
		return nil, err
	}
	var tb *bo.TextBox
	var walk func(b bo.Box)
	walk = func(b bo.Box) {
		if v, ok := b.(*bo.TextBox); ok && tb == nil {
			tb = v
		}
		for _, c := range b.Box().Children {
			walk(c)
		}
	}
	for _, p := range rd.Pages {
		walk(p)
	}
	if tb == nil {
		return nil, fmt.Errorf("no text box in the style probe document")
	}
	return tb.Style, nil
}

// hasOpportunity reports whether s (a first line, trailing spaces excluded) contains a soft wrap
// opportunity strictly inside it.
func hasOpportunity(s []rune) bool {
	for i := 0; i+1 < len(s); i++ {
		if s[i] == ' ' && s[i+1] != ' ' && i > 0 {
			return true
		}
		if s[i] == '-' && i > 0 && isLetter(s[i-1]) && isLetter(s[i+1]) {
			return true
		}
	}
	return false
}

// nextUnitEnd returns the end of the first unbreakable unit of s starting at p (spaces at p are
// skipped first).
func nextUnitEnd(s []rune, p int) int {
	i := p
	for i < len(s) && s[i] == ' ' {
		i++
	}
	for i < len(s) {
		if s[i] == ' ' || s[i] == '\n' {
			return i
		}
		if s[i] == '-' && i > 0 && i+1 < len(s) && isLetter(s[i-1]) && isLetter(s[i+1]) {
			return i + 1
		}
		i++
	}
	return i
}

func trimSp(s []rune) []rune {
	for len(s) > 0 && s[len(s)-1] == ' ' {
		s = s[:len(s)-1]
	}
	return s
}

func checkSplit(in *c11In) fw.Result {
	var res fw.Result
	t := in.Text
	fonts, err := fontsFor(in.Engine)
	if err != nil {
		return fw.Result{Verdict: fw.Inconclusive, Msg: err.Error()}
	}
	style, err := styleFor(t, in.Engine, fonts)
	if err != nil {
		return fw.Result{Verdict: fw.Inconclusive, Msg: err.Error()}
	}
	ctx := newTextCtx(fonts)
	runes := []rune(t.Text)
	n := len(runes)
	wrap := t.WS == "normal" || t.WS == "pre-wrap" || t.WS == "pre-line"
	coll := t.WS == "normal" || t.WS == "nowrap" || t.WS == "pre-line"
	ahem := t.Family == "Ahem"
	owAny := wrap && t.OW != "" && t.LineStart
	measure := func(s []rune) float64 {
		if len(s) == 0 {
			return 0
		}
		if ahem {
			return float64(len(s)) * t.Size
		}
		return float64(text.SplitFirstLine(s, style, ctx, nil, false, true).Width)
	}
	fail := func(W int, sig, msg string, r text.FirstLine) {
		res.Fail("split-"+sig, fmt.Sprintf("SplitFirstLine(%q, %s %gpx white-space:%s overflow-wrap:%q, maxWidth=%d, isLineStart=%v, engine %s) = {Length:%d ResumeAt:%d Width:%g}: %s", t.Text, t.Family, t.Size, t.WS, t.OW, W, t.LineStart, in.Engine, r.Length, r.ResumeAt, float64(r.Width), msg))
	}
	brokeSoft := false
	for _, W := range in.Widths {
		r := text.SplitFirstLine(runes, style, ctx, pr.Float(W), false, t.LineStart)
		res.Count("split_calls", 1)
		if wrap && t.OW != "" && !t.LineStart {
			res.Count("split_ow_not_line_start_calls", 1)
			if measure(runes[:nextUnitEnd(runes, 0)]) > float64(W) {
				res.Count("split_ow_not_line_start_overlong", 1)
			}
		}
		if r.ResumeAt == 0 || r.ResumeAt < -1 || r.ResumeAt > n {
			fail(W, "resume-range", "ResumeAt must be -1 or in 1..len(text)", r)
			continue
		}
		if r.Length < 0 || r.Length > n || (r.ResumeAt != -1 && r.Length > r.ResumeAt) {
			fail(W, "length-range", "Length must be in 0..len(text) and not beyond ResumeAt", r)
			continue
		}
		if r.Length == 0 {
			fail(W, "empty-line", "the first line is empty", r)
			continue
		}
		end := n
		if r.ResumeAt != -1 {
			end = r.ResumeAt
		}
		between := string(runes[r.Length:end])
		forcedNL := false
		switch {
		case strings.Trim(between, " ") == "":
			if !coll && between != "" && t.WS != "pre-wrap" {
				fail(W, "skipped-text", fmt.Sprintf("preserved spaces %q are neither on the line nor resumed", between), r)
				continue
			}
		case between == "\n" && !(t.WS == "normal" || t.WS == "nowrap"):
			forcedNL = true
		default:
			fail(W, "skipped-text", fmt.Sprintf("characters %q are neither on the first line nor resumed", between), r)
			continue
		}
		first := runes[:r.Length]
		if in.Engine != "gotext" || (t.WS == "normal" || t.WS == "nowrap") {
			if got := string(r.Layout.Text()); got != string(first) {
				fail(W, "layout-text", fmt.Sprintf("layout holds %q, text[:Length] is %q", got, string(first)), r)
				continue
			}
		}
		if nl := strings.IndexRune(string(first), '\n'); nl >= 0 {
			fail(W, "newline-in-line", "a preserved line break is inside the first line", r)
			continue
		}
		// a forced break earlier in the text bounds the line
		if k := strings.IndexRune(t.Text, '\n'); k >= 0 && !(t.WS == "normal" || t.WS == "nowrap") {
			kr := len([]rune(t.Text[:k]))
			if end > kr+1 {
				fail(W, "newline-passed", "the line goes past a preserved line break", r)
				continue
			}
		}
		fw_ := trimSp(first)
		if !coll {
			fw_ = first
		}
		mw := measure(fw_)
		if ahem {
			want := mw
			if t.WS == "pre-wrap" {
				// hanging spaces may or may not be measured
				if !near(float64(r.Width), measure(first)) && !near(float64(r.Width), measure(trimSp(first))) {
					fail(W, "width", fmt.Sprintf("width of %q with 1em glyphs must be %g (or %g without the hanging spaces)", string(first), measure(first), measure(trimSp(first))), r)
					continue
				}
			} else if !near(float64(r.Width), want) {
				fail(W, "width", fmt.Sprintf("width of %q with 1em glyphs must be %g", string(fw_), want), r)
				continue
			}
			if !near(float64(r.Height), t.Size) || !near(float64(r.Baseline), 0.8*t.Size) {
				fail(W, "metrics", fmt.Sprintf("height %g baseline %g, Ahem gives %g and %g", float64(r.Height), float64(r.Baseline), t.Size, 0.8*t.Size), r)
				continue
			}
		}
		if !wrap {
			if r.ResumeAt != -1 && !forcedNL {
				fail(W, "forbidden-break", "white-space forbids a soft wrap", r)
			}
			continue
		}
		// fit: only an unbreakable first unit may exceed the maximum width
		content := measure(trimSp(first))
		slack := tol(content, float64(W))
		if !ahem {
			slack = realSlack
		}
		if content > float64(W)+slack {
			if hasOpportunity(trimSp(first)) {
				fail(W, "overfull", fmt.Sprintf("the line %q is %g wide and has an earlier soft wrap opportunity", string(first), content), r)
				continue
			}
			if owAny && r.Length > 1 && float64(W) > 0 {
				fail(W, "overfull", fmt.Sprintf("overflow-wrap:%s allows breaking %q anywhere, yet the line is %g wide", t.OW, string(first), content), r)
				continue
			}
		}
		// greedy: what follows the break must not fit
		if r.ResumeAt != -1 && !forcedNL {
			brokeSoft = true
			var probe []rune
			if strings.Contains(between, " ") || (r.Length > 0 && runes[r.Length-1] == '-') || runes[r.Length-1] == ' ' {
				probe = runes[:nextUnitEnd(runes, end)]
			} else {
				// broken inside a word (overflow-wrap): one more character must not fit
				if !owAny {
					fail(W, "forbidden-break", fmt.Sprintf("break inside the word at %q|%q", string(first), string(runes[end:nextUnitEnd(runes, end)])), r)
					continue
				}
				if hasOpportunity(trimSp(runes[:nextUnitEnd(runes, end)])) {
					// an ordinary opportunity exists before the word: overflow-wrap must not be used
					if content2 := measure(trimSp(runes[:nextUnitEnd(runes, 0)])); content2 <= float64(W) {
						fail(W, "forbidden-break", "overflow-wrap used although the line has an ordinary soft wrap opportunity", r)
						continue
					}
				}
				probe = runes[:end+1]
			}
			if pw := measure(trimSp(probe)); pw <= float64(W)-slack {
				fail(W, "early-break", fmt.Sprintf("%q is %g wide and would still fit", string(trimSp(probe)), pw), r)
				continue
			}
			res.Count("split_soft_breaks", 1)
			if near(content, float64(W)) {
				res.Count("split_exact_fit", 1)
			}
		}
		if r.ResumeAt == -1 && !near(content, 0) {
			res.Count("split_whole", 1)
		}
	}
	res.Count("split_"+in.Engine+"_"+strings.ReplaceAll(strings.ToLower(t.Family), " ", ""), 1)
	res.Nontrivial = brokeSoft && res.Verdict != fw.Violation
	return res
}
