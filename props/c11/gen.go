package c11

import (
	"fmt"
	"math/rand"
	"os"
	"strings"
)

// Paragraph generator.  It first draws a flat sequence of elements (words, atomic inlines, forced
// breaks, inline-box start/end edges), then a separator between every two neighbours, and folds
// the result into the Node tree.

type tok struct {
	k    byte // 'w' word, 'a' atomic, 'n' br, 'o' span start, 'x' span end
	s    string
	node Node // template for 'o' / 'a'
	// tight: no white space may be put just inside this edge (findings D15 for 'o', D7 for 'x')
	tight bool
	// leaf ('x'): the span holds a single text node
	leaf bool
	// glue (content tokens): no white space between this element and the next content element (the
	// two are pieces of one word made of several inline pieces)
	glue bool
}

var letters = "abcdefghijklmnopqrstuvwxyz"

// lifted reports whether the restriction / guard that keeps the known defect id out of the compared
// domain is lifted (C11_LIFT=D1,D6,... ; development only: used to validate a repair of /repo on a
// scratch copy before the restriction is removed from this file).
func lifted(id string) bool {
	if id == "D1" {
		return true // repaired in /repo (91b6e7d, df7dcfa, 8b85d8a): compared again
	}
	if id == "D17" {
		return true // repaired in /repo (268f873): nested boxes / several text nodes with overflow-wrap compared again
	}
	if id == "D20" {
		return true // repaired in /repo (3f1a8ee): nowrap after a box with a collapsed trailing space compared again
	}
	if id == "D21" || id == "D22" {
		return true // repaired in /repo (1c32c03): aligned subtrees nested in a top/bottom aligned inline box, baseline-aligned inline boxes inside one compared again
	}
	for _, s := range strings.Split(os.Getenv("C11_LIFT"), ",") {
		if s == id || s == "all" {
			return true
		}
	}
	return false
}

func pick[T any](r *rand.Rand, xs ...T) T { return xs[r.Intn(len(xs))] }

// weighted pick
func wpick(r *rand.Rand, pairs ...any) string {
	tot := 0
	for i := 1; i < len(pairs); i += 2 {
		tot += pairs[i].(int)
	}
	k := r.Intn(tot)
	for i := 0; i < len(pairs); i += 2 {
		k -= pairs[i+1].(int)
		if k < 0 {
			return pairs[i].(string)
		}
	}
	return pairs[0].(string)
}

type pgen struct {
	r      *rand.Rand
	f, u   int
	nw     int // words produced
	li     int // next letter
	toks   []tok
	p      *Para
	feat   features
	budget int
	wrap   bool // the paragraph's white-space value allows soft wraps
	ws     string
	// forceVA: the spans of the level being generated are children of a top/bottom aligned inline box
	// and are top/bottom aligned themselves (see notes: D22)
	forceVA bool
}

// features of the generated paragraph (drawn per paragraph so that simple paragraphs stay common)
type features struct {
	Spans    bool
	Spacing  bool // spans have margin/border/padding
	IB       bool
	Br       bool
	Hyphen   bool
	MultiSp  bool // several spaces / newlines in the source
	FontSize bool // spans with their own font size
	Glue     bool // span edges / atomics in the middle of words
	// Leaf: inline boxes are not nested and hold a single text node (words only); used with
	// overflow-wrap (findings D17, D18)
	Leaf bool
	// Pieces: some words are made of several inline pieces glued together (text, one-word inline
	// boxes, possibly adjacent or nested): b<b>o</b>ld, H<sub>2</sub>O, un<em>believ</em><i>a</i>ble
	Pieces bool
	// VAlign: inline boxes and inline-blocks draw vertical-align: top / bottom (one time in two), also
	// nested inside one another
	VAlign bool
}

func (g *pgen) word() string { return g.wordH(true) }

func (g *pgen) wordH(hyphenOK bool) string {
	n := 1 + g.r.Intn(12)
	if g.r.Intn(3) != 0 {
		n = 1 + g.r.Intn(5)
	}
	var sb strings.Builder
	for i := 0; i < n; i++ {
		sb.WriteByte(letters[g.li%26])
		g.li++
	}
	s := sb.String()
	if hyphenOK && g.feat.Hyphen && n >= 3 && g.r.Intn(4) == 0 {
		k := 1 + g.r.Intn(n-2)
		s = s[:k] + "-" + s[k:]
	}
	g.nw++
	return s
}

func (g *pgen) spanNode(depth int) Node {
	n := Node{K: KSpan}
	if g.feat.Spacing {
		sp := func() int {
			switch g.r.Intn(4) {
			case 0:
				return 0
			case 1:
				return g.u
			case 2:
				return g.f
			}
			return pick(g.r, 1, 2, 3, g.u*3)
		}
		switch g.r.Intn(4) {
		case 0:
			n.PL, n.PR = sp(), sp()
		case 1:
			n.ML, n.MR = sp(), sp()
		case 2:
			n.BL, n.BR = sp(), sp()
		case 3:
			n.ML, n.PR, n.BL, n.MR = sp(), sp(), pick(g.r, 0, 1, 2), pick(g.r, 0, g.u)
		}
		if g.r.Intn(4) == 0 {
			n.PV = pick(g.r, 1, 3, g.f)
		}
	}
	if g.feat.FontSize && g.r.Intn(2) == 0 {
		n.FS = pick(g.r, 8, 10, 16, 20, 12, 24)
	}
	if g.feat.VAlign && (g.forceVA || g.r.Intn(2) == 0) {
		n.VA = pick(g.r, "top", "bottom", "top")
	}
	return n
}

// letters returns the next n letters of the running alphabet.
func (g *pgen) run(n int) string {
	var sb strings.Builder
	for i := 0; i < n; i++ {
		sb.WriteByte(letters[g.li%26])
		g.li++
	}
	return sb.String()
}

// pieceWord appends one word made of 2 to 5 inline pieces with no white space between them: text
// runs and inline boxes holding one unbreakable run (sometimes two boxes in a row, sometimes a box
// nested in another one, sometimes a run with a hyphen, i.e. a piece that can be broken inside).
// The boxes draw their spacing / font size like any other span of the paragraph.
func (g *pgen) pieceWord(depth int) {
	n := 2 + g.r.Intn(4)
	if g.r.Intn(4) != 0 && n < 3 {
		n = 3
	}
	text := func() string {
		k := 1 + g.r.Intn(3)
		if g.r.Intn(6) == 0 {
			k = 4 + g.r.Intn(5)
		}
		s := g.run(k)
		if g.feat.Hyphen && k >= 3 && g.r.Intn(4) == 0 {
			j := 1 + g.r.Intn(k-2)
			s = s[:j] + "-" + s[j:]
		}
		return s
	}
	var contents []int // indexes of the content tokens
	isSpan := g.r.Intn(3) == 0
	nspans := 0
	for k := 0; k < n; k++ {
		if k == n-1 && nspans == 0 {
			isSpan = true
		}
		if !isSpan {
			contents = append(contents, len(g.toks))
			g.toks = append(g.toks, tok{k: 'w', s: text()})
			isSpan = true
			continue
		}
		nspans++
		sn := g.spanNode(depth)
		nest := depth < 2 && g.r.Intn(5) == 0
		if nest && g.wrap && !lifted("D9") {
			// finding D9: a span with end spacing holds nothing but one text node
			sn.MR, sn.BR, sn.PR = 0, 0, 0
		}
		// finding D11: a break opportunity between the children of an inline box is not found when
		// the unit after it straddles the box's end; the outer box of a nested piece keeps a single
		// child: no white space between the two start edges / the two end edges
		g.toks = append(g.toks, tok{k: 'o', node: sn, tight: sn.ML+sn.BL+sn.PL > 0 && !lifted("D15") || nest && !lifted("D11")})
		if nest {
			in := g.spanNode(depth + 1)
			g.toks = append(g.toks, tok{k: 'o', node: in, tight: in.ML+in.BL+in.PL > 0 && !lifted("D15")})
			contents = append(contents, len(g.toks))
			g.toks = append(g.toks, tok{k: 'w', s: text()})
			g.toks = append(g.toks, tok{k: 'x', tight: g.wrap && in.MR+in.BR+in.PR > 0 && !lifted("D7"), leaf: true})
			g.toks = append(g.toks, tok{k: 'x', tight: g.wrap && sn.MR+sn.BR+sn.PR > 0 && !lifted("D7") || !lifted("D11"), leaf: lifted("D11")})
		} else {
			contents = append(contents, len(g.toks))
			g.toks = append(g.toks, tok{k: 'w', s: text()})
			g.toks = append(g.toks, tok{k: 'x', tight: g.wrap && sn.MR+sn.BR+sn.PR > 0 && !lifted("D7"), leaf: true})
		}
		// after a box: text, or (one time in three) another box
		isSpan = g.r.Intn(3) == 0
	}
	for _, c := range contents[:len(contents)-1] {
		g.toks[c].glue = true
	}
	g.nw++
}

// seq appends elements of one nesting level; it always produces at least one word or atomic.
func (g *pgen) seq(depth int, want int) {
	produced := 0
	for produced < want && g.nw < g.budget {
		switch {
		case g.feat.Spans && depth < 3 && g.r.Intn(5) == 0:
			n := g.spanNode(depth)
			// finding D1 (fixed: df7dcfa after the re-break loop was bounded in 91b6e7d; lifted() is always true for it): the start
			// spacing of an inline box is not charged when its own content is split, so in
			// wrapping modes a span with start spacing holds one unbreakable word
			single := g.wrap && n.ML+n.BL+n.PL > 0 && !lifted("D1")
			if single && g.r.Intn(2) == 0 {
				n.ML, n.BL, n.PL = 0, 0, 0
				single = false
			}
			// finding D15: the start spacing of an inline box is dropped when the box begins with
			// a collapsible space that is skipped at a line start; no space just inside such an edge
			g.toks = append(g.toks, tok{k: 'o', node: n, tight: n.ML+n.BL+n.PL > 0 && !lifted("D15")})
			first := len(g.toks)
			switch {
			case single:
				g.toks = append(g.toks, tok{k: 'w', s: g.wordH(false)})
			case g.feat.Leaf, g.wrap && n.MR+n.BR+n.PR > 0 && !lifted("D9"):
				// finding D9: the end spacing is charged by re-splitting the last child only, so
				// a span with end spacing holds nothing but words (one text node); so do the
				// spans of overflow-wrap paragraphs (feat.Leaf, finding D17)
				for k := 1 + g.r.Intn(4); k > 0; k-- {
					g.toks = append(g.toks, tok{k: 'w', s: g.word()})
				}
			default:
				save := g.forceVA
				g.forceVA = n.VA != "" && !lifted("D22")
				g.seq(depth+1, 1+g.r.Intn(4))
				g.forceVA = save
			}
			// finding D7: the end spacing of an inline box is lost when the box's content ends with
			// a collapsible space at which the line breaks; no space just inside such an end edge
			leaf := true
			for _, t := range g.toks[first:] {
				if t.k != 'w' {
					leaf = false
				}
			}
			g.toks = append(g.toks, tok{k: 'x', tight: g.wrap && n.MR+n.BR+n.PR > 0 && !lifted("D7"), leaf: leaf || lifted("D11")})
			produced++
		case g.feat.Pieces && depth < 3 && g.r.Intn(3) == 0:
			g.pieceWord(depth)
			produced++
		case g.feat.IB && (g.r.Intn(8) == 0 || g.feat.VAlign && g.r.Intn(4) == 0):
			ib := Node{K: KIB, W: pick(g.r, g.u, g.f, 2*g.f, 3*g.u), H: pick(g.r, 1, g.u, g.f, 2*g.f, 3*g.f)}
			if g.r.Intn(4) == 0 {
				ib.M = pick(g.r, 1, g.u)
			}
			if g.feat.VAlign && g.r.Intn(2) == 0 {
				ib.VA = pick(g.r, "top", "bottom")
			}
			g.toks = append(g.toks, tok{k: 'a', node: ib})
			produced++
		case g.feat.Br && g.r.Intn(8) == 0 && produced > 0 && produced < want-1 && g.toks[len(g.toks)-1].k != 'n':
			g.toks = append(g.toks, tok{k: 'n'})
		default:
			g.toks = append(g.toks, tok{k: 'w', s: g.word()})
			produced++
		}
	}
	// a forced break must not be the last element of its level
	if n := len(g.toks); n > 0 && g.toks[n-1].k == 'n' {
		g.toks = append(g.toks, tok{k: 'w', s: g.word()})
	}
	if produced == 0 {
		g.toks = append(g.toks, tok{k: 'w', s: g.word()})
	}
}

func (g *pgen) sep(a, b tok, nedges int, glueOK bool) string {
	glue := g.feat.Glue && (glueOK || !g.wrap)
	space := func() string {
		if g.ws == "pre-wrap" {
			// preserved spaces: only single spaces between words and none before a forced break
			// (runs of hanging spaces are kept out, see notes: pre-wrap)
			if g.feat.MultiSp {
				return wpick(g.r, " ", 4, "\n", 1, "\n ", 1)
			}
			return " "
		}
		if g.feat.MultiSp {
			switch g.r.Intn(6) {
			case 0:
				return "  "
			case 1:
				return "\n"
			case 2:
				return " \n "
			case 3:
				return "   "
			}
		}
		return " "
	}
	if a.k == 'w' && b.k == 'w' {
		if nedges > 0 && glue && g.r.Intn(3) == 0 {
			return ""
		}
		return space()
	}
	if b.k == 'n' && !lifted("D3") {
		// finding D3: a collapsible space before <br> is not removed; kept out
		return ""
	}
	if a.k == 'n' {
		// after a forced break: sometimes a (collapsible) space
		if g.r.Intn(4) == 0 {
			return " "
		}
		return ""
	}
	if glue && g.r.Intn(4) == 0 {
		return ""
	}
	// edges: the separator of a gap holding several edges is put at one side of one of them; the
	// other gaps get nothing (or, sometimes, a second space that must collapse)
	return "?"
}

// build draws the paragraph.
func genPara(r *rand.Rand, feat features, maxWords int, ws string) *Para {
	f := pick(r, 8, 10, 16, 20)
	g := &pgen{r: r, f: f, u: f / 2, feat: feat, budget: 1 + r.Intn(maxWords), wrap: ws == "normal" || ws == "pre-wrap" || ws == "pre-line", ws: ws}
	g.li = r.Intn(26)
	p := &Para{F: f, WS: ws}
	g.p = p
	g.seq(0, g.budget)
	// separators: between content elements (w, a, n) there is a chain of edges; decide whether the
	// gap holds white space, and where in the chain it goes.
	toks := g.toks
	var out []tok // with 'w' text merged in as separate "text" tokens (k = 't')
	isContent := func(k byte) bool { return k == 'w' || k == 'a' || k == 'n' }
	preserved := ws == "pre" || ws == "pre-wrap" || ws == "pre-line" // newlines are forced breaks
	// insert puts white space s somewhere in a chain of edges, never just inside a tight edge
	insert := func(chain []tok, s string) []tok {
		var ok []int
		for k := 0; k <= len(chain); k++ {
			if k > 0 && chain[k-1].k == 'o' && chain[k-1].tight {
				continue
			}
			if k < len(chain) && chain[k].k == 'x' && chain[k].tight {
				continue
			}
			ok = append(ok, k)
		}
		if len(ok) == 0 {
			return chain
		}
		k := ok[r.Intn(len(ok))]
		return append(chain[:k:k], append([]tok{{k: 't', s: s}}, chain[k:]...)...)
	}
	i := 0
	// leading edges / leading space
	for i < len(toks) {
		if isContent(toks[i].k) {
			break
		}
		out = append(out, toks[i])
		i++
	}
	if feat.MultiSp && r.Intn(6) == 0 {
		// leading collapsible space, somewhere before the first content
		out = insert(out, " ")
	}
	depth := 0
	for _, t := range out {
		if t.k == 'o' {
			depth++
		}
	}
	for i < len(toks) {
		cur := toks[i]
		out = append(out, cur)
		j := i + 1
		for j < len(toks) && !isContent(toks[j].k) {
			j++
		}
		edges := toks[i+1 : j]
		for _, e := range edges {
			if e.k == 'o' {
				depth++
			} else if e.k == 'x' {
				depth--
			}
		}
		if j >= len(toks) {
			// trailing edges, maybe a trailing space
			tail := append([]tok(nil), edges...)
			if feat.MultiSp && r.Intn(6) == 0 && ws != "pre-wrap" {
				tail = insert(tail, " ")
			}
			out = append(out, tail...)
			break
		}
		if cur.glue {
			// pieces of one word: nothing between them but the box edges
			out = append(out, edges...)
			i = j
			continue
		}
		nxt := toks[j]
		glueOK := true
		for _, e := range edges {
			// finding D11: when a unit straddles the end of an inline box, a break opportunity
			// between that box's children is not found; glue only after single-text spans
			if e.k == 'x' && !e.leaf {
				glueOK = false
			}
		}
		s := g.sep(cur, nxt, len(edges), glueOK)
		if len(edges) == 0 {
			if s == "?" {
				// word|atomic neighbours
				s = " "
				if feat.Glue && r.Intn(3) == 0 {
					s = ""
				}
			}
			if s != "" {
				out = append(out, tok{k: 't', s: s})
			}
		} else {
			if s == "?" {
				s = " "
				if feat.MultiSp && r.Intn(5) == 0 {
					s = pick(r, "  ", "\n", "\n ")
				}
			}
			if preserved {
				// forced breaks stay away from box edges
				s = strings.ReplaceAll(s, "\n", " ")
			}
			chain := append([]tok(nil), edges...)
			if s != "" {
				chain = insert(chain, s)
				if feat.MultiSp && r.Intn(5) == 0 {
					// a second white space in the same gap, at another position: must collapse
					chain = insert(chain, " ")
				}
			}
			out = append(out, chain...)
		}
		i = j
	}
	// fold into nodes
	var fold func(pos int) ([]Node, int)
	fold = func(pos int) ([]Node, int) {
		var ns []Node
		addText := func(s string) {
			if n := len(ns); n > 0 && ns[n-1].K == KText {
				ns[n-1].T += s
			} else {
				ns = append(ns, Node{K: KText, T: s})
			}
		}
		for pos < len(out) {
			t := out[pos]
			switch t.k {
			case 'w', 't':
				addText(t.s)
				pos++
			case 'a':
				ns = append(ns, t.node)
				pos++
			case 'n':
				ns = append(ns, Node{K: KBr})
				pos++
			case 'o':
				n := t.node
				var c []Node
				c, pos = fold(pos + 1)
				n.C = c
				ns = append(ns, n)
			case 'x':
				return ns, pos + 1
			}
		}
		return ns, pos
	}
	p.Nodes, _ = fold(0)
	return p
}

// paraStats returns the number of characters of the paragraph's text (rough total length in em).
func paraLen(ns []Node, f int) int {
	tot := 0
	for i := range ns {
		n := &ns[i]
		switch n.K {
		case KText:
			tot += len(n.T) * f
		case KSpan:
			fs := f
			if n.FS != 0 {
				fs = n.FS
			}
			tot += n.ML + n.BL + n.PL + n.PR + n.BR + n.MR + paraLen(n.C, fs)
		case KIB:
			tot += n.W + 2*n.M
		}
	}
	return tot
}

func (f features) String() string {
	var s []string
	add := func(b bool, n string) {
		if b {
			s = append(s, n)
		}
	}
	add(f.Spans, "spans")
	add(f.Spacing, "spacing")
	add(f.IB, "ib")
	add(f.Br, "br")
	add(f.Hyphen, "hyphen")
	add(f.MultiSp, "multisp")
	add(f.FontSize, "fontsize")
	add(f.Glue, "glue")
	add(f.Leaf, "leaf")
	add(f.Pieces, "pieces")
	add(f.VAlign, "valign")
	if len(s) == 0 {
		return "plain"
	}
	return fmt.Sprint(strings.Join(s, "+"))
}
