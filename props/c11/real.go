package c11

import (
	"fmt"
	"math"
	"strings"

	bo "github.com/benoitkugler/webrender/html/boxes"
	"github.com/benoitkugler/webrender/text"

	"verif/internal/fw"
	"verif/internal/wr"
)

// Mode "real": a plain paragraph set in a real proportional font (DejaVu Sans).  No exact
// positions are known, so only relations are asserted:
//   - conservation: the lines, joined by one space, are the source text;
//   - fit: a line is wider than the container only if it is one unbreakable unit;
//   - greedy: line i + space + first unit of line i+1 (measured as one string by
//     text.SplitFirstLine with no width limit, so kerning/shaping across the space is included)
//     does not fit;
//   - stacking: each line starts where the previous one ends; equal heights (same font, same
//     line-height);
//   - alignment: right -> the line ends at the container's end edge, center -> equal free room on
//     both sides, justify -> every line but the last spans the container when it has a space.

// realSlack: a string measured alone and the same string as part of a longer shaped text differ by
// the kerning against the neighbouring character and by the engines' fixed-point rounding.
const realSlack = 2.0

func checkReal(in *c11In) fw.Result {
	var res fw.Result
	t := in.Text
	fonts, err := fontsFor(in.Engine)
	if err != nil {
		return fw.Result{Verdict: fw.Inconclusive, Msg: err.Error()}
	}
	var sb strings.Builder
	sb.WriteString("<html><head><style>@page{size:20000px 60000px;margin:0}html,body{margin:0;padding:0;display:block}")
	fmt.Fprintf(&sb, "div{font-family:'%s';font-size:%gpx;white-space:%s;text-align:%s;margin:0;padding:0;break-after:page;orphans:1;widows:1}", t.Family, t.Size, t.WS, t.Align)
	sb.WriteString("</style></head><body>")
	for _, w := range in.Widths {
		fmt.Fprintf(&sb, `<div style="width:%dpx">%s</div>`, w, escText(t.Text))
	}
	sb.WriteString("</body></html>")
	rd, err := wr.Render(wr.Opts{HTML: sb.String(), Engine: in.Engine, NoWrite: true, Fonts: fonts})
	if err != nil {
		return fw.Result{Verdict: fw.Inconclusive, Msg: "render: " + err.Error()}
	}
	if len(rd.Pages) != len(in.Widths) {
		res.Fail("structure", fmt.Sprintf("%d pages for %d blocks separated by forced page breaks", len(rd.Pages), len(in.Widths)))
		return res
	}
	ctx := newTextCtx(fonts)
	multi := false
	for k, W := range in.Widths {
		div := findBlock(rd.Pages[k])
		if div == nil {
			res.Fail("structure", fmt.Sprintf("page %d has no block", k))
			return res
		}
		fail := func(sig, msg string) {
			res.Fail("real-"+sig, fmt.Sprintf("%s %gpx, text-align:%s, container %dpx, engine %s, text %q: %s", t.Family, t.Size, t.Align, W, in.Engine, t.Text, msg))
		}
		type rl struct {
			text       string
			x, w, y, h float64
			style      *bo.TextBox
		}
		var lines []rl
		bad := false
		for _, c := range div.Box().Children {
			lb, ok := c.(*bo.LineBox)
			if !ok {
				fail("structure", fmt.Sprintf("child %T of the block", c))
				bad = true
				break
			}
			l := rl{y: float64(lb.PositionY), h: fl(lb.Height)}
			n := 0
			for _, cc := range lb.Children {
				tb, ok := cc.(*bo.TextBox)
				if !ok {
					fail("structure", fmt.Sprintf("child %T of the line", cc))
					bad = true
					break
				}
				if len(tb.Text) == 0 {
					continue
				}
				n++
				l.text = string(tb.Text)
				l.x, l.w = float64(tb.PositionX), fl(tb.Width)
				l.style = tb
			}
			if bad {
				break
			}
			if n == 0 && l.h == 0 {
				continue // phantom line
			}
			if n != 1 {
				fail("structure", fmt.Sprintf("%d text boxes on a line of a single text node", n))
				bad = true
				break
			}
			lines = append(lines, l)
		}
		if bad {
			continue
		}
		var parts []string
		for _, l := range lines {
			parts = append(parts, l.text)
		}
		// conservation (a break after a hyphen joins without space)
		joined := ""
		for i, p := range parts {
			if i > 0 && !strings.HasSuffix(parts[i-1], "-") {
				joined += " "
			}
			joined += p
		}
		if joined != t.Text {
			// a word ending in '-' is not generated, so the rule above is exact
			fail("conservation", fmt.Sprintf("lines %q do not add up to the text", parts))
			continue
		}
		measure := func(tb *bo.TextBox, s string) float64 {
			return float64(text.SplitFirstLine([]rune(s), tb.Style, ctx, nil, false, true).Width)
		}
		okBlock := true
		for i, l := range lines {
			last := i == len(lines)-1
			if i > 0 {
				if prev := lines[i-1].y + lines[i-1].h; !near(prev, l.y) {
					fail("stacking", fmt.Sprintf("line %d starts at y=%g, the previous one ends at %g", i+1, l.y, prev))
					okBlock = false
					break
				}
				if !near(lines[0].h, l.h) {
					fail("line-height", fmt.Sprintf("line %d is %g high, line 1 is %g (same font and line-height)", i+1, l.h, lines[0].h))
					okBlock = false
					break
				}
			} else if !near(0, l.y) {
				fail("stacking", fmt.Sprintf("first line at y=%g", l.y))
				okBlock = false
				break
			}
			natural := measure(l.style, l.text)
			justified := t.Align == "justify" && !last && strings.Contains(l.text, " ")
			// (kerning against the character after the break may be part of the last advance:
			// realSlack)
			if !justified && math.Abs(natural-l.w) > realSlack {
				fail("width", fmt.Sprintf("line %d %q is %g wide, the same string measures %g", i+1, l.text, l.w, natural))
				okBlock = false
				break
			}
			if natural > float64(W)+realSlack && hasOpportunity([]rune(l.text)) {
				fail("overfull", fmt.Sprintf("line %d %q is %g wide and has an earlier soft wrap opportunity", i+1, l.text, natural))
				okBlock = false
				break
			}
			if !last {
				multi = true
				nr := []rune(lines[i+1].text)
				sep := " "
				if strings.HasSuffix(l.text, "-") {
					sep = ""
				}
				probe := l.text + sep + string(nr[:nextUnitEnd(nr, 0)])
				if pw := measure(l.style, probe); pw <= float64(W)-realSlack {
					fail("early-break", fmt.Sprintf("line %d breaks after %q although %q measures %g", i+1, l.text, probe, pw))
					okBlock = false
					break
				}
				res.Count("real_soft_breaks", 1)
			}
			// alignment
			free := float64(W) - l.w
			switch {
			case free <= 0 && !justified:
				// overflowing single unit: start aligned
				if !near(l.x, 0) && l.w > float64(W) {
					fail("align", fmt.Sprintf("overflowing line %d starts at x=%g", i+1, l.x))
					okBlock = false
				}
			case justified:
				if !near(l.x, 0) || !near(l.w, float64(W)) {
					fail("align", fmt.Sprintf("justified line %d %q spans x=%g..%g", i+1, l.text, l.x, l.x+l.w))
					okBlock = false
				}
			case t.Align == "right":
				if !near(l.x+l.w, float64(W)) {
					fail("align", fmt.Sprintf("right-aligned line %d %q ends at x=%g", i+1, l.text, l.x+l.w))
					okBlock = false
				}
			case t.Align == "center":
				if !near(l.x, free/2) {
					fail("align", fmt.Sprintf("centred line %d %q starts at x=%g, free room is %g", i+1, l.text, l.x, free))
					okBlock = false
				}
			default:
				if !near(l.x, 0) {
					fail("align", fmt.Sprintf("start-aligned line %d %q starts at x=%g", i+1, l.text, l.x))
					okBlock = false
				}
			}
			if !okBlock {
				break
			}
		}
		if okBlock {
			res.Count("real_blocks", 1)
			res.Count("real_lines", int64(len(lines)))
		}
	}
	eng := in.Engine
	if eng == "" {
		eng = "pango"
	}
	res.Count("real_"+eng, 1)
	res.Nontrivial = multi && res.Verdict != fw.Violation
	return res
}
