package c11

import (
	"fmt"
	"math"
	"strconv"
	"strings"
)

// Reference line breaker, written from CSS 2.1 §9.4.2, §10.8, §16.1, §16.2, §16.6 and CSS Text 3
// §3 (white-space), §4.1 (white space processing), §5 (line breaking), §6.2 (overflow-wrap),
// §7 (alignment).  It shares no code with /repo.  All glyphs are 1em squares (Ahem), ascent 0.8em,
// descent 0.2em.

type mbox struct {
	parent int
	fs     float64 // font size
	a, d   float64 // extent of the box's strut above / below the baseline (half-leading included)
	ls, rs float64 // start / end margin+border+padding
	va     string  // vertical-align: "" (baseline), "top", "bottom"
	root   int     // root of the aligned subtree the box belongs to: the nearest ancestor-or-self with va top/bottom, 0 = the line's root inline box
}

type mitem struct {
	k   byte    // 'c' character, 'o' box start edge, 'x' box end edge, 'a' atomic inline, 'n' forced break
	r   rune    // 'c'
	w   float64 // advance ('c'), edge width ('o','x'), margin-box width ('a')
	h   float64 // margin-box height ('a')
	box int     // innermost inline box ('c','a','n'); the box itself ('o','x')
	tn  int     // text node index ('c')
	sp  bool    // space character
	va  string  // 'a': vertical-align "" | "top" | "bottom"
}

// Frag is one positioned piece of a line: a text fragment (one per text node and line), an atomic
// inline or an inline-box fragment.
type Frag struct {
	Kind string // "t", "a", "s"
	Text string
	X, W float64 // "t": start and advance; "a": margin box; "s": margin box of the fragment
	FS   float64
	H    float64 // "a": margin-box height
	// expected position, below the line top, of the baseline ("t") / of the bottom margin edge ("a"):
	// a range, because CSS 2.1 §10.8.1 leaves the baseline of the line undefined when a top/bottom
	// aligned subtree is taller than the rest of the line (BLo = BHi otherwise)
	BLo, BHi float64
	sub      int // model only: aligned subtree (box id, 0 = root; -1 / -2: the atomic itself, top / bottom)
}

// Line is one expected line box.
type Line struct {
	Frags     []Frag // texts and atomics, in order
	Spans     []Frag // inline-box fragments, in document order of their start
	Y, H      float64
	Baseline  float64 // absolute y of the baseline
	Content   float64 // advance of the content, indent excluded
	Last      bool    // last line of the block or line ended by a forced break
	NSpaces   int
	Justified bool
	Hang      float64 // width of preserved spaces hanging at the line end (pre-wrap)
	Start     float64 // text-indent applied to this line
	// vertical-align top/bottom (CSS 2.1 §10.8.1): aligned subtrees on the line, those nested inside
	// a top/bottom aligned inline box, whether one of them is taller than the baseline-aligned rest
	// (it decides the line height) and whether only a nested one does
	NVA, NVANested          int
	VADecides, VANestedOnly bool
	// finding D21: a top/bottom aligned inline box holding another aligned subtree is not where its
	// provisional placement put it (see notes)
	d21 bool
}

type model struct {
	p      *Para
	boxes  []mbox
	items  []mitem
	ntext  int
	wrap   bool // white-space allows soft wraps
	coll   bool // spaces collapse
	anyBrk bool // word-break: break-all
	owAny  bool // overflow-wrap: anywhere / break-word
	// evidence counters of the last Layout call: words cut by overflow-wrap (all / touching an
	// inline box), overlong words moved to the next line whole because the line had an ordinary
	// opportunity although a prefix would have fitted the rest of the line (all / the word begins
	// a text box that is not the first box of the line)
	owSplits, owSplitsInBox, owDeferred, owDeferredBox int
	// soft breaks taken inside a text node because the word that follows, made of several inline
	// pieces (text, inline box, text ...), does not fit: all / those where the first two pieces still
	// fitted the line, i.e. the overflow shows in the third or a later piece and the break lies
	// before one or more whole unbreakable inline pieces
	pieceRebreaks, pieceRebreaksPast int
	// finding D20 (nowrap only): an inline box ends with a white-space-only text node that collapses
	// away entirely behind a space held by the sibling inline box before it, and content follows
	d20 bool
}

func parseLH(lh string, fs float64) (float64, error) {
	switch {
	case lh == "normal":
		return fs, nil // Ahem: ascent + descent = 1em, no line gap
	case strings.HasSuffix(lh, "px"):
		v, err := strconv.ParseFloat(strings.TrimSuffix(lh, "px"), 64)
		return v, err
	default:
		v, err := strconv.ParseFloat(lh, 64)
		return v * fs, err
	}
}

func newModel(p *Para) (*model, error) {
	m := &model{p: p}
	switch p.WS {
	case "normal":
		m.wrap, m.coll = true, true
	case "nowrap":
		m.wrap, m.coll = false, true
	case "pre":
		m.wrap, m.coll = false, false
	case "pre-wrap":
		m.wrap, m.coll = true, false
	case "pre-line":
		m.wrap, m.coll = true, true
	default:
		return nil, fmt.Errorf("white-space %q", p.WS)
	}
	m.anyBrk = p.WB == "break-all"
	m.owAny = m.wrap && (p.OW == "anywhere" || p.OW == "break-word")
	f := float64(p.F)
	L, err := parseLH(p.LH, f)
	if err != nil {
		return nil, err
	}
	m.boxes = []mbox{{parent: -1, fs: f, a: 0.8*f + (L-f)/2, d: 0.2*f + (L-f)/2}}
	var raw []mitem
	var walk func(ns []Node, box int) error
	walk = func(ns []Node, box int) error {
		for i := range ns {
			n := &ns[i]
			switch n.K {
			case KText:
				tn := m.ntext
				m.ntext++
				fs := m.boxes[box].fs
				for _, r := range n.T {
					raw = append(raw, mitem{k: 'c', r: r, w: fs, box: box, tn: tn, sp: r == ' '})
				}
			case KBr:
				raw = append(raw, mitem{k: 'n', box: box, tn: -1})
			case KIB:
				raw = append(raw, mitem{k: 'a', w: float64(n.W + 2*n.M), h: float64(n.H), box: box, va: n.VA})
			case KSpan:
				fs := m.boxes[box].fs
				if n.FS != 0 {
					fs = float64(n.FS)
				}
				Ls, err := parseLH(p.LH, fs)
				if err != nil {
					return err
				}
				if strings.HasSuffix(p.LH, "px") {
					Ls = L
				}
				id := len(m.boxes)
				root := m.boxes[box].root
				if n.VA != "" {
					root = id
				}
				m.boxes = append(m.boxes, mbox{parent: box, fs: fs, a: 0.8*fs + (Ls-fs)/2, d: 0.2*fs + (Ls-fs)/2, ls: n.ls(), rs: n.rs(), va: n.VA, root: root})
				raw = append(raw, mitem{k: 'o', w: n.ls(), box: id})
				if err := walk(n.C, id); err != nil {
					return err
				}
				raw = append(raw, mitem{k: 'x', w: n.rs(), box: id})
			default:
				return fmt.Errorf("node kind %q", n.K)
			}
		}
		return nil
	}
	if err := walk(p.Nodes, 0); err != nil {
		return nil, err
	}
	m.d20 = m.coll && !m.wrap && trailingCollapsedChild(raw)
	m.items = m.whitespace(raw)
	return m, nil
}

// trailingCollapsedChild reports the configuration of finding D20 in the unprocessed items: a text
// node made of white space only, last child of an inline box, that is removed entirely because the
// content before it (inside the inline box that precedes it) ends with a collapsible space, and that
// is followed by more content after the end of its box.
func trailingCollapsedChild(raw []mitem) bool {
	isWS := func(it mitem) bool { return it.k == 'c' && (it.r == ' ' || it.r == '\n') }
	prevSpace := false // the last content item kept so far is a collapsible space
	for i := 0; i < len(raw); i++ {
		it := raw[i]
		switch it.k {
		case 'a', 'n':
			prevSpace = false
		case 'c':
			if !isWS(it) {
				prevSpace = false
				continue
			}
			if (i == 0 || raw[i-1].k != 'c') && prevSpace && it.box != 0 {
				// start of a text node that begins with a removed space: white space up to the end
				// of its box?
				j := i
				for j < len(raw) && isWS(raw[j]) && raw[j].tn == it.tn {
					j++
				}
				if j < len(raw) && raw[j].k == 'x' && raw[j].box == it.box {
					for k := j; k < len(raw); k++ {
						if raw[k].k == 'c' && !isWS(raw[k]) || raw[k].k == 'a' {
							return true
						}
						if raw[k].k == 'n' {
							break
						}
					}
				}
			}
			prevSpace = true
		}
	}
	return false
}

// whitespace applies CSS Text 3 §4.1.1 (phase I) and the static part of phase II (spaces at the
// start of the block and after a forced break).
func (m *model) whitespace(raw []mitem) []mitem {
	// segment breaks
	for i := range raw {
		if raw[i].k == 'c' && raw[i].r == '\n' {
			if m.p.WS == "normal" || m.p.WS == "nowrap" {
				raw[i].r, raw[i].sp = ' ', true
			} else {
				raw[i] = mitem{k: 'n', box: raw[i].box, tn: raw[i].tn}
			}
		}
	}
	if !m.coll {
		return raw
	}
	// pre-line: spaces before a preserved segment break are removed (those after it fall under the
	// line-start rule below)
	drop := make([]bool, len(raw))
	for i := range raw {
		if raw[i].k != 'n' {
			continue
		}
		for j := i - 1; j >= 0; j-- {
			if raw[j].k == 'o' || raw[j].k == 'x' {
				continue
			}
			if raw[j].k == 'c' && raw[j].sp {
				drop[j] = true
				continue
			}
			break
		}
	}
	var out []mitem
	prevSpace := true // start of the block: leading spaces are removed
	for i, it := range raw {
		if drop[i] {
			continue
		}
		switch it.k {
		case 'c':
			if it.sp {
				if prevSpace {
					continue
				}
				prevSpace = true
			} else {
				prevSpace = false
			}
		case 'a':
			prevSpace = false
		case 'n':
			prevSpace = true
		}
		out = append(out, it)
	}
	return out
}

func isLetter(r rune) bool { return r >= 'a' && r <= 'z' || r >= 'A' && r <= 'Z' }

// nextContent returns the index of the first non-edge item at or after i, or len.
func (m *model) nextContent(i int) int {
	for i < len(m.items) && (m.items[i].k == 'o' || m.items[i].k == 'x') {
		i++
	}
	return i
}

// breakAfter reports whether a soft wrap opportunity exists between content item i and the next
// content item j.
func (m *model) breakAfter(i, j int) bool {
	if !m.wrap || j >= len(m.items) {
		return false
	}
	a, b := m.items[i], m.items[j]
	if a.k == 'n' || b.k == 'n' {
		return false
	}
	if a.k == 'c' && a.sp {
		return !(b.k == 'c' && b.sp)
	}
	if b.k == 'c' && b.sp {
		return false
	}
	if a.k == 'a' || b.k == 'a' {
		return true
	}
	if a.r == '-' {
		// UAX #14 HY: opportunity after a hyphen that follows a letter and precedes a letter
		return i > 0 && m.items[i-1].k == 'c' && isLetter(m.items[i-1].r) && isLetter(b.r)
	}
	if m.anyBrk {
		return true
	}
	return false
}

// unitEnd returns the end (exclusive) of the unbreakable unit starting at p and whether it ends
// with a forced break.  Start edges that follow the break point belong to the next unit, end edges
// to this one.
func (m *model) unitEnd(p int) (int, bool) {
	i := m.nextContent(p)
	for i < len(m.items) {
		if m.items[i].k == 'n' {
			return i + 1, true
		}
		j := m.nextContent(i + 1)
		if j >= len(m.items) {
			return len(m.items), false
		}
		if m.breakAfter(i, j) {
			e := i + 1
			for e < j && m.items[e].k == 'x' {
				e++
			}
			return e, false
		}
		i = j
	}
	return len(m.items), false
}

// widths of items[p:q]: total advance, and advance without the trailing spaces (hanging or
// collapsible), end edges after them included.
func (m *model) widths(p, q int) (full, noSpace float64) {
	trail := 0.0
	for i := p; i < q; i++ {
		it := m.items[i]
		switch it.k {
		case 'c':
			full += it.w
			if it.sp {
				trail += it.w
			} else {
				trail = 0
			}
		case 'o', 'x':
			full += it.w
		case 'a':
			full += it.w
			trail = 0
		}
	}
	return full, full - trail
}

const eps = 1e-6

// Layout lays the paragraph out in a container of width W and returns the expected lines.
//
// guard names a known-defect configuration met while laying out (see notes/C11.md); such a block is
// outside the compared domain.
func (m *model) Layout(W float64) (lines []Line, guard string) {
	guards := map[string]bool{}
	m.owSplits, m.owSplitsInBox, m.owDeferred, m.owDeferredBox = 0, 0, 0, 0
	m.pieceRebreaks, m.pieceRebreaksPast = 0, 0
	indent := float64(m.p.Indent)
	if m.p.IndPct != 0 {
		indent = W * float64(m.p.IndPct) / 100
	}
	y := 0.0
	pos := 0
	first := true
	var open []int // boxes open at the start of the line
	for pos < len(m.items) {
		start := 0.0
		if first {
			start = indent
		}
		avail := W - start
		x := 0.0
		end := pos
		forced := false
		for end < len(m.items) {
			q, f := m.unitEnd(end)
			full, ns := m.widths(end, q)
			if end > pos && x+ns > avail+eps {
				if np, k := m.overflowPiece(end, q, x, avail); np >= 2 {
					m.pieceRebreaks++
					if k >= 2 {
						m.pieceRebreaksPast++
					}
				}
				if m.owAny {
					// the unit does not fit the rest of the line: overflow-wrap must not cut it here,
					// the line has an ordinary opportunity before it
					if c, fits := m.splitUnit(end, q, avail-x); c > 0 && fits {
						m.owDeferred++
						// ... and the word begins another text box than the one before it
						fc, pc := m.nextContent(end), end-1
						for pc > pos && (m.items[pc].k == 'o' || m.items[pc].k == 'x') {
							pc--
						}
						if m.items[fc].k == 'c' && (m.items[pc].k != 'c' || m.items[pc].tn != m.items[fc].tn) {
							m.owDeferredBox++
						}
					}
				}
				// finding D2: a collapsible space that ends its text node is dropped when the text
				// before it fits and the text with it does not, even if content follows on the line
				tsp, endsNode, _ := m.trailingSpace(pos, end)
				if m.coll && tsp > 0 && endsNode && x-tsp+ns <= avail+eps {
					guards["D2"] = true
				}
				// finding D16: when the rest of an inline box fits without its end spacing but not
				// with it, its last child is split again against (available - end spacing) and
				// that reduced width is applied to a fragment that does not hold the box's end
				if m.endSpacingResplit(pos, end, x, avail) {
					guards["D16"] = true
				}
				break
			}
			if end == pos && x+ns > avail+eps && m.owAny {
				// overflow-wrap: the unit may be broken anywhere since the line has no other
				// opportunity: keep as many characters as fit (at least one)
				c, _ := m.splitUnit(end, q, avail)
				for _, g := range m.owGuards(end, q, avail, c > 0) {
					guards[g] = true
				}
				if c > 0 {
					m.owSplits++
					if m.items[c-1].box != 0 || m.items[m.nextContent(c)].box != 0 {
						m.owSplitsInBox++
					}
					end = c
					break
				}
				// finding D19: a single character wider than the line is followed by a collapsible
				// space that ends the text of an inline box: the space is carried to the next line
				// instead of hanging and leaves an empty fragment of the box (with its strut) or an
				// empty line there
				if tsp, endsNode, inBox := m.trailingSpace(end, q); m.coll && tsp > 0 && endsNode && inBox {
					guards["D19"] = true
				}
			}
			x += full
			end = q
			if f {
				forced = true
				break
			}
		}
		// finding D10: the last line is justified when a collapsible space follows it and the line
		// fits only without that space
		if tsp, _, _ := m.trailingSpace(pos, end); m.p.Align == "justify" && m.coll && end >= len(m.items) && tsp > 0 && x > avail+eps && x-tsp <= avail+eps {
			guards["D10"] = true
		}
		// finding D20: under nowrap a break is taken after an inline box whose last child, a text node
		// of white space, was collapsed away (the box is flagged "trailing collapsible space" and the
		// nowrap test is skipped for it)
		if m.d20 && x > avail+eps {
			guards["D20"] = true
		}
		ln := m.finish(pos, end, open, start, W, y, forced || end >= len(m.items))
		if ln.d21 {
			guards["D21"] = true
		}
		lines = append(lines, ln)
		y += ln.H
		// boxes open at the start of the next line
		for i := pos; i < end; i++ {
			switch m.items[i].k {
			case 'o':
				open = append(open, m.items[i].box)
			case 'x':
				open = open[:len(open)-1]
			}
		}
		open = append([]int(nil), open...)
		pos = end
		first = false
	}
	if len(lines) > 0 {
		lines[len(lines)-1].Last = true
	}
	for _, g := range []string{"D2", "D10", "D14", "D16", "D19", "D20", "D21"} {
		if guards[g] && !lifted(g) {
			return lines, g
		}
	}
	return lines, ""
}

// pieces returns the number of inline pieces of the unit items[p:q]: maximal runs of content items
// with no box edge between them.
func (m *model) pieces(p, q int) int {
	n, edge := 0, true
	for i := p; i < q; i++ {
		switch m.items[i].k {
		case 'o', 'x':
			edge = true
		case 'c', 'a':
			if m.items[i].k == 'c' && m.items[i].sp {
				return n
			}
			if edge {
				n++
				edge = false
			}
		}
	}
	return n
}

// overflowPiece describes the unit items[end:q] that does not fit the rest of the line (x used of
// avail) when the break point before it lies inside a text node (the character before it belongs to
// the same text node, so that the text box holding both has to be split again): np is the number of
// inline pieces of the unit, k the index of the piece in which the line overflows (an end edge
// counts with the piece it ends, a start edge with the piece it starts).  np = 0 when the break
// point is at a box edge or next to an atomic inline.
func (m *model) overflowPiece(end, q int, x, avail float64) (np, k int) {
	if end == 0 || m.items[end].k != 'c' || m.items[end-1].k != 'c' || m.items[end-1].tn != m.items[end].tn {
		return 0, 0
	}
	np = m.pieces(end, q)
	piece, edge := 0, false
	for i := end; i < q; i++ {
		it := m.items[i]
		at := piece
		switch it.k {
		case 'x':
			edge = true
		case 'o':
			edge = true
			at = piece + 1
		case 'c', 'a':
			if it.k == 'c' && it.sp {
				return np, -1
			}
			if edge {
				piece++
				edge = false
			}
			at = piece
		}
		x += it.w
		if x > avail+eps {
			return np, at
		}
	}
	return np, -1
}

// multiPieceWords is the number of unbreakable units of the paragraph made of three or more inline
// pieces.
func (m *model) multiPieceWords() (n int) {
	for p := 0; p < len(m.items); {
		q, _ := m.unitEnd(p)
		if m.pieces(p, q) >= 3 {
			n++
		}
		if q <= p {
			break
		}
		p = q
	}
	return n
}

// endSpacingResplit reports the D16 configuration at a soft break before items[end]: an end edge
// with spacing lies ahead on what would be the same line without that spacing, and the line built
// so far (items[pos:end], trailing spaces excluded) is wider than available - spacing.
func (m *model) endSpacingResplit(pos, end int, x, avail float64) bool {
	tsp, _, _ := m.trailingSpace(pos, end)
	used := x - tsp
	for k := end; k < len(m.items); k++ {
		it := m.items[k]
		if it.k == 'n' {
			return false
		}
		if it.k == 'x' && it.w > 0 {
			_, ns := m.widths(end, k)
			if x+ns <= avail+eps && used > avail-it.w+eps {
				return true
			}
		}
	}
	return false
}

// trailingSpace returns the width of the space ending items[p:q] (end edges skipped) and whether
// that space is the last character of its text node.
func (m *model) trailingSpace(p, q int) (w float64, endsNode, inBox bool) {
	for i := q - 1; i >= p; i-- {
		it := m.items[i]
		if it.k == 'x' || it.k == 'n' {
			continue
		}
		if it.k == 'c' && it.sp {
			if w == 0 {
				endsNode = i+1 >= len(m.items) || m.items[i+1].k != 'c' || m.items[i+1].tn != it.tn
			}
			w += it.w
			if it.box != 0 {
				inBox = true
			}
			continue
		}
		break
	}
	return w, endsNode, inBox
}

// splitUnit finds the split point inside the overlong unit items[p:q] for overflow-wrap: the
// largest prefix that fits avail and ends between two non-space characters (fits = true), or the
// shortest such prefix when none fits.  Returns 0 when the unit has no inner split point.
func (m *model) splitUnit(p, q int, avail float64) (cut int, fits bool) {
	best, firstPt := 0, 0
	lastChar := -1
	for i := p; i < q; i++ {
		it := m.items[i]
		if it.k == 'c' && !it.sp {
			if lastChar >= 0 {
				// candidate split before i: end edges stay, start edges go
				cut := lastChar + 1
				for cut < i && m.items[cut].k == 'x' {
					cut++
				}
				w, _ := m.widths(p, cut)
				if firstPt == 0 {
					firstPt = cut
				}
				if w <= avail+eps {
					best = cut
				}
			}
			lastChar = i
		} else if it.k == 'a' || it.k == 'n' || (it.k == 'c' && it.sp) {
			lastChar = -1
		}
	}
	if best > 0 {
		return best, true
	}
	return firstPt, false
}

// owGuards names the known-defect configurations met when the unit items[p:q], first on its line
// and wider than avail, is handed to overflow-wrap (cut: it has an inner split point).
func (m *model) owGuards(p, q int, avail float64, cut bool) (out []string) {
	// finding D14: a text that is given a non-positive width is not wrapped at all; the room left
	// to the unit's first character is what remains after the start edges before it
	room := avail
	for i := p; i < q && m.items[i].k != 'c' && m.items[i].k != 'a'; i++ {
		if m.items[i].k == 'o' {
			room -= m.items[i].w
		}
	}
	if room <= eps {
		out = append(out, "D14")
	}
	// finding D16: the text up to the end edge of its inline box fits, but not with the edge's
	// spacing: webrender splits it again against (available - spacing) although the fragment
	// kept on this line does not hold the box's end
	for k := p; cut && k < q; k++ {
		if it := m.items[k]; it.k == 'x' && it.w > 0 {
			if cw, _ := m.widths(p, k); cw <= avail+eps {
				out = append(out, "D16")
			}
		}
	}
	return out
}

// finish builds the line made of items[p:q].
func (m *model) finish(p, q int, open []int, start, W, y float64, last bool) Line {
	its := append([]mitem(nil), m.items[p:q]...)
	// drop the forced break itself
	if n := len(its); n > 0 && its[n-1].k == 'n' {
		its = its[:n-1]
	}
	// trailing collapsible spaces are removed (CSS Text 3 §4.1.2 step 3); preserved spaces of
	// pre-wrap hang: they stay in the text but are not part of the measured content
	hang := 0.0
	{
		keep := make([]bool, len(its))
		for i := range keep {
			keep[i] = true
		}
		for i := len(its) - 1; i >= 0; i-- {
			if its[i].k == 'x' {
				continue
			}
			if its[i].k == 'c' && its[i].sp {
				if m.coll {
					keep[i] = false
				} else if m.wrap {
					hang += its[i].w
				}
				continue
			}
			break
		}
		var k2 []mitem
		for i, it := range its {
			if keep[i] {
				k2 = append(k2, it)
			}
		}
		its = k2
	}
	ln := Line{Y: y, Last: last, Start: start}
	content := 0.0
	nsp := 0
	for _, it := range its {
		content += it.w
		if it.k == 'c' && it.sp {
			nsp++
		}
	}
	ln.Content = content
	ln.NSpaces = nsp
	ln.Hang = hang
	measured := content - hang
	// alignment (CSS 2.1 §16.2, CSS Text 3 §7.1): the indent is part of the line's content
	off := 0.0
	extra := W - (start + measured)
	just := 0.0
	if extra > 0 {
		switch m.p.Align {
		case "right":
			off = extra
		case "center":
			off = extra / 2
		case "justify":
			if !last && m.coll && nsp > 0 {
				just = extra / float64(nsp)
				ln.Justified = true
			}
		}
	}
	// positions
	x := start + off
	// aligned subtrees (CSS 2.1 §10.8.1): the root inline box with everything that is not inside a
	// top/bottom aligned box, and one per top/bottom aligned inline box / atomic inline present on the
	// line; inside a subtree everything sits on the subtree's baseline
	type ext struct{ a, d float64 }
	sub := map[int]*ext{0: {m.boxes[0].a, m.boxes[0].d}}
	var subOrder []int
	var vaAtoms []float64 // heights of the top/bottom aligned atomic inlines
	var vaAtomRoots []int // ... and the aligned subtree of the box holding them (0: not nested)
	seen := map[int]bool{}
	touch := func(b int) {
		for ; b > 0 && !seen[b]; b = m.boxes[b].parent {
			seen[b] = true
			r := m.boxes[b].root
			e := sub[r]
			if e == nil {
				// (extents start below any value: with a line-height smaller than the font size the
				// box can lie entirely above its baseline, d < 0)
				e = &ext{math.Inf(-1), math.Inf(-1)}
				sub[r] = e
				subOrder = append(subOrder, r)
			}
			if m.boxes[b].a > e.a {
				e.a = m.boxes[b].a
			}
			if m.boxes[b].d > e.d {
				e.d = m.boxes[b].d
			}
		}
	}
	type ospan struct {
		box, idx int
	}
	var stack []ospan
	hasContent := map[int]bool{}
	mark := func() {
		for _, s := range stack {
			hasContent[s.idx] = true
		}
	}
	for _, b := range open {
		touch(b)
		ln.Spans = append(ln.Spans, Frag{Kind: "s", X: x, FS: m.boxes[b].fs})
		stack = append(stack, ospan{b, len(ln.Spans) - 1})
	}
	curTN := -1
	for _, it := range its {
		switch it.k {
		case 'o':
			touch(it.box)
			ln.Spans = append(ln.Spans, Frag{Kind: "s", X: x, FS: m.boxes[it.box].fs})
			stack = append(stack, ospan{it.box, len(ln.Spans) - 1})
			x += it.w
			curTN = -1
		case 'x':
			x += it.w
			s := stack[len(stack)-1]
			stack = stack[:len(stack)-1]
			ln.Spans[s.idx].W = x - ln.Spans[s.idx].X
			curTN = -1
		case 'a':
			touch(it.box)
			mark()
			fr := Frag{Kind: "a", X: x, W: it.w, H: it.h, sub: m.boxes[it.box].root}
			switch it.va {
			case "top":
				fr.sub = -1
			case "bottom":
				fr.sub = -2
			}
			if it.va != "" {
				vaAtoms = append(vaAtoms, it.h)
				vaAtomRoots = append(vaAtomRoots, m.boxes[it.box].root)
			} else {
				// the bottom margin edge of an empty inline-block sits on the baseline: it reaches
				// it.h above it and 0 below it
				e := sub[fr.sub]
				if it.h > e.a {
					e.a = it.h
				}
				if e.d < 0 {
					e.d = 0
				}
			}
			ln.Frags = append(ln.Frags, fr)
			x += it.w
			curTN = -1
		case 'c':
			touch(it.box)
			mark()
			w := it.w
			if it.sp {
				w += just
			}
			if it.tn == curTN {
				f := &ln.Frags[len(ln.Frags)-1]
				f.Text += string(it.r)
				f.W += w
			} else {
				ln.Frags = append(ln.Frags, Frag{Kind: "t", Text: string(it.r), X: x, W: w, FS: it.w, sub: m.boxes[it.box].root})
				curTN = it.tn
			}
			x += w
		}
	}
	for _, s := range stack {
		ln.Spans[s.idx].W = x - ln.Spans[s.idx].X
	}
	for i := range ln.Spans {
		if !hasContent[i] {
			ln.Spans[i].Text = "empty"
		}
	}
	// line height: the baseline-aligned rest, or the tallest top/bottom aligned subtree
	A0, D0 := sub[0].a, sub[0].d
	H0 := A0 + D0
	H, Htop := H0, H0 // Htop: without the subtrees nested inside a top/bottom aligned inline box
	for _, r := range subOrder {
		h := sub[r].a + sub[r].d
		ln.NVA++
		nested := m.boxes[m.boxes[r].parent].root != 0
		if nested {
			ln.NVANested++
		} else if h > Htop {
			Htop = h
		}
		if h > H {
			H = h
		}
	}
	for i, h := range vaAtoms {
		ln.NVA++
		if vaAtomRoots[i] != 0 {
			ln.NVANested++
		} else if h > Htop {
			Htop = h
		}
		if h > H {
			H = h
		}
	}
	ln.VADecides = H > H0+eps
	ln.VANestedOnly = H > Htop+eps
	ln.H = H
	ln.Baseline = y + A0
	for i := range ln.Frags {
		f := &ln.Frags[i]
		switch {
		case f.sub == -1:
			f.BLo, f.BHi = f.H, f.H
		case f.sub == -2:
			f.BLo, f.BHi = H, H
		case f.sub == 0:
			// the baseline of the line is defined only when nothing is taller than the rest
			f.BLo, f.BHi = A0, H-D0
		case m.boxes[f.sub].va == "top":
			f.BLo, f.BHi = sub[f.sub].a, sub[f.sub].a
		default:
			f.BLo, f.BHi = H-sub[f.sub].d, H-sub[f.sub].d
		}
	}
	// finding D21: webrender keeps the baseline A0 below the line top, places every aligned subtree
	// with its baseline there first and then moves it; an aligned subtree nested inside a top/bottom
	// aligned inline box is moved twice (with the outer box and on its own account), so it is
	// misplaced whenever the outer box moves at all
	for _, r := range subOrder {
		moved := sub[r].a - A0
		if m.boxes[r].va == "bottom" {
			moved = (H - A0) - sub[r].d
		}
		if moved > eps || moved < -eps {
			for _, r2 := range subOrder {
				if r2 != r && m.boxes[m.boxes[r2].parent].root == r {
					ln.d21 = true
				}
			}
			for _, r2 := range vaAtomRoots {
				if r2 == r {
					ln.d21 = true
				}
			}
		}
	}
	return ln
}
