package c11

import (
	"encoding/json"
	"fmt"
	"os"
	"testing"
)

// go test -tags "verif pC11" ./props/c11 -run Findings -v   with C11_FINDINGS=<dir>: writes the
// witness files and prints what the check reports for each.
func TestFindings(t *testing.T) {
	dir := os.Getenv("C11_FINDINGS")
	if dir == "" {
		t.Skip()
	}
	tx := func(s string) Node { return Node{K: KText, T: s} }
	sp := func(n Node, c ...Node) Node { n.K = KSpan; n.C = c; return n }
	ib := func(w, h int) Node { return Node{K: KIB, W: w, H: h} }
	type W struct {
		name string
		in   c11In
	}
	P := func(f int, ws, align string, nodes ...Node) Para {
		return Para{F: f, WS: ws, Align: align, LH: "1", Nodes: nodes}
	}
	ws := []W{
		{"D1-start-spacing-not-charged", c11In{Para: P(10, "normal", "left", sp(Node{PL: 10}, tx("abc def"))), Widths: []int{70}}},
		{"D2-space-before-atomic-dropped", c11In{Para: P(10, "normal", "left", tx("gh ijklm "), ib(5, 10), tx(" nop")), Widths: []int{55}}},
		{"D3-space-before-br-kept", c11In{Para: P(10, "normal", "right", tx("ab "), Node{K: KBr}, tx("cd")), Widths: []int{100}}},
		{"D4-stale-inline-box-width", c11In{Para: P(10, "normal", "right", sp(Node{}, tx("ab cd"), sp(Node{}, tx("efgh")))), Widths: []int{80}}},
		{"D6-space-in-inline-box-not-hanging", c11In{Para: P(8, "normal", "left", tx("xy zabcd"), sp(Node{}, tx(" e fg")), sp(Node{}, tx(" h ijklm nopqrstuv ")), tx("wxyz a bcde")), Widths: []int{252}}},
		{"D7-end-spacing-lost", c11In{Para: P(10, "normal", "left", sp(Node{MR: 10}, tx("lmnop q ")), tx("rst")), Widths: []int{70}}},
		{"D9-end-spacing-breaks-too-early", c11In{Para: P(10, "normal", "left", tx("ab cd"), sp(Node{PR: 20}, tx(" ef "), sp(Node{}, tx("gh")))), Widths: []int{120}}},
		{"D16-end-spacing-charged-to-wrong-fragment", c11In{Para: P(10, "normal", "left", sp(Node{BR: 50}, tx("ab cd ef"))), Widths: []int{90}}},
		{"D12b-stale-preserved-break-flag-br", c11In{Para: P(10, "normal", "justify", tx("ijklm nopqrstu v "), sp(Node{}, tx("wxyz"), Node{K: KBr}, tx("a bcde f ")), tx("g h")), Widths: []int{110}}},
		{"D10-last-line-justified", c11In{Para: P(10, "normal", "justify", tx("qrst uvwx yzab cdefgh ijklmnopq rstuvwx y ")), Widths: []int{95}}},
		{"D11-opportunity-between-children-missed", c11In{Para: Para{F: 8, WS: "normal", Align: "left", LH: "1", Nodes: []Node{tx("def gh ij kl"), sp(Node{}, tx("mn "), Node{K: KIB, W: 12, H: 4, M: 1}, tx("o")), tx("p-qr s tu")}}, Widths: []int{144}}},
		{"D11b-opportunity-after-leading-space-child-missed", c11In{Para: P(10, "normal", "left", tx("ab"), sp(Node{}, tx(" "), sp(Node{}, tx("cd"))), tx("ef")), Widths: []int{60}}},
		{"D12-stale-preserved-break-flag", c11In{Para: P(16, "pre-line", "justify", tx("hij kl\nm nop   "), sp(Node{}, tx("qrst\nuvw"))), Widths: []int{96}}},
		{"D15-start-spacing-dropped-after-skipped-space", c11In{Para: P(10, "normal", "left", sp(Node{PL: 10, BL: 5}, tx(" gh ijkl"))), Widths: []int{200}}},
		{"D5-prewrap-trailing-spaces-force-wrap", c11In{Para: P(20, "pre-wrap", "left", tx("hi j   k  l \n m")), Widths: []int{80}}},
		{"D8-prewrap-overfull-at-box-boundary", c11In{Para: P(20, "pre-wrap", "left", sp(Node{}, tx("n opq rst u ")), tx("vwxy zabcd")), Widths: []int{10}}},
		{"D13-break-all-not-greedy", c11In{Para: Para{F: 20, WS: "normal", Align: "left", LH: "1", WB: "break-all", Nodes: []Node{tx("cd efghi jklmn opq")}}, Widths: []int{40}}},
		{"D14-overflow-wrap-nonpositive-width", c11In{Para: Para{F: 16, WS: "normal", Align: "left", LH: "1", OW: "anywhere", Indent: 32, Nodes: []Node{tx("o pqrs tuvwx y za")}}, Widths: []int{8}}},
		{"D17-overflow-wrap-cuts-midline-word-in-nested-box", c11In{Para: Para{F: 10, WS: "normal", Align: "left", LH: "1", OW: "break-word", Nodes: []Node{sp(Node{}, tx("aaaaaa "), sp(Node{}, tx("bbbbbbbb")))}}, Widths: []int{100}}},
		{"D18-overflow-wrap-word-across-box-edge-overflows", c11In{Para: Para{F: 10, WS: "normal", Align: "left", LH: "1", OW: "anywhere", Nodes: []Node{tx("aaa"), sp(Node{}, tx("bbbbbbbb"))}}, Widths: []int{50}}},
		{"D19-overflow-wrap-space-after-overfull-character", c11In{Para: Para{F: 8, WS: "normal", Align: "left", LH: "2", OW: "anywhere", Nodes: []Node{tx("ij "), sp(Node{FS: 24}, tx("stuvwx ")), tx("yz abcd")}}, Widths: []int{16}}},
		{"D14b-overflow-wrap-nonpositive-width-start-spacing", c11In{Para: Para{F: 8, WS: "normal", Align: "left", LH: "1", OW: "anywhere", Nodes: []Node{tx("v w xy "), sp(Node{ML: 16, MR: 8}, tx("z ab cdefg"))}}, Widths: []int{8}}},
		{"D16b-end-spacing-charged-to-overflow-wrap-fragment", c11In{Para: Para{F: 10, WS: "normal", Align: "left", LH: "1", OW: "anywhere", Nodes: []Node{sp(Node{PR: 12, FS: 8}, tx("rstu vwxyz")), tx(" a")}}, Widths: []int{40}}},
		{"D20-nowrap-broken-after-box-with-collapsed-trailing-space", c11In{Para: P(10, "nowrap", "left", sp(Node{}, sp(Node{}, tx("t ")), tx(" ")), tx("uvw")), Widths: []int{20}}},
		{"G1-gotext-preserved-newline-ignored", c11In{Mode: "split", Engine: "gotext", Text: &TextIn{Text: "pqru xab\ndeghiknq ruw", Family: "Ahem", Size: 16, WS: "pre", LineStart: true}, Widths: []int{8, 400}}},
		{"G3-gotext-space-before-atomic-has-no-width", c11In{Engine: "gotext", Para: P(8, "normal", "right", tx("gh i "), ib(4, 8), tx(" j")), Widths: []int{200}}},
	}
	os.MkdirAll(dir, 0o755)
	for _, w := range ws {
		if w.in.Mode == "" {
			w.in.Mode = "ahem"
		}
		w.in.NoGuard = true
		raw, _ := json.Marshal(w.in)
		res := check(raw)
		fmt.Printf("== %s: %s %s\n   %.600s\n", w.name, res.Verdict, res.Sig, res.Msg)
		out := map[string]any{"property": "C11", "msg": res.Msg, "input": json.RawMessage(raw)}
		b, _ := json.MarshalIndent(out, "", " ")
		os.WriteFile(dir+"/"+w.name+".json", append(b, '\n'), 0o644)
	}
}
