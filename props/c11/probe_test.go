package c11

import (
	"fmt"
	"os"
	"strings"
	"testing"

	"verif/internal/wr"
)

// go test -tags "verif pC11" ./props/c11 -run Probe -v   with C11_HTML=<file> (one body per line)
func TestProbe(t *testing.T) {
	f := os.Getenv("C11_HTML")
	if f == "" {
		t.Skip()
	}
	b, _ := os.ReadFile(f)
	for _, body := range strings.Split(strings.TrimSpace(string(b)), "\n===\n") {
		css := "@page{size:20000px 60000px;margin:0}html,body{margin:0;padding:0;display:block}div{font-family:Ahem;font-size:10px;line-height:1;margin:0;padding:0}"
		doc := "<html><head><style>" + css + "</style></head><body>" + body + "</body></html>"
		rd, err := wr.Render(wr.Opts{HTML: doc, Engine: os.Getenv("C11_ENGINE"), NoWrite: true})
		if err != nil {
			t.Fatal(err)
		}
		fmt.Println("BODY:", body)
		div := findBlock(rd.Pages[0])
		obs, w, err := observeBlock(div)
		fmt.Println("  width", w, err)
		for i, l := range obs {
			fmt.Printf("  line %d x=%g y=%g w=%g h=%g: %s | spans %s\n", i+1, l.X, l.Y, l.W, l.H, fragsString(l.Frags), fragsString(l.Spans))
		}
	}
}
