//go:build pC20 || pall

package props

import _ "verif/props/c20"
