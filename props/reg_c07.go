//go:build pC07 || pall

package props

import _ "verif/props/c07"
