package c03

import (
	"fmt"

	"golang.org/x/net/html"

	pr "github.com/benoitkugler/webrender/css/properties"
	bo "github.com/benoitkugler/webrender/html/boxes"
	"github.com/benoitkugler/webrender/html/layout"
	"github.com/benoitkugler/webrender/html/tree"

	"verif/internal/wr"
)

// layoutStyles runs the full layout.Layout on the document and returns, per element node, the
// styles of the boxes generated for the element itself (no pseudo-element, no anonymous box: an
// anonymous box carries its parent's element but an inherited-only style).
func layoutStyles(h *tree.HTML, user []tree.CSS, hints bool) (out map[*html.Node][]pr.ElementStyle, err error) {
	fonts, ferr := wr.NewPangoConfig()
	if ferr != nil {
		return nil, ferr
	}
	pages := layout.Layout(h, user, hints, fonts)
	if len(pages) == 0 {
		return nil, fmt.Errorf("no page")
	}
	out = map[*html.Node][]pr.ElementStyle{}
	var walk func(b bo.Box)
	walk = func(b bo.Box) {
		f := b.Box()
		if f.Element != nil && f.PseudoType == "" && f.Style != nil {
			if _, ok := f.Style.(*tree.ComputedStyle); ok {
				out[f.Element] = append(out[f.Element], f.Style)
			}
		}
		for _, c := range f.Children {
			walk(c)
		}
	}
	for _, p := range pages {
		walk(p)
	}
	return out, nil
}
