// Package c03 is the runtime monitor of property C03: "the cascade picks the declaration CSS says
// wins".
//
// Shape: reference-model monitor.  The generator builds a model of a document (DOM, UA / user /
// author / presentational-hint style sheets with @media, @import chains, nested rules, style
// attributes, hint attributes) in which every declaration assigns a document-unique integer to an
// integer- or length-valued property.  The document text rendered from the model is given to the
// real code (tree.NewHTML + tree.GetAllComputedStyles, on a sample also layout.Layout); the
// computed value of every (element, property) is decoded back to the declaration it came from and
// compared with the winner chosen by the reference cascade of ref.go (written from CSS Cascade 4,
// Selectors 4, Nesting 1; no code shared with /repo).
package c03

import (
	"encoding/json"
	"fmt"
	"math/rand"
	"sort"
	"strconv"
	"strings"

	"golang.org/x/net/html"

	pr "github.com/benoitkugler/webrender/css/properties"
	"github.com/benoitkugler/webrender/html/tree"
	"github.com/benoitkugler/webrender/utils"

	"verif/internal/fw"
	"verif/internal/wr"
)

// caseIn is the self-contained input of one case.
type caseIn struct {
	Kind   string   `json:"kind"`             // pair | triple | random | probe
	Media  string   `json:"media"`            // device media type handed to tree.NewHTML
	Hints  bool     `json:"hints"`            // presentational hints enabled
	Layout bool     `json:"layout,omitempty"` // additionally observe box styles after layout.Layout
	Forms  bool     `json:"forms,omitempty"`  // forms UA sheet enabled (GetAllComputedStyles forms argument)
	Props  []string `json:"props"`            // properties observed on every element
	Doc    *Doc     `json:"doc"`              // the model (reference side)
	R      Rendered `json:"text"`             // the text (webrender side)
	// Excluded is set by the generator when the model says the document triggers a known defect
	// of the unchanged tree (flags in gen.go); such a case is skipped and counted.
	Excluded string `json:"excluded,omitempty"`
	// Regen: how many random documents were discarded for that reason before this one
	Regen int `json:"regen,omitempty"`
}

// all properties the model knows, with their defaulting behaviour
var propInfo = map[string]struct {
	key       pr.KnownProp
	inherited bool
	initial   string
}{
	"z-index":     {pr.PZIndex, false, "auto"},
	"order":       {pr.POrder, false, "0"},
	"orphans":     {pr.POrphans, true, "2"},
	"widows":      {pr.PWidows, true, "2"},
	"width":       {pr.PWidth, false, "auto"},
	"height":      {pr.PHeight, false, "auto"},
	"margin-top":  {pr.PMarginTop, false, "0"},
	"margin-left": {pr.PMarginLeft, false, "0"},
}

func init() {
	fw.Register(&fw.Prop{
		ID:   "C03",
		Rule: fmt.Sprintf(ruleText, len(templates), len(reduced)),
		N:    genN,
		Gen: func(r *rand.Rand, i int, tier string) any {
			return genCase(r, i, tier)
		},
		Check: check,
		Floor: func(tier string) int {
			if tier == "thorough" {
				return 100000
			}
			return 20000
		},
		CounterFloors: counterFloors,
		Assumptions: []string{
			"the reference cascade (props/c03/ref.go) and selector model (props/c03/model.go) are correct transcriptions of CSS Cascade 4 §6, Selectors 4 §17, CSS Nesting 1 and CSS 2.1 §6.4.4",
			"golang.org/x/net/html builds the DOM the model describes (verified per case: tag, id, class and child structure are compared before any verdict)",
			"only declaration kinds whose relative order CSS fixes are generated: no @layer, no !important in UA sheets, no revert, media types only (webrender has no media-feature support), one presentational-hint source per (element, property)",
			"user and UA sheets are built with tree.NewCSSDefault, whose media type is always print; @media inside them is generated only for the print device",
			"a sheet included several times (two @import rules of one sheet, of different sheets, <link> twice, <link> and @import) contributes its rules at every inclusion (Cascade 4 §2), whatever the spelling of the URL; an @import naming a sheet that is on its own import path (cycle) loads nothing — CSS leaves cycles to the implementation, this is what browsers do; cycles are generated only where they do not pass through a <link>ed file (there webrender follows the cycle one level deeper than browsers do, which CSS does not decide)",
		},
		Exhaustive: func(tier string) bool { return true },
		Batch:      400,
	})
}

const ruleText = "cases: (1) exhaustive ordered pairs of %d declaration templates (origin x importance x selector shape x carrier: UA sheet / user sheet / <style> / <link> / @import and 2-level @import chain / matching and non-matching @media, media attribute and @import media / late or @media-nested @import / rule with an invalid selector / nested rule with '&', '&.c' and relative selector / style attribute / width,height attribute / hints sheet / import graph: the same sheet imported twice by one sheet with the other templates' imports in between (same or other URL spelling, first or second import with non-matching media), imported through two intermediate sheets (diamond), linked twice, linked then imported, importing itself, 2-sheet import cycle) competing for one property of one element, in two arrangements (one sheet per template; one sheet per origin), plus every (plain rule, nested-carrier) pair with the second nested inside the first, plus every ordered pair of the @import-carried templates with the shared sheet one level down (a file imported by a <style>; a <link>ed file), so that repeated imports, diamonds and cycles also occur inside imported and linked sheets; (2) seeded tuples of 3-4 templates (thorough: also all ordered triples of a reduced set of %d templates); (3) random documents of 3-11 elements (optional table subtree) with random selectors over a small alphabet (compound/complex/lists, :is, :not, :nth-child, attribute operators, '&'), 8 observed properties plus the margin shorthand, invalid values, spelling variants of !important/@media/@import, pseudo-element rules, repeated imports (a file imported again by another sheet; by the same sheet, two times in three with a rival sheet of equal weight imported in between; self-imports and 2-cycles; files linked twice; three URL spellings), presentational attributes on img/table/tr/td/body, replaced UA, forms-UA and hints sheets, print and screen devices, hints and forms on/off; 1 case in 12-16 also runs layout.Layout and checks the style of every box generated for an element. " +
	"Every (element or ::before/::after, property) of every document is compared with the reference cascade. A case is non-trivial when, for at least one of them, two or more different valid declarations applied and a winner had to be decided (the copies contributed by a sheet included twice count once); winner_needs_sibling_reimport / winner_needs_repeated_inclusion count the contests whose expected winner changes if the second @import of a file by one sheet / any repeated inclusion of a file in the document contributed nothing; distinct = distinct case input. Documents in which a known defect of the unchanged tree (findings/C03) would change a computed value are decided on the model and skipped (pairs, counted as excluded_*) or regenerated (random documents, counted)."

// ---------------------------------------------------------------------------------------------

func canonValue(v pr.CssProperty) string {
	switch t := v.(type) {
	case pr.IntString:
		if t.String != "" {
			return t.String
		}
		return strconv.Itoa(t.Int)
	case pr.Int:
		return strconv.Itoa(int(t))
	case pr.DimOrS:
		if t.S != "" {
			return t.S
		}
		if t.Unit == pr.Px || (t.Unit == pr.Scalar && t.Value == 0) {
			return strconv.FormatFloat(float64(t.Value), 'g', -1, 32)
		}
		return fmt.Sprintf("%g%s", t.Value, t.Unit)
	case nil:
		return "<nil>"
	}
	return fmt.Sprintf("<%T %v>", v, v)
}

// domNodes pairs every model element with the parsed node; an error means the HTML parser built
// another tree than the model describes (harness problem, never a verdict on the cascade).
func pairDOM(e *Elem, n *html.Node, out map[*Elem]*html.Node) error {
	if n == nil || n.Type != html.ElementNode {
		return fmt.Errorf("model element %s has no element node", e.path)
	}
	if n.Data != e.Tag {
		return fmt.Errorf("model element %s: parsed tag is %q", e.path, n.Data)
	}
	id, class := "", ""
	for _, a := range n.Attr {
		switch a.Key {
		case "id":
			id = a.Val
		case "class":
			class = a.Val
		}
	}
	if id != e.ID || class != strings.Join(e.Classes, " ") {
		return fmt.Errorf("model element %s: parsed id %q class %q", e.path, id, class)
	}
	out[e] = n
	var kids []*html.Node
	for c := n.FirstChild; c != nil; c = c.NextSibling {
		if c.Type == html.ElementNode {
			kids = append(kids, c)
		}
	}
	if e.Sheet > 0 {
		return nil
	}
	if len(kids) != len(e.Kids) {
		return fmt.Errorf("model element %s has %d children, parsed node has %d", e.path, len(e.Kids), len(kids))
	}
	for i, k := range e.Kids {
		if err := pairDOM(k, kids[i], out); err != nil {
			return err
		}
	}
	return nil
}

type expectation struct {
	value string // canonical computed value
	cands []cand
	win   int
	step  string
}

// expectedFor computes the reference computed value of property prop of element e (pe == "") or
// of its pseudo-element pe, defaulting included.
func expectedFor(f *flattener, e *Elem, pe, prop string, hints bool, memo map[memoKey]*expectation) *expectation {
	k := memoKey{e, pe, prop}
	if x := memo[k]; x != nil {
		return x
	}
	x := &expectation{}
	x.cands = f.candidatesPE(e, pe, prop, hints)
	x.win, x.step = winner(x.cands)
	info := propInfo[prop]
	switch {
	case x.win >= 0:
		x.value = strconv.Itoa(x.cands[x.win].d.Val)
	case info.inherited && pe != "":
		x.value = expectedFor(f, e, "", prop, hints, memo).value // a pseudo-element inherits from its element
	case info.inherited && e.parent != nil:
		x.value = expectedFor(f, e.parent, "", prop, hints, memo).value
	default:
		x.value = info.initial
	}
	memo[k] = x
	return x
}

type memoKey struct {
	e        *Elem
	pe, prop string
}

func check(raw json.RawMessage) fw.Result {
	var in caseIn
	var res fw.Result
	if err := json.Unmarshal(raw, &in); err != nil {
		return fw.Result{Verdict: fw.Inconclusive, Msg: "bad input: " + err.Error()}
	}
	if in.Doc == nil || in.Doc.Root == nil {
		return fw.Result{Verdict: fw.Inconclusive, Msg: "bad input: no document model"}
	}
	if in.Excluded != "" {
		res.Verdict = fw.Skip
		res.Count("excluded_"+in.Excluded, 1)
		return res
	}
	doc := in.Doc
	doc.link()
	media := in.Media
	if media == "" {
		media = "print"
	}

	// ---- real code
	wr.Quiet()
	h, err := tree.NewHTML(utils.InputString(in.R.HTML), "mem://doc/", wr.MemFetcher(in.R.Files), media)
	if err != nil {
		return fw.Result{Verdict: fw.Inconclusive, Msg: "NewHTML: " + err.Error()}
	}
	ua, err := tree.NewCSSDefault(utils.InputString(in.R.UA))
	if err != nil {
		return fw.Result{Verdict: fw.Inconclusive, Msg: "UA sheet: " + err.Error()}
	}
	h.UAStyleSheet = ua
	if doc.PH != nil {
		ph, err := tree.NewCSSDefault(utils.InputString(in.R.PH))
		if err != nil {
			return fw.Result{Verdict: fw.Inconclusive, Msg: "PH sheet: " + err.Error()}
		}
		h.PHStyleSheet = ph
	}
	if doc.UA2 != nil {
		ua2, err := tree.NewCSSDefault(utils.InputString(in.R.UA2))
		if err != nil {
			return fw.Result{Verdict: fw.Inconclusive, Msg: "forms UA sheet: " + err.Error()}
		}
		h.FormStyleSheet = ua2
	}
	var user []tree.CSS
	for _, u := range in.R.User {
		c, err := tree.NewCSSDefault(utils.InputString(u))
		if err != nil {
			return fw.Result{Verdict: fw.Inconclusive, Msg: "user sheet: " + err.Error()}
		}
		user = append(user, c)
	}
	nodes := map[*Elem]*html.Node{}
	if err := pairDOM(doc.Root, h.Root.AsHtmlNode(), nodes); err != nil {
		return fw.Result{Verdict: fw.Inconclusive, Msg: "DOM differs from the model: " + err.Error()}
	}
	styles := tree.GetAllComputedStyles(h, user, in.Hints, nil, nil, nil, nil, in.Forms, nil)

	var boxStyles map[*html.Node][]pr.ElementStyle
	if in.Layout && !in.Forms {
		var err error
		boxStyles, err = layoutStyles(h, user, in.Hints)
		if err != nil {
			return fw.Result{Verdict: fw.Inconclusive, Msg: "layout: " + err.Error()}
		}
	}

	// ---- reference
	f := flatten(doc, media, in.Hints, in.Forms)
	if f.overflow {
		return fw.Result{Verdict: fw.Inconclusive, Msg: "bad input: the import graph of the model has too many paths"}
	}
	memo := map[memoKey]*expectation{}
	// second reading of declarations written after nested rules (kept in place), see Item.Trail
	var f2 *flattener
	memo2 := map[memoKey]*expectation{}
	if hasTrail(doc) {
		f2 = &flattener{doc: doc, media: media, forms: in.Forms, trailInPlace: true}
		f2.all(in.Hints)
		res.Count("carrier_trailing_declarations", 1)
	}
	byVal := map[int]string{} // value -> description of the record, for witnesses
	describe := func(d Decl, where string) {
		byVal[d.Val] = fmt.Sprintf("%s in %s", d, where)
	}
	for _, r := range f.rules {
		for _, d := range r.decls {
			describe(d, r.where)
		}
	}
	// a sheet may be dead on one path (non-matching or misplaced @import) and live on another:
	// its declarations are dead only if no path brings them in
	dead := map[int]string{}
	for _, dd := range f.dead {
		if _, live := byVal[dd.d.Val]; !live {
			dead[dd.d.Val] = dd.why
		}
	}
	for _, dd := range f.dead {
		if why, isDead := dead[dd.d.Val]; isDead {
			describe(dd.d, "DEAD: "+why)
		}
	}
	for _, e := range doc.elems() {
		for _, d := range e.Style {
			describe(d, "style attribute of "+e.path)
		}
		for _, h := range e.HAttrs {
			byVal[h.Val] = h.Name + " attribute of " + e.path
		}
	}

	props := in.Props
	if len(props) == 0 {
		for p := range propInfo {
			props = append(props, p)
		}
		sort.Strings(props)
	}
	for _, e := range doc.elems() {
		if e.Sheet > 0 {
			continue
		}
		n := nodes[e]
		for _, pe := range []string{"", "before", "after"} {
			st := styles.Get((*utils.HTMLNode)(n), pe)
			what := "computed style"
			if pe != "" {
				what = "computed style of ::" + pe
				if !f.pseudoExists(e, pe) {
					continue // no rule selects the pseudo-element: whether a style object exists is not a cascade matter
				}
				res.Count("pseudo_elements_checked", 1)
			}
			if st == nil && pe != "" {
				// webrender creates a pseudo-element style only when a non-empty rule selects it;
				// its absence is a cascade matter only if some declaration should have applied
				for _, p := range props {
					if x := expectedFor(f, e, pe, p, in.Hints, memo); x.win >= 0 {
						res.Fail("cascade-winner/declaration-lost", witness(in, e, p, x, "<no style object>", byVal, what))
						return res
					}
				}
				continue
			}
			if st == nil {
				res.Fail("no-style", fmt.Sprintf("no %s for element %s\nhtml: %s", what, e.path, in.R.HTML))
				return res
			}
			for _, p := range props {
				info, ok := propInfo[p]
				if !ok {
					return fw.Result{Verdict: fw.Inconclusive, Msg: "bad input: unknown property " + p}
				}
				x := expectedFor(f, e, pe, p, in.Hints, memo)
				obs := canonValue(st.Get(info.key.Key()))
				res.Count("pairs_checked", 1)
				if len(x.cands) >= 1 {
					res.Count("pairs_with_declaration", 1)
				}
				// a contest opposes two different declarations (the copies that a sheet included
				// twice contributes are one declaration: their order cannot be observed)
				if distinctDecls(x.cands) >= 2 {
					res.Count("contests", 1)
					res.Count("decided_by_"+x.step, 1)
					res.Nontrivial = true
					w := x.cands[x.win]
					res.Count("winner_"+rankNames[w.rank], 1)
					if w.attr {
						res.Count("winner_style_attribute", 1)
					}
					if w.d.N < 0 {
						res.Count("winner_hint_attribute", 1)
					}
					if pe != "" {
						res.Count("contests_on_pseudo_elements", 1)
					}
					// would the winner be another declaration if a sheet included again (second
					// @import of one sheet / any later inclusion in the document) contributed
					// nothing there?  These are the observations that watch repeated inclusions.
					if w.dupSib && needsRepeat(x, func(c cand) bool { return c.dupSib }) {
						res.Count("winner_needs_sibling_reimport", 1)
					}
					if w.dup && needsRepeat(x, func(c cand) bool { return c.dup }) {
						res.Count("winner_needs_repeated_inclusion", 1)
					}
				}
				want := x.value
				if f2 != nil {
					if x2 := expectedFor(f2, e, pe, p, in.Hints, memo2); x2.value != x.value {
						// the two Nesting drafts disagree here: either value is accepted
						res.Count("trailing_declaration_readings_differ", 1)
						switch obs {
						case x.value:
							res.Count("trailing_declarations_observed_hoisted", 1)
							reportOnce(&res, "declarations after nested rules are hoisted before them (Nesting 2023 CR reading; the 2024 drafts keep them in place)")
						case x2.value:
							res.Count("trailing_declarations_observed_in_place", 1)
							reportOnce(&res, "declarations after nested rules keep their place (Nesting 2024 reading)")
							want = x2.value
						}
					}
				}
				if obs != want {
					res.Fail(classify(x, obs, dead), witness(in, e, p, x, obs, byVal, what))
					return res
				}
				if in.Layout && pe == "" {
					for _, bs := range boxStyles[n] {
						res.Count("box_styles_checked", 1)
						if bobs := canonValue(bs.Get(info.key.Key())); bobs != want {
							res.Fail(classify(x, bobs, dead)+"/box", witness(in, e, p, x, bobs, byVal, "style of the box after layout.Layout"))
							return res
						}
					}
				}
			}
		}
	}
	res.Count("dead_declarations", int64(len(f.dead)))
	res.Count("imports_followed", int64(f.stats.live))
	for _, c := range []struct {
		name string
		n    int
	}{
		{"import_sibling_repeat", f.stats.siblingRepeats}, {"import_sibling_repeat_with_import_between", f.stats.siblingRepeatsGap},
		{"import_document_repeat", f.stats.documentRepeats}, {"import_respelled_repeat", f.stats.respelled},
		{"import_cycle_cut", f.stats.cyclesCut},
	} {
		if c.n > 0 {
			res.Count(c.name+"_cases", 1)
		}
	}
	res.Count("rules_flattened", int64(len(f.rules)))
	res.Count("kind_"+in.Kind, 1)
	res.Count("random_documents_regenerated_known_defect", int64(in.Regen))
	if in.Hints {
		res.Count("hints_on", 1)
	}
	if in.Forms {
		res.Count("forms_on", 1)
	}
	if media != "print" {
		res.Count("device_"+media, 1)
	}
	countCarriers(doc, &res)
	return res
}

func reportOnce(res *fw.Result, msg string) {
	for _, r := range res.Reports {
		if r == msg {
			return
		}
	}
	res.Reports = append(res.Reports, msg)
}

// hasTrail reports whether some rule of the document has declarations after its nested rules.
func hasTrail(doc *Doc) bool {
	var walk func(items []Item) bool
	walk = func(items []Item) bool {
		for _, it := range items {
			if len(it.Trail) > 0 || walk(it.Nested) || walk(it.Items) {
				return true
			}
		}
		return false
	}
	sheets := []*Sheet{doc.UA, doc.UA2, doc.PH}
	sheets = append(sheets, doc.User...)
	for _, a := range doc.Author {
		sheets = append(sheets, a.Sheet)
	}
	for _, s := range doc.Files {
		sheets = append(sheets, s)
	}
	for _, s := range sheets {
		if s != nil && walk(s.Items) {
			return true
		}
	}
	return false
}

func distinctDecls(cs []cand) int {
	n := 0
	for i, c := range cs {
		first := true
		for _, o := range cs[:i] {
			if o.d.Val == c.d.Val {
				first = false
				break
			}
		}
		if first {
			n++
		}
	}
	return n
}

// needsRepeat reports whether the expected value changes when the candidates selected by drop
// (rule instances that exist only because a sheet contributes again when it is included again) are
// taken away.
func needsRepeat(x *expectation, drop func(cand) bool) bool {
	var rest []cand
	for _, c := range x.cands {
		if !drop(c) {
			rest = append(rest, c)
		}
	}
	w, _ := winner(rest)
	return w < 0 || rest[w].d.Val != x.cands[x.win].d.Val
}

// classify names the class of a disagreement: which cascade step webrender got wrong.
func classify(x *expectation, obs string, dead map[int]string) string {
	v, err := strconv.Atoi(obs)
	if err == nil {
		if _, isDead := dead[v]; isDead {
			return "applied-dead-declaration"
		}
		for i, c := range x.cands {
			if c.d.Val == v && i != x.win {
				_, step := x.cands[x.win].beats(c)
				return "cascade-winner/" + step
			}
		}
	}
	if x.win >= 0 {
		if err != nil || v < 10 {
			return "cascade-winner/declaration-lost"
		}
		return "cascade-winner/non-matching-applied"
	}
	return "non-matching-applied"
}

func witness(in caseIn, e *Elem, p string, x *expectation, obs string, byVal map[int]string, what string) string {
	var b strings.Builder
	fmt.Fprintf(&b, "%s of element %s, property %s: expected %s, observed %s", what, e.path, p, x.value, obs)
	if x.win >= 0 {
		w := x.cands[x.win]
		fmt.Fprintf(&b, "\n  expected winner: %s from %s [%s%s spec=%v order=%d]", w.d, w.where, rankNames[w.rank], map[bool]string{true: " style-attr"}[w.attr], w.spec, w.order)
	} else {
		b.WriteString("\n  expected: no declaration applies (defaulting)")
	}
	if v, err := strconv.Atoi(obs); err == nil {
		if d, ok := byVal[v]; ok {
			fmt.Fprintf(&b, "\n  observed value belongs to: %s", d)
		}
	}
	for i, c := range x.cands {
		if i != x.win {
			fmt.Fprintf(&b, "\n  other candidate: %s from %s [%s%s spec=%v order=%d]", c.d, c.where, rankNames[c.rank], map[bool]string{true: " style-attr"}[c.attr], c.spec, c.order)
		}
	}
	fmt.Fprintf(&b, "\n  device media %q hints=%v forms=%v\n  html: %s", in.Media, in.Hints, in.Forms, in.R.HTML)
	for k, v := range in.R.Files {
		fmt.Fprintf(&b, "\n  file %s: %s", k, v)
	}
	for i, u := range in.R.User {
		fmt.Fprintf(&b, "\n  user sheet %d: %s", i, u)
	}
	if in.R.UA != "" {
		fmt.Fprintf(&b, "\n  UA sheet: %s", in.R.UA)
	}
	if in.R.UA2 != "" {
		fmt.Fprintf(&b, "\n  forms UA sheet: %s", in.R.UA2)
	}
	if in.R.PH != "" {
		fmt.Fprintf(&b, "\n  hints sheet: %s", in.R.PH)
	}
	return b.String()
}

// countCarriers records which carrier kinds the case contained (evidence of coverage).
func countCarriers(doc *Doc, res *fw.Result) {
	var items func(list []Item, nested bool)
	items = func(list []Item, nested bool) {
		for _, it := range list {
			switch it.Kind {
			case "rule":
				if nested {
					if hasAmp(it.Sel) {
						res.Count("carrier_nested_amp", 1)
					} else {
						res.Count("carrier_nested_relative", 1)
					}
				}
				if it.BadSel {
					res.Count("carrier_invalid_selector", 1)
				}
				if it.PE != "" {
					res.Count("carrier_pseudo_element_rule", 1)
				}
				items(it.Nested, true)
			case "media":
				res.Count("carrier_media", 1)
				items(it.Items, false)
			case "import":
				res.Count("carrier_import", 1)
			}
		}
	}
	if doc.UA != nil && len(doc.UA.Items) > 0 {
		res.Count("carrier_ua_sheet", 1)
		items(doc.UA.Items, false)
	}
	if doc.UA2 != nil && len(doc.UA2.Items) > 0 {
		res.Count("carrier_ua_forms_sheet", 1)
	}
	if doc.PH != nil && len(doc.PH.Items) > 0 {
		res.Count("carrier_hints_sheet", 1)
	}
	for _, u := range doc.User {
		res.Count("carrier_user_sheet", 1)
		items(u.Items, false)
	}
	for _, a := range doc.Author {
		res.Count("carrier_"+a.Kind, 1)
		if a.Sheet != nil {
			items(a.Sheet.Items, false)
		}
	}
	for _, s := range doc.Files {
		items(s.Items, false)
	}
	for _, e := range doc.elems() {
		if len(e.Style) > 0 {
			res.Count("carrier_style_attribute", 1)
		}
		if len(e.HAttrs) > 0 {
			res.Count("carrier_hint_attribute", 1)
		}
	}
}

// counterFloors: roughly half of what the quick tier observes on the unchanged tree (the thorough
// tier observes more of everything); a generator that stops producing a carrier kind, a cascade
// step or a winner class breaks the check instead of passing it.
func counterFloors(tier string) map[string]int64 {
	return map[string]int64{
		"contests":                      35000,
		"decided_by_origin-importance":  20000,
		"decided_by_style-attribute":    900,
		"decided_by_specificity":        7000,
		"decided_by_order":              5000,
		"dead_declarations":             40000,
		"carrier_import":                20000,
		"carrier_media":                 18000,
		"carrier_nested_amp":            12000,
		"carrier_nested_relative":       8000,
		"carrier_link":                  5000,
		"carrier_style_attribute":       9000,
		"carrier_hint_attribute":        7000,
		"carrier_hints_sheet":           2000,
		"carrier_ua_sheet":              7000,
		"carrier_ua_forms_sheet":        500,
		"carrier_user_sheet":            10000,
		"carrier_pseudo_element_rule":   3000,
		"contests_on_pseudo_elements":   200,
		"box_styles_checked":            70000,
		"winner_user-agent":             400,
		"winner_user":                   500,
		"winner_author":                 9000,
		"winner_author!important":       15000,
		"winner_user!important":         2500,
		"winner_hint_attribute":         200,
		"winner_style_attribute":        2000,
		"device_screen":                 800,
		"forms_on":                      350,
		"kind_pair":                     80000,
		"carrier_trailing_declarations": 2000,
		"carrier_invalid_selector":      4000,
		"kind_triple":                   3000,
		"kind_random":                   8000,
		// import graph (sheets included more than once, cycles)
		"import_sibling_repeat_cases":                     4000,
		"import_sibling_repeat_with_import_between_cases": 800,
		"import_document_repeat_cases":                    8500,
		"import_respelled_repeat_cases":                   6500,
		"import_cycle_cut_cases":                          3400,
		"winner_needs_sibling_reimport":                   550,
		"winner_needs_repeated_inclusion":                 900,
	}
}
