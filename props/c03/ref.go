package c03

import (
	"fmt"
	"strings"
)

// ---------------------------------------------------------------------------------------------
// Reference cascade (CSS Cascade 4 §6, restricted to what webrender has: three origins, no
// layers, no shadow trees, no animations/transitions; CSS 2.1 §6.4.4 / HTML §15 for
// presentational hints; CSS Nesting 1 for nested style rules; CSS Cascade 4 §2 for @import).
//
//   1. origin and importance:  UA normal < user normal < author normal < author !important
//                              < user !important            (no UA !important is generated)
//   2. element-attached styles: a style-attribute declaration outranks every selector-based one
//   3. specificity (presentational hints: author origin, specificity 0, placed before every
//      other author rule)
//   4. order of appearance: later wins; an imported sheet is substituted at its @import rule,
//      every time it is imported (Cascade 4 §2: "as if [the imported rules] were written in the
//      importing stylesheet, at the point of the @import"): a sheet imported twice contributes its
//      rules twice, the later copy later in the order of appearance, whatever the spelling of the
//      URL and independently of the media of the other import.  Only an @import naming a sheet
//      that is being imported on the same path (a cycle; CSS leaves the processing of cycles to
//      the implementation, every browser drops such an import) loads nothing.
// ---------------------------------------------------------------------------------------------

// maxImportDepth bounds the import chains the reference follows (the generator stays below 8).
const maxImportDepth = 16

// maxLiveImports bounds the @import rules the reference follows in one document (repeated imports
// of sheets that themselves import repeatedly multiply; the generator stays far below).
const maxLiveImports = 2000

// Rank values of step 1.
const (
	rankUA = iota
	rankUser
	rankAuthor
	rankAuthorImp
	rankUserImp
)

var rankNames = []string{"user-agent", "user", "author", "author!important", "user!important"}

func rank(origin string, imp bool) int {
	switch origin {
	case "ua":
		return rankUA
	case "user":
		if imp {
			return rankUserImp
		}
		return rankUser
	case "author":
		if imp {
			return rankAuthorImp
		}
		return rankAuthor
	}
	panic("c03 ref: unknown origin " + origin)
}

// flatRule is one style rule after flattening of @media, @import and nesting, in order of
// appearance.
type flatRule struct {
	origin string
	hint   bool // rule of the presentational-hints sheet: specificity forced to zero
	pe     string
	sel    []Complex
	ctx    *nestCtx
	decls  []Decl
	where  string // human description of the carrier
	order  int
	// dup: the rule instance was reached through an inclusion (link or @import) of a file the
	// document had already included before; dupSib: through an @import naming a file that an
	// earlier live @import of the same sheet names too.  Evidence only (which winners exist
	// because a sheet contributes once more when it is imported again).
	dup, dupSib bool
}

// Dead declarations: records that must never apply, with the reason.
type deadDecl struct {
	d   Decl
	why string
}

type flattener struct {
	doc   *Doc
	media string // device media type
	rules []flatRule
	dead  []deadDecl
	depth int
	// ownAfterNested models the defect F-C03-nested-order (a rule's own declarations are emitted
	// after its nested rules); only used by the generator to keep triggers out of the workload.
	ownAfterNested bool
	// trailInPlace selects the 2024 reading of declarations written after nested rules (they keep
	// their place in the order of appearance); default is the 2023 reading (hoisted).
	trailInPlace bool
	forms        bool // the forms UA sheet applies
	// emptyKeepsImports models the defect F-C03-import-after-empty-rule (a style rule or @media
	// with an empty block does not end the @import section); generator use only.
	emptyKeepsImports bool

	// import graph bookkeeping
	chain       []string       // files on the current import path (a linked file first)
	included    map[string]int // file -> live inclusions so far in the document
	firstSp     map[string]int // file -> URL spelling of its first inclusion
	dup, dupSib bool           // see flatRule
	stats       importStats
	overflow    bool // more than maxLiveImports @import rules to follow: flattening abandoned
}

// importStats: what the import graph of the document looked like (evidence).
type importStats struct {
	live              int // live @import rules followed
	siblingRepeats    int // live @import naming a file an earlier live @import of the same sheet names
	siblingRepeatsGap int // ... with at least one other live @import between the two
	documentRepeats   int // live inclusion (link or @import) of a file included before, elsewhere or not
	respelled         int // repeated inclusion spelled differently from the first inclusion of the file
	cyclesCut         int // @import of a sheet that is on its own import path
}

func (f *flattener) onChain(file string) bool {
	for _, c := range f.chain {
		if c == file {
			return true
		}
	}
	return false
}

func mediaMatches(list []string, device string) bool {
	if len(list) == 0 {
		return true
	}
	for _, m := range list {
		m = strings.ToLower(strings.TrimSpace(m))
		if m == "all" || m == device {
			return true
		}
	}
	return false
}

func (f *flattener) killItems(items []Item, why string) {
	for _, it := range items {
		switch it.Kind {
		case "rule":
			for _, d := range it.Decls {
				f.dead = append(f.dead, deadDecl{d, why})
			}
			for _, d := range it.Trail {
				f.dead = append(f.dead, deadDecl{d, why})
			}
			f.killItems(it.Nested, why)
		case "media":
			f.killItems(it.Items, why)
		case "import":
			if s := f.doc.Files[it.File]; s != nil && f.depth < maxImportDepth && !f.onChain(it.File) {
				f.depth++
				f.chain = append(f.chain, it.File)
				f.killItems(s.Items, why)
				f.chain = f.chain[:len(f.chain)-1]
				f.depth--
			}
		}
	}
}

// sheet flattens the items of one style sheet (or of one @media block when inMedia).
func (f *flattener) sheet(items []Item, origin, where string, hint, inMedia bool) {
	// Cascade 4 §2: "Any @import rules must precede all other valid at-rules and style rules in a
	// style sheet [...] or else the @import rule is invalid."  Inside @media it is always invalid.
	importsAllowed := !inMedia
	sibling := map[string]int{} // file -> position (among the live @imports of this sheet) of its last live @import
	nLive := 0
	for i, it := range items {
		w := fmt.Sprintf("%s item %d", where, i)
		switch it.Kind {
		case "import":
			if !importsAllowed {
				f.killItems([]Item{it}, "@import after a rule or inside @media is invalid ("+w+")")
				continue
			}
			if !mediaMatches(it.Media, f.media) {
				f.killItems([]Item{it}, "@import with non-matching media "+strings.Join(it.Media, ",")+" ("+w+")")
				continue
			}
			s := f.doc.Files[it.File]
			if s == nil {
				continue // missing file: nothing to apply
			}
			if f.onChain(it.File) {
				f.stats.cyclesCut++ // the sheet is importing itself, directly or not
				continue
			}
			if f.stats.live >= maxLiveImports {
				f.overflow = true // the caller must not use the result
				continue
			}
			f.stats.live++
			dup, dupSib := f.dup, f.dupSib
			if last, ok := sibling[it.File]; ok {
				f.dupSib = true
				f.stats.siblingRepeats++
				if nLive-last > 1 {
					f.stats.siblingRepeatsGap++
				}
			}
			sibling[it.File] = nLive
			nLive++
			f.include(it.File, it.Sp)
			f.depth++
			if f.depth > maxImportDepth {
				panic("c03 ref: import chain too deep")
			}
			f.chain = append(f.chain, it.File)
			f.sheet(s.Items, origin, w+" @import "+it.File, hint, false)
			f.chain = f.chain[:len(f.chain)-1]
			f.depth--
			f.dup, f.dupSib = dup, dupSib
		case "media":
			if !(f.emptyKeepsImports && len(it.Items) == 0) {
				importsAllowed = false
			}
			if !mediaMatches(it.Media, f.media) {
				f.killItems(it.Items, "inside non-matching @media "+strings.Join(it.Media, ",")+" ("+w+")")
				continue
			}
			f.sheet(it.Items, origin, w+" @media "+strings.Join(it.Media, ","), hint, true)
		case "rule":
			if it.BadSel {
				// an invalid selector invalidates the whole rule; it is not a *valid* rule, so
				// it does not end the @import section either
				f.killItems([]Item{{Kind: "rule", Decls: it.Decls, Trail: it.Trail, Nested: it.Nested}}, "rule with an invalid selector ("+w+")")
				continue
			}
			if !(f.emptyKeepsImports && len(it.Decls) == 0 && len(it.Nested) == 0 && len(it.Trail) == 0) {
				importsAllowed = false
			}
			f.rule(it, nil, origin, w, hint)
		case "raw":
			// @page rule of the layout variant: a valid at-rule, ends the @import section
			importsAllowed = false
		default:
			panic("c03 ref: unknown item kind " + it.Kind)
		}
	}
}

func (f *flattener) rule(it Item, ctx *nestCtx, origin, where string, hint bool) {
	sel := it.Sel
	if ctx != nil {
		sel = nestedSelectors(sel)
	}
	decls := it.Decls
	if !f.trailInPlace && len(it.Trail) > 0 {
		decls = append(append([]Decl{}, it.Decls...), it.Trail...)
	}
	own := func() {
		f.rules = append(f.rules, flatRule{origin: origin, hint: hint, pe: it.PE, sel: sel, ctx: ctx, decls: decls,
			where: where + " {" + selListText(it.Sel) + "}", order: len(f.rules), dup: f.dup, dupSib: f.dupSib})
	}
	if !f.ownAfterNested {
		own()
	}
	if len(it.Nested) > 0 {
		inner := &nestCtx{sel: sel, parent: ctx}
		for k, n := range it.Nested {
			w := fmt.Sprintf("%s {%s} nested %d", where, selListText(it.Sel), k)
			if n.BadSel {
				// Syntax 3 "consume a block's contents": an invalid nested rule is dropped alone
				f.killItems([]Item{{Kind: "rule", Decls: n.Decls, Trail: n.Trail, Nested: n.Nested}}, "nested rule with an invalid selector ("+w+")")
				continue
			}
			f.rule(n, inner, origin, w, hint)
		}
	}
	if f.ownAfterNested {
		own()
	}
	if f.trailInPlace && len(it.Trail) > 0 {
		f.rules = append(f.rules, flatRule{origin: origin, hint: hint, pe: it.PE, sel: sel, ctx: ctx, decls: it.Trail,
			where: where + " {" + selListText(it.Sel) + "} trailing declarations", order: len(f.rules), dup: f.dup, dupSib: f.dupSib})
	}
}

// flatten lists every style rule of the document in order of appearance, origin by origin.
func flatten(doc *Doc, media string, hints, forms bool) *flattener {
	f := &flattener{doc: doc, media: media, forms: forms}
	f.all(hints)
	return f
}

// include records one more live inclusion of a file of the document (from now on the rules
// reached are "dup" when the file had been included before).
func (f *flattener) include(file string, sp int) {
	if f.included == nil {
		f.included = map[string]int{}
		f.firstSp = map[string]int{}
	}
	if f.included[file] > 0 {
		f.dup = true
		f.stats.documentRepeats++
		if f.firstSp[file] != sp%3 {
			f.stats.respelled++
		}
	} else {
		f.firstSp[file] = sp % 3
	}
	f.included[file]++
}

func (f *flattener) all(hints bool) {
	doc, media := f.doc, f.media
	if doc.UA != nil {
		f.sheet(doc.UA.Items, "ua", "UA sheet", false, false)
	}
	if doc.UA2 != nil {
		if f.forms {
			f.sheet(doc.UA2.Items, "ua", "UA forms sheet", false, false)
		} else {
			f.killItems(doc.UA2.Items, "the forms UA sheet is disabled")
		}
	}
	for i, u := range doc.User {
		f.sheet(u.Items, "user", fmt.Sprintf("user sheet %d", i), false, false)
	}
	// presentational hints come before every other author rule
	if doc.PH != nil {
		if hints {
			f.sheet(doc.PH.Items, "author", "hints sheet", true, false)
		} else {
			f.killItems(doc.PH.Items, "presentational hints are disabled")
		}
	}
	for i, a := range doc.Author {
		where := fmt.Sprintf("<%s> %d", a.Kind, i)
		var s *Sheet
		if a.Kind == "link" {
			s = doc.Files[a.File]
			where += " " + a.File
		} else {
			s = a.Sheet
		}
		if s == nil {
			continue
		}
		if !mediaMatches(a.Media, media) {
			f.killItems(s.Items, where+" has non-matching media attribute "+strings.Join(a.Media, ","))
			continue
		}
		if a.Kind == "link" {
			f.include(a.File, a.Sp)
			f.chain = []string{a.File}
		}
		f.sheet(s.Items, "author", where, false, false)
		f.chain, f.dup, f.dupSib = nil, false, false
	}
}

// cand is one declaration competing for (element, property).
type cand struct {
	d     Decl
	rank  int
	attr  bool // style attribute
	spec  Spec
	order int
	where string
	// reached only because a sheet contributes again when included again (see flatRule)
	dup, dupSib bool
}

// beats reports whether a wins over b, and the cascade step that decides.
func (a cand) beats(b cand) (bool, string) {
	if a.rank != b.rank {
		return a.rank > b.rank, "origin-importance"
	}
	if a.attr != b.attr {
		return a.attr, "style-attribute"
	}
	if a.spec != b.spec {
		return b.spec.less(a.spec), "specificity"
	}
	return a.order > b.order, "order"
}

// longhands lists the model properties a declaration sets.
func longhands(p string) []string {
	if p == "margin" {
		return []string{"margin-top", "margin-left"}
	}
	return []string{p}
}

// candidates returns every valid declaration that applies to (e, prop).
func (f *flattener) candidates(e *Elem, prop string, hints bool) []cand {
	return f.candidatesPE(e, "", prop, hints)
}

// pseudoExists reports whether some rule selects the pseudo-element pe of e.
func (f *flattener) pseudoExists(e *Elem, pe string) bool {
	for _, r := range f.rules {
		if r.pe == pe && matchList(r.sel, e, r.ctx) {
			return true
		}
	}
	return false
}

func (f *flattener) candidatesPE(e *Elem, pe, prop string, hints bool) []cand {
	var out []cand
	sets := func(d Decl) bool {
		if d.Bad {
			return false
		}
		for _, p := range longhands(d.Prop) {
			if p == prop {
				return true
			}
		}
		return false
	}
	for _, r := range f.rules {
		if r.pe != pe {
			continue
		}
		// specificity of a rule for an element = that of the most specific selector of the list
		// that matches the element
		matched := false
		var best Spec
		for _, c := range r.sel {
			if matchComplex(c, e, r.ctx) {
				s := specComplex(c, r.ctx)
				if !matched || best.less(s) {
					best = s
				}
				matched = true
			}
		}
		if !matched {
			continue
		}
		if pe != "" {
			best = best.add(Spec{0, 0, 1}) // Selectors 4 §17: a pseudo-element counts as a type selector
		}
		if r.hint {
			best = Spec{}
		}
		for k, d := range r.decls {
			if sets(d) {
				// order inside one block: later declaration later
				out = append(out, cand{d: d, rank: rank(r.origin, d.Imp), spec: best, order: r.order*64 + k, where: r.where, dup: r.dup, dupSib: r.dupSib})
			}
		}
	}
	if pe != "" {
		return out // style attribute and presentational attributes address the element itself
	}
	for k, d := range e.Style {
		if sets(d) {
			out = append(out, cand{d: d, rank: rank("author", d.Imp), attr: true, order: k, where: "style attribute of " + e.path})
		}
	}
	if hints {
		for _, h := range e.HAttrs {
			for _, p := range hintMap[e.Tag][h.Name] {
				if p == prop {
					out = append(out, cand{d: Decl{N: -1, Prop: prop, Val: h.Val}, rank: rankAuthor, order: -1, where: h.Name + " attribute of " + e.path})
				}
			}
		}
	}
	return out
}

// winner returns the index of the winning candidate (-1: none) and, when at least two different
// declarations compete, the step that separated the winner from the runner-up.
func winner(cs []cand) (int, string) {
	if len(cs) == 0 {
		return -1, ""
	}
	w := 0
	for i := 1; i < len(cs); i++ {
		if b, _ := cs[i].beats(cs[w]); b {
			w = i
		}
	}
	step := ""
	// runner-up: the best of the others
	ru := -1
	for i := range cs {
		if i == w || cs[i].d.Val == cs[w].d.Val {
			continue // the winner itself, or another copy of it (sheet included twice)
		}
		if ru < 0 {
			ru = i
		} else if b, _ := cs[i].beats(cs[ru]); b {
			ru = i
		}
	}
	if ru >= 0 {
		_, step = cs[w].beats(cs[ru])
	}
	return w, step
}
