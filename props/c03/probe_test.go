package c03

import (
	"encoding/json"
	"fmt"
	"os"
	"testing"
)

// Development helper: builds the minimal witnesses of the defects listed in notes/C03.md from the
// fixed scene and, when C03_WRITE_FINDINGS=<dir> is set, writes them as findings files.
func runDoc(t *testing.T, name, what string, mk func(b *builder, probe, w *Elem), media string, hints bool) {
	b, probe, w := newScene()
	mk(b, probe, w)
	b.finish()
	in := caseIn{Kind: "probe", Media: media, Hints: hints, Props: allProps, Doc: b.doc}
	in.Doc.link()
	in.R = in.Doc.render()
	raw, _ := json.Marshal(in)
	res := check(raw)
	fmt.Printf("=== %s: verdict=%q sig=%q trigger=%q\n%s\n", name, res.Verdict, res.Sig, knownDefectTrigger(in.Doc, media, hints, false), res.Msg)
	if res.Verdict != "violation" {
		fmt.Println(in.R.HTML)
	}
	if dir := os.Getenv("C03_WRITE_FINDINGS"); dir != "" && res.Verdict == "violation" {
		w := map[string]any{"property": "C03", "sig": res.Sig, "msg": what, "input": json.RawMessage(raw)}
		out, _ := json.MarshalIndent(w, "", " ")
		if err := os.WriteFile(dir+"/"+name+".json", out, 0o644); err != nil {
			t.Fatal(err)
		}
	}
}

func rule(s []Complex, d ...Decl) Item { return Item{Kind: "rule", Sel: s, Decls: d} }

func TestProbe(t *testing.T) {
	runDoc(t, "style-attr-ties-with-id", "style attribute loses to a later '#p' rule: findStyleAttributes gives it specificity (1,0,0) instead of outranking every selector (CSS Cascade 4 §6.1 'element-attached styles')",
		func(b *builder, p, w *Elem) {
			p.Style = []Decl{b.decl("z-index", false)}
			a := b.newAuthor("style", nil)
			a.host.body = append(a.host.body, rule(sel(cx(idS("p"))), b.decl("z-index", false)))
		}, "print", false)
	runDoc(t, "style-attr-loses-to-two-ids", "style attribute loses to '#p#p' (specificity (2,0,0) > (1,0,0))",
		func(b *builder, p, w *Elem) {
			p.Style = []Decl{b.decl("width", false)}
			a := b.newAuthor("style", nil)
			a.host.body = append(a.host.body, rule(sel(cx(idS("p"), idS("p"))), b.decl("width", false)))
		}, "print", false)
	runDoc(t, "nested-own-declarations-after-nested-rules", "'#p{z-index:11; &{z-index:12}}' computes 11: PreprocessDeclarationsPrelude emits a rule's own declarations after its nested rules, so order of appearance is inverted (CSS Nesting 1: nested rules come after the parent's preceding declarations)",
		func(b *builder, p, w *Elem) {
			a := b.newAuthor("style", nil)
			it := rule(sel(cx(idS("p"))), b.decl("z-index", false))
			it.Nested = []Item{rule(sel(cx(ampS())), b.decl("z-index", false))}
			a.host.body = append(a.host.body, it)
		}, "print", false)
	runDoc(t, "nested-selector-list-only-first-relative", "'#w{ .zz, .k{z-index:11} }' applies to body.k which is not inside #w: the nested prelude is not split on commas, only the first selector gets the implied '& ' (CSS Nesting 1 §2: each relative selector of the list is relative to '&')",
		func(b *builder, p, w *Elem) {
			a := b.newAuthor("style", nil)
			it := rule(sel(cx(idS("w"))))
			it.Nested = []Item{rule(sel(cx(classS("zz")), cx(classS("k"))), b.decl("z-index", false))}
			a.host.body = append(a.host.body, it)
		}, "print", false)
	runDoc(t, "nested-selector-list-mixed-amp", "'#w{ &.zz, .c{order:11} }' applies to every .c, also outside #w: a selector without '&' is not made relative when another selector of the nested list contains '&'",
		func(b *builder, p, w *Elem) {
			b.doc.Root.Kids[1].Kids = append(b.doc.Root.Kids[1].Kids, &Elem{Tag: "p", ID: "o", Classes: []string{"c"}})
			a := b.newAuthor("style", nil)
			it := rule(sel(cx(idS("w"))))
			it.Nested = []Item{rule(sel(cx(ampS(), classS("zz")), cx(classS("c"))), b.decl("order", false))}
			a.host.body = append(a.host.body, it)
		}, "print", false)
	runDoc(t, "nested-invalid-selector-drops-parent", "'#p{z-index:11; .c:::{order:12}}' loses z-index:11: an invalid selector on a nested rule makes PreprocessDeclarationsPrelude return an error and the whole parent rule is dropped (CSS Syntax 3 'consume a block's contents': an invalid nested rule is discarded alone)",
		func(b *builder, p, w *Elem) {
			a := b.newAuthor("style", nil)
			it := rule(sel(cx(idS("p"))), b.decl("z-index", false))
			bad := rule(sel(cx(classS("c"))), b.decl("order", false))
			bad.BadSel = true
			it.Nested = []Item{bad}
			a.host.body = append(a.host.body, it)
		}, "print", false)
	runDoc(t, "import-after-empty-rule", "'#p{} @import \"f1.css\";' honours the import: a style rule (or @media) with an empty block is skipped before it can end the @import section (CSS Cascade 4 §2: @import must precede all other valid style rules)",
		func(b *builder, p, w *Elem) {
			a := b.newAuthor("style", nil)
			f := b.file(&Sheet{Items: []Item{rule(sel(cx(idS("p"))), b.decl("z-index", false))}})
			a.host.body = append(a.host.body, rule(sel(cx(idS("p")))), Item{Kind: "import", File: f})
		}, "print", false)
	runDoc(t, "import-url-function-ignored", "'@import url(\"f1.css\");' is ignored: the tokenizer yields a url() function block for a quoted url and preprocessStylesheet only accepts URL and String tokens (CSS Cascade 4 §2: @import [ <url> | <string> ], <url> includes url(<string>))",
		func(b *builder, p, w *Elem) {
			a := b.newAuthor("style", nil)
			f := b.file(&Sheet{Items: []Item{rule(sel(cx(idS("p"))), b.decl("z-index", false))}})
			a.host.body = append(a.host.body, Item{Kind: "import", File: f, Var: 2})
		}, "print", false)
	runDoc(t, "style-media-attribute-case", "<style media=\"PRINT\"> is not applied for the print device: the media attribute is compared case-sensitively (HTML: the attribute is a media query list; media types are ASCII case-insensitive)",
		func(b *builder, p, w *Elem) {
			a := b.newAuthor("style", []string{"PRINT"})
			a.host.body = append(a.host.body, rule(sel(cx(idS("p"))), b.decl("z-index", false)))
		}, "print", false)
}
