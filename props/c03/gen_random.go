package c03

import (
	"math/rand"
)

var allProps = []string{"z-index", "orphans", "width", "order", "margin-top", "height", "widows", "margin-left"}

// properties a random declaration may name ("margin" is the shorthand)
var declProps = []string{"z-index", "orphans", "width", "order", "margin-top", "height", "widows", "margin-left", "margin"}

// layoutUA adds to the UA sheet the display rules a layout needs (the generated UA sheet replaces
// webrender's html5_ua.css).  "display" is not an observed property: the reference ignores it.
func (b *builder) layoutUA() {
	if b.ua == nil {
		b.ua = &hostSheet{}
	}
	disp := func(v string, tags ...string) Item {
		var s []Complex
		for _, t := range tags {
			s = append(s, cx(tagS(t)))
		}
		b.nDecl++
		return Item{Kind: "rule", Sel: s, Decls: []Decl{{N: b.nDecl, Prop: "display", Val: 10 + b.nDecl, Text: "display:" + v}}}
	}
	page := Item{Kind: "raw", Raw: "@page{margin:75px; @footnote{margin-top:1em}}"}
	b.ua.body = append([]Item{page, disp("block", "html", "body", "div", "section", "p"), disp("none", "head")}, b.ua.body...)
}

// ---------------------------------------------------------------------------------------------
// random documents

var (
	selTags  = []string{"div", "div", "section", "span", "p", "img", "table", "td", "tr", "body"}
	rTags    = []string{"div", "div", "section", "span", "p", "img"}
	rIDs     = []string{"a", "b", "c", "d", "e", "f", "g"}
	rClasses = []string{"x", "y", "z"}
	rAttrVal = []string{"", "v", "v w", "w-1"}
)

type rgen struct {
	r          *rand.Rand
	b          *builder
	elems      []*Elem // body and below
	media      string
	depth      int
	tableParts map[*Elem]bool
	importable []string       // files a later @import may name again
	fileDepth  map[string]int // length of the longest import chain starting at the file
}

// importDepth returns the longest import chain below the items.
func (g *rgen) importDepth(items []Item) int {
	d := 0
	for _, it := range items {
		switch it.Kind {
		case "import":
			if x := g.fileDepth[it.File]; x > d {
				d = x
			}
		case "media":
			if x := g.importDepth(it.Items); x > d {
				d = x
			}
		}
	}
	return d
}

func parentOf(root, e *Elem) *Elem {
	var found *Elem
	var walk func(p *Elem)
	walk = func(p *Elem) {
		for _, k := range p.Kids {
			if k == e {
				found = p
			}
			walk(k)
		}
	}
	walk(root)
	return found
}

func pick[T any](r *rand.Rand, l []T) T { return l[r.Intn(len(l))] }

func (g *rgen) dom() {
	r := g.r
	body := &Elem{Tag: "body"}
	if r.Intn(3) == 0 {
		body.Classes = []string{pick(r, rClasses)}
	}
	head := &Elem{Tag: "head"}
	root := &Elem{Tag: "html", Kids: []*Elem{head, body}}
	if r.Intn(4) == 0 {
		root.Classes = []string{pick(r, rClasses)}
	}
	g.b = &builder{doc: &Doc{Root: root}, head: head}
	n := 2 + r.Intn(5)
	containers := []*Elem{body}
	depth := map[*Elem]int{body: 0}
	ids := r.Perm(len(rIDs))
	g.elems = []*Elem{body}
	for i := 0; i < n; i++ {
		parent := pick(r, containers)
		e := &Elem{Tag: pick(r, rTags)}
		if r.Intn(10) < 6 {
			e.ID = rIDs[ids[i]]
		}
		for _, c := range rClasses {
			if r.Intn(3) == 0 {
				e.Classes = append(e.Classes, c)
			}
		}
		if r.Intn(3) == 0 {
			e.Attrs = append(e.Attrs, [2]string{"data-k", pick(r, rAttrVal)})
		}
		parent.Kids = append(parent.Kids, e)
		depth[e] = depth[parent] + 1
		if (e.Tag == "div" || e.Tag == "section" || e.Tag == "span") && depth[e] < 3 {
			// span only contains phrasing content: keep it a container of span/img only
			containers = append(containers, e)
		}
		g.elems = append(g.elems, e)
	}
	// an explicit table subtree (the parser keeps table > tbody > tr > td as written)
	if r.Intn(4) == 0 {
		blocks := []*Elem{body}
		for _, e := range g.elems[1:] {
			if (e.Tag == "div" || e.Tag == "section") && depth[e] < 3 {
				blocks = append(blocks, e)
			}
		}
		// only under a parent that is not inside a span
		var ok []*Elem
		for _, e := range blocks {
			inSpan := false
			for a := e; a != nil; a = parentOf(root, a) {
				if a.Tag == "span" {
					inSpan = true
				}
			}
			if !inSpan {
				ok = append(ok, e)
			}
		}
		parent := pick(r, ok)
		td := &Elem{Tag: "td"}
		tr := &Elem{Tag: "tr", Kids: []*Elem{td}}
		tb := &Elem{Tag: "tbody", Kids: []*Elem{tr}}
		tbl := &Elem{Tag: "table", Kids: []*Elem{tb}}
		for _, e := range []*Elem{tbl, tr, td} {
			for _, c := range rClasses {
				if r.Intn(4) == 0 {
					e.Classes = append(e.Classes, c)
				}
			}
		}
		parent.Kids = append(parent.Kids, tbl)
		g.elems = append(g.elems, tbl, tb, tr, td)
		g.tableParts = map[*Elem]bool{tbl: true, tb: true, tr: true, td: true}
	}
	// HTML content model: the parser would restructure block content inside span; make every
	// descendant of a span a span or img
	var fix func(e *Elem, inSpan bool)
	fix = func(e *Elem, inSpan bool) {
		if inSpan && e.Tag != "img" && !g.tableParts[e] {
			e.Tag = "span"
		}
		for _, k := range e.Kids {
			fix(k, inSpan || e.Tag == "span")
		}
	}
	fix(body, false)
}

func (g *rgen) compound(allowAmp bool) Compound {
	r := g.r
	var c Compound
	switch r.Intn(6) {
	case 0:
		c = append(c, univS())
	case 1, 2:
		c = append(c, tagS(pick(r, selTags)))
	}
	n := r.Intn(3)
	if len(c) == 0 && n == 0 {
		n = 1
	}
	for i := 0; i < n; i++ {
		switch r.Intn(12) {
		case 0, 1, 2:
			c = append(c, classS(pick(r, rClasses)))
		case 3, 4:
			c = append(c, idS(pick(r, rIDs)))
		case 5:
			switch r.Intn(5) {
			case 0:
				c = append(c, attrS("data-k", "", ""))
			case 1:
				c = append(c, attrS("data-k", "=", pick(r, rAttrVal[1:])))
			case 2:
				c = append(c, attrS("data-k", "~=", pick(r, []string{"v", "w"})))
			case 3:
				c = append(c, attrS("data-k", "|=", "w"))
			case 4:
				c = append(c, attrS("data-k", pick(r, []string{"^=", "$=", "*="}), pick(r, []string{"v", "w", "1"})))
			}
		case 6:
			c = append(c, pcS(pick(r, []string{"first-child", "last-child", "only-child", "root"})))
		case 7:
			c = append(c, nthS(pick(r, []int{0, 1, 2, 3}), pick(r, []int{0, 1, 2})))
		case 8, 9:
			if g.depth < 2 {
				g.depth++
				args := []Complex{g.complex(2, false)}
				if r.Intn(2) == 0 {
					args = append(args, g.complex(1, false))
				}
				g.depth--
				if r.Intn(2) == 0 {
					c = append(c, isS(args...))
				} else {
					c = append(c, notS(args...))
				}
			} else {
				c = append(c, classS(pick(r, rClasses)))
			}
		case 10:
			c = append(c, classS(pick(r, rClasses)), classS(pick(r, rClasses)))
		case 11:
			id := pick(r, rIDs)
			c = append(c, idS(id), idS(id))
		}
	}
	if allowAmp {
		c = append(c, ampS())
	}
	// nth with a=0,b=0 matches nothing; fine.
	return c
}

func (g *rgen) complex(maxParts int, allowAmp bool) Complex {
	r := g.r
	n := 1 + r.Intn(maxParts)
	ampAt := -1
	if allowAmp {
		ampAt = r.Intn(n)
	}
	var c Complex
	for i := 0; i < n; i++ {
		if i > 0 {
			c.Combs = append(c.Combs, pick(r, []string{" ", " ", ">", "+", "~"}))
		}
		if i == ampAt && r.Intn(3) == 0 {
			c.Parts = append(c.Parts, cp(ampS())) // bare &
		} else {
			c.Parts = append(c.Parts, g.compound(i == ampAt))
		}
	}
	return c
}

func (g *rgen) selList(nested bool) []Complex {
	r := g.r
	n := 1
	if r.Intn(4) == 0 {
		n = 2
	}
	var l []Complex
	amp := nested && r.Intn(2) == 0
	if nested && n > 1 && excludeNestedRelativeList {
		amp = true // every selector of a nested list carries "&"
	}
	for i := 0; i < n; i++ {
		if nested && !excludeNestedRelativeList {
			amp = r.Intn(2) == 0
		}
		l = append(l, g.complex(3, amp))
	}
	return l
}

func (g *rgen) decls(origin string, noHintProps bool) []Decl {
	r := g.r
	n := 1 + r.Intn(3)
	var out []Decl
	for i := 0; i < n; i++ {
		p := pick(r, declProps)
		if noHintProps {
			p = pick(r, []string{"z-index", "orphans", "order", "widows", "margin-top"})
		}
		imp := origin != "ua" && origin != "ph" && r.Intn(4) == 0
		d := g.b.decl(p, imp)
		switch r.Intn(24) {
		case 0:
			d.Bad = true
			d.Text = p + ":bogus"
			if imp {
				d.Text += " !important"
			}
		case 1:
			if imp {
				base := Decl{Prop: d.Prop, Val: d.Val}.text()
				d.Text = base + pick(r, []string{"!important", " ! important", " !IMPORTANT", "/**/!/**/important"})
			}
		case 2:
			t := d.text()
			d.Text = upperASCII(p) + t[len(p):]
		}
		out = append(out, d)
	}
	return out
}

func upperASCII(s string) string {
	b := []byte(s)
	for i, c := range b {
		if c >= 'a' && c <= 'z' {
			b[i] = c - 32
		}
	}
	return string(b)
}

func (g *rgen) rule(origin string, nestDepth int, nested bool) Item {
	r := g.r
	it := Item{Kind: "rule", Sel: g.selList(nested)}
	if r.Intn(8) != 0 {
		it.Decls = g.decls(origin, origin == "ph")
	}
	if origin != "ph" && nestDepth < 2 && r.Intn(5) == 0 {
		n := 1 + r.Intn(2)
		for i := 0; i < n; i++ {
			it.Nested = append(it.Nested, g.rule(origin, nestDepth+1, true))
		}
	}
	if len(it.Nested) > 0 && r.Intn(3) == 0 {
		it.Trail = g.decls(origin, false)
	}
	if r.Intn(30) == 0 && !(nested && excludeNestedBadSel) {
		it.BadSel = true
	}
	if !nested && len(it.Nested) == 0 && !it.BadSel && origin != "ph" && r.Intn(8) == 0 {
		it.PE = pick(r, []string{"before", "before", "after"})
	}
	return it
}

var mediaLists = [][]string{{"print"}, {"screen"}, {"all"}, {"screen", "print"}, {"tv"}, {"PRINT"}, {"tv", "screen"}, {"All"}}

// items fills a host sheet with n items.
func (g *rgen) items(h *hostSheet, origin string, n int, allowMedia, allowImport bool) {
	r := g.r
	for i := 0; i < n; i++ {
		switch k := r.Intn(10); {
		case k < 6 || (!allowMedia && k < 8) || (!allowImport && k >= 8):
			h.body = append(h.body, g.rule(origin, 0, false))
		case k < 8:
			m := Item{Kind: "media", Media: pick(r, mediaLists), Var: r.Intn(4)}
			if r.Intn(12) == 0 {
				m.Media = nil // "@media{": all
			}
			inner := &hostSheet{}
			g.items(inner, origin, 1+r.Intn(2), r.Intn(3) == 0, false)
			m.Items = inner.body
			if allowImport && r.Intn(6) == 0 {
				// @import inside @media: invalid
				f := g.b.file(&Sheet{Items: []Item{g.rule(origin, 1, false)}})
				m.Items = append(m.Items, Item{Kind: "import", File: f})
			}
			h.body = append(h.body, m)
		default:
			var f string
			if len(g.importable) > 0 && r.Intn(4) == 0 {
				f = pick(r, g.importable) // the same sheet imported once more
			} else {
				sub := &hostSheet{}
				g.items(sub, origin, 1+r.Intn(2), true, g.b.nFile < 4)
				sh := sub.sheet()
				f = g.b.file(sh)
				if g.fileDepth == nil {
					g.fileDepth = map[string]int{}
				}
				g.fileDepth[f] = 1 + g.importDepth(sh.Items)
				if g.fileDepth[f] <= 2 {
					g.importable = append(g.importable, f) // bounds every chain to 4 + 2 levels
				}
				// import cycles (the @import that closes the cycle loads nothing): the new file
				// imports itself, or one of the files it imports imports it back.  A cycle never
				// passes through a <link>ed file: link files are not importable.
				switch r.Intn(16) {
				case 0:
					self := Item{Kind: "import", File: f, Var: r.Intn(4), Sp: g.spelling()}
					at := r.Intn(len(sub.imports) + 1)
					sh.Items = append(sh.Items[:at:at], append([]Item{self}, sh.Items[at:]...)...)
				case 1:
					if len(sub.imports) > 0 {
						child := g.b.doc.Files[pick(r, sub.imports).File]
						back := Item{Kind: "import", File: f, Var: r.Intn(4), Sp: g.spelling()}
						child.Items = append([]Item{back}, child.Items...)
					}
				}
			}
			imp := Item{Kind: "import", File: f, Var: r.Intn(4), Sp: g.spelling()}
			if imp.Var == 2 && excludeImportURLFunction {
				imp.Var = 1
			}
			if r.Intn(3) == 0 {
				imp.Media = pick(r, mediaLists)
			}
			if r.Intn(5) == 0 && len(h.body) > 0 {
				h.body = append(h.body, imp) // late @import: invalid
			} else {
				h.imports = append(h.imports, imp)
			}
		}
	}
	// the sheet imports one of its files once more (other spelling, other syntax, maybe other
	// media), after the other imports or between them: the file contributes a second time there.
	// Two times in three the second @import comes last and, when the file has a style rule, a
	// rival sheet (same selector, same properties and importance, new values) is imported between
	// the two: the copy of the second @import is what beats the rival.
	if allowImport && len(h.imports) > 0 && r.Intn(3) == 0 {
		again := pick(r, h.imports)
		again.Var, again.Sp = r.Intn(4), g.spelling()
		if r.Intn(4) == 0 {
			again.Media = nil
			if r.Intn(2) == 0 {
				again.Media = pick(r, mediaLists)
			}
		}
		if r.Intn(3) == 0 {
			at := r.Intn(len(h.imports) + 1)
			h.imports = append(h.imports[:at:at], append([]Item{again}, h.imports[at:]...)...)
		} else {
			if rival, ok := g.rival(again.File); ok {
				h.imports = append(h.imports, Item{Kind: "import", File: rival, Var: r.Intn(4), Sp: g.spelling()})
			}
			h.imports = append(h.imports, again)
		}
	}
}

// rival builds a new file with one rule that competes, declaration for declaration and with equal
// weight, with a style rule of the given file.
func (g *rgen) rival(file string) (string, bool) {
	var rules []Item
	for _, it := range g.b.doc.Files[file].Items {
		if it.Kind == "rule" && !it.BadSel && len(it.Decls) > 0 {
			rules = append(rules, it)
		}
	}
	if len(rules) == 0 {
		return "", false
	}
	it := pick(g.r, rules)
	rule := Item{Kind: "rule", Sel: it.Sel, PE: it.PE}
	for _, d := range it.Decls {
		rule.Decls = append(rule.Decls, g.b.decl(d.Prop, d.Imp))
	}
	f := g.b.file(&Sheet{Items: []Item{rule}})
	if g.fileDepth == nil {
		g.fileDepth = map[string]int{}
	}
	g.fileDepth[f] = 1
	return f, true
}

// spelling draws the URL spelling of an import (mostly the plain relative one).
func (g *rgen) spelling() int {
	if g.r.Intn(3) == 0 {
		return 1 + g.r.Intn(2)
	}
	return 0
}

func genRandom(r *rand.Rand) caseIn {
	g := &rgen{r: r, media: "print"}
	g.dom()
	b := g.b
	if r.Intn(5) == 0 {
		g.media = "screen"
	}
	sheetMedia := g.media == "print" // @media in UA/user sheets only for the print device
	// UA
	b.ua = &hostSheet{}
	if r.Intn(2) == 0 {
		g.items(b.ua, "ua", 1+r.Intn(2), sheetMedia, false)
	}
	// user
	for i := r.Intn(3); i > 0; i-- {
		h := &hostSheet{}
		g.items(h, "user", 1+r.Intn(2), sheetMedia, false)
		b.user = append(b.user, h)
	}
	hints := r.Intn(3) != 0
	// hints sheet
	if r.Intn(6) == 0 {
		b.ph = &hostSheet{}
		g.items(b.ph, "ph", 1+r.Intn(2), false, false)
	}
	// author
	for i := 1 + r.Intn(3); i > 0; i-- {
		kind := "style"
		if r.Intn(4) == 0 {
			kind = "link"
		}
		var media []string
		if r.Intn(5) == 0 {
			if excludeMediaAttrCase {
				media = pick(r, mediaLists[:5])
			} else {
				media = pick(r, mediaLists)
			}
		}
		a := b.newAuthor(kind, media)
		if kind == "link" {
			a.sp = g.spelling()
		}
		g.items(a.host, "author", 1+r.Intn(3), true, true)
		if kind == "link" && r.Intn(6) == 0 {
			// the same file is linked a second time, later in the head
			b.deferred = append(b.deferred, func() {
				at := 0
				for k, x := range b.author {
					if x == a {
						at = k + 1 + r.Intn(len(b.author)-k)
					}
				}
				alias := &authorHost{kind: "link", file: a.file, sp: g.spelling(), media: a.media, alias: true}
				b.author = append(b.author[:at:at], append([]*authorHost{alias}, b.author[at:]...)...)
			})
		}
	}
	// style attributes and hint attributes
	for _, e := range g.elems {
		if r.Intn(10) < 3 {
			n := 1 + r.Intn(2)
			for k := 0; k < n; k++ {
				e.Style = append(e.Style, b.decl(pick(r, declProps), r.Intn(4) == 0))
			}
		}
		if hm := hintMap[e.Tag]; hm != nil {
			names := []string{"width", "height", "hspace", "vspace"}
			if e.Tag == "body" {
				names = []string{pick(r, []string{"topmargin", "marginheight"}), pick(r, []string{"leftmargin", "marginwidth"})}
			}
			for _, n := range names {
				if hm[n] != nil && r.Intn(3) == 0 {
					b.nDecl++
					e.HAttrs = append(e.HAttrs, HAttr{Name: n, Val: 10 + b.nDecl})
				}
			}
		}
	}
	forms := false
	var ua2 *hostSheet
	if r.Intn(8) == 0 {
		ua2 = &hostSheet{}
		g.items(ua2, "ua", 1+r.Intn(2), sheetMedia, false)
		forms = r.Intn(3) != 0
	}
	layout := !forms && r.Intn(12) == 0
	if layout {
		b.layoutUA()
	}
	b.finish()
	if ua2 != nil {
		b.doc.UA2 = ua2.sheet()
	}
	return caseIn{Media: g.media, Hints: hints, Forms: forms, Layout: layout, Props: allProps, Doc: b.doc}
}

// ---------------------------------------------------------------------------------------------
// known-defect triggers, decided on the model

// knownDefectTrigger returns the id of a known defect of the unchanged tree that would change a
// computed value of this document, or "".
func knownDefectTrigger(doc *Doc, media string, hints, forms bool) string {
	if media == "" {
		media = "print"
	}
	if !excludeStyleAttrVsID && !excludeNestedOwnOrder && !excludeNestedBadSel && !excludeImportAfterEmptyRule {
		return "" // no open finding
	}
	if excludeNestedBadSel && hasNestedBadSel(doc) {
		return "nested-badsel"
	}
	f := flatten(doc, media, hints, forms)
	var alts []*flattener
	var altNames []string
	if excludeNestedOwnOrder {
		alts = append(alts, &flattener{doc: doc, media: media, forms: forms, ownAfterNested: true})
		altNames = append(altNames, "nested-order")
	}
	if excludeImportAfterEmptyRule {
		alts = append(alts, &flattener{doc: doc, media: media, forms: forms, emptyKeepsImports: true})
		altNames = append(altNames, "import-after-empty-rule")
	}
	for _, a := range alts {
		a.all(hints)
	}
	for _, e := range doc.elems() {
		if e.Sheet > 0 {
			continue
		}
		for _, pe := range []string{"", "before", "after"} {
			for _, p := range allProps {
				cs := f.candidatesPE(e, pe, p, hints)
				w, _ := winner(cs)
				val := func(cs []cand, w int) int {
					if w < 0 {
						return -1
					}
					return cs[w].d.Val
				}
				if excludeStyleAttrVsID && len(cs) >= 2 {
					// webrender: style attribute = specificity (1,0,0), inserted before every sheet
					ds := make([]cand, len(cs))
					for i, c := range cs {
						if c.attr {
							c.attr = false
							c.spec = Spec{1, 0, 0}
							c.order = -1000 + c.order
						}
						ds[i] = c
					}
					if dw, _ := winner(ds); ds[dw].d.Val != cs[w].d.Val {
						return "style-attr"
					}
				}
				for k, a := range alts {
					as := a.candidatesPE(e, pe, p, hints)
					if aw, _ := winner(as); val(as, aw) != val(cs, w) {
						return altNames[k]
					}
				}
			}
		}
	}
	return ""
}

func hasNestedBadSel(doc *Doc) bool {
	var walk func(items []Item, nested bool) bool
	walk = func(items []Item, nested bool) bool {
		for _, it := range items {
			switch it.Kind {
			case "rule":
				if nested && it.BadSel {
					return true
				}
				if walk(it.Nested, true) {
					return true
				}
			case "media":
				if walk(it.Items, false) {
					return true
				}
			}
		}
		return false
	}
	sheets := []*Sheet{doc.UA, doc.UA2, doc.PH}
	sheets = append(sheets, doc.User...)
	for _, a := range doc.Author {
		sheets = append(sheets, a.Sheet)
	}
	for _, s := range doc.Files {
		sheets = append(sheets, s)
	}
	for _, s := range sheets {
		if s != nil && walk(s.Items, false) {
			return true
		}
	}
	return false
}
