package c03

import (
	"fmt"
	"math/rand"
	"os"
	"strconv"
	"strings"
)

// ---------------------------------------------------------------------------------------------
// Defects found by this check on the original tree (see notes/C03.md and findings/C03/).  While a
// defect was open its trigger was kept out of the generated workload by these flags (the exclusion
// was decided on the MODEL, before webrender runs: a document was excluded when the reference
// cascade said that the defective rule would change a winner).  All seven are repaired in /repo
// now (16b6950, 1fec70f, 2cbbd68, c440a0b, 468a4a7, f194d23, 3e97ba5), every flag is false and the
// sub-domains are part of the workload; the mechanism stays for a future open finding.
// ---------------------------------------------------------------------------------------------
var (
	// F-C03-style-attr: style attribute has specificity (1,0,0) instead of outranking selectors.
	excludeStyleAttrVsID = false
	// F-C03-nested-order: a rule's own declarations are emitted after its nested rules.
	excludeNestedOwnOrder = false
	// F-C03-nested-badsel: an invalid selector on a nested rule drops the whole parent rule.
	excludeNestedBadSel = false
	// F-C03-nested-list: the nested prelude is not split on commas: in a nested selector list only
	// the first selector is made relative ("& sel"), and none is when any selector contains "&".
	// Nested selector lists of two or more selectors are generated with "&" in every selector.
	excludeNestedRelativeList = false
	// F-C03-import-after-empty-rule: "a{} @import 'x';" honours the import (a rule or @media with an
	// empty block is skipped before it can end the @import section).
	excludeImportAfterEmptyRule = false
	// F-C03-import-url-function: @import url("x") (url function with a quoted string) is ignored;
	// only the string and the unquoted url(x) forms are generated.
	excludeImportURLFunction = false
	// F-C03-media-attr-case: <style media="PRINT"> is compared case-sensitively.
	excludeMediaAttrCase = false
)

// Development aid: VERIF_C03_INCLUDE=all (or a comma-separated list of style-attr, nested-order,
// nested-badsel, nested-list, import-after-empty-rule, import-url-function, media-attr-case) brings
// the excluded sub-domains back without editing this file, to validate a repair on a scratch copy
// of the repository.  The committed checks never set it.
func init() {
	v := os.Getenv("VERIF_C03_INCLUDE")
	if v == "" {
		return
	}
	flags := map[string]*bool{
		"style-attr": &excludeStyleAttrVsID, "nested-order": &excludeNestedOwnOrder, "nested-badsel": &excludeNestedBadSel,
		"nested-list": &excludeNestedRelativeList, "import-after-empty-rule": &excludeImportAfterEmptyRule,
		"import-url-function": &excludeImportURLFunction, "media-attr-case": &excludeMediaAttrCase,
	}
	for _, k := range strings.Split(v, ",") {
		if k == "all" {
			for _, f := range flags {
				*f = false
			}
		} else if f := flags[strings.TrimSpace(k)]; f != nil {
			*f = false
		}
	}
}

// ---------------------------------------------------------------------------------------------
// selector construction helpers

func tagS(n string) Simple   { return Simple{K: "tag", A: n} }
func univS() Simple          { return Simple{K: "univ"} }
func idS(n string) Simple    { return Simple{K: "id", A: n} }
func classS(n string) Simple { return Simple{K: "class", A: n} }
func pcS(n string) Simple    { return Simple{K: "pc", A: n} }
func ampS() Simple           { return Simple{K: "amp"} }
func attrS(n, op, v string) Simple {
	return Simple{K: "attr", A: n, Op: op, V: v}
}
func nthS(a, b int) Simple        { return Simple{K: "nth", NA: a, NB: b} }
func isS(args ...Complex) Simple  { return Simple{K: "is", Args: args} }
func notS(args ...Complex) Simple { return Simple{K: "not", Args: args} }
func cx(parts ...Simple) Complex  { return Complex{Parts: []Compound{parts}} }
func cp(parts ...Simple) Compound { return Compound(parts) }
func sel(cs ...Complex) []Complex { return cs }
func chain(first Compound, rest ...any) Complex {
	c := Complex{Parts: []Compound{first}}
	for i := 0; i+1 < len(rest); i += 2 {
		c.Combs = append(c.Combs, rest[i].(string))
		c.Parts = append(c.Parts, rest[i+1].(Compound))
	}
	return c
}

// ---------------------------------------------------------------------------------------------
// Fixed scene of the pair / triple enumeration:
//
//   html > head[sheets] , body#b.k > div#w.k[data-g=1] > ( img#p.c.d[data-k="v e"] , span#q.c )
//
// Shapes are selectors aimed at the probe #p (the last ones do not match it).

type shape struct {
	sel []Complex
}

var shapes = []shape{
	0:  {sel(cx(univS()))},                                                                                             // (0,0,0)
	1:  {sel(cx(tagS("img")))},                                                                                         // (0,0,1)
	2:  {sel(cx(classS("c")))},                                                                                         // (0,1,0), also #q
	3:  {sel(cx(idS("p")))},                                                                                            // (1,0,0)
	4:  {sel(cx(idS("p"), idS("p")))},                                                                                  // (2,0,0)
	5:  {sel(cx(isS(cx(classS("d")), cx(idS("zz")))))},                                                                 // (1,0,0) through :is
	6:  {sel(cx(notS(cx(classS("zz")))))},                                                                              // (0,1,0), everything
	7:  {sel(cx(notS(cx(idS("zz")))))},                                                                                 // (1,0,0), everything
	8:  {sel(cx(attrS("data-k", "~=", "v")))},                                                                          // (0,1,0)
	9:  {sel(cx(pcS("first-child")))},                                                                                  // (0,1,0)
	10: {sel(cx(tagS("img"), classS("c"), idS("p")))},                                                                  // (1,1,1)
	11: {sel(cx(tagS("img"), classS("c"), classS("d"), idS("p"), idS("p")))},                                           // (2,2,1)
	12: {sel(chain(cp(tagS("div")), " ", cp(tagS("img"))))},                                                            // (0,0,2)
	13: {sel(chain(cp(classS("k")), ">", cp(classS("c"))))},                                                            // (0,2,0)
	14: {sel(chain(cp(idS("w")), " ", cp(classS("c"), classS("d"))))},                                                  // (1,2,0)
	15: {sel(cx(classS("c")), cx(idS("p")))},                                                                           // list: (1,0,0) on #p, (0,1,0) on #q
	16: {sel(cx(nthS(2, 1)))},                                                                                          // (0,1,0)
	17: {sel(chain(cp(tagS("div"), idS("w"), classS("k")), ">", cp(tagS("img"), classS("c"), classS("d"), idS("p"))))}, // (2,3,2)
	// not matching #p
	18: {sel(cx(classS("zz")))},
	19: {sel(cx(tagS("span")))},
	20: {sel(chain(cp(idS("q")), "~", cp(classS("c"))))},
	21: {sel(cx(notS(cx(classS("c")))))},
}

const nMatchingShapes = 18

// tmpl is one declaration template.
type tmpl struct {
	origin  string // ua | user | author
	imp     bool
	carrier string
	shape   int
}

func (t tmpl) String() string {
	s := t.origin
	if t.imp {
		s += "!"
	}
	return fmt.Sprintf("%s/%s/%d", s, t.carrier, t.shape)
}

var templates = buildTemplates()

func buildTemplates() []tmpl {
	var out []tmpl
	// S1: origin x importance x shape, plain carrier
	all := make([]int, len(shapes))
	for i := range all {
		all[i] = i
	}
	few := []int{0, 2, 3, 10, 18}
	for _, oi := range []struct {
		o   string
		imp bool
		sh  []int
	}{{"ua", false, few}, {"user", false, few}, {"user", true, few}, {"author", false, all}, {"author", true, all}} {
		for _, s := range oi.sh {
			out = append(out, tmpl{oi.o, oi.imp, "top", s})
		}
	}
	// S2: author carriers
	for _, c := range []string{"link", "import", "import2", "media+", "media-", "mediaattr-", "mediaattr+", "nest&", "nestrel", "nest&c", "late-import", "import-in-media", "import-media-", "badsel"} {
		for _, imp := range []bool{false, true} {
			for _, s := range []int{0, 2, 3} {
				out = append(out, tmpl{"author", imp, c, s})
			}
		}
	}
	// carriers added with the repairs of the seven findings (appended so that earlier indexes keep
	// their meaning): url("x") import, import after an empty rule, invalid nested selector, nested
	// selector lists, declarations after nested rules
	for _, c := range []string{"import-urlfn", "late-import-empty", "nestbad", "nestlist", "nestlist&", "trail"} {
		for _, imp := range []bool{false, true} {
			for _, s := range []int{2, 3} {
				out = append(out, tmpl{"author", imp, c, s})
			}
		}
	}
	for _, s := range []int{0, 2, 3, 11} {
		out = append(out, tmpl{"author", false, "hint-sheet", s})
	}
	// the import graph family: one sheet reached several times (see importGraphCarriers)
	for _, c := range importGraphCarriers {
		out = append(out, tmpl{"author", false, c, 2}, tmpl{"author", true, c, 2}, tmpl{"author", false, c, 3})
	}
	out = append(out, tmpl{"author", false, "style-attr", -1}, tmpl{"author", true, "style-attr", -1}, tmpl{"author", false, "hint-attr", -1})
	for _, c := range []string{"media+", "media-"} {
		out = append(out, tmpl{"user", false, c, 2}, tmpl{"user", true, c, 2}, tmpl{"ua", false, c, 2})
	}
	return out
}

// importGraphCarriers: carriers in which the sheet holding the declaration is reached more than
// once, or through a cycle.  "Deferred" = added when the document is finished, i.e. after the
// imports / sheets of every template placed later, so that in a shared sheet the templates placed
// in between sit between the two inclusions.
//
//	reimport         @import "f" now, @import "f" again deferred (same sheet, same spelling)
//	reimport-sp      the same, the second @import spells the URL differently (./f, mem://doc/f)
//	diamond          @import "g1" now, @import "g2" deferred; g1 and g2 both @import "f"
//	reimport-media+  @import "f" screen now (dead), @import "f" print deferred (live)
//	reimport-media-  @import "f" print now (live), @import "f" screen deferred (dead)
//	cycle-self       @import "f"; f imports itself before its rule
//	cycle-2          @import "f1"; f1 imports f2, f2 imports f1; the rule is in f1 or f2
//	link-twice       <link href=f> now, the same <link> again deferred (last sheet of the document)
//	link+import      <link href=f> now, <style>@import "f"</style> deferred
var importGraphCarriers = []string{"reimport", "reimport-sp", "diamond", "reimport-media+", "reimport-media-", "cycle-self", "cycle-2", "link-twice", "link+import"}

func isLinkCarrier(c string) bool { return c == "link" || c == "link-twice" || c == "link+import" }

// hostSheet is a style sheet under construction: @import rules must come first in the text.
type hostSheet struct {
	imports []Item
	body    []Item
}

func (h *hostSheet) sheet() *Sheet {
	return &Sheet{Items: append(append([]Item{}, h.imports...), h.body...)}
}

// builder assembles a Doc from placed templates.
type builder struct {
	doc    *Doc
	head   *Elem
	nDecl  int
	nFile  int
	ua     *hostSheet
	ph     *hostSheet
	user   []*hostSheet
	author []*authorHost
	// deferred actions run, in order, when the document is finished; final ones after them
	deferred []func()
	final    []func()
	// cur is the author sheet element being filled (the link-* carriers need it)
	cur *authorHost
}

type authorHost struct {
	kind  string
	media []string
	file  string
	sp    int
	host  *hostSheet
	alias bool // a second <link> to a file another authorHost fills
}

func (b *builder) decl(prop string, imp bool) Decl {
	b.nDecl++
	return Decl{N: b.nDecl, Prop: prop, Val: 10 + b.nDecl, Imp: imp}
}

func (b *builder) file(s *Sheet) string {
	b.nFile++
	name := "f" + strconv.Itoa(b.nFile) + ".css"
	if b.doc.Files == nil {
		b.doc.Files = map[string]*Sheet{}
	}
	b.doc.Files[name] = s
	return name
}

func (b *builder) finish() {
	d := b.doc
	for _, f := range b.deferred {
		f()
	}
	for _, f := range b.final {
		f()
	}
	b.deferred, b.final = nil, nil
	if b.ua != nil {
		d.UA = b.ua.sheet()
	} else {
		d.UA = &Sheet{}
	}
	if b.ph != nil {
		d.PH = b.ph.sheet()
	}
	for _, u := range b.user {
		d.User = append(d.User, u.sheet())
	}
	for _, a := range b.author {
		as := AuthorSheet{Kind: a.kind, Media: a.media}
		if a.kind == "link" {
			as.File, as.Sp = a.file, a.sp
			if !a.alias {
				*d.Files[a.file] = *a.host.sheet()
			}
		} else {
			as.Sheet = a.host.sheet()
		}
		d.Author = append(d.Author, as)
		tag := "style"
		if a.kind == "link" {
			tag = "link"
		}
		b.head.Kids = append(b.head.Kids, &Elem{Tag: tag, Sheet: len(d.Author)})
	}
}

func (b *builder) newAuthor(kind string, media []string) *authorHost {
	a := &authorHost{kind: kind, media: media, host: &hostSheet{}}
	if kind == "link" {
		a.file = b.file(&Sheet{})
	}
	b.author = append(b.author, a)
	return a
}

// place materialises a rule carrying decls into host according to the carrier.
func (b *builder) place(host *hostSheet, carrier string, s []Complex, decls []Decl) {
	rule := Item{Kind: "rule", Sel: s, Decls: decls}
	switch carrier {
	case "top", "link", "mediaattr-", "mediaattr+", "hint-sheet":
		host.body = append(host.body, rule)
	case "reimport", "reimport-sp":
		f := b.file(&Sheet{Items: []Item{rule}})
		host.imports = append(host.imports, Item{Kind: "import", File: f, Var: b.nDecl})
		again := Item{Kind: "import", File: f, Var: b.nDecl / 4}
		if carrier == "reimport-sp" {
			again.Sp = 1 + b.nDecl%2
		}
		b.deferred = append(b.deferred, func() { host.imports = append(host.imports, again) })
	case "diamond":
		f := b.file(&Sheet{Items: []Item{rule}})
		g1 := b.file(&Sheet{Items: []Item{{Kind: "import", File: f}}})
		g2 := b.file(&Sheet{Items: []Item{{Kind: "import", File: f, Sp: b.nDecl % 3}}})
		host.imports = append(host.imports, Item{Kind: "import", File: g1})
		b.deferred = append(b.deferred, func() { host.imports = append(host.imports, Item{Kind: "import", File: g2}) })
	case "reimport-media+", "reimport-media-":
		f := b.file(&Sheet{Items: []Item{rule}})
		m1, m2 := []string{"screen"}, []string{"print"}
		if carrier == "reimport-media-" {
			m1, m2 = m2, m1
		}
		host.imports = append(host.imports, Item{Kind: "import", File: f, Media: m1})
		b.deferred = append(b.deferred, func() { host.imports = append(host.imports, Item{Kind: "import", File: f, Media: m2}) })
	case "cycle-self":
		// the file imports itself: the inner @import loads nothing, the rule applies once
		sh := &Sheet{}
		f := b.file(sh)
		sh.Items = []Item{{Kind: "import", File: f, Sp: b.nDecl % 3}, rule}
		host.imports = append(host.imports, Item{Kind: "import", File: f})
	case "cycle-2":
		// f1 -> f2 -> f1: the innermost @import loads nothing; the rule sits in f1 or in f2
		s1, s2 := &Sheet{}, &Sheet{}
		f1, f2 := b.file(s1), b.file(s2)
		s1.Items = []Item{{Kind: "import", File: f2}}
		s2.Items = []Item{{Kind: "import", File: f1, Sp: b.nDecl % 3}}
		if b.nDecl%2 == 0 {
			s1.Items = append(s1.Items, rule)
		} else {
			s2.Items = append(s2.Items, rule)
		}
		host.imports = append(host.imports, Item{Kind: "import", File: f1})
	case "link-twice":
		// host is the linked file; the same file is linked once more by the last element of the head
		host.body = append(host.body, rule)
		file, sp := b.cur.file, b.nDecl%3
		b.deferred = append(b.deferred, func() {
			b.author = append(b.author, &authorHost{kind: "link", file: file, sp: sp, alias: true})
		})
	case "link+import":
		// host is the linked file; a later <style> imports it again
		host.body = append(host.body, rule)
		file, sp := b.cur.file, b.nDecl%3
		b.deferred = append(b.deferred, func() {
			a := b.newAuthor("style", nil)
			a.host.imports = append(a.host.imports, Item{Kind: "import", File: file, Sp: sp})
		})
	case "import":
		f := b.file(&Sheet{Items: []Item{rule}})
		host.imports = append(host.imports, Item{Kind: "import", File: f})
	case "import2":
		f2 := b.file(&Sheet{Items: []Item{rule}})
		f1 := b.file(&Sheet{Items: []Item{{Kind: "import", File: f2}}})
		host.imports = append(host.imports, Item{Kind: "import", File: f1})
	case "import-media-":
		f := b.file(&Sheet{Items: []Item{rule}})
		host.imports = append(host.imports, Item{Kind: "import", File: f, Media: []string{"screen"}})
	case "late-import":
		f := b.file(&Sheet{Items: []Item{rule}})
		host.body = append(host.body, Item{Kind: "rule", Sel: sel(cx(classS("zz"))), Decls: []Decl{b.decl("order", false)}},
			Item{Kind: "import", File: f})
	case "import-in-media":
		f := b.file(&Sheet{Items: []Item{rule}})
		host.body = append(host.body, Item{Kind: "media", Media: []string{"print"}, Items: []Item{{Kind: "import", File: f}}})
	case "media+":
		host.body = append(host.body, Item{Kind: "media", Media: []string{"print"}, Items: []Item{rule}})
	case "media-":
		host.body = append(host.body, Item{Kind: "media", Media: []string{"screen"}, Items: []Item{rule}})
	case "nest&":
		// parent selects with the shape, nested rule is a bare "&"
		host.body = append(host.body, Item{Kind: "rule", Sel: s, Nested: []Item{{Kind: "rule", Sel: sel(cx(ampS())), Decls: decls}}})
	case "nest&c":
		// "&.c": parent specificity plus a class
		host.body = append(host.body, Item{Kind: "rule", Sel: s, Nested: []Item{{Kind: "rule", Sel: sel(cx(ampS(), classS("c"))), Decls: decls}}})
	case "nestrel":
		// parent .k (body and #w), nested relative selector = the shape
		host.body = append(host.body, Item{Kind: "rule", Sel: sel(cx(classS("k"))), Nested: []Item{{Kind: "rule", Sel: s, Decls: decls}}})
	case "badsel":
		rule.BadSel = true
		host.body = append(host.body, rule)
	case "import-urlfn":
		// @import url("f")
		f := b.file(&Sheet{Items: []Item{rule}})
		host.imports = append(host.imports, Item{Kind: "import", File: f, Var: 2})
	case "late-import-empty":
		// an empty style rule ends the @import section as well
		f := b.file(&Sheet{Items: []Item{rule}})
		host.body = append(host.body, Item{Kind: "rule", Sel: sel(cx(classS("c")))}, Item{Kind: "import", File: f})
	case "nestbad":
		// a nested rule with an invalid selector is dropped alone: the parent's declaration stays
		bad := Item{Kind: "rule", Sel: sel(cx(classS("c"))), BadSel: true, Decls: []Decl{b.decl("order", false)}}
		rule.Nested = []Item{bad}
		host.body = append(host.body, rule)
	case "nestlist":
		// nested selector list without "&": every selector is relative to the parent .k
		host.body = append(host.body, Item{Kind: "rule", Sel: sel(cx(classS("k"))), Nested: []Item{{Kind: "rule", Sel: append(sel(cx(classS("zz"))), s...), Decls: decls}}})
	case "nestlist&":
		// mixed list: "&.c" selects what the shape selects (if .c), ".c" alone is relative to it
		host.body = append(host.body, Item{Kind: "rule", Sel: s, Nested: []Item{{Kind: "rule", Sel: sel(cx(ampS(), classS("c")), cx(classS("c"))), Decls: decls}}})
	case "trail":
		// the declaration is written after a nested rule
		host.body = append(host.body, Item{Kind: "rule", Sel: s, Nested: []Item{{Kind: "rule", Sel: sel(cx(ampS())), Decls: []Decl{b.decl("order", false)}}}, Trail: decls})
	default:
		panic("c03 gen: unknown carrier " + carrier)
	}
}

func newScene() (*builder, *Elem, *Elem) {
	probe := &Elem{Tag: "img", ID: "p", Classes: []string{"c", "d"}, Attrs: [][2]string{{"data-k", "v e"}}}
	q := &Elem{Tag: "span", ID: "q", Classes: []string{"c"}}
	w := &Elem{Tag: "div", ID: "w", Classes: []string{"k"}, Attrs: [][2]string{{"data-g", "1"}}, Kids: []*Elem{probe, q}}
	body := &Elem{Tag: "body", ID: "b", Classes: []string{"k"}, Kids: []*Elem{w}}
	head := &Elem{Tag: "head"}
	root := &Elem{Tag: "html", Kids: []*Elem{head, body}}
	return &builder{doc: &Doc{Root: root}, head: head}, probe, w
}

var pairProps = []string{"z-index", "orphans", "width", "order", "margin-top", "height", "widows", "margin-left"}

// buildTuple builds the document in which the templates ts compete, in this order, for one
// property of the probe.  arrangement 0: every template in its own sheet; 1: templates of one
// origin share a sheet; 2: like 1 and a nested-carrier template is nested inside the rule of the
// preceding plain template; 3: like 1, the shared author sheet is a file that a <style> imports
// (the templates' own imports are then imports of an imported sheet); 4: like 1, the shared
// author sheet is a <link>ed file.
func buildTuple(ts []tmpl, arrangement int, variant int) caseIn {
	b, probe, _ := newScene()
	prop := pairProps[variant%len(pairProps)]
	nHint := 0
	for _, t := range ts {
		if t.carrier == "hint-attr" {
			nHint++
		}
	}
	if nHint > 0 {
		prop = []string{"width", "height"}[variant%2]
	}
	hints := true
	usesHints := false
	var sharedAuthor *authorHost
	var sharedUser *hostSheet
	var lastPlainHost *hostSheet // arrangement 2: the preceding plain rule is lastPlainHost.body[lastPlainIdx]
	lastPlainIdx := -1
	hintProps := []string{"width", "height"}
	if prop == "height" {
		hintProps = []string{"height", "width"}
	}
	for _, t := range ts {
		p := prop
		if t.carrier == "hint-attr" {
			// one hint attribute per property: a second hint template takes the other one
			p = hintProps[0]
			if len(hintProps) > 1 {
				hintProps = hintProps[1:]
			}
		}
		if t.carrier == "hint-sheet" && nHint > 0 {
			// keep a single presentational-hint source per (element, property)
			p = "z-index"
		}
		switch t.carrier {
		case "style-attr":
			probe.Style = append(probe.Style, b.decl(p, t.imp))
			continue
		case "hint-attr":
			usesHints = true
			b.nDecl++
			have := false
			for _, h := range probe.HAttrs {
				have = have || h.Name == p
			}
			if !have {
				probe.HAttrs = append(probe.HAttrs, HAttr{Name: p, Val: 10 + b.nDecl})
			}
			continue
		case "hint-sheet":
			usesHints = true
			if b.ph == nil {
				b.ph = &hostSheet{}
			}
			b.place(b.ph, t.carrier, shapes[t.shape].sel, []Decl{b.decl(p, false)})
			continue
		}
		s := shapes[t.shape].sel
		d := []Decl{b.decl(p, t.imp)}
		switch t.origin {
		case "ua":
			if b.ua == nil {
				b.ua = &hostSheet{}
			}
			b.place(b.ua, t.carrier, s, d)
		case "user":
			var h *hostSheet
			if arrangement >= 1 && sharedUser != nil {
				h = sharedUser
			} else {
				h = &hostSheet{}
				b.user = append(b.user, h)
				sharedUser = h
			}
			b.place(h, t.carrier, s, d)
		case "author":
			var a *authorHost
			switch {
			case t.carrier == "mediaattr-":
				a = b.newAuthor("style", []string{"screen"})
			case t.carrier == "mediaattr+":
				a = b.newAuthor("style", []string{"tv", "PRINT"})
			case isLinkCarrier(t.carrier):
				a = b.newAuthor("link", nil)
			case arrangement >= 1 && sharedAuthor != nil:
				a = sharedAuthor
			case arrangement == 3:
				outer := b.newAuthor("style", nil)
				sh := &Sheet{}
				outer.host.imports = append(outer.host.imports, Item{Kind: "import", File: b.file(sh)})
				a = &authorHost{kind: "style", host: &hostSheet{}}
				inner := a.host
				b.final = append(b.final, func() { *sh = *inner.sheet() })
				sharedAuthor = a
			case arrangement == 4:
				a = b.newAuthor("link", nil)
				sharedAuthor = a
			default:
				a = b.newAuthor("style", nil)
				sharedAuthor = a
			}
			nested := t.carrier == "nest&" || t.carrier == "nestrel" || t.carrier == "nest&c"
			if arrangement == 2 && nested && lastPlainHost != nil {
				lastPlain := &lastPlainHost.body[lastPlainIdx]
				// nest inside the preceding plain rule: its own declaration comes first
				nsel := sel(cx(ampS()))
				switch t.carrier {
				case "nest&c":
					nsel = sel(cx(ampS(), classS("c")))
				case "nestrel":
					nsel = s
				}
				lastPlain.Nested = append(lastPlain.Nested, Item{Kind: "rule", Sel: nsel, Decls: d})
				continue
			}
			b.cur = a
			b.place(a.host, t.carrier, s, d)
			if t.carrier == "top" && a == sharedAuthor && len(a.host.body) > 0 {
				lastPlainHost, lastPlainIdx = a.host, len(a.host.body)-1
			} else {
				lastPlainHost = nil
			}
		}
	}
	if usesHints && variant%5 == 4 {
		hints = false // hints disabled: the hint records must not apply
	}
	layout := variant%16 == 7
	if layout {
		b.layoutUA()
	}
	b.finish()
	return caseIn{Media: "print", Hints: hints, Layout: layout, Props: allProps, Doc: b.doc}
}

// ---------------------------------------------------------------------------------------------
// case index space

// nestedInside lists the (plain author rule, nested-carrier template) pairs of arrangement 2.
var nestedInside = func() [][2]int {
	var out [][2]int
	for i, a := range templates {
		if a.origin != "author" || a.carrier != "top" {
			continue
		}
		for j, b := range templates {
			if b.carrier == "nest&" || b.carrier == "nestrel" || b.carrier == "nest&c" {
				out = append(out, [2]int{i, j})
			}
		}
	}
	return out
}()

// reduced is the template subset whose ordered triples the thorough tier enumerates exhaustively.
var reduced = func() []int {
	want := map[string]bool{
		"ua/top/2": true, "user/top/2": true, "user!/top/2": true,
		"author/top/0": true, "author/top/2": true, "author/top/3": true, "author/top/4": true, "author/top/15": true,
		"author!/top/2": true, "author!/top/3": true,
		"author/link/2": true, "author/import/2": true, "author/media+/2": true, "author/media-/2": true,
		"author/nest&/2": true, "author/nestrel/2": true, "author/late-import/2": true, "author/hint-sheet/2": true,
		"author/reimport/2":    true,
		"author/style-attr/-1": true, "author!/style-attr/-1": true, "author/hint-attr/-1": true,
	}
	var out []int
	for i, t := range templates {
		if want[t.String()] {
			out = append(out, i)
		}
	}
	if len(out) != len(want) {
		panic("c03 gen: reduced template set does not match the template list")
	}
	return out
}()

func nTriplesEx(tier string) int {
	if tier == "thorough" {
		n := len(reduced)
		return 2 * n * n * n
	}
	return 0
}

// maxGeneratedImports: a random document in which the reference follows more @import rules than
// this is drawn again.
const maxGeneratedImports = 48

// importish lists the templates whose carrier is an @import of some kind (import graph family
// included): their ordered pairs are also enumerated with the shared sheet one level down
// (arrangements 3 and 4).
var importish = func() []int {
	is := map[string]bool{"import": true, "import2": true, "import-media-": true, "import-urlfn": true}
	for _, c := range importGraphCarriers {
		is[c] = true
	}
	var out []int
	for i, t := range templates {
		if is[t.carrier] {
			out = append(out, i)
		}
	}
	return out
}()

func nPairsBase() int { return len(templates)*len(templates)*2 + len(nestedInside) }

func nPairs() int { return nPairsBase() + 2*len(importish)*len(importish) }

func genN(tier string) int {
	if tier == "thorough" {
		return nPairs() + nTriplesEx(tier) + nTriples(tier) + 150000
	}
	return nPairs() + nTriplesEx(tier) + nTriples(tier) + 9000
}

func nTriples(tier string) int {
	if tier == "thorough" {
		return 60000
	}
	return 4000
}

func genCase(r *rand.Rand, i int, tier string) caseIn {
	nt := len(templates)
	var in caseIn
	switch {
	case i < 2*nt*nt:
		arr := i / (nt * nt)
		k := i % (nt * nt)
		in = buildTuple([]tmpl{templates[k/nt], templates[k%nt]}, arr, k/nt+k%nt+arr)
		in.Kind = "pair"
	case i < nPairsBase():
		p := nestedInside[i-2*nt*nt]
		in = buildTuple([]tmpl{templates[p[0]], templates[p[1]]}, 2, p[0]+p[1])
		in.Kind = "pair"
	case i < nPairs():
		k := i - nPairsBase()
		n := len(importish)
		arr := 3 + k/(n*n)
		k %= n * n
		a, b := importish[k/n], importish[k%n]
		in = buildTuple([]tmpl{templates[a], templates[b]}, arr, a+b+arr)
		in.Kind = "pair"
	case i < nPairs()+nTriplesEx(tier):
		k := i - nPairs()
		n := len(reduced)
		arr := 1 + k/(n*n*n) // shared sheets, and nested-inside
		k %= n * n * n
		a, b, c := reduced[k/(n*n)], reduced[(k/n)%n], reduced[k%n]
		in = buildTuple([]tmpl{templates[a], templates[b], templates[c]}, arr, a+b+c)
		in.Kind = "triple"
	case i < nPairs()+nTriplesEx(tier)+nTriples(tier):
		n := 3 + r.Intn(2)
		ts := make([]tmpl, n)
		for k := range ts {
			ts[k] = templates[r.Intn(nt)]
		}
		in = buildTuple(ts, r.Intn(5), r.Intn(40))
		in.Kind = "triple"
	default:
		for try := 0; ; try++ {
			in = genRandom(r)
			in.Kind = "random"
			in.Regen = try
			in.Doc.link()
			// repeated imports of sheets that import repeatedly multiply: keep documents small
			if fl := flatten(in.Doc, in.Media, in.Hints, in.Forms); fl.stats.live > maxGeneratedImports {
				in.Regen = 0
				try = -1
				continue
			}
			if why := knownDefectTrigger(in.Doc, in.Media, in.Hints, in.Forms); why == "" || try >= 20 {
				break
			}
		}
	}
	in.Doc.link()
	if why := knownDefectTrigger(in.Doc, in.Media, in.Hints, in.Forms); why != "" {
		in.Excluded = why
	}
	in.R = in.Doc.render()
	return in
}
