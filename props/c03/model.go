package c03

import (
	"fmt"
	"sort"
	"strconv"
	"strings"
)

// ---------------------------------------------------------------------------------------------
// Generator-side model of a document and its style sheets.  Everything here is written from the
// CSS specifications (Selectors 4, Cascade 4, Nesting 1, CSS 2.1 §6.4) and shares no code with
// /repo.  The model is what the reference cascade (ref.go) evaluates; the text that webrender
// receives is rendered from the same model by the functions at the bottom of this file and is
// stored next to the model in the case input, so a replay needs neither generator nor renderer.
// ---------------------------------------------------------------------------------------------

// Elem is one element of the model DOM.
type Elem struct {
	Tag     string      `json:"t"`
	ID      string      `json:"id,omitempty"`
	Classes []string    `json:"cl,omitempty"`
	Attrs   [][2]string `json:"at,omitempty"` // other attributes (data-*), in source order
	Style   []Decl      `json:"st,omitempty"` // declarations of the style attribute, in order
	HAttrs  []HAttr     `json:"ha,omitempty"` // presentational attributes with a numeric value
	Kids    []*Elem     `json:"k,omitempty"`
	// Sheet marks <style>/<link> elements of the head: index into Doc.Author
	Sheet int `json:"sh,omitempty"` // 1-based; 0 = not a sheet element

	parent *Elem
	index  int // 0-based position among the parent's element children
	path   string
}

// HAttr is a presentational attribute such as width="17".
type HAttr struct {
	Name string `json:"n"`
	Val  int    `json:"v"`
}

// hintMap: element -> presentational attribute -> observed properties it maps to (HTML §15.3,
// restricted to what webrender implements and to the properties the monitor observes).
var hintMap = map[string]map[string][]string{
	"img":   {"width": {"width"}, "height": {"height"}, "hspace": {"margin-left"}, "vspace": {"margin-top"}},
	"table": {"width": {"width"}, "height": {"height"}, "hspace": {"margin-left"}, "vspace": {"margin-top"}},
	"td":    {"width": {"width"}, "height": {"height"}},
	"th":    {"width": {"width"}, "height": {"height"}},
	"tr":    {"height": {"height"}},
	"body":  {"topmargin": {"margin-top"}, "marginheight": {"margin-top"}, "leftmargin": {"margin-left"}, "marginwidth": {"margin-left"}},
}

// Decl is one declaration record.  Val is unique in the document (it identifies the record in the
// computed value).  Prop "margin" is the shorthand: it sets margin-top/right/bottom/left.
type Decl struct {
	N    int    `json:"n"`              // record id, unique in the document
	Prop string `json:"p"`              // property name as the model knows it (lower case)
	Val  int    `json:"v"`              // the integer the declaration assigns
	Imp  bool   `json:"i,omitempty"`    // !important
	Bad  bool   `json:"bad,omitempty"`  // the value is invalid for the property: must be dropped
	Text string `json:"text,omitempty"` // literal spelling when it is not the canonical one
}

// Simple is one simple selector.
type Simple struct {
	K    string    `json:"k"`           // tag | univ | id | class | attr | pc | nth | not | is | amp
	A    string    `json:"a,omitempty"` // name (tag, id, class, attribute, pseudo-class)
	Op   string    `json:"op,omitempty"`
	V    string    `json:"v,omitempty"`
	NA   int       `json:"na,omitempty"` // nth: an+b
	NB   int       `json:"nb,omitempty"`
	Args []Complex `json:"args,omitempty"`
}

// Compound is a sequence of simple selectors.
type Compound []Simple

// Complex is compounds joined by combinators (" ", ">", "+", "~").
type Complex struct {
	Parts []Compound `json:"c"`
	Combs []string   `json:"j,omitempty"`
}

// Item is a style-sheet item: style rule, @media block or @import.
type Item struct {
	Kind string `json:"kind"` // rule | media | import | raw
	// rule
	Sel    []Complex `json:"sel,omitempty"`
	Decls  []Decl    `json:"d,omitempty"`    // the rule's own declarations (they come first)
	Nested []Item    `json:"nest,omitempty"` // nested style rules, after the declarations
	// Trail: declarations written after the nested rules.  Nesting 1 (2023 CR) handles them as if
	// they came before the nested rules; the 2024 drafts keep them in place (nested declarations
	// rule).  The oracle accepts either reading and reports which one was observed.
	Trail  []Decl `json:"trail,omitempty"`
	BadSel bool   `json:"badsel,omitempty"` // selector text is invalid: the rule is dropped
	PE     string `json:"pe,omitempty"`     // pseudo-element (before | after) appended to every selector
	Var    int    `json:"var,omitempty"`    // spelling variant of @import / @media
	// media / import
	Media []string `json:"media,omitempty"` // media types; empty = all
	Items []Item   `json:"items,omitempty"`
	File  string   `json:"file,omitempty"` // import target (key of Doc.Files)
	// Sp: spelling of the import URL (0 "f.css", 1 "./f.css", 2 absolute "mem://doc/f.css"): the
	// same resource whatever the spelling
	Sp int `json:"sp,omitempty"`
	// raw: literal text the cascade model ignores (the @page rule a layout needs)
	Raw string `json:"raw,omitempty"`
}

// Sheet is a style sheet.
type Sheet struct {
	Items []Item `json:"items"`
}

// AuthorSheet is a <style> or <link> element of the head, in document order.
type AuthorSheet struct {
	Kind  string   `json:"kind"`            // style | link
	Media []string `json:"media,omitempty"` // media attribute; empty = absent
	File  string   `json:"file,omitempty"`  // link: key of Doc.Files
	Sp    int      `json:"sp,omitempty"`    // link: spelling of the href (see Item.Sp)
	Sheet *Sheet   `json:"sheet,omitempty"` // style: content
}

// Doc is the whole model.
type Doc struct {
	Root   *Elem             `json:"root"`
	UA     *Sheet            `json:"ua,omitempty"`
	UA2    *Sheet            `json:"ua2,omitempty"` // replacement of the forms UA sheet (applies when forms are on)
	PH     *Sheet            `json:"ph,omitempty"`  // replacement of the presentational-hints sheet
	User   []*Sheet          `json:"user,omitempty"`
	Author []AuthorSheet     `json:"author,omitempty"`
	Files  map[string]*Sheet `json:"files,omitempty"`
}

// ---------------------------------------------------------------------------------------------
// DOM helpers

func (d *Doc) link() {
	var walk func(e, p *Elem, i int, path string)
	walk = func(e, p *Elem, i int, path string) {
		e.parent, e.index = p, i
		e.path = path + "/" + e.Tag
		if e.ID != "" {
			e.path += "#" + e.ID
		} else if p != nil {
			e.path += "[" + strconv.Itoa(i) + "]"
		}
		for k, c := range e.Kids {
			walk(c, e, k, e.path)
		}
	}
	walk(d.Root, nil, 0, "")
}

func (d *Doc) elems() []*Elem {
	var out []*Elem
	var walk func(e *Elem)
	walk = func(e *Elem) {
		out = append(out, e)
		for _, c := range e.Kids {
			walk(c)
		}
	}
	walk(d.Root)
	return out
}

func (e *Elem) attr(name string) (string, bool) {
	switch name {
	case "id":
		return e.ID, e.ID != ""
	case "class":
		return strings.Join(e.Classes, " "), len(e.Classes) > 0
	}
	for _, a := range e.Attrs {
		if a[0] == name {
			return a[1], true
		}
	}
	return "", false
}

// ---------------------------------------------------------------------------------------------
// Selectors: matching and specificity (Selectors Level 4 §§ 5-8, 14, 17)

// Spec is a specificity triple.
type Spec [3]int

func (s Spec) less(o Spec) bool {
	for i := 0; i < 3; i++ {
		if s[i] != o[i] {
			return s[i] < o[i]
		}
	}
	return false
}

func (s Spec) add(o Spec) Spec { return Spec{s[0] + o[0], s[1] + o[1], s[2] + o[2]} }

// nestCtx is the parent rule of a nested rule: what "&" stands for.
type nestCtx struct {
	sel    []Complex
	parent *nestCtx
}

func maxSpec(list []Complex, ctx *nestCtx) Spec {
	var m Spec
	for _, c := range list {
		if s := specComplex(c, ctx); m.less(s) {
			m = s
		}
	}
	return m
}

func specComplex(c Complex, ctx *nestCtx) Spec {
	var s Spec
	for _, p := range c.Parts {
		for _, sm := range p {
			s = s.add(specSimple(sm, ctx))
		}
	}
	return s
}

func specSimple(s Simple, ctx *nestCtx) Spec {
	switch s.K {
	case "tag":
		return Spec{0, 0, 1}
	case "univ":
		return Spec{}
	case "id":
		return Spec{1, 0, 0}
	case "class", "attr", "pc", "nth":
		return Spec{0, 1, 0}
	case "not", "is":
		// "the specificity of an :is(), :not() pseudo-class is replaced by the specificity of the
		// most specific complex selector in its selector list argument"
		return maxSpec(s.Args, ctx)
	case "amp":
		// Nesting 1: "&" is equivalent to :is(parent selector list)
		if ctx == nil {
			return Spec{}
		}
		return maxSpec(ctx.sel, ctx.parent)
	}
	panic("c03 model: unknown simple selector kind " + s.K)
}

func matchList(list []Complex, e *Elem, ctx *nestCtx) bool {
	for _, c := range list {
		if matchComplex(c, e, ctx) {
			return true
		}
	}
	return false
}

func matchComplex(c Complex, e *Elem, ctx *nestCtx) bool {
	return matchFrom(c, len(c.Parts)-1, e, ctx)
}

// matchFrom: does compound i match e, with the compounds to its left matching suitably placed
// elements?
func matchFrom(c Complex, i int, e *Elem, ctx *nestCtx) bool {
	if !matchCompound(c.Parts[i], e, ctx) {
		return false
	}
	if i == 0 {
		return true
	}
	switch c.Combs[i-1] {
	case " ":
		for a := e.parent; a != nil; a = a.parent {
			if matchFrom(c, i-1, a, ctx) {
				return true
			}
		}
	case ">":
		return e.parent != nil && matchFrom(c, i-1, e.parent, ctx)
	case "+":
		return e.parent != nil && e.index > 0 && matchFrom(c, i-1, e.parent.Kids[e.index-1], ctx)
	case "~":
		if e.parent != nil {
			for k := 0; k < e.index; k++ {
				if matchFrom(c, i-1, e.parent.Kids[k], ctx) {
					return true
				}
			}
		}
	default:
		panic("c03 model: unknown combinator " + c.Combs[i-1])
	}
	return false
}

func matchCompound(cp Compound, e *Elem, ctx *nestCtx) bool {
	for _, s := range cp {
		if !matchSimple(s, e, ctx) {
			return false
		}
	}
	return true
}

func matchSimple(s Simple, e *Elem, ctx *nestCtx) bool {
	switch s.K {
	case "tag":
		return e.Tag == s.A
	case "univ":
		return true
	case "id":
		return e.ID != "" && e.ID == s.A
	case "class":
		for _, c := range e.Classes {
			if c == s.A {
				return true
			}
		}
		return false
	case "attr":
		v, ok := e.attr(s.A)
		if !ok {
			return false
		}
		switch s.Op {
		case "":
			return true
		case "=":
			return v == s.V
		case "~=":
			if s.V == "" || strings.ContainsAny(s.V, " \t\n\r\f") {
				return false
			}
			for _, w := range strings.Fields(v) {
				if w == s.V {
					return true
				}
			}
			return false
		case "|=":
			return v == s.V || strings.HasPrefix(v, s.V+"-")
		case "^=":
			return s.V != "" && strings.HasPrefix(v, s.V)
		case "$=":
			return s.V != "" && strings.HasSuffix(v, s.V)
		case "*=":
			return s.V != "" && strings.Contains(v, s.V)
		}
		panic("c03 model: unknown attribute operator " + s.Op)
	case "pc":
		switch s.A {
		case "root":
			return e.parent == nil
		case "first-child":
			return e.parent != nil && e.index == 0
		case "last-child":
			return e.parent != nil && e.index == len(e.parent.Kids)-1
		case "only-child":
			return e.parent != nil && len(e.parent.Kids) == 1
		}
		panic("c03 model: unknown pseudo-class " + s.A)
	case "nth":
		// :nth-child(an+b): the element has an+b-1 siblings before it for some n >= 0
		if e.parent == nil {
			return false
		}
		pos := e.index + 1
		d := pos - s.NB
		if s.NA == 0 {
			return d == 0
		}
		return d%s.NA == 0 && d/s.NA >= 0
	case "is":
		return matchList(s.Args, e, ctx)
	case "not":
		return !matchList(s.Args, e, ctx)
	case "amp":
		if ctx == nil {
			return false
		}
		return matchList(ctx.sel, e, ctx.parent)
	}
	panic("c03 model: unknown simple selector kind " + s.K)
}

func hasAmp(list []Complex) bool {
	for _, c := range list {
		for _, p := range c.Parts {
			for _, s := range p {
				if s.K == "amp" {
					return true
				}
				if (s.K == "is" || s.K == "not") && hasAmp(s.Args) {
					return true
				}
			}
		}
	}
	return false
}

// nestedSelectors applies the Nesting rule for relative selectors: a nested selector that does not
// contain "&" is the descendant selector "& <selector>".
func nestedSelectors(list []Complex) []Complex {
	out := make([]Complex, len(list))
	for i, c := range list {
		if hasAmp([]Complex{c}) {
			out[i] = c
			continue
		}
		nc := Complex{Parts: append([]Compound{{Simple{K: "amp"}}}, c.Parts...), Combs: append([]string{" "}, c.Combs...)}
		out[i] = nc
	}
	return out
}

// ---------------------------------------------------------------------------------------------
// Text rendering

func (s Simple) text() string {
	switch s.K {
	case "tag":
		return s.A
	case "univ":
		return "*"
	case "id":
		return "#" + s.A
	case "class":
		return "." + s.A
	case "attr":
		if s.Op == "" {
			return "[" + s.A + "]"
		}
		return "[" + s.A + s.Op + "\"" + s.V + "\"]"
	case "pc":
		return ":" + s.A
	case "nth":
		return ":nth-child(" + nthText(s.NA, s.NB) + ")"
	case "is", "not":
		return ":" + s.K + "(" + selListText(s.Args) + ")"
	case "amp":
		return "&"
	}
	panic("c03 model: unknown simple selector kind " + s.K)
}

func nthText(a, b int) string {
	switch {
	case a == 0:
		return strconv.Itoa(b)
	case b == 0:
		return strconv.Itoa(a) + "n"
	case b < 0:
		return strconv.Itoa(a) + "n" + strconv.Itoa(b)
	}
	return strconv.Itoa(a) + "n+" + strconv.Itoa(b)
}

func (c Compound) text() string {
	var b strings.Builder
	// "&" must not be followed directly by a type selector: put type/universal first
	for _, s := range c {
		if s.K == "tag" || s.K == "univ" {
			b.WriteString(s.text())
		}
	}
	for _, s := range c {
		if s.K != "tag" && s.K != "univ" {
			b.WriteString(s.text())
		}
	}
	return b.String()
}

func (c Complex) text() string {
	var b strings.Builder
	for i, p := range c.Parts {
		if i > 0 {
			if c.Combs[i-1] == " " {
				b.WriteString(" ")
			} else {
				b.WriteString(" " + c.Combs[i-1] + " ")
			}
		}
		b.WriteString(p.text())
	}
	return b.String()
}

func selListText(l []Complex) string {
	parts := make([]string, len(l))
	for i, c := range l {
		parts[i] = c.text()
	}
	return strings.Join(parts, ", ")
}

func (d Decl) text() string {
	if d.Text != "" {
		return d.Text
	}
	v := strconv.Itoa(d.Val)
	switch d.Prop {
	case "width", "height", "margin", "margin-top", "margin-left":
		v += "px"
	}
	s := d.Prop + ":" + v
	if d.Imp {
		s += " !important"
	}
	return s
}

func declsText(ds []Decl) string {
	parts := make([]string, len(ds))
	for i, d := range ds {
		parts[i] = d.text()
	}
	return strings.Join(parts, ";")
}

func (it Item) text(b *strings.Builder) {
	switch it.Kind {
	case "rule":
		if it.BadSel {
			b.WriteString(selListText(it.Sel) + ":::{" + declsText(it.Decls) + "}\n")
			return
		}
		if it.PE != "" {
			for i, c := range it.Sel {
				if i > 0 {
					b.WriteString(", ")
				}
				b.WriteString(c.text() + "::" + it.PE)
			}
		} else {
			b.WriteString(selListText(it.Sel))
		}
		b.WriteString("{")
		b.WriteString(declsText(it.Decls))
		if len(it.Nested) > 0 {
			if len(it.Decls) > 0 {
				b.WriteString(";")
			}
			b.WriteString("\n")
			for _, n := range it.Nested {
				n.text(b)
			}
			b.WriteString(declsText(it.Trail))
		}
		b.WriteString("}\n")
	case "media":
		kw := "@media"
		if it.Var%2 == 1 {
			kw = "@MEDIA"
		}
		if len(it.Media) > 0 {
			kw += " " + strings.Join(it.Media, ", ")
		}
		b.WriteString(kw + "{\n")
		for _, n := range it.Items {
			n.text(b)
		}
		b.WriteString("}\n")
	case "import":
		u := urlText(it.File, it.Sp)
		switch it.Var % 4 {
		case 0:
			b.WriteString("@import \"" + u + "\"")
		case 1:
			b.WriteString("@import url(" + u + ")")
		case 2:
			b.WriteString("@import url( \"" + u + "\" )")
		case 3:
			b.WriteString("@IMPORT '" + u + "'")
		}
		if len(it.Media) > 0 {
			b.WriteString(" " + strings.Join(it.Media, ", "))
		}
		b.WriteString(";\n")
	case "raw":
		b.WriteString(it.Raw + "\n")
	default:
		panic("c03 model: unknown item kind " + it.Kind)
	}
}

// urlText spells the URL of a file of the document (all files live in mem://doc/, the base URL of
// the document and of every sheet).
func urlText(file string, sp int) string {
	switch sp % 3 {
	case 1:
		return "./" + file
	case 2:
		return "mem://doc/" + file
	}
	return file
}

func (s *Sheet) text() string {
	if s == nil {
		return ""
	}
	var b strings.Builder
	for _, it := range s.Items {
		it.text(&b)
	}
	return b.String()
}

func (e *Elem) html(b *strings.Builder, d *Doc) {
	if e.Sheet > 0 {
		a := d.Author[e.Sheet-1]
		media := ""
		if len(a.Media) > 0 {
			media = " media=\"" + strings.Join(a.Media, ", ") + "\""
		}
		if a.Kind == "link" {
			b.WriteString("<link rel=\"stylesheet\" href=\"" + urlText(a.File, a.Sp) + "\"" + media + ">")
		} else {
			b.WriteString("<style" + media + ">\n" + a.Sheet.text() + "</style>")
		}
		return
	}
	b.WriteString("<" + e.Tag)
	if e.ID != "" {
		b.WriteString(" id=\"" + e.ID + "\"")
	}
	if len(e.Classes) > 0 {
		b.WriteString(" class=\"" + strings.Join(e.Classes, " ") + "\"")
	}
	for _, a := range e.Attrs {
		b.WriteString(" " + a[0] + "=\"" + a[1] + "\"")
	}
	for _, h := range e.HAttrs {
		b.WriteString(" " + h.Name + "=\"" + strconv.Itoa(h.Val) + "\"")
	}
	if len(e.Style) > 0 {
		b.WriteString(" style=\"" + declsText(e.Style) + "\"")
	}
	b.WriteString(">")
	if voidTags[e.Tag] {
		return
	}
	for _, c := range e.Kids {
		c.html(b, d)
	}
	b.WriteString("</" + e.Tag + ">")
}

var voidTags = map[string]bool{"img": true, "link": true, "hr": true, "br": true}

// Rendered is the text handed to webrender.
type Rendered struct {
	HTML  string            `json:"html"`
	Files map[string]string `json:"files,omitempty"`
	User  []string          `json:"user,omitempty"`
	UA    string            `json:"ua"`
	UA2   string            `json:"ua2,omitempty"`
	PH    string            `json:"ph,omitempty"`
}

func (d *Doc) render() Rendered {
	var b strings.Builder
	b.WriteString("<!DOCTYPE html>")
	d.Root.html(&b, d)
	r := Rendered{HTML: b.String(), UA: d.UA.text(), UA2: d.UA2.text(), PH: d.PH.text()}
	if len(d.Files) > 0 {
		r.Files = map[string]string{}
		names := make([]string, 0, len(d.Files))
		for k := range d.Files {
			names = append(names, k)
		}
		sort.Strings(names)
		for _, k := range names {
			r.Files[k] = d.Files[k].text()
		}
	}
	for _, u := range d.User {
		r.User = append(r.User, u.text())
	}
	return r
}

func (d Decl) String() string {
	return fmt.Sprintf("#%d{%s}", d.N, d.text())
}
