//go:build pC01 || pall

package props

import _ "verif/props/c01"
