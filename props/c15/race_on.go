//go:build race

package c15

const raceOn = true
