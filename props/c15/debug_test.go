package c15

import (
	"encoding/json"
	"fmt"
	"os"
	"strconv"
	"strings"
	"testing"

	"github.com/benoitkugler/webrender/html/document"
	"github.com/benoitkugler/webrender/html/tree"
	"github.com/benoitkugler/webrender/utils"

	"verif/internal/rec"
	"verif/internal/wr"
)

// go test -tags verif -run TestRepeat ./props/c15/  with C15_FILE=<witness.json> C15_N=<renders>
func TestRepeat(t *testing.T) {
	f := os.Getenv("C15_FILE")
	if f == "" {
		t.Skip()
	}
	n, _ := strconv.Atoi(os.Getenv("C15_N"))
	if n == 0 {
		n = 100
	}
	b, _ := os.ReadFile(f)
	var w struct{ Input input }
	if err := json.Unmarshal(b, &w); err != nil {
		t.Fatal(err)
	}
	wr.Quiet()
	installHook()
	for di := range w.Input.Docs {
		seen := map[string]int{}
		var firstO *outcome
		for i := 0; i < n; i++ {
			o, _ := render(&w.Input.Docs[di], renderOpts{hook: true})
			h := hashStr(o.anchorsSorted())
			if seen[h] == 0 && firstO != nil {
				fmt.Printf("doc %d render %d maxoof %d: %s\n", di, i, o.MaxOOF, diff(firstO, o))
			}
			if firstO == nil {
				firstO = o
				if os.Getenv("C15_DUMP") != "" {
					for _, l := range o.Lines {
						if strings.HasPrefix(l, os.Getenv("C15_DUMP")) {
							fmt.Println(trunc(l, 200))
						}
					}
				}
			}
			seen[h]++
		}
		fmt.Println("doc", di, "distinct traces (anchors sorted):", seen, "maxoof", firstO.MaxOOF)
	}
}

func TestPanics(t *testing.T) {
	if os.Getenv("C15_PANICS") == "" {
		t.Skip()
	}
	wr.Quiet()
	installHook()
	n, _ := strconv.Atoi(os.Getenv("C15_N"))
	sites := map[string]int{}
	kinds := map[string]int{}
	ex := map[string]string{}
	for i := 0; i < n; i++ {
		in := genCase(1, i, "thorough")
		for di := range in.Docs {
			d := &in.Docs[di]
			o, _ := render(d, renderOpts{hook: true})
			k := "hostile"
			if len(d.HTML) > 30 && d.HTML[:26] == "<!DOCTYPE html><html lang=" && d.UA != "" {
				k = "biased+ua"
			} else if len(d.HTML) > 30 && d.HTML[:26] == "<!DOCTYPE html><html lang=" {
				k = "biased"
			}
			kinds[k+":"+o.Kind]++
			if paintMutates(d) {
				kinds[k+":paintMutates"]++
			}
			if o.Kind != "trace" {
				sites[k+" "+o.Lines[0]]++
				if ex[k+" "+o.Lines[0]] == "" {
					b, _ := json.Marshal(map[string]any{"property": "C15", "input": input{Kind: "det", Docs: []cdoc{*d}}})
					ex[k+" "+o.Lines[0]] = string(b)
				}
			}
		}
	}
	fmt.Println(kinds)
	j := 0
	for s, c := range sites {
		fmt.Println(c, s)
		os.WriteFile(fmt.Sprintf("/tmp/c15/panic%d.json", j), []byte(ex[s]), 0o644)
		fmt.Printf("   /tmp/c15/panic%d.json\n", j)
		j++
	}
}

func TestStack(t *testing.T) {
	f := os.Getenv("C15_STACK")
	if f == "" {
		t.Skip()
	}
	b, _ := os.ReadFile(f)
	var w struct{ Input input }
	json.Unmarshal(b, &w)
	wr.Quiet()
	installHook()
	d := &w.Input.Docs[0]
	fmt.Println(d.HTML)
	_, _ = wr.Render(wr.Opts{HTML: d.HTML, UserCSS: d.UserCSS, Hints: d.Hints, Engine: d.Engine, Files: d.Files})
	fmt.Println("plain render OK; with UA:")
	renderRaw(d)
}

// TestBisect drops body blocks (lines between <body> and </body>) while the outcome stays a panic.
func TestBisect(t *testing.T) {
	f := os.Getenv("C15_BISECT")
	if f == "" {
		t.Skip()
	}
	b, _ := os.ReadFile(f)
	var w struct{ Input input }
	json.Unmarshal(b, &w)
	wr.Quiet()
	installHook()
	d := w.Input.Docs[0]
	i := strings.Index(d.HTML, "<body>")
	j := strings.Index(d.HTML, "</body>")
	head, tail := d.HTML[:i+6], d.HTML[j:]
	blocks := strings.Split(d.HTML[i+6:j], "\n")
	bad := func(bl []string) bool {
		dd := d
		dd.HTML = head + strings.Join(bl, "\n") + tail
		o, _ := render(&dd, renderOpts{})
		return o.Kind == "panic"
	}
	if !bad(blocks) {
		t.Fatal("does not panic")
	}
	for k := 0; k < len(blocks); {
		try := append(append([]string{}, blocks[:k]...), blocks[k+1:]...)
		if bad(try) {
			blocks = try
		} else {
			k++
		}
	}
	fmt.Println(strings.Join(blocks, "\n"))
	fmt.Println("engine", d.Engine, "hints", d.Hints, "usercss", d.UserCSS)
}

func TestMutates(t *testing.T) {
	if os.Getenv("C15_MUT") == "" {
		t.Skip()
	}
	hits := map[string]int{}
	for i := 0; i < 60; i++ {
		in := genCase(1, i, "thorough")
		for di := range in.Docs {
			tx := strings.ToLower(docText(&in.Docs[di]))
			for _, k := range []string{"block-ellipsis", "line-clamp", "max-lines", "marks"} {
				if strings.Contains(tx, k) {
					hits[k]++
					if k == "marks" {
						j := strings.Index(tx, k)
						fmt.Println(tx[max(0, j-30) : j+10])
					}
				}
			}
		}
	}
	fmt.Println(hits)
}

func TestHyph(t *testing.T) {
	if os.Getenv("C15_HY") == "" {
		t.Skip()
	}
	wr.Quiet()
	installHook()
	tot, hy, hyd := 0, 0, 0
	for i := 0; i < 30; i++ {
		in := genCase(1, i, "quick")
		for di := range in.Docs {
			d := &in.Docs[di]
			if !d.Biased || !strings.Contains(d.HTML, `class="hy"`) {
				continue
			}
			tot++
			o, _ := render(d, renderOpts{})
			found := false
			for _, l := range o.Lines {
				if strings.HasPrefix(l, "DrawText") && (strings.Contains(l, "-\"") || strings.Contains(l, "‐\"")) {
					found = true
				}
			}
			if found {
				hyd++
			}
			hy++
		}
	}
	fmt.Println("docs with class hy:", tot, "rendered", hy, "with a hyphenated line:", hyd)
}

func TestConc(t *testing.T) {
	if os.Getenv("C15_CONC") == "" {
		t.Skip()
	}
	from, _ := strconv.Atoi(os.Getenv("C15_CONC"))
	in := genCase(1, from, "quick")
	nh := 0
	for _, d := range in.Docs {
		if strings.Contains(d.HTML, `class="hy"`) {
			nh++
		}
	}
	raw, _ := json.Marshal(in)
	res := check(raw)
	fmt.Println("kind", in.Kind, "hy docs", nh, "verdict", res.Verdict, res.Sig, trunc(res.Msg, 3000), res.Counters)
}

func TestColdHy(t *testing.T) {
	if os.Getenv("C15_COLD") == "" {
		t.Skip()
	}
	wr.Quiet()
	installHook()
	var docs []cdoc
	for i := 0; len(docs) < 4; i++ {
		in := genCase(1, i, "quick")
		for _, d := range in.Docs {
			if d.Biased && d.Engine == "" && strings.Contains(d.HTML, `class="hy"`) && len(docs) < 4 {
				docs = append(docs, d)
			}
		}
	}
	done := make(chan string)
	for g := 0; g < 4; g++ {
		go func(g int) {
			o, _ := render(&docs[g], renderOpts{})
			done <- o.Kind
		}(g)
	}
	for g := 0; g < 4; g++ {
		fmt.Println(<-done)
	}
	fmt.Println("race log:", raceLogPath(), raceLogSize())
}

func TestRefFirst(t *testing.T) {
	if os.Getenv("C15_REFFIRST") == "" {
		t.Skip()
	}
	for i := 120; i < 136; i++ {
		in := genCase(1, i, "quick")
		nh := 0
		for _, d := range in.Docs {
			if d.Engine == "" && strings.Contains(d.HTML, `class="hy"`) {
				nh++
			}
		}
		fmt.Println(i, "refFirst", hashStr(in.Docs[0].HTML)[0]%3 == 0, "pango hy docs", nh)
	}
}

// renderRaw is render without recover (debugging aid: shows the stack of a panic).
func renderRaw(d *cdoc) {
	fonts, _ := fontsFor(d.Engine)
	html, err := tree.NewHTML(utils.InputString(d.HTML), "mem://doc/", wr.MemFetcher(d.Files), "")
	if err != nil {
		return
	}
	if d.UA != "" {
		html.UAStyleSheet = parseUA(d.UA).css
	}
	var sheets []tree.CSS
	for _, u := range d.UserCSS {
		css, _ := tree.NewCSSDefault(utils.InputString(u))
		sheets = append(sheets, css)
	}
	doc := document.Render(html, sheets, d.Hints, fonts)
	r := rec.New()
	doc.Write(r, 1, nil)
}

func TestTooLong(t *testing.T) {
	f := os.Getenv("C15_TOOLONG")
	if f == "" {
		t.Skip()
	}
	b, _ := os.ReadFile(f)
	var w struct{ Input input }
	json.Unmarshal(b, &w)
	wr.Quiet()
	installHook()
	for di := range w.Input.Docs {
		o, _ := render(&w.Input.Docs[di], renderOpts{hook: true})
		fmt.Println(di, o.Kind, o.Pages, len(o.Lines))
		if o.Kind == "toolong" {
			fmt.Println(w.Input.Docs[di].HTML)
			fmt.Println(w.Input.Docs[di].UserCSS)
		}
	}
}
