package c15

import (
	"encoding/json"
	"fmt"
	"os"
	"strconv"
	"testing"

	"verif/internal/wr"
)

// go test -tags verif -run TestRepeat ./props/c15/  with C15_FILE=<witness.json> C15_N=<renders>
func TestRepeat(t *testing.T) {
	f := os.Getenv("C15_FILE")
	if f == "" {
		t.Skip()
	}
	n, _ := strconv.Atoi(os.Getenv("C15_N"))
	if n == 0 {
		n = 100
	}
	b, _ := os.ReadFile(f)
	var w struct{ Input input }
	if err := json.Unmarshal(b, &w); err != nil {
		t.Fatal(err)
	}
	wr.Quiet()
	for di := range w.Input.Docs {
		seen := map[string]int{}
		var firstO *outcome
		for i := 0; i < n; i++ {
			o, _ := render(&w.Input.Docs[di], renderOpts{hook: true})
			h := hashStr(o.anchorsSorted())
			if seen[h] == 0 && firstO != nil {
				fmt.Printf("doc %d render %d maxoof %d: %s\n", di, i, o.MaxOOF, diff(firstO, o))
			}
			if firstO == nil {
				firstO = o
			}
			seen[h]++
		}
		fmt.Println("doc", di, "distinct traces (anchors sorted):", seen, "maxoof", firstO.MaxOOF)
	}
}
