package c15

import (
	"fmt"
	"os"
	"sort"
	"strings"
)

// The worker is started by the driver with GORACE="halt_on_error=0 log_path=<base>.race": the race
// detector appends its reports to <base>.race.<pid>.  Reading that file before and after the
// concurrent part of a case attributes the reports to the case (so that the witness carries the
// documents); the driver independently turns every report of every log file into a violation.

func raceLogPath() string {
	for _, f := range strings.Fields(os.Getenv("GORACE")) {
		if strings.HasPrefix(f, "log_path=") {
			return fmt.Sprintf("%s.%d", strings.TrimPrefix(f, "log_path="), os.Getpid())
		}
	}
	return ""
}

func raceLogSize() int64 {
	p := raceLogPath()
	if p == "" {
		return 0
	}
	st, err := os.Stat(p)
	if err != nil {
		return 0
	}
	return st.Size()
}

func newRaceReports(from int64) []string {
	p := raceLogPath()
	if p == "" {
		return nil
	}
	b, err := os.ReadFile(p)
	if err != nil || int64(len(b)) <= from {
		return nil
	}
	var out []string
	for _, blk := range strings.Split(string(b[from:]), "==================") {
		if strings.Contains(blk, "WARNING: DATA RACE") {
			out = append(out, blk)
		}
	}
	return out
}

const modPrefix = "github.com/benoitkugler/webrender/"

// raceSig mirrors internal/fw's signature: the innermost webrender frames of the accesses.
func raceSig(blk string) string {
	var frames []string
	for _, part := range strings.Split(blk, "\n\n") {
		head := strings.TrimSpace(part)
		if !(strings.HasPrefix(head, "WARNING: DATA RACE") || strings.HasPrefix(head, "Previous ") || strings.HasPrefix(head, "Read at") || strings.HasPrefix(head, "Write at")) {
			continue
		}
		fr := "?"
		for _, l := range strings.Split(part, "\n") {
			l = strings.TrimSpace(l)
			if strings.HasPrefix(l, modPrefix) {
				fr = strings.TrimPrefix(l, modPrefix)
				if j := strings.LastIndex(fr, "("); j > 0 {
					fr = fr[:j]
				}
				break
			}
		}
		frames = append(frames, fr)
	}
	sort.Strings(frames)
	return "race@" + strings.Join(frames, "|")
}
