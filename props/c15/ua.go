package c15

import (
	"math/rand"
	"strings"

	"github.com/benoitkugler/webrender/html/tree"
	"github.com/benoitkugler/webrender/utils"

	"verif/internal/gen"
)

// A replacement user-agent style sheet (tree.HTML.UAStyleSheet is an exported field): the basic
// display rules of the HTML elements the biased generator uses, plus generated rules whose values
// need per-element computation (em lengths inside gradients, border-image-outset, grid-auto-*,
// background-size/position, transforms, ...).  The parsed sheet object is reused by many renders,
// exactly like the built-in one: a computed-value function that writes into the declared value it was
// given shows up as a history dependence (sequential reuse) or as a data race (concurrent reuse).

const uaBase = `
@page { margin: 75px; @footnote { margin-top: 1em } @top-left { text-align: left; vertical-align: middle } @top-center { text-align: center; vertical-align: middle } @top-right { text-align: right; vertical-align: middle } @bottom-left { text-align: left; vertical-align: middle } @bottom-center { text-align: center; vertical-align: middle } @bottom-right { text-align: right; vertical-align: middle } }
*[id] { -weasy-anchor: attr(id); }
a[name] { -weasy-anchor: attr(name); }
*[lang] { -weasy-lang: attr(lang); }
a[href] { -weasy-link: attr(href); }
a:link { color: #0000EE; text-decoration: underline; }
html, body, div, p, h1, h2, h3, ul, ol, section, blockquote { display: block; }
head, title, meta, link, style, script { display: none; }
body { margin: 8px; }
p { margin-top: 1em; margin-bottom: 1em; }
h1 { font-size: 2em; font-weight: bold; margin-top: .67em; margin-bottom: .67em; bookmark-level: 1; bookmark-label: content(text); }
h2 { font-size: 1.5em; font-weight: bold; margin-top: .83em; margin-bottom: .83em; bookmark-level: 2; bookmark-label: content(text); }
h3 { font-size: 1.17em; font-weight: bold; margin-top: 1em; margin-bottom: 1em; bookmark-level: 3; bookmark-label: content(text); }
b { font-weight: bold; }
li { display: list-item; }
ol, ul { counter-reset: list-item; margin-top: 1em; margin-bottom: 1em; padding-left: 40px; }
ol { list-style-type: decimal; }
ul { list-style-type: disc; }
table { display: table; border-spacing: 2px; border-collapse: separate; box-sizing: border-box; text-indent: 0; }
tbody { display: table-row-group; }
tr { display: table-row; }
td { display: table-cell; padding: 1px; }
img { display: inline-block; }
::marker { unicode-bidi: isolate; font-variant-numeric: tabular-nums; }
q::before { content: open-quote; }
q::after { content: close-quote; }
::footnote-call { content: counter(footnote); vertical-align: super; font-size: smaller; line-height: inherit; }
::footnote-marker { content: counter(footnote) '. '; }
`

var uaExtras = []string{
	`p { background-image: linear-gradient(red 1em, blue 3em); }`,
	`div { background-image: radial-gradient(circle 2em at 1em 1em, red 0.5em, blue 2em); }`,
	`p { background-image: repeating-linear-gradient(45deg, red 0, blue 0.5em); background-size: 4em 2em; background-position: 0.5em 1em; }`,
	`p, div { border-image-source: linear-gradient(red, blue); border-image-outset: 1em; border-image-width: 0.5em; border: 1px solid; }`,
	`div { grid-auto-rows: 2em; grid-auto-columns: 3em; }`,
	`div { grid-template-columns: 2em 1fr; }`,
	`h1, h2 { text-indent: 1em; letter-spacing: 0.1em; word-spacing: 0.2em; }`,
	`li { text-indent: 0.5em; margin-left: 1em; }`,
	`td { padding: 0.3em; border: 0.1em solid; }`,
	`table { border-spacing: 0.2em 0.4em; }`,
	`p { border-radius: 0.5em 1em; outline: 0.1em solid red; outline-offset: 0.2em; border: 1px solid; }`,
	`div { transform: translate(0.5em, 0.25em); transform-origin: 1em 1em; }`,
	`p { text-decoration: underline; text-underline-offset: 0.1em; text-decoration-thickness: 0.1em; }`,
	`div { column-gap: 1em; column-rule: 0.1em solid; }`,
	`p { tab-size: 2em; line-height: 1.5em; vertical-align: 0.2em; }`,
	`img { width: 2em; height: 1em; }`,
	`body { margin: 1em 0.5em; }`,
	`p { min-height: 1em; max-width: 30em; padding: 0.1em 0.2em; }`,
	`h3 { string-set: hd content(text) "~"; bookmark-label: "H:" content(text); }`,
	`p::before { content: "\2022"; margin-right: 0.5em; }`,
	`li::marker { content: counter(list-item, lower-roman) ") "; }`,
	`p { background-image: url(` + gen.PNG1 + `), linear-gradient(to right, red 10%, blue 2em); background-repeat: space; }`,
	`div { box-shadow: none; clip: rect(0, 10em, 10em, 0); }`,
	`p { hyphenate-limit-zone: 1em; hyphenate-character: "-"; }`,
	`@page { margin: 1em; @bottom-left { content: "ua " counter(page); font-size: 0.8em; margin: 0.2em } }`,
}

func uaSheet(r *rand.Rand) string {
	var parts []string
	n := 2 + r.Intn(5)
	for i := 0; i < n; i++ {
		parts = append(parts, gen.Pick(r, uaExtras))
	}
	return uaBase + strings.Join(parts, "\n")
}

type uaHolder struct{ css tree.CSS }

func parseUA(text string) *uaHolder {
	css, err := tree.NewCSSDefault(utils.InputString(text))
	if err != nil {
		panic("harness: user-agent sheet does not parse: " + err.Error())
	}
	return &uaHolder{css: css}
}
