package c15

import (
	"fmt"
	"hash/crc32"
	"math/rand"
	"strings"

	"verif/internal/gen"
)

// Document generator biased towards the process-global tables and the map-iteration sites named in
// the property's anchors: many ids/anchors and internal links per page (Document.resolveLinks),
// floats and absolutely positioned boxes taller than a page (layoutContext.brokenOutOfFlow),
// string-set / running elements / margin boxes (layoutContext.stringSet, runningElements),
// target-counter / target-text (TargetCollector.CounterLookupItems), ::before/::after/::marker on many
// elements (pseudo-element pass of GetAllComputedStyles ranges over a map), @counter-style (shared
// UACounterStyle), hyphenation in three languages (shared dictionary cache), data-URI images,
// @font-face, tables / flex / grid / columns, both text engines, invalid declarations (shared
// warning logger).

var pngDot = gen.PNG1

const svgData = "data:image/svg+xml,%3Csvg xmlns='http://www.w3.org/2000/svg' width='12' height='8'%3E%3Crect width='6' height='4' fill='green'/%3E%3Ccircle cx='8' cy='4' r='3' fill='blue'/%3E%3C/svg%3E"

var hyphWords = map[string][]string{
	"en": {"hyphenation", "extraordinarily", "internationalization", "representative", "characteristically", "uncomfortable", "determination"},
	"fr": {"anticonstitutionnellement", "particulièrement", "développement", "extraordinaire", "malheureusement", "bibliothèque"},
	"de": {"Donaudampfschifffahrt", "Geschwindigkeitsbegrenzung", "Lebensversicherung", "Verantwortung", "Wahrscheinlichkeit", "Freundschaftsbeziehungen"},
	"nl": {"lettergrepen", "verantwoordelijkheid", "onafhankelijkheid"},
}

var plainWords = []string{"ab", "cde", "fghi", "jk", "lmnop", "q", "rst", "uvwx", "yz", "alpha", "beta", "gamma", "delta"}

type dg struct {
	r      *rand.Rand
	gotext bool
	ids    []string
	nid    int
	css    []string
	body   []string
	broke  int // out-of-flow boxes taller than the page emitted so far
	// gridFr: the grids of this document use flexible (fr) tracks and no item spans several tracks;
	// otherwise items may span and no track is flexible (see gridSpanFlexDefectOpen; with the constant
	// false both are allowed in every document)
	gridFr bool
	small  bool
}

// Known-defect switches of the generator (genuine defects of the unchanged tree, notes/C15.md
// "Genuine defects" 5-8).  While a constant is true the biased generator does not emit the triggering
// feature combination, and documents of the other generator that contain it are left out of the
// comparisons (knownDefectDomain in c15.go).  Set a constant to false once the defect is repaired.
const (
	// grid.go resolveTracksSizes 1.2.3 indexes the sizing functions with the position of the item in
	// the iteration over the map childrenPositions: whether an item spanning several tracks counts as
	// "spanning a flexible track" depends on map order (findings/C15/grid-span-flex-order.json).
	// Trigger: an item spanning >= 2 tracks in an axis that has an fr track.
	gridSpanFlexDefectOpen = false
	// grid.go resolveTracksSizes 1.2.2 ('y'): the items of a row are measured in map order, each with
	// the running maximum of the previous ones as the height of its containing block: a percentage
	// height of an item resolves against what happened to be measured before it
	// (findings/C15/grid-row-percent-height-order.json).  Trigger: percentage height on a grid item.
	gridPercentHeightDefectOpen = false
	// text/quotes.go GetLangQuotes ranges over the map langQuotes and takes the first key that is a
	// prefix of the language: "fr_CA_x" gets the quotes of "fr" or of "fr_CA"
	// (findings/C15/lang-quotes-prefix-order.json).  Trigger: quotes: auto and a language that is not a
	// key itself and has two keys as prefixes.
	langQuotesPrefixDefectOpen = false
	// svg/tree.go inheritDefs ranges over the map of definitions: with a cycle of href references
	// between gradients what each one inherits depends on where the iteration enters the cycle
	// (findings/C15/svg-gradient-href-cycle-order.json).  Trigger: href cycle of length >= 2.
	svgHrefCycleDefectOpen = false
	// grid.go resolveTracksSizes measures the items by laying them out in map order with the real
	// layout context: the footnotes of the items are appended to the page's footnote area in that order
	// (findings/C15/grid-footnote-order.json).  Trigger: footnotes in two items of a grid.
	gridFootnoteOrderDefectOpen = false
)

func (g *dg) frOK() bool   { return !gridSpanFlexDefectOpen || g.gridFr }
func (g *dg) spanOK() bool { return !gridSpanFlexDefectOpen || !g.gridFr }

// languages with region / script / variant subtags.  langsSafe: at most one key of webrender's
// quotes table can be a prefix (the table's keys use "_", BCP 47 tags use "-"), or the tag is a key.
var langsSafe = []string{"en", "fr", "de", "nl", "en-GB", "en-US", "fr-CA", "fr-CH", "de-AT", "de-CH-1996", "nl-BE", "it-CH", "pt-BR", "hu", "ja", "zh-Hant", "sr-Latn-RS", "fr_CA", "fr_CH", "el_POLYTON", "kkj", "und", "x-k", "FR", "ru"}

// langsAmbiguous: not a key, and two keys are prefixes (different quotes except for sr_Latn_RS).
var langsAmbiguous = []string{"fr_CA_x", "fr_CH_1996", "bs_Cyrl_BA", "el_POLYTON_x", "it_CH_x", "oc_ES_aranes", "ti_ER_x", "kkj-CM", "kab-DZ", "kabx", "sr_Latn_RS"}

const explicitQuotes = `quotes: '<' '>' '(' ')'`

// langAttr returns ` lang="…"` (+ an inline style when the language needs explicit quotes).
func (g *dg) langAttr(extraStyle string) string {
	r := g.r
	if r.Intn(3) == 0 {
		l := gen.Pick(r, langsAmbiguous)
		st := extraStyle
		if langQuotesPrefixDefectOpen || r.Intn(3) == 0 {
			st = explicitQuotes + "; " + st
		}
		return fmt.Sprintf(` lang="%s" data-la style="%s"`, l, st)
	}
	if extraStyle != "" {
		return fmt.Sprintf(` lang="%s" data-ls style="%s"`, gen.Pick(r, langsSafe), extraStyle)
	}
	return fmt.Sprintf(` lang="%s" data-ls`, gen.Pick(r, langsSafe))
}

// quoted returns nested <q> elements, depth levels deep, some with their own language.
func (g *dg) quoted(depth int) string {
	r := g.r
	if depth <= 0 {
		return g.words(1)
	}
	la := ""
	if r.Intn(3) == 0 {
		la = g.langAttr("")
	}
	return fmt.Sprintf(`%s <q%s data-q%d>%s</q> %s`, g.words(1), la, depth, g.quoted(depth-1), gen.Pick(r, []string{"", g.words(1)}))
}

// langSection: language-dependent features: quotes: auto under languages with subtags, nested <q>,
// open-quote / close-quote in pseudo-elements, :lang(), hyphenation with regional tags.
func (g *dg) langSection() {
	r := g.r
	switch r.Intn(4) {
	case 0:
		g.body = append(g.body, fmt.Sprintf(`<p%s>%s</p>`, g.langAttr(""), g.quoted(2+r.Intn(3))))
	case 1:
		g.body = append(g.body, fmt.Sprintf(`<div%s><p class="oq">%s</p><p class="oq"%s>%s <span class="oq">%s</span></p></div>`, g.langAttr(""), g.words(2), g.langAttr(""), g.words(1), g.quoted(1)))
	case 2:
		// hyphenation under a regional tag of a language with a dictionary
		lang := gen.Pick(r, []string{"en-GB", "en-US", "fr-CA", "fr-CH", "de-AT", "de-CH-1996", "nl-BE", "fr_CA", "FR"})
		var p []string
		for i := 0; i < 3+r.Intn(4); i++ {
			p = append(p, gen.Pick(r, hyphWords[strings.ToLower(lang[:2])]))
		}
		cls := "hy"
		if g.gotext {
			cls = "hm"
			for i := range p {
				if rs := []rune(p[i]); len(rs) > 8 {
					p[i] = string(rs[:4]) + "\u00ad" + string(rs[4:8]) + "\u00ad" + string(rs[8:])
				}
			}
		}
		g.body = append(g.body, fmt.Sprintf(`<p lang="%s" data-ls class="%s" style="width:%dpx">%s <q>%s</q></p>`, lang, cls, 60+10*r.Intn(8), strings.Join(p, " "), g.words(1)))
	default:
		n := 2 + r.Intn(3)
		var sb strings.Builder
		for i := 0; i < n; i++ {
			fmt.Fprintf(&sb, `<li%s><q>%s</q> %s</li>`, g.langAttr(""), g.quoted(1), g.words(1))
		}
		g.body = append(g.body, "<ul>"+sb.String()+"</ul>")
	}
}

var (
	tracksFixed = []string{"20px", "30px", "2em", "45px", "25%", "auto", "auto", "min-content", "max-content", "minmax(10px, auto)", "minmax(min-content, 40px)", "minmax(20px, max-content)", "minmax(auto, 50px)"}
	tracksFlex  = []string{"1fr", "2fr", "1fr", "minmax(10px, 1fr)", "minmax(min-content, 1fr)", "minmax(auto, 2fr)", "1.5fr"}
)

func (g *dg) track() string {
	if g.frOK() && g.r.Intn(3) == 0 {
		return gen.Pick(g.r, tracksFlex)
	}
	return gen.Pick(g.r, tracksFixed)
}

func (g *dg) trackList(n int) string {
	r := g.r
	var t []string
	for i := 0; i < n; i++ {
		t = append(t, g.track())
	}
	if n >= 2 && n%2 == 0 && r.Intn(4) == 0 {
		return fmt.Sprintf("repeat(%d, %s)", n/2, strings.Join(t[:2], " "))
	}
	if r.Intn(6) == 0 {
		t[0] = "[first] " + t[0]
		t[len(t)-1] += " [last]"
	}
	return strings.Join(t, " ")
}

// grid emits a grid container: explicit templates with fixed / intrinsic / minmax / fr tracks,
// implicit tracks, auto-placed and explicitly placed items, items spanning several tracks, alignment
// keywords, nested grids.
func (g *dg) grid(depth int) string {
	r := g.r
	ncols := 2 + r.Intn(3)
	mark := ""
	if depth > 0 {
		mark += " data-gn"
	}
	st := []string{"display:" + gen.Pick(r, []string{"grid", "grid", "grid", "inline-grid"}), "grid-template-columns: " + g.trackList(ncols)}
	nrows := 0
	if r.Intn(2) == 0 {
		nrows = 1 + r.Intn(3)
		st = append(st, "grid-template-rows: "+g.trackList(nrows))
	}
	if r.Intn(3) == 0 {
		st = append(st, fmt.Sprintf("height:%dpx", 40+10*r.Intn(6)))
	}
	if r.Intn(2) == 0 {
		st = append(st, gen.Pick(r, []string{"gap:2px", "gap: 1px 4px", "column-gap: 3px", "row-gap: 0.5em"}))
	}
	if r.Intn(3) == 0 {
		st = append(st, "grid-auto-flow:"+gen.Pick(r, []string{"row", "column", "row", "column"}))
	}
	if r.Intn(3) == 0 {
		st = append(st, "grid-auto-rows:"+gen.Pick(r, []string{"auto", "15px", "min-content", "minmax(10px, auto)", "20px 10px"}))
	}
	if r.Intn(4) == 0 {
		st = append(st, "grid-auto-columns:"+gen.Pick(r, []string{"auto", "20px", "min-content"}))
	}
	if r.Intn(4) == 0 {
		st = append(st, gen.Pick(r, []string{"justify-content:center", "justify-content:space-between", "align-content:end", "justify-items:center", "align-items:start", "justify-content:space-evenly; align-content:space-around"}))
	}
	if strings.Contains(strings.Join(st, ";"), "fr") {
		mark += " data-gf"
	}
	n := 3 + r.Intn(7)
	var sb strings.Builder
	for i := 0; i < n; i++ {
		var is []string
		span := false
		switch k := r.Intn(10); {
		case k < 4: // auto placement
		case k < 6 && g.spanOK():
			// spans stay inside the explicit columns: items that need implicit columns (a span wider than
			// the template, a line beyond it, dense packing) often panic in gridLayout / resolveTracksSizes
			// (slice bounds; C01's domain, findings/C15/crash-grid-*.json)
			// (auto-placed column spans overflow the last column the same way: the column of a spanning
			// item is always given)
			a := 1 + r.Intn(ncols-1)
			c := []string{fmt.Sprintf("grid-column: %d / span 2", a), fmt.Sprintf("grid-column: %d / span 2", a), "grid-row: span 2", fmt.Sprintf("grid-column: %d / span 2; grid-row: span 2", a)}
			if ncols >= 3 {
				c = append(c, fmt.Sprintf("grid-column: %d / span 3", 1+r.Intn(ncols-2)))
			}
			is = append(is, gen.Pick(r, c))
			span = true
		case k < 7 && g.spanOK():
			a := 1 + r.Intn(ncols-1)
			is = append(is, gen.Pick(r, []string{fmt.Sprintf("grid-column: %d / %d", a, a+2), fmt.Sprintf("grid-row: %d / %d", 1+r.Intn(2), 3+r.Intn(2)), fmt.Sprintf("grid-area: %d / %d / %d / %d", 1+r.Intn(2), a, 3+r.Intn(2), a+2)}))
			span = true
		case k < 9:
			// no negative line numbers: "grid-column: -1" and "1 / -1" panic in resolveTracksSizes (slice
			// bounds, grid.go:527; C01's domain, findings/C15/crash-grid-negative-line.json)
			is = append(is, gen.Pick(r, []string{fmt.Sprintf("grid-column: %d", 1+r.Intn(ncols)), fmt.Sprintf("grid-row: %d", 1+r.Intn(3)), fmt.Sprintf("grid-column: %d; grid-row: %d", 1+r.Intn(ncols), 1+r.Intn(3)), "order: -1", "order: 2"}))
		default:
		}
		if r.Intn(3) == 0 {
			hs := []string{"padding: 1px", "border: 1px solid", "margin: 1px 2px", "min-height: 15px", "width: 50%", "height: 12px", "align-self: end", "justify-self: center", "justify-self: start; align-self: center", "background: #ddd", "padding: 5%"}
			if !gridPercentHeightDefectOpen {
				hs = append(hs, "height: 150%", "height: 200%", "height: 50%", "min-height: 120%")
			}
			is = append(is, gen.Pick(r, hs))
		}
		content := g.words(1 + r.Intn(2))
		switch k := r.Intn(12); {
		case k == 0 && depth < 1:
			content = g.grid(depth + 1)
		case k == 1:
			content = "abcdefghijklmnop"[:6+r.Intn(10)]
		case k == 2:
			content = g.quoted(1)
		case k == 3 && !gridFootnoteOrderDefectOpen:
			content += ` <span class="fg">` + g.words(1) + `</span>`
		case k == 4:
			content = g.words(4 + r.Intn(5))
		}
		sm := ""
		if span {
			sm = " data-gs"
		}
		if r.Intn(4) == 0 {
			sm += fmt.Sprintf(` id="%s"`, g.id())
		}
		fmt.Fprintf(&sb, `<div%s style="%s">%s</div>`, sm, strings.Join(is, "; "), content)
	}
	return fmt.Sprintf(`<div class="gr"%s style="%s">%s</div>`, mark, strings.Join(st, "; "), sb.String())
}

// gradSVG builds an SVG whose gradients / patterns inherit from each other through href chains.
func gradSVG(r *rand.Rand) string {
	n := 2 + r.Intn(3)
	var sb strings.Builder
	sb.WriteString(`<svg xmlns="http://www.w3.org/2000/svg" xmlns:xlink="http://www.w3.org/1999/xlink" width="40" height="10" color="` + gen.Pick(r, []string{"red", "green", "#246"}) + `"><defs>`)
	for i := 0; i < n; i++ {
		href := ""
		switch {
		case i+1 < n && r.Intn(4) != 0:
			href = fmt.Sprintf(` %s="#g%d"`, gen.Pick(r, []string{"href", "xlink:href"}), i+1)
		case !svgHrefCycleDefectOpen && r.Intn(2) == 0:
			href = fmt.Sprintf(` href="#g%d"`, r.Intn(n)) // backwards: a cycle
		case r.Intn(6) == 0:
			href = fmt.Sprintf(` href="#g%d"`, i) // itself
		}
		attrs := gen.Pick(r, []string{"", ` x1="0" y1="0" x2="0" y2="1"`, ` gradientUnits="userSpaceOnUse" x2="10"`, ` spreadMethod="reflect" x2="0.3"`, ` gradientTransform="rotate(45)"`})
		stops := ""
		if i == n-1 || r.Intn(2) == 0 {
			stops = fmt.Sprintf(`<stop offset="0" stop-color="%s"/><stop offset="1" stop-color="%s"/>`, gen.Pick(r, []string{"red", "currentColor", "#0a0"}), gen.Pick(r, []string{"blue", "white", "inherit"}))
		}
		tag := gen.Pick(r, []string{"linearGradient", "linearGradient", "radialGradient"})
		fmt.Fprintf(&sb, `<%s id="g%d"%s%s>%s</%s>`, tag, i, href, attrs, stops, tag)
	}
	sb.WriteString(`<rect id="rc" width="8" height="8" stroke="currentColor"/></defs>`)
	for i := 0; i < n; i++ {
		fmt.Fprintf(&sb, `<rect x="%d" width="9" height="10" fill="url(#g%d)"/>`, 10*i, i)
	}
	sb.WriteString(`<g fill="` + gen.Pick(r, []string{"currentColor", "blue"}) + `" stroke="inherit"><use href="#rc" x="30" fill="inherit"/></g></svg>`)
	return sb.String()
}

func (g *dg) id() string {
	g.nid++
	// names chosen so that their map order is not their sort order nor their document order
	id := fmt.Sprintf("%s%d", gen.Pick(g.r, []string{"k", "z", "a", "m", "id-", "X"}), (g.nid*37)%101)
	for _, e := range g.ids {
		if e == id {
			id = fmt.Sprintf("u%d", g.nid)
		}
	}
	g.ids = append(g.ids, id)
	return id
}

func (g *dg) words(n int) string {
	var p []string
	for i := 0; i < n; i++ {
		p = append(p, gen.Pick(g.r, plainWords))
	}
	return strings.Join(p, " ")
}

func (g *dg) someID() string {
	if len(g.ids) == 0 || g.r.Intn(8) == 0 {
		return "missing" + fmt.Sprint(g.r.Intn(3))
	}
	return gen.Pick(g.r, g.ids)
}

// hyphenPara emits a justified paragraph of long words in one of four languages.
func (g *dg) hyphenPara() {
	r := g.r
	lang := gen.Pick(r, []string{"en", "fr", "de", "nl"})
	var p []string
	for i := 0; i < 3+r.Intn(5); i++ {
		w := gen.Pick(r, hyphWords[lang])
		p = append(p, w)
		if r.Intn(3) == 0 {
			p = append(p, gen.Pick(r, plainWords))
		}
	}
	cls := "hy"
	if g.gotext {
		// go-text engine + hyphens:auto panics in text.(*FontConfigurationGotext).splitFirstLine (slice
		// bounds out of range) on most of these paragraphs: a crash, C01's domain (witness
		// findings/C15/crash-gotext-hyphens-auto.json); the go-text documents hyphenate manually
		cls = "hm"
		for i := range p {
			if rs := []rune(p[i]); len(rs) > 8 {
				p[i] = string(rs[:4]) + "\u00ad" + string(rs[4:8]) + "\u00ad" + string(rs[8:])
			}
		}
	}
	g.body = append(g.body, fmt.Sprintf(`<p lang="%s" class="%s" style="width:%dpx">%s</p>`, lang, cls, 60+10*r.Intn(8), strings.Join(p, " ")))
}

// section emits one block exercising one feature.
func (g *dg) section() {
	r := g.r
	k := r.Intn(22)
	if g.small && k >= 15 && r.Intn(2) == 0 {
		k = r.Intn(15) // cold-start documents keep their bias to hyphenation and the older families
	}
	switch k {
	case 15, 16, 17: // grid containers
		g.body = append(g.body, g.grid(0))
	case 18, 19, 20: // language-dependent features
		g.langSection()
	case 21: // gradients inheriting through href chains, in an image
		g.body = append(g.body, fmt.Sprintf(`<p>%s <img src="mem://doc/grad.svg" style="width:%dpx; height:10px"></p>`, g.words(1), 40+20*r.Intn(2)))
	case 0: // many anchors on one page
		n := 3 + r.Intn(10)
		var sb strings.Builder
		for i := 0; i < n; i++ {
			fmt.Fprintf(&sb, `<span id="%s">%s</span> `, g.id(), gen.Pick(r, plainWords))
		}
		g.body = append(g.body, "<p>"+sb.String()+"</p>")
	case 1: // internal links, present / missing / duplicate targets
		n := 2 + r.Intn(5)
		var sb strings.Builder
		for i := 0; i < n; i++ {
			fmt.Fprintf(&sb, `<a href="#%s">%s</a> `, g.someID(), gen.Pick(r, plainWords))
		}
		if r.Intn(3) == 0 && len(g.ids) > 0 {
			fmt.Fprintf(&sb, `<b id="%s">dup</b>`, gen.Pick(r, g.ids)) // duplicate id: the first one wins
		}
		g.body = append(g.body, "<p>"+sb.String()+"</p>")
	case 2: // headings: anchors + bookmarks + string-set
		for i := 0; i < 1+r.Intn(3); i++ {
			lvl := 1 + r.Intn(3)
			g.body = append(g.body, fmt.Sprintf(`<h%d id="%s">%s</h%d>`, lvl, g.id(), g.words(1+r.Intn(3)), lvl))
		}
	case 3: // out-of-flow box taller than the page: broken at the page boundary
		if brokenOOFOrderDefectOpen && g.broke >= 1 {
			g.body = append(g.body, fmt.Sprintf(`<div class="fl" style="float:%s; width:%dpx; height:%dpx" id="%s">%s</div>`, gen.Pick(r, []string{"left", "right"}), 20+10*r.Intn(4), 10+5*r.Intn(3), g.id(), g.words(1)))
			break
		}
		g.broke++
		kind := r.Intn(3)
		switch kind {
		case 0:
			g.body = append(g.body, fmt.Sprintf(`<div class="fl" style="float:%s; width:%dpx" id="%s">%s</div>`, gen.Pick(r, []string{"left", "right"}), 30+10*r.Intn(4), g.id(), g.words(25+r.Intn(30))))
		case 1:
			g.body = append(g.body, fmt.Sprintf(`<div style="position:absolute; %s:%dpx; width:%dpx; border:1px solid" id="%s">%s</div>`, gen.Pick(r, []string{"left", "right"}), 5*r.Intn(5), 30+10*r.Intn(4), g.id(), g.words(25+r.Intn(30))))
		default:
			g.body = append(g.body, fmt.Sprintf(`<div class="fl" style="float:left; width:40px"><p id="%s">%s</p><p>%s</p></div>`, g.id(), g.words(12+r.Intn(10)), g.words(12+r.Intn(10))))
		}
	case 4: // string-set and running elements
		g.body = append(g.body, fmt.Sprintf(`<h2 class="ss" title="%s">%s</h2>`, g.words(1), g.words(2)))
		if r.Intn(2) == 0 {
			g.body = append(g.body, fmt.Sprintf(`<div class="run">%s <b>%s</b></div>`, g.words(2), g.words(1)))
		}
	case 5: // target-counter / target-text
		n := 1 + r.Intn(4)
		var sb strings.Builder
		for i := 0; i < n; i++ {
			fmt.Fprintf(&sb, `<li><a class="%s" href="#%s">%s</a></li>`, gen.Pick(r, []string{"tc", "tc", "tc bt"}), g.someID(), gen.Pick(r, plainWords))
		}
		g.body = append(g.body, "<ul class=toc>"+sb.String()+"</ul>")
	case 6: // lists with custom counter styles
		n := 2 + r.Intn(5)
		var sb strings.Builder
		for i := 0; i < n; i++ {
			fmt.Fprintf(&sb, `<li>%s</li>`, g.words(1+r.Intn(3)))
		}
		g.body = append(g.body, fmt.Sprintf(`<ol class="%s" start="%d">%s</ol>`, gen.Pick(r, []string{"cs1", "cs2", "cs3", "cs4", "roman", "greek"}), 1+r.Intn(30), sb.String()))
	case 7: // hyphenation
		g.hyphenPara()
	case 8: // images
		src := gen.Pick(r, []string{pngDot, svgData, "mem://doc/pic.svg", "mem://doc/pic.svg", "mem://doc/missing.png"})
		g.body = append(g.body, fmt.Sprintf(`<p>%s <img src="%s" style="width:%dpx; height:%dpx" id="%s"> %s</p>`, g.words(1), src, 5+5*r.Intn(5), 5+5*r.Intn(4), g.id(), g.words(1)))
		if r.Intn(2) == 0 {
			g.body = append(g.body, fmt.Sprintf(`<div style="background: url(%s) %s; height: 20px">%s</div>`, src, gen.Pick(r, []string{"repeat", "no-repeat", "space", "round"}), g.words(1)))
		}
	case 9: // table
		rows := 2 + r.Intn(4)
		cols := 2 + r.Intn(3)
		var sb strings.Builder
		for i := 0; i < rows; i++ {
			sb.WriteString("<tr>")
			for j := 0; j < cols; j++ {
				if r.Intn(4) == 0 {
					fmt.Fprintf(&sb, `<td id="%s">%s</td>`, g.id(), g.words(1+r.Intn(2)))
				} else {
					fmt.Fprintf(&sb, `<td>%s</td>`, g.words(1+r.Intn(2)))
				}
			}
			sb.WriteString("</tr>")
		}
		g.body = append(g.body, fmt.Sprintf(`<table style="border-collapse:%s">%s</table>`, gen.Pick(r, []string{"collapse", "separate"}), sb.String()))
	case 10: // flex / grid
		n := 2 + r.Intn(4)
		var sb strings.Builder
		for i := 0; i < n; i++ {
			fmt.Fprintf(&sb, `<div style="%s" id="%s">%s</div>`, gen.Pick(r, []string{"flex:1", "flex:2 1 20px", "grid-column:1", "grid-row:2", "order:-1", ""}), g.id(), g.words(1+r.Intn(2)))
		}
		g.body = append(g.body, fmt.Sprintf(`<div style="display:%s; %s">%s</div>`, gen.Pick(r, []string{"flex", "grid", "inline-flex"}), gen.Pick(r, []string{"", "flex-wrap:wrap", "grid-template-columns: " + g.track() + " " + g.track(), "grid-template-columns: repeat(3, 40px); gap: 2px", "grid-template-areas: 'a b' 'c d'", "flex-direction:column"}), sb.String()))
	case 11: // multi-column
		g.body = append(g.body, fmt.Sprintf(`<div style="columns:%d; column-gap:4px"><p id="%s">%s</p><p>%s</p></div>`, 2+r.Intn(2), g.id(), g.words(8+r.Intn(10)), g.words(5+r.Intn(10))))
	case 12: // pseudo-elements and generated content
		n := 2 + r.Intn(5)
		for i := 0; i < n; i++ {
			g.body = append(g.body, fmt.Sprintf(`<div class="%s" title="%s">%s</div>`, gen.Pick(r, []string{"gc1", "gc2", "gc3", "q"}), g.words(1), g.words(1+r.Intn(3))))
		}
	case 13: // invalid declarations: warnings through the shared logger
		g.body = append(g.body, fmt.Sprintf(`<p style="%s; color: %s">%s</p>`, gen.Pick(r, []string{"widht: 3px", "width: bogus", "margin: 1px 2px 3px 4px 5px", "transform: spin(3)", "content: counter()", "display: ruby-text"}), gen.Pick(r, []string{"red", "notacolor", "#12"}), g.words(3)))
	default: // plain paragraphs (pagination, orphans/widows), some with footnotes
		fn := ""
		if r.Intn(3) == 0 {
			fn = ` <span class="fn">` + g.words(1+r.Intn(3)) + `</span> ` + g.words(2)
		}
		g.body = append(g.body, fmt.Sprintf(`<p id="%s">%s%s</p>`, g.id(), g.words(10+r.Intn(40)), fn))
	}
}

// biasedDoc builds one document.
func biasedDoc(r *rand.Rand) gen.Doc { return buildDoc(r, false) }

// smallDoc builds a document of one to three sections (cold-start cases), hyphenating in 3 of 4.
func smallDoc(r *rand.Rand) gen.Doc { return buildDoc(r, true) }

func buildDoc(r *rand.Rand, small bool) gen.Doc {
	g := &dg{r: r, gotext: r.Intn(4) == 0, small: small}
	g.gridFr = r.Intn(2) == 0
	if small {
		g.gotext = r.Intn(8) == 0
	}
	pw := 150 + 10*r.Intn(16)
	ph := 100 + 10*r.Intn(12)
	font := gen.Pick(r, []string{"10px/1.2 Ahem", "8px/1 Ahem", "10px/1.5 weasyprint", "12px Ahem", "10px ff1, Ahem"})
	margin := gen.Pick(r, []string{
		"",
		`@top-left { content: string(hd) } @bottom-center { content: counter(page) "/" counter(pages) }`,
		`@top-center { content: element(rn) } @bottom-right { content: string(hd, first) " " string(ti, last) }`,
		`@top-right { content: string(ti, start) } @bottom-left { content: "p" counter(page, cs1) }`,
	})
	g.css = append(g.css,
		fmt.Sprintf(`@page { size: %dpx %dpx; margin: %dpx; %s }`, pw, ph, 10+5*r.Intn(3), margin),
		fmt.Sprintf(`body { font: %s; margin: 0; orphans: %d; widows: %d }`, font, 1+r.Intn(3), 1+r.Intn(3)),
		`p, h1, h2, h3 { margin: 2px 0 } h1 { font-size: 14px } h2 { font-size: 12px } h3 { font-size: 10px }`,
		`h1, h2, h3 { string-set: hd content(text) } .ss { string-set: ti attr(title), hd content(text) "!" }`,
		`.run { position: running(rn) }`,
		`.tc::after { content: " p." target-counter(attr(href), page) " " target-text(attr(href), content) }`,
		`.toc { margin: 0 } .fl { border: 1px solid; margin: 1px }`,
		`.tq { quotes: "<" ">" "[" "]" } .tq::before { content: open-quote target-text(attr(href), content) " " } .tq::after { content: " p" target-counter(attr(href), page) close-quote }`,
		`.cs1 { list-style: cs1 } .cs2 { list-style: cs2 inside } .cs3 { list-style: cs3 } .cs4 { list-style: cs4 } .roman { list-style: upper-roman } .greek { list-style: lower-greek } .lroman { list-style: lower-roman inside }`,
		`.hy { hyphens: auto; text-align: justify } .hm { hyphens: manual; text-align: justify }`,
		`.gc1::before { content: counter(c) ". "; counter-increment: c } .gc1::after { content: " [" attr(title) "]" }`,
		`.gc2::before { content: open-quote } .gc2::after { content: close-quote } .gc2 { quotes: "<" ">" }`,
		`.gc3::first-letter { font-size: 14px } .gc3::before { content: url(`+pngDot+`) }`,
		`.q::marker { content: "* " } .q { display: list-item; margin-left: 15px }`,
		`td { border: 1px solid; padding: 1px } a { color: blue }`,
		`.gr { margin: 2px 0 } .gr > div { outline: 1px solid }`,
		`.oq::before { content: open-quote } .oq::after { content: close-quote } q:lang(fr) { color: #333 } p:lang(de) { letter-spacing: 1px }`,
		`.fn, .fg { float: footnote } .bt { bookmark-level: 2; bookmark-label: "B" target-counter(attr(href), page) " " target-text(attr(href), content); string-set: ti target-text(attr(href), content) }`,
	)
	// every document defines its own subset of the counter styles cs1..cs4, with its own symbols: a
	// definition leaking from one render into the next one changes the markers of the other document
	// (an undefined style falls back to decimal)
	csDefs := []string{
		`@counter-style cs1 { system: cyclic; symbols: ` + gen.Pick(r, []string{`"x" "y" "z"`, `"+" "-"`, `"o"`}) + `; suffix: ") " }`,
		`@counter-style cs2 { system: additive; additive-symbols: ` + gen.Pick(r, []string{`10 "X", 5 "V", 1 "I"`, `5 "f", 1 "i"`}) + `; range: 1 39 }`,
		`@counter-style cs3 { system: extends decimal; prefix: "` + gen.Pick(r, []string{"[", "(", "<"}) + `"; suffix: "] "; pad: ` + fmt.Sprint(1+r.Intn(3)) + ` "0" }`,
		`@counter-style cs4 { system: alphabetic; symbols: ` + gen.Pick(r, []string{`"a" "b" "c"`, `"p" "q"`}) + ` }`,
	}
	var csRules []string
	csDefined := ""
	for i, c := range csDefs {
		if r.Intn(4) != 0 {
			csRules = append(csRules, c)
			csDefined += fmt.Sprint(i + 1)
		}
	}
	// r2: generator of everything that concerns the route of the counter styles (below) and the
	// sampler list.  It is seeded from the style text chosen so far and r itself is not consumed, so
	// that all other choices of this document and of the documents that follow it in the case stay
	// what they were before this family was added (the hostile-grammar documents of a group come
	// from the same stream).
	r2 := rand.New(rand.NewSource(int64(crc32.ChecksumIEEE([]byte(strings.Join(g.css, "|") + "|" + strings.Join(csRules, "|"))))))
	// a quarter of the documents also (try to) redefine a predefined counter style: lower-greek /
	// upper-roman / lower-roman may be overridden (css-counter-styles-3 §2: only decimal, disc, square,
	// circle, disclosure-* may not), and the redefinition holds for that document only
	csOverride := ""
	if r2.Intn(4) == 0 {
		csOverride = gen.Pick(r2, []string{"lower-greek", "upper-roman", "lower-roman", "disc"})
		csRules = append(csRules, `@counter-style `+csOverride+` { system: `+gen.Pick(r2, []string{`cyclic; symbols: "g" "h"`, `numeric; symbols: "0" "1"`, `fixed; symbols: "A" "B" "C"`})+`; suffix: ": " }`)
	}
	// route of these rules into the render's counter-style table: the document's <style>, a linked
	// sheet, a sheet imported by the <style> (media list or not), or a sheet imported by an imported /
	// linked sheet (relative URL, in a third of the cases with a circular @import back)
	csRoute := "inline"
	csSheet := strings.Join(csRules, "\n") + fmt.Sprintf("\n.csm li { padding-left: %dpx }", r2.Intn(3))
	files := map[string]string{}
	csLink := ""
	switch k := r2.Intn(11); {
	case k < 4:
		g.css = append(g.css, csRules...)
	case k < 7:
		csRoute = "import"
		media := gen.Pick(r2, []string{"", "", "", " print", " all", " screen, print", " screen"})
		if media == " screen" {
			csRoute = "import-screen" // not applied to the print medium: every cs* falls back to decimal
		}
		imp := gen.Pick(r2, []string{`@import url(mem://doc/cs.css)%s;`, `@import "mem://doc/cs.css"%s;`, `@import url("cs.css")%s;`, `@import 'cs.css'%s;`})
		g.css = append([]string{`@charset "utf-8";`, fmt.Sprintf(imp, media)}, g.css...)
		files["cs.css"] = csSheet
	case k < 9:
		csRoute = "link"
		csLink = `<link rel="stylesheet" href="` + gen.Pick(r2, []string{"mem://doc/cs.css", "cs.css"}) + `">`
		files["cs.css"] = csSheet
	default:
		csRoute = "nested"
		back := ""
		if r2.Intn(3) == 0 {
			back = "@import \"imp.css\";\n" // circular: refused by the fetcher guard, the rest of the sheet applies
		}
		files["cs.css"] = back + csSheet
		files["imp.css"] = "@import url(cs.css);\nol.csm { margin-left: " + fmt.Sprint(20+5*r2.Intn(3)) + "px }"
		if r2.Intn(2) == 0 {
			g.css = append([]string{`@import "imp.css";`}, g.css...)
		} else {
			csLink = `<link rel="stylesheet" href="mem://doc/imp.css">`
		}
	}
	if r.Intn(3) == 0 {
		g.css = append(g.css, `@font-face { font-family: ff1; src: `+gen.Pick(r, []string{"local(Ahem)", "url(mem://doc/missing.ttf)", "url(mem://doc/missing.ttf) format(\"truetype\"), local(weasyprint)"})+` }`)
	}
	if r.Intn(2) == 0 {
		g.css = append(g.css, gen.Pick(r, []string{`p { text-indent: 2ch } td { padding: 0.5ex 1ch }`, `h2 { margin-left: 3ch } .fl { padding: 1ex }`, `li { padding-left: 1ch } p { margin-top: 0.5ex }`}))
	}
	if r.Intn(4) == 0 {
		g.css = append(g.css, gen.Pick(r, []string{`p:nth-child(odd) { color: red } p::after { content: "" }`, `*::before { color: green }`, `div > p::first-line { color: gray }`, `li::marker { color: red }`}))
	}
	n := 4 + r.Intn(9)
	hyAt := -1
	if small {
		n = 1 + r.Intn(3)
		if r.Intn(4) != 0 {
			hyAt = r.Intn(n)
		}
	} else if r.Intn(2) == 0 {
		hyAt = r.Intn(n) // half of the documents hyphenate for sure (shared dictionary cache)
	}
	for i := 0; i < n; i++ {
		if i == hyAt {
			g.hyphenPara()
			continue
		}
		g.section()
	}
	if r.Intn(2) == 0 && len(g.ids) >= 2 {
		// a table of contents placed first: forward references whose content lists are parsed again
		// when the targets are reached (TargetCollector.CounterLookupItems is a map); the quotes open in
		// ::before and close in ::after, so the nesting depth depends on the order of re-parsing
		var sb strings.Builder
		for i := 0; i < 2+r.Intn(4); i++ {
			fmt.Fprintf(&sb, `<li><a class="tq" href="#%s">%s</a></li>`, gen.Pick(r, g.ids), gen.Pick(r, plainWords))
		}
		g.body = append([]string{"<ul class=toc>" + sb.String() + "</ul>"}, g.body...)
	}
	csSampler := r2.Intn(3) != 0
	if csSampler {
		// one list item per counter style of the family (defined by this document or not: an undefined
		// one falls back to decimal), at a random place
		var sb strings.Builder
		for _, c := range []string{"cs1", "cs2", "cs3", "cs4", "roman", "greek", "lroman"} {
			if r2.Intn(5) != 0 {
				fmt.Fprintf(&sb, `<li class="%s">%s</li>`, c, gen.Pick(r2, plainWords))
			}
		}
		at := r2.Intn(len(g.body) + 1)
		g.body = append(g.body[:at:at], append([]string{fmt.Sprintf(`<ol class="csm" start="%d">%s</ol><ul class="csm"><li>%s</li></ul>`, 1+r2.Intn(12), sb.String(), gen.Pick(r2, plainWords))}, g.body[at:]...)...)
	}
	meta := csLink
	if r.Intn(3) == 0 {
		meta += `<title>` + g.words(2) + `</title><meta name="author" content="A"><meta name="keywords" content="k1, k2"><meta name="dcterms.created" content="2020-01-02T03:04:05Z">`
	}
	if r.Intn(3) == 0 {
		meta += `<link rel="stylesheet" href="mem://doc/extra.css">`
	}
	html := `<!DOCTYPE html><html lang="` + gen.Pick(r, []string{"en", "fr", "de", "en-GB", "fr-CA", "de-AT"}) + `" data-csr="` + csRoute + `" data-csd="` + csDefined + `" data-cso="` + csOverride + `" data-css="` + fmt.Sprint(csSampler) + `"><head>` + meta + `<style>` + strings.Join(g.css, "\n") + `</style></head><body>` + strings.Join(g.body, "\n") + `</body></html>`
	d := gen.Doc{HTML: html, Hints: r.Intn(3) == 0}
	if g.gotext {
		d.Engine = "gotext"
	}
	if r.Intn(5) == 0 {
		d.UserCSS = []string{gen.Pick(r, []string{"p { color: green !important }", "@page { margin: 12px }", "h1 { bookmark-level: 2 } h2 { bookmark-label: \"L\" }", "a { text-decoration: underline }"})}
	}
	if r.Intn(6) == 0 {
		d.Zoom = gen.Pick(r, []float32{0.5, 2.5})
	}
	d.Files = map[string]string{
		// same URLs in every document, different contents: a process-wide cache keyed by URL would leak
		"extra.css": fmt.Sprintf(`p { letter-spacing: %dpx } #k37 { color: %s }`, r.Intn(3), gen.Pick(r, []string{"red", "green", "blue"})),
		"grad.svg":  gradSVG(r),
		"pic.svg":   fmt.Sprintf(`<svg xmlns="http://www.w3.org/2000/svg" width="%d" height="8"><rect width="4" height="%d" fill="%s"/><text x="1" y="7" font-family="Ahem" font-size="4">ab</text></svg>`, 6+r.Intn(6), 2+r.Intn(5), gen.Pick(r, []string{"green", "red", "#123456"})),
	}
	for k, v := range files {
		d.Files[k] = v
	}
	return d
}
