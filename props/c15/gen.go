package c15

import (
	"fmt"
	"math/rand"
	"strings"

	"verif/internal/gen"
)

// Document generator biased towards the process-global tables and the map-iteration sites named in
// the property's anchors: many ids/anchors and internal links per page (Document.resolveLinks),
// floats and absolutely positioned boxes taller than a page (layoutContext.brokenOutOfFlow),
// string-set / running elements / margin boxes (layoutContext.stringSet, runningElements),
// target-counter / target-text (TargetCollector.CounterLookupItems), ::before/::after/::marker on many
// elements (pseudo-element pass of GetAllComputedStyles ranges over a map), @counter-style (shared
// UACounterStyle), hyphenation in three languages (shared dictionary cache), data-URI images,
// @font-face, tables / flex / grid / columns, both text engines, invalid declarations (shared
// warning logger).

var pngDot = gen.PNG1

const svgData = "data:image/svg+xml,%3Csvg xmlns='http://www.w3.org/2000/svg' width='12' height='8'%3E%3Crect width='6' height='4' fill='green'/%3E%3Ccircle cx='8' cy='4' r='3' fill='blue'/%3E%3C/svg%3E"

var hyphWords = map[string][]string{
	"en": {"hyphenation", "extraordinarily", "internationalization", "representative", "characteristically", "uncomfortable", "determination"},
	"fr": {"anticonstitutionnellement", "particulièrement", "développement", "extraordinaire", "malheureusement", "bibliothèque"},
	"de": {"Donaudampfschifffahrt", "Geschwindigkeitsbegrenzung", "Lebensversicherung", "Verantwortung", "Wahrscheinlichkeit", "Freundschaftsbeziehungen"},
	"nl": {"lettergrepen", "verantwoordelijkheid", "onafhankelijkheid"},
}

var plainWords = []string{"ab", "cde", "fghi", "jk", "lmnop", "q", "rst", "uvwx", "yz", "alpha", "beta", "gamma", "delta"}

type dg struct {
	r      *rand.Rand
	gotext bool
	ids    []string
	nid    int
	css    []string
	body   []string
	broke  int // out-of-flow boxes taller than the page emitted so far
}

func (g *dg) id() string {
	g.nid++
	// names chosen so that their map order is not their sort order nor their document order
	id := fmt.Sprintf("%s%d", gen.Pick(g.r, []string{"k", "z", "a", "m", "id-", "X"}), (g.nid*37)%101)
	for _, e := range g.ids {
		if e == id {
			id = fmt.Sprintf("u%d", g.nid)
		}
	}
	g.ids = append(g.ids, id)
	return id
}

func (g *dg) words(n int) string {
	var p []string
	for i := 0; i < n; i++ {
		p = append(p, gen.Pick(g.r, plainWords))
	}
	return strings.Join(p, " ")
}

func (g *dg) someID() string {
	if len(g.ids) == 0 || g.r.Intn(8) == 0 {
		return "missing" + fmt.Sprint(g.r.Intn(3))
	}
	return gen.Pick(g.r, g.ids)
}

// hyphenPara emits a justified paragraph of long words in one of four languages.
func (g *dg) hyphenPara() {
	r := g.r
	lang := gen.Pick(r, []string{"en", "fr", "de", "nl"})
	var p []string
	for i := 0; i < 3+r.Intn(5); i++ {
		w := gen.Pick(r, hyphWords[lang])
		p = append(p, w)
		if r.Intn(3) == 0 {
			p = append(p, gen.Pick(r, plainWords))
		}
	}
	cls := "hy"
	if g.gotext {
		// go-text engine + hyphens:auto panics in text.(*FontConfigurationGotext).splitFirstLine (slice
		// bounds out of range) on most of these paragraphs: a crash, C01's domain (witness
		// findings/C15/crash-gotext-hyphens-auto.json); the go-text documents hyphenate manually
		cls = "hm"
		for i := range p {
			if rs := []rune(p[i]); len(rs) > 8 {
				p[i] = string(rs[:4]) + "\u00ad" + string(rs[4:8]) + "\u00ad" + string(rs[8:])
			}
		}
	}
	g.body = append(g.body, fmt.Sprintf(`<p lang="%s" class="%s" style="width:%dpx">%s</p>`, lang, cls, 60+10*r.Intn(8), strings.Join(p, " ")))
}

// section emits one block exercising one feature.
func (g *dg) section() {
	r := g.r
	switch r.Intn(15) {
	case 0: // many anchors on one page
		n := 3 + r.Intn(10)
		var sb strings.Builder
		for i := 0; i < n; i++ {
			fmt.Fprintf(&sb, `<span id="%s">%s</span> `, g.id(), gen.Pick(r, plainWords))
		}
		g.body = append(g.body, "<p>"+sb.String()+"</p>")
	case 1: // internal links, present / missing / duplicate targets
		n := 2 + r.Intn(5)
		var sb strings.Builder
		for i := 0; i < n; i++ {
			fmt.Fprintf(&sb, `<a href="#%s">%s</a> `, g.someID(), gen.Pick(r, plainWords))
		}
		if r.Intn(3) == 0 && len(g.ids) > 0 {
			fmt.Fprintf(&sb, `<b id="%s">dup</b>`, gen.Pick(r, g.ids)) // duplicate id: the first one wins
		}
		g.body = append(g.body, "<p>"+sb.String()+"</p>")
	case 2: // headings: anchors + bookmarks + string-set
		for i := 0; i < 1+r.Intn(3); i++ {
			lvl := 1 + r.Intn(3)
			g.body = append(g.body, fmt.Sprintf(`<h%d id="%s">%s</h%d>`, lvl, g.id(), g.words(1+r.Intn(3)), lvl))
		}
	case 3: // out-of-flow box taller than the page: broken at the page boundary
		if brokenOOFOrderDefectOpen && g.broke >= 1 {
			g.body = append(g.body, fmt.Sprintf(`<div class="fl" style="float:%s; width:%dpx; height:%dpx" id="%s">%s</div>`, gen.Pick(r, []string{"left", "right"}), 20+10*r.Intn(4), 10+5*r.Intn(3), g.id(), g.words(1)))
			break
		}
		g.broke++
		kind := r.Intn(3)
		switch kind {
		case 0:
			g.body = append(g.body, fmt.Sprintf(`<div class="fl" style="float:%s; width:%dpx" id="%s">%s</div>`, gen.Pick(r, []string{"left", "right"}), 30+10*r.Intn(4), g.id(), g.words(25+r.Intn(30))))
		case 1:
			g.body = append(g.body, fmt.Sprintf(`<div style="position:absolute; %s:%dpx; width:%dpx; border:1px solid" id="%s">%s</div>`, gen.Pick(r, []string{"left", "right"}), 5*r.Intn(5), 30+10*r.Intn(4), g.id(), g.words(25+r.Intn(30))))
		default:
			g.body = append(g.body, fmt.Sprintf(`<div class="fl" style="float:left; width:40px"><p id="%s">%s</p><p>%s</p></div>`, g.id(), g.words(12+r.Intn(10)), g.words(12+r.Intn(10))))
		}
	case 4: // string-set and running elements
		g.body = append(g.body, fmt.Sprintf(`<h2 class="ss" title="%s">%s</h2>`, g.words(1), g.words(2)))
		if r.Intn(2) == 0 {
			g.body = append(g.body, fmt.Sprintf(`<div class="run">%s <b>%s</b></div>`, g.words(2), g.words(1)))
		}
	case 5: // target-counter / target-text
		n := 1 + r.Intn(4)
		var sb strings.Builder
		for i := 0; i < n; i++ {
			fmt.Fprintf(&sb, `<li><a class="tc" href="#%s">%s</a></li>`, g.someID(), gen.Pick(r, plainWords))
		}
		g.body = append(g.body, "<ul class=toc>"+sb.String()+"</ul>")
	case 6: // lists with custom counter styles
		n := 2 + r.Intn(5)
		var sb strings.Builder
		for i := 0; i < n; i++ {
			fmt.Fprintf(&sb, `<li>%s</li>`, g.words(1+r.Intn(3)))
		}
		g.body = append(g.body, fmt.Sprintf(`<ol class="%s" start="%d">%s</ol>`, gen.Pick(r, []string{"cs1", "cs2", "cs3", "cs4", "roman", "greek"}), 1+r.Intn(30), sb.String()))
	case 7: // hyphenation
		g.hyphenPara()
	case 8: // images
		src := gen.Pick(r, []string{pngDot, svgData, "mem://doc/pic.svg", "mem://doc/pic.svg", "mem://doc/missing.png"})
		g.body = append(g.body, fmt.Sprintf(`<p>%s <img src="%s" style="width:%dpx; height:%dpx" id="%s"> %s</p>`, g.words(1), src, 5+5*r.Intn(5), 5+5*r.Intn(4), g.id(), g.words(1)))
		if r.Intn(2) == 0 {
			g.body = append(g.body, fmt.Sprintf(`<div style="background: url(%s) %s; height: 20px">%s</div>`, src, gen.Pick(r, []string{"repeat", "no-repeat", "space", "round"}), g.words(1)))
		}
	case 9: // table
		rows := 2 + r.Intn(4)
		cols := 2 + r.Intn(3)
		var sb strings.Builder
		for i := 0; i < rows; i++ {
			sb.WriteString("<tr>")
			for j := 0; j < cols; j++ {
				if r.Intn(4) == 0 {
					fmt.Fprintf(&sb, `<td id="%s">%s</td>`, g.id(), g.words(1+r.Intn(2)))
				} else {
					fmt.Fprintf(&sb, `<td>%s</td>`, g.words(1+r.Intn(2)))
				}
			}
			sb.WriteString("</tr>")
		}
		g.body = append(g.body, fmt.Sprintf(`<table style="border-collapse:%s">%s</table>`, gen.Pick(r, []string{"collapse", "separate"}), sb.String()))
	case 10: // flex / grid
		n := 2 + r.Intn(4)
		var sb strings.Builder
		for i := 0; i < n; i++ {
			fmt.Fprintf(&sb, `<div style="%s" id="%s">%s</div>`, gen.Pick(r, []string{"flex:1", "flex:2 1 20px", "grid-column:1", "grid-row:2", "order:-1", ""}), g.id(), g.words(1+r.Intn(2)))
		}
		g.body = append(g.body, fmt.Sprintf(`<div style="display:%s; %s">%s</div>`, gen.Pick(r, []string{"flex", "grid", "inline-flex"}), gen.Pick(r, []string{"", "flex-wrap:wrap", "grid-template-columns: 1fr 2fr", "grid-template-columns: repeat(3, 40px); gap: 2px", "grid-template-areas: 'a b' 'c d'", "flex-direction:column"}), sb.String()))
	case 11: // multi-column
		g.body = append(g.body, fmt.Sprintf(`<div style="columns:%d; column-gap:4px"><p id="%s">%s</p><p>%s</p></div>`, 2+r.Intn(2), g.id(), g.words(8+r.Intn(10)), g.words(5+r.Intn(10))))
	case 12: // pseudo-elements and generated content
		n := 2 + r.Intn(5)
		for i := 0; i < n; i++ {
			g.body = append(g.body, fmt.Sprintf(`<div class="%s" title="%s">%s</div>`, gen.Pick(r, []string{"gc1", "gc2", "gc3", "q"}), g.words(1), g.words(1+r.Intn(3))))
		}
	case 13: // invalid declarations: warnings through the shared logger
		g.body = append(g.body, fmt.Sprintf(`<p style="%s; color: %s">%s</p>`, gen.Pick(r, []string{"widht: 3px", "width: bogus", "margin: 1px 2px 3px 4px 5px", "transform: spin(3)", "content: counter()", "display: ruby-text"}), gen.Pick(r, []string{"red", "notacolor", "#12"}), g.words(3)))
	default: // plain paragraphs (pagination, orphans/widows)
		g.body = append(g.body, fmt.Sprintf(`<p id="%s">%s</p>`, g.id(), g.words(10+r.Intn(40))))
	}
}

// biasedDoc builds one document.
func biasedDoc(r *rand.Rand) gen.Doc { return buildDoc(r, false) }

// smallDoc builds a document of one to three sections (cold-start cases), hyphenating in 3 of 4.
func smallDoc(r *rand.Rand) gen.Doc { return buildDoc(r, true) }

func buildDoc(r *rand.Rand, small bool) gen.Doc {
	g := &dg{r: r, gotext: r.Intn(4) == 0}
	if small {
		g.gotext = r.Intn(8) == 0
	}
	pw := 150 + 10*r.Intn(16)
	ph := 100 + 10*r.Intn(12)
	font := gen.Pick(r, []string{"10px/1.2 Ahem", "8px/1 Ahem", "10px/1.5 weasyprint", "12px Ahem", "10px ff1, Ahem"})
	margin := gen.Pick(r, []string{
		"",
		`@top-left { content: string(hd) } @bottom-center { content: counter(page) "/" counter(pages) }`,
		`@top-center { content: element(rn) } @bottom-right { content: string(hd, first) " " string(ti, last) }`,
		`@top-right { content: string(ti, start) } @bottom-left { content: "p" counter(page, cs1) }`,
	})
	g.css = append(g.css,
		fmt.Sprintf(`@page { size: %dpx %dpx; margin: %dpx; %s }`, pw, ph, 10+5*r.Intn(3), margin),
		fmt.Sprintf(`body { font: %s; margin: 0; orphans: %d; widows: %d }`, font, 1+r.Intn(3), 1+r.Intn(3)),
		`p, h1, h2, h3 { margin: 2px 0 } h1 { font-size: 14px } h2 { font-size: 12px } h3 { font-size: 10px }`,
		`h1, h2, h3 { string-set: hd content(text) } .ss { string-set: ti attr(title), hd content(text) "!" }`,
		`.run { position: running(rn) }`,
		`.tc::after { content: " p." target-counter(attr(href), page) " " target-text(attr(href), content) }`,
		`.toc { margin: 0 } .fl { border: 1px solid; margin: 1px }`,
		`.tq { quotes: "<" ">" "[" "]" } .tq::before { content: open-quote target-text(attr(href), content) " " } .tq::after { content: " p" target-counter(attr(href), page) close-quote }`,
		`.cs1 { list-style: cs1 } .cs2 { list-style: cs2 inside } .cs3 { list-style: cs3 } .cs4 { list-style: cs4 } .roman { list-style: upper-roman } .greek { list-style: lower-greek }`,
		`.hy { hyphens: auto; text-align: justify } .hm { hyphens: manual; text-align: justify }`,
		`.gc1::before { content: counter(c) ". "; counter-increment: c } .gc1::after { content: " [" attr(title) "]" }`,
		`.gc2::before { content: open-quote } .gc2::after { content: close-quote } .gc2 { quotes: "<" ">" }`,
		`.gc3::first-letter { font-size: 14px } .gc3::before { content: url(`+pngDot+`) }`,
		`.q::marker { content: "* " } .q { display: list-item; margin-left: 15px }`,
		`td { border: 1px solid; padding: 1px } a { color: blue }`,
	)
	// every document defines its own subset of the counter styles cs1..cs4, with its own symbols: a
	// definition leaking from one render into the next one changes the markers of the other document
	// (an undefined style falls back to decimal)
	csDefs := []string{
		`@counter-style cs1 { system: cyclic; symbols: ` + gen.Pick(r, []string{`"x" "y" "z"`, `"+" "-"`, `"o"`}) + `; suffix: ") " }`,
		`@counter-style cs2 { system: additive; additive-symbols: ` + gen.Pick(r, []string{`10 "X", 5 "V", 1 "I"`, `5 "f", 1 "i"`}) + `; range: 1 39 }`,
		`@counter-style cs3 { system: extends decimal; prefix: "` + gen.Pick(r, []string{"[", "(", "<"}) + `"; suffix: "] "; pad: ` + fmt.Sprint(1+r.Intn(3)) + ` "0" }`,
		`@counter-style cs4 { system: alphabetic; symbols: ` + gen.Pick(r, []string{`"a" "b" "c"`, `"p" "q"`}) + ` }`,
	}
	for _, c := range csDefs {
		if r.Intn(4) != 0 {
			g.css = append(g.css, c)
		}
	}
	if r.Intn(3) == 0 {
		g.css = append(g.css, `@font-face { font-family: ff1; src: `+gen.Pick(r, []string{"local(Ahem)", "url(mem://doc/missing.ttf)", "url(mem://doc/missing.ttf) format(\"truetype\"), local(weasyprint)"})+` }`)
	}
	if r.Intn(2) == 0 {
		g.css = append(g.css, gen.Pick(r, []string{`p { text-indent: 2ch } td { padding: 0.5ex 1ch }`, `h2 { margin-left: 3ch } .fl { padding: 1ex }`, `li { padding-left: 1ch } p { margin-top: 0.5ex }`}))
	}
	if r.Intn(4) == 0 {
		g.css = append(g.css, gen.Pick(r, []string{`p:nth-child(odd) { color: red } p::after { content: "" }`, `*::before { color: green }`, `div > p::first-line { color: gray }`, `li::marker { color: red }`}))
	}
	n := 4 + r.Intn(9)
	hyAt := -1
	if small {
		n = 1 + r.Intn(3)
		if r.Intn(4) != 0 {
			hyAt = r.Intn(n)
		}
	} else if r.Intn(2) == 0 {
		hyAt = r.Intn(n) // half of the documents hyphenate for sure (shared dictionary cache)
	}
	for i := 0; i < n; i++ {
		if i == hyAt {
			g.hyphenPara()
			continue
		}
		g.section()
	}
	if r.Intn(2) == 0 && len(g.ids) >= 2 {
		// a table of contents placed first: forward references whose content lists are parsed again
		// when the targets are reached (TargetCollector.CounterLookupItems is a map); the quotes open in
		// ::before and close in ::after, so the nesting depth depends on the order of re-parsing
		var sb strings.Builder
		for i := 0; i < 2+r.Intn(4); i++ {
			fmt.Fprintf(&sb, `<li><a class="tq" href="#%s">%s</a></li>`, gen.Pick(r, g.ids), gen.Pick(r, plainWords))
		}
		g.body = append([]string{"<ul class=toc>" + sb.String() + "</ul>"}, g.body...)
	}
	meta := ""
	if r.Intn(3) == 0 {
		meta = `<title>` + g.words(2) + `</title><meta name="author" content="A"><meta name="keywords" content="k1, k2"><meta name="dcterms.created" content="2020-01-02T03:04:05Z">`
	}
	if r.Intn(3) == 0 {
		meta += `<link rel="stylesheet" href="mem://doc/extra.css">`
	}
	html := `<!DOCTYPE html><html lang="` + gen.Pick(r, []string{"en", "fr", "de"}) + `"><head>` + meta + `<style>` + strings.Join(g.css, "\n") + `</style></head><body>` + strings.Join(g.body, "\n") + `</body></html>`
	d := gen.Doc{HTML: html, Hints: r.Intn(3) == 0}
	if g.gotext {
		d.Engine = "gotext"
	}
	if r.Intn(5) == 0 {
		d.UserCSS = []string{gen.Pick(r, []string{"p { color: green !important }", "@page { margin: 12px }", "h1 { bookmark-level: 2 } h2 { bookmark-label: \"L\" }", "a { text-decoration: underline }"})}
	}
	if r.Intn(6) == 0 {
		d.Zoom = gen.Pick(r, []float32{0.5, 2.5})
	}
	d.Files = map[string]string{
		// same URLs in every document, different contents: a process-wide cache keyed by URL would leak
		"extra.css": fmt.Sprintf(`p { letter-spacing: %dpx } #k37 { color: %s }`, r.Intn(3), gen.Pick(r, []string{"red", "green", "blue"})),
		"pic.svg":   fmt.Sprintf(`<svg xmlns="http://www.w3.org/2000/svg" width="%d" height="8"><rect width="4" height="%d" fill="%s"/><text x="1" y="7" font-family="Ahem" font-size="4">ab</text></svg>`, 6+r.Intn(6), 2+r.Intn(5), gen.Pick(r, []string{"green", "red", "#123456"})),
	}
	return d
}
