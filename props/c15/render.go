package c15

import (
	"crypto/sha256"
	"encoding/hex"
	"fmt"
	"math"
	"runtime/debug"
	"sort"
	"strings"

	"github.com/benoitkugler/webrender/backend"
	bo "github.com/benoitkugler/webrender/html/boxes"
	"github.com/benoitkugler/webrender/html/document"
	"github.com/benoitkugler/webrender/html/layout"
	"github.com/benoitkugler/webrender/html/tree"
	"github.com/benoitkugler/webrender/text"
	"github.com/benoitkugler/webrender/utils"

	"verif/internal/fw"
	"verif/internal/rec"
	"verif/internal/wr"
)

// outcome is everything C15 compares about one render: the canonical backend trace (bit-exact floats,
// opaque handles renumbered by first occurrence — rec.Doc.Canonical), or the way the render ended
// when it did not produce one.
type outcome struct {
	// Kind: "trace" (render completed), "error" (an error value was returned), "panic".
	Kind string
	// Lines of the canonical trace, one per backend call (Kind == "trace"); otherwise one line with the
	// error text / panic signature.
	Lines []string
	Pages int
	// MaxOOF is the largest number of out-of-flow boxes pending at a page boundary (observed through
	// layout.VerifPageHook; only in hooked, i.e. sequential, renders; -1 when not observed).
	MaxOOF int
	// Anchors: largest number of anchors on one page (from the CreateAnchors call).
	MaxAnchorsPerPage int
	TextEvents        int
}

// strict is the full canonical form.
func (o *outcome) strict() string { return o.Kind + "\n" + strings.Join(o.Lines, "\n") }

// hash of the strict form.
func (o *outcome) hash() string { return hashStr(o.strict()) }

func hashStr(s string) string {
	h := sha256.Sum256([]byte(s))
	return hex.EncodeToString(h[:10])
}

// maskRaster returns a copy in which the content hash of DrawRasterImage calls is dropped.
func (o *outcome) maskRaster() *outcome {
	c := *o
	c.Lines = make([]string, len(o.Lines))
	for i, l := range o.Lines {
		if strings.HasPrefix(l, "DrawRasterImage ") {
			if k := strings.LastIndex(l, " \""); k > 0 {
				l = l[:k]
			}
		}
		c.Lines[i] = l
	}
	return &c
}

// anchorsSorted is the canonical form in which the anchors of each page of the CreateAnchors call are
// sorted by name: two outcomes that differ strictly but agree in this form differ only by the order
// of the anchors inside one page's list (known nondeterminism of Document.resolveLinks).
func (o *outcome) anchorsSorted() string {
	var sb strings.Builder
	sb.WriteString(o.Kind)
	for _, l := range o.Lines {
		sb.WriteByte('\n')
		if strings.HasPrefix(l, "CreateAnchors ") {
			sb.WriteString(sortAnchorLine(l))
		} else {
			sb.WriteString(l)
		}
	}
	return sb.String()
}

// anchorLine renders a CreateAnchors call as "CreateAnchors p0:name@x,y p0:name2@x,y p1:…".
func anchorLine(anchors [][]backend.Anchor) string {
	var parts []string
	for i, pa := range anchors {
		for _, a := range pa {
			parts = append(parts, fmt.Sprintf("p%d:%q@%08x,%08x", i, a.Name, math.Float32bits(float32(a.X)), math.Float32bits(float32(a.Y))))
		}
	}
	return "CreateAnchors " + strings.Join(parts, " ")
}

func sortAnchorLine(l string) string {
	parts := splitAnchorEntries(strings.TrimPrefix(l, "CreateAnchors "))
	sort.SliceStable(parts, func(i, j int) bool {
		pi, pj := pageOf(parts[i]), pageOf(parts[j])
		if pi != pj {
			return pi < pj
		}
		return parts[i] < parts[j]
	})
	return "CreateAnchors " + strings.Join(parts, " ")
}

// splitAnchorEntries splits the anchor line at entry starts (`p<digits>:"`), respecting quoted names.
func splitAnchorEntries(s string) []string {
	var out []string
	start := 0
	inQ := false
	for i := 0; i < len(s); i++ {
		c := s[i]
		switch {
		case inQ && c == '\\':
			i++
		case c == '"':
			inQ = !inQ
		case !inQ && c == ' ':
			out = append(out, s[start:i])
			start = i + 1
		}
	}
	if start < len(s) {
		out = append(out, s[start:])
	}
	return out
}

func pageOf(e string) int {
	n := 0
	for i := 1; i < len(e) && e[i] >= '0' && e[i] <= '9'; i++ {
		n = n*10 + int(e[i]-'0')
	}
	return n
}

// traceLines is rec.Doc.Canonical split into lines, with the CreateAnchors event re-rendered in a
// form that keeps (page, name, x, y) together (rec prints floats and names in two separate groups).
func traceLines(d *rec.Doc) []string {
	lines := strings.Split(strings.TrimRight(d.Canonical(), "\n"), "\n")
	if len(lines) != len(d.Events) {
		panic("harness: canonical trace has a different number of lines than events (newline in an argument?)")
	}
	for i, e := range d.Events {
		if e.Op == "CreateAnchors" {
			lines[i] = anchorLine(d.Anchors)
		}
	}
	return lines
}

// fontsFor builds a font configuration that shares nothing with any other one.
func fontsFor(engine string) (text.FontConfiguration, error) {
	if engine == "gotext" {
		return wr.NewGotextConfig()
	}
	return wr.NewPangoConfig()
}

// maxPages bounds the documents of this check: a page loop that goes beyond it (a huge or a
// never-ending document — C01's question) ends the render with the outcome "toolong".
const maxPages = 400

type pageLimit struct{}

// observed is the outcome that receives the out-of-flow observations of the page hook.  It is set by
// sequential renders only (renderOpts.hook) and is nil while goroutines render, so the hook only
// reads it then.
var observed *outcome

// installHook sets layout.VerifPageHook once per process, before any concurrent render.  The hook
// is stateless apart from `observed`: the page limit is decided on the page index it is given.
func installHook() {
	layout.VerifPageHook = func(index int, resumeAt string, oof, foot int, page *bo.PageBox) {
		if index >= maxPages {
			panic(pageLimit{})
		}
		if o := observed; o != nil && oof > o.MaxOOF {
			o.MaxOOF = oof
		}
	}
}

// renderOpts: hook = record the page-loop observations of this render in its outcome (sequential
// renders only).
type renderOpts struct {
	fonts text.FontConfiguration // nil = fresh configuration
	hook  bool
	// writeTwice = also call Document.Write a second time on a second recorder and return its outcome
	writeTwice bool
	// sharedUA: parsed user-agent sheets by text, reused by every render that names the same text
	// (read-only while renders run); nil = parse the document's sheet afresh.
	sharedUA map[string]*uaHolder
}

// render runs NewHTML → document.Render → Document.Write on a fresh recorder.  It does not touch the
// global loggers (wr.Quiet is called once per process by the check), so it may be called from several
// goroutines at once.  A panic of the code under test is part of the outcome.
func render(d *cdoc, ro renderOpts) (out *outcome, second *outcome) {
	out = &outcome{MaxOOF: -1}
	defer func() {
		if ro.hook {
			observed = nil
		}
		if p := recover(); p != nil {
			if s, ok := p.(string); ok && strings.HasPrefix(s, "harness:") {
				panic(p) // a defect of the harness itself must be loud
			}
			if _, ok := p.(pageLimit); ok {
				// the document is outside the domain of this check (C01 judges whether the page loop ends)
				out.Kind = "toolong"
				out.Lines = []string{fmt.Sprintf("more than %d pages", maxPages)}
				second = nil
				return
			}
			out.Kind = "panic"
			out.Lines = []string{fw.PanicSig(maskHex(fmt.Sprint(p)), string(debug.Stack()))}
			second = nil
		}
	}()
	fonts := ro.fonts
	if fonts == nil {
		var err error
		fonts, err = fontsFor(d.Engine)
		if err != nil {
			panic("harness: font configuration: " + err.Error())
		}
	}
	if ro.hook {
		out.MaxOOF = 0
		observed = out
	}
	html, err := tree.NewHTML(utils.InputString(d.HTML), "mem://doc/", wr.MemFetcher(d.Files), "")
	if err != nil {
		out.Kind = "error"
		out.Lines = []string{"NewHTML: " + err.Error()}
		return out, nil
	}
	if d.UA != "" {
		if h := ro.sharedUA[d.UA]; h != nil {
			html.UAStyleSheet = h.css
		} else {
			html.UAStyleSheet = parseUA(d.UA).css
		}
	}
	var sheets []tree.CSS
	for _, u := range d.UserCSS {
		css, err := tree.NewCSSDefault(utils.InputString(u))
		if err != nil {
			out.Kind = "error"
			out.Lines = []string{"NewCSS: " + err.Error()}
			return out, nil
		}
		sheets = append(sheets, css)
	}
	doc := document.Render(html, sheets, d.Hints, fonts)
	zoom := d.Zoom
	if zoom == 0 {
		zoom = 1
	}
	r := rec.New()
	r.CheckProtocol = false // C14's monitor; not needed here
	doc.Write(r, backend.Fl(zoom), nil)
	fill(out, r, len(doc.Pages))
	if ro.writeTwice {
		second = &outcome{MaxOOF: out.MaxOOF}
		r2 := rec.New()
		r2.CheckProtocol = false
		doc.Write(r2, backend.Fl(zoom), nil)
		fill(second, r2, len(doc.Pages))
	}
	return out, second
}

func fill(out *outcome, r *rec.Doc, pages int) {
	out.Kind = "trace"
	out.Lines = traceLines(r)
	out.Pages = pages
	for _, pa := range r.Anchors {
		if len(pa) > out.MaxAnchorsPerPage {
			out.MaxAnchorsPerPage = len(pa)
		}
	}
	for _, e := range r.Events {
		if e.Op == "DrawText" {
			out.TextEvents++
		}
	}
}

// maskHex replaces 0x… addresses (which legitimately differ between runs) by 0x?.
func maskHex(s string) string {
	var sb strings.Builder
	for i := 0; i < len(s); i++ {
		if s[i] == '0' && i+1 < len(s) && s[i+1] == 'x' {
			sb.WriteString("0x?")
			i += 2
			for i < len(s) && strings.ContainsRune("0123456789abcdefABCDEF", rune(s[i])) {
				i++
			}
			i--
			continue
		}
		sb.WriteByte(s[i])
	}
	return sb.String()
}

// diff describes the first difference between two outcomes.
func diff(a, b *outcome) string {
	if a.Kind != b.Kind {
		return fmt.Sprintf("first ended as %s (%s), second as %s (%s)", a.Kind, head(a), b.Kind, head(b))
	}
	n := len(a.Lines)
	if len(b.Lines) < n {
		n = len(b.Lines)
	}
	for i := 0; i < n; i++ {
		if a.Lines[i] != b.Lines[i] {
			return fmt.Sprintf("backend call %d of %d/%d differs: first %s ; second %s", i, len(a.Lines), len(b.Lines), trunc(a.Lines[i], 300), trunc(b.Lines[i], 300))
		}
	}
	extra := ""
	if len(a.Lines) > n {
		extra = a.Lines[n]
	} else if len(b.Lines) > n {
		extra = b.Lines[n]
	}
	return fmt.Sprintf("one trace is a prefix of the other: %d vs %d backend calls; first extra call: %s", len(a.Lines), len(b.Lines), trunc(extra, 300))
}

func head(o *outcome) string {
	if len(o.Lines) == 0 {
		return "empty"
	}
	if o.Kind == "trace" {
		return fmt.Sprintf("%d calls", len(o.Lines))
	}
	return trunc(o.Lines[0], 200)
}

func trunc(s string, n int) string {
	if len(s) > n {
		return s[:n] + "…"
	}
	return s
}
