// Package c15 — Rendering is deterministic and renders do not interfere.
//
// Monitors (DESIGN.md §6 C15), all on the canonical backend trace of the recording backend
// (bit-exact floats, opaque handles renumbered by first occurrence):
//
//	D1  the same document rendered twice in a row in one process;
//	D1w Document.Write called twice on one rendered Document;
//	D3  the same document rendered again after other documents (different history), with fresh font
//	    configurations, with one font configuration reused for the whole history, and with one parsed
//	    user-agent style sheet object reused for the whole history;
//	D2  the same document rendered in two different worker processes (other map hash seeds, other
//	    history) — compared by the driver through fw.Out / Prop.Post;
//	I1  G goroutines rendering different documents at the same time, each render with its own font
//	    configuration, round after round behind a start gate, in the -race binary: every concurrent trace
//	    is compared with the sequential trace of the same document, and every report of the Go race
//	    detector (read from the GORACE log of the worker) is a violation.
package c15

import (
	"encoding/json"
	"flag"
	"fmt"
	"math/rand"
	"os"
	"regexp"
	"sort"
	"strconv"
	"strings"
	"sync"

	"github.com/benoitkugler/webrender/text"

	"verif/internal/fw"
	"verif/internal/gen"
	"verif/internal/wr"
)

// anchorOrderDefectOpen: on the unchanged tree Document.resolveLinks ranges over the map
// page.anchors, so the order of the anchors inside one page's list of the CreateAnchors call differs
// from render to render (genuine defect, witness findings/C15/anchor-order.json, notes/C15.md).
// While it is open, a pair of traces that differs ONLY by that order is counted and listed as a
// report-only disagreement instead of a violation (everything else stays bit-exact); the witness kind
// "strict" always compares strictly.  Set to false once resolveLinks sorts.
const anchorOrderDefectOpen = false

// brokenOOFOrderDefectOpen: layout/pages.go ranges over the map layoutContext.brokenOutOfFlow when it
// continues, on the next page, the floats / absolutely positioned boxes that were broken at a page
// boundary: with two or more of them their order (paint order, and float placement) differs from
// render to render (genuine defect, witness findings/C15/broken-floats-order.json).  While it is
// open, a document in which two or more out-of-flow boxes were pending at one page boundary (observed
// through layout.VerifPageHook in the first, sequential render — an observed precondition, not a
// failure pattern) is left out of the comparisons, and the biased generator emits at most one
// page-breaking out-of-flow box per document.
const brokenOOFOrderDefectOpen = false

type cdoc struct {
	gen.Doc
	// UA, when not empty, replaces the user-agent style sheet (tree.HTML.UAStyleSheet).
	UA string `json:"ua,omitempty"`
	// Biased: produced by this package's generator (not by the hostile grammar of internal/gen).
	Biased bool `json:"biased,omitempty"`
}

type input struct {
	Kind string `json:"kind"` // "det" | "conc"
	Docs []cdoc `json:"docs"`
	// Mirror: second copy of case i-N, executed in another worker process (D2).
	Mirror bool `json:"mirror,omitempty"`
	// SharedFonts: also run the history with one font configuration per engine reused by every render.
	SharedFonts bool `json:"shared_fonts,omitempty"`
	// Strict: compare anchor order strictly even while anchorOrderDefectOpen (witness files).
	Strict bool `json:"strict,omitempty"`
	// Rounds, Goroutines: concurrent part.
	Rounds     int `json:"rounds,omitempty"`
	Goroutines int `json:"goroutines,omitempty"`
	// ColdFirst: the concurrent rounds come before the sequential reference renders.
	ColdFirst bool `json:"cold_first,omitempty"`
	// Repeats: number of additional fresh renders of every document, each compared with the first
	// one (every render meets new map iteration orders: an outcome that differs for one order in six
	// needs several renders).  0 = extraRepeats for the documents of the biased generator, none for the
	// others; witness files name a larger number.
	Repeats int `json:"repeats,omitempty"`
	// OtherOut: the fw.Out of this case observed in another process (replay of a D2 violation).
	OtherOut string `json:"other_process_out,omitempty"`
}

type sizes struct{ det, conc, cold, docsPerDet, concDocs, rounds int }

func sz(tier string) sizes {
	if tier == "thorough" {
		return sizes{det: 1000, conc: 100, cold: 600, docsPerDet: 4, concDocs: 8, rounds: 12}
	}
	return sizes{det: 40, conc: 10, cold: 40, docsPerDet: 4, concDocs: 8, rounds: 4}
}

// seed of the run: Gen only receives the per-case generator, and the mirror of case i must rebuild
// the generator of case i-N.  cmd/vw stores the effective seed in its -seed flag.
func runSeed() int64 {
	if f := flag.Lookup("seed"); f != nil {
		if v, err := strconv.ParseInt(f.Value.String(), 10, 64); err == nil && v >= 0 {
			return v
		}
	}
	if v, err := strconv.ParseInt(os.Getenv("VERIF_SEED"), 10, 64); err == nil {
		return v
	}
	return 1
}

func genDoc(r *rand.Rand) cdoc {
	switch k := r.Intn(10); {
	case k < 6:
		d := cdoc{Doc: biasedDoc(r), Biased: true}
		if r.Intn(4) == 0 {
			d.UA = uaSheet(r)
		}
		return d
	default:
		d := gen.HTMLDoc(r)
		// a hostile-grammar document whose sheet makes every element a multi-column container
		// ("* { columns: N }") can take many minutes to lay out (nested column layouts; C07's domain,
		// witness findings/C15/slow-universal-columns.json): drawn again
		for k := 0; k < 8 && reUniversalColumns.MatchString(d.HTML); k++ {
			d = gen.HTMLDoc(r)
		}
		if r.Intn(5) == 0 {
			d.Engine = "gotext"
		}
		return cdoc{Doc: d}
	}
}

func genDet(r *rand.Rand, s sizes) input {
	in := input{Kind: "det"}
	for k := 0; k < s.docsPerDet; k++ {
		in.Docs = append(in.Docs, genDoc(r))
	}
	in.SharedFonts = r.Intn(2) == 0
	// in half of the groups all biased documents name the same replacement user-agent sheet: pass 1
	// parses it afresh for every render, pass 2 reuses one parsed object for all of them
	if r.Intn(2) == 0 {
		ua := uaSheet(r)
		for k := range in.Docs {
			if in.Docs[k].Biased {
				in.Docs[k].UA = ua
			}
		}
	}
	return in
}

func genCase(seed int64, i int, tier string) input {
	s := sz(tier)
	switch {
	case i < s.det:
		return genDet(fw.CaseRNG(seed, "C15", i), s)
	case i < 2*s.det:
		in := genDet(fw.CaseRNG(seed, "C15", i-s.det), s)
		in.Mirror = true
		return in
	}
	r := fw.CaseRNG(seed, "C15", i)
	if i >= 2*s.det+s.conc {
		// cold start: a fresh worker process (Batch is 1) whose first renders are concurrent ones of
		// small documents: lazily initialised process-wide state (hyphenation dictionary cache, ...) is
		// first touched by several goroutines at once
		in := input{Kind: "conc", Rounds: 2, Goroutines: 8, ColdFirst: true}
		for k := 0; k < 8; k++ {
			in.Docs = append(in.Docs, cdoc{Doc: smallDoc(r), Biased: true})
		}
		return in
	}
	in := input{Kind: "conc", Rounds: s.rounds, Goroutines: s.concDocs}
	for k := 0; k < s.concDocs; k++ {
		in.Docs = append(in.Docs, genDoc(r))
	}
	// a shared user-agent sheet object for about half of the concurrent cases
	if r.Intn(2) == 0 {
		ua := uaSheet(r)
		for k := range in.Docs {
			if in.Docs[k].UA == "" && in.Docs[k].Biased {
				in.Docs[k].UA = ua
			}
		}
	}
	return in
}

func init() {
	fw.Register(&fw.Prop{
		ID:   "C15",
		Race: true,
		Rule: "cases: (det) groups of 4 generated documents (60 % from a generator biased to ids/anchors/links, out-of-flow boxes broken at page boundaries, string-set/running elements, target-counter, per-document @counter-style definitions (a random subset of cs1..cs4 with per-document symbols and, in a quarter of the documents, a redefinition of lower-greek / upper-roman / lower-roman or an attempted one of disc) reaching the render's counter-style table through the document's <style>, a <link>-ed sheet, a sheet @import-ed by the <style> (url() / string, absolute / relative URL, with or without a media list) or a sheet imported by an imported / linked sheet (relative URL, sometimes with a circular @import back), two thirds of the documents with a list that uses every style of the family whether the document defines it or not (an undefined one falls back to decimal, so a definition surviving the render that read it changes another document's markers), hyphenation in 4 languages, data-URI and same-URL/different-content images, @font-face, tables/flex/grid/columns, pseudo-elements, invalid declarations, replacement user-agent sheets, grid containers with explicit fixed / auto / min-content / max-content / minmax / fr tracks, implicit tracks, auto-placed, explicitly placed and spanning items, alignment and nested grids, languages with region / script / variant subtags under quotes: auto with nested <q> and open-quote / close-quote pseudo-elements and hyphenation, footnotes, bookmark-label / string-set built from target-counter / target-text, SVG gradients inheriting through href chains; 40 % hostile grammar documents of internal/gen; pango or go-text engine): each document rendered and written twice, rendered again in the opposite order (other history, one parsed user-agent sheet object reused), every document of the biased generator rendered 4 more times (each render meets other map iteration orders), optionally once more with one font configuration reused; every group is executed a second time by another worker process (cases N..2N-1) and compared by the driver; (conc) 8 documents rendered by 8 goroutines at once for 4 (quick) / 12 (thorough) rounds with a rotating assignment, own font configuration per render, half of the cases with one shared parsed user-agent sheet, each concurrent trace compared with the document's sequential trace; (cold) the same with 8 small documents as the very first renders of a fresh process, 2 rounds. One case per worker process; all workers are the -race build and every report of the race detector is a violation. Non-trivial: at least one document of the case drew text and (det, primary copy only) some document has >= 2 pages; distinct = distinct input. Documents whose text has the input features of an open order-dependence defect (knownDefectDomain: grid with a spanning item and an fr track; grid with a percentage height; grid with footnotes; a language with two prefix keys of the quotes table without explicit quotes; SVG gradient href cycle) are rendered but left out of the comparisons and counted (docs_excluded_*); the biased generator avoids these combinations while the switches in gen.go are on.",
		N:    func(tier string) int { s := sz(tier); return 2*s.det + s.conc + s.cold },
		Gen: func(_ *rand.Rand, i int, tier string) any {
			return genCase(runSeed(), i, tier)
		},
		Check: check,
		Post:  post,
		Floor: func(tier string) int {
			s := sz(tier)
			return (s.det + s.conc + s.cold) / 2
		},
		CounterFloors: func(tier string) map[string]int64 {
			s := sz(tier)
			return map[string]int64{
				"renders":             int64(s.det * 10),
				"pairs_repeat":        int64(s.det / 2),
				"pairs_history":       int64(s.det * 2),
				"pairs_rewrite":       int64(s.det * 2),
				"pairs_shared_fonts":  int64(s.det / 2),
				"pairs_concurrent":    int64((s.conc*s.rounds/2 + s.cold*2*9/10) * s.concDocs * 3 / 4),
				"pairs_cross_process": int64(s.det * 2),
				// conc cases may run fewer rounds (concLineBudget) and a heavy one may be inconclusive
				"concurrent_rounds":         int64(s.conc*s.rounds/2 + s.cold*2*9/10),
				"docs_multi_page":           int64(s.det),
				"docs_many_anchors_on_page": int64(s.det / 2),
				"docs_broken_out_of_flow":   int64(s.det / 10),
				"docs_gotext":               int64(s.det / 4),
				"docs_custom_ua":            int64(s.det / 4),
				"race_detector_on":          int64((2*s.det + s.conc + s.cold) * 95 / 100),
				"cold_start_cases":          int64(s.cold * 9 / 10),
				"cold_start_hyphenating":    int64(s.cold / 2),
				// families added for the order-dependence of layout and of language data
				"pairs_repeat_extra":        int64(s.det * 4),
				"docs_grid":                 int64(s.det / 2),
				"docs_grid_spanning_item":   int64(s.det / 8),
				"docs_grid_flexible_track":  int64(s.det / 8),
				"docs_grid_intrinsic_track": int64(s.det / 4),
				"docs_grid_nested":          int64(s.det / 20),
				"docs_lang_subtags":         int64(s.det / 2),
				"docs_lang_two_prefixes":    int64(s.det / 4),
				"docs_nested_q":             int64(s.det / 4),
				"docs_open_quote_auto":      int64(s.det / 4),
				"docs_svg_gradient_href":    int64(s.det / 4),
				"docs_footnote":             int64(s.det / 8),
				// routes of @counter-style rules into the per-render table (<style>, <link>, @import, nested @import)
				"docs_counter_style_via_inline":                      int64(s.det / 2),
				"docs_counter_style_via_import":                      int64(s.det / 2),
				"docs_counter_style_via_link":                        int64(s.det / 4),
				"docs_counter_style_via_nested":                      int64(s.det / 4),
				"docs_counter_style_overrides_predefined":            int64(s.det / 4),
				"docs_counter_style_sampler":                         int64(s.det),
				"docs_imported_counter_style_used":                   int64(s.det / 2),
				"groups_imported_counter_style_visible_to_other_doc": int64(s.det / 16),
			}
		},
		Assumptions: []string{
			"only the interleavings, map orders and races that were executed are judged; a race that needs an interleaving or an input that did not occur is not seen",
			"documents never reference time, randomness or the environment; resources come from a deterministic in-memory fetcher; every render gets its own font configuration except in the explicit reuse variants (which skip documents with @font-face, whose faces are added to the configuration by design)",
			"the cross-process comparison relies on the framework running different batches in different worker processes",
			"an order dependence shows only if two of the 3 to 8 renders of a document met map iteration orders with different outcomes: an effect that needs one order in n is seen with probability about 1-(1-1/n)^7 per document that has it",
			"a definition leaking out of an @import-ed (or linked) style sheet is seen only for the at-rules the generator routes through such sheets: @counter-style rules and plain style rules; @font-face and @page rules are generated in the document's <style> only, and user style sheets never import",
			"five open order-dependence defects (known findings F-C15-grid-span-flex-order, -grid-row-percent-height-order, -grid-footnote-order, -lang-quotes-prefix-order, -svg-gradient-href-cycle-order) are not re-reported: their input features are kept out of the compared documents (generator switches + text predicate), so another order dependence that needs the same features is not seen either until they are repaired and the switches turned off",
		},
		// one case per worker process: every concurrent case meets the lazily filled process-wide
		// caches (hyphenation dictionaries) cold, and the two copies of a det case never share a process
		Batch:     1,
		CPUBudget: 240,
		Extra:     extra,
	})
}

var quietOnce sync.Once

// pairResult classifies two outcomes of the same document.
func (c *checker) pair(mode string, di int, a, b *outcome) {
	if c.excluded[di] {
		c.res.Count("pairs_skipped_known_defect_domain", 1)
		return
	}
	c.res.Count("pairs_"+mode, 1)
	if a.strict() == b.strict() {
		return
	}
	if mode == "rewrite" {
		// backend.RasterImage.Content is an io.Reader owned by the image: the first Write's backend has
		// consumed it, the second Write hands over an exhausted reader.  That is a property of the
		// stream type, not of the call sequence: compare with the content hash masked, and report it.
		am, bm := a.maskRaster(), b.maskRaster()
		if am.strict() == bm.strict() {
			c.res.Count("rewrite_raster_reader_exhausted", 1)
			c.res.Reports = appendOnce(c.res.Reports, "second Document.Write hands the backend an exhausted RasterImage.Content reader")
			return
		}
		a, b = am, bm
	}
	strictOnly := a.anchorsSorted() == b.anchorsSorted()
	d := c.in.Docs[di]
	desc := fmt.Sprintf("document %d of the case (%s engine): %s", di, engineName(d.Engine), diff(a, b))
	if why := defectDomain(&d, true); why != "" {
		desc = "[document has the input features of the repaired or open order-dependence defect " + why + "] " + desc
	}
	if strictOnly {
		c.res.Count("anchor_order_differences", 1)
		if anchorOrderDefectOpen && !c.in.Strict {
			c.res.Reports = appendOnce(c.res.Reports, "known: order of anchors inside one page of CreateAnchors differs ("+mode+")")
			return
		}
		c.res.Fail("nondet-anchor-order:"+mode, modeText(mode)+" gave the same backend calls but another order of the anchors of one page in CreateAnchors; "+desc)
		return
	}
	op := "?"
	if a.Kind != b.Kind {
		op = a.Kind + "/" + b.Kind
	} else {
		for i := 0; i < len(a.Lines) && i < len(b.Lines); i++ {
			if a.Lines[i] != b.Lines[i] {
				op = strings.SplitN(a.Lines[i], " ", 2)[0]
				break
			}
		}
		if op == "?" {
			op = "length"
		}
	}
	c.res.Fail("trace-differs:"+mode+":"+op, modeText(mode)+" gave a different backend trace; "+desc)
}

func modeText(mode string) string {
	switch mode {
	case "repeat":
		return "rendering the same document twice in a row"
	case "repeat_extra":
		return "rendering the same document again (one of several additional fresh renders)"
	case "rewrite":
		return "calling Document.Write a second time on the same rendered document"
	case "history":
		return "rendering the same document again after other documents"
	case "shared_fonts":
		return "rendering the same document with a font configuration already used by earlier renders"
	case "shared_ua":
		return "rendering the same document with a user-agent style sheet object already used by earlier renders"
	case "concurrent":
		return "rendering the document while other goroutines render other documents"
	case "cross_process":
		return "rendering the same document in another process"
	}
	return mode
}

func appendOnce(l []string, s string) []string {
	for _, e := range l {
		if e == s {
			return l
		}
	}
	return append(l, s)
}

func engineName(e string) string {
	if e == "" {
		return "pango"
	}
	return e
}

type checker struct {
	in  *input
	res *fw.Result
	uas map[string]*uaHolder
	// excluded documents (known-defect domain, see brokenOOFOrderDefectOpen)
	excluded map[int]bool
}

func (c *checker) exclude(di int, o *outcome) {
	if c.excluded == nil {
		c.excluded = map[int]bool{}
	}
	if brokenOOFOrderDefectOpen && !c.in.Strict && o.MaxOOF >= 2 {
		c.excluded[di] = true
		c.res.Count("docs_excluded_multi_broken_out_of_flow", 1)
	}
	if why := knownDefectDomain(&c.in.Docs[di]); why != "" && !c.in.Strict && !c.excluded[di] {
		c.excluded[di] = true
		c.res.Count("docs_excluded_known_defect_domain", 1)
		c.res.Count("docs_excluded_"+why, 1)
	}
}

// extraRepeats: additional fresh renders of each biased document in a det case (pass 2b).
const extraRepeats = 4

var reUniversalColumns = regexp.MustCompile(`(^|[\s,}>])\*\s*\{[^}]*\bcolumn(s|-count|-width)\s*:`)

var (
	reGridSpan    = regexp.MustCompile(`span\s+[0-9]|grid-(column|row|area)\s*:[^;"}]*/`)
	reFr          = regexp.MustCompile(`[0-9]fr\b`)
	rePctHeight   = regexp.MustCompile(`height\s*:\s*[0-9.]+%`)
	reLangTag     = regexp.MustCompile(`<[a-zA-Z][^<>]*\blang="([^"]*)"[^<>]*>`)
	reGradientTag = regexp.MustCompile(`<(?:linearGradient|radialGradient|pattern)\b[^<>]*>`)
	reIDAttr      = regexp.MustCompile(`\bid="([^"]*)"`)
	reHrefAttr    = regexp.MustCompile(`\bhref="#([^"]*)"`)
)

// knownDefectDomain says whether a document contains a feature combination that triggers one of the
// open order-dependence defects of the generator switches (gen.go): a precondition on the input text,
// decided before anything is compared, deliberately wider than the trigger.  Such a document is still
// rendered (panics, races) but left out of the trace comparisons.
func knownDefectDomain(d *cdoc) string { return defectDomain(d, false) }

// defectDomain: with all set, the switches are ignored (diagnostics in violation messages).
func defectDomain(d *cdoc, all bool) string {
	gridSpanFlexDefectOpen, gridPercentHeightDefectOpen := gridSpanFlexDefectOpen || all, gridPercentHeightDefectOpen || all
	langQuotesPrefixDefectOpen, svgHrefCycleDefectOpen := langQuotesPrefixDefectOpen || all, svgHrefCycleDefectOpen || all
	t := docText(d)
	if strings.Contains(t, "grid") {
		// biased documents: footnotes inside grid items have their own class; others: any footnote
		if (gridFootnoteOrderDefectOpen || all) && (d.Biased && strings.Contains(t, `class="fg"`) || !d.Biased && strings.Contains(t, "footnote")) {
			return "grid_footnote"
		}
		if gridSpanFlexDefectOpen && reFr.MatchString(t) && reGridSpan.MatchString(t) {
			return "grid_span_flex"
		}
		if gridPercentHeightDefectOpen && rePctHeight.MatchString(t) {
			return "grid_percent_height"
		}
	}
	if langQuotesPrefixDefectOpen {
		for _, m := range reLangTag.FindAllStringSubmatch(t, -1) {
			if !langSafe(m[1]) && !strings.Contains(m[0], "quotes:") {
				return "lang_quotes_prefix"
			}
		}
	}
	if svgHrefCycleDefectOpen && strings.Contains(t, "Gradient") {
		if hrefCycle(t) {
			return "svg_href_cycle"
		}
	}
	return ""
}

// langSafe: at most one key of the quotes table (keys: 2 or 3 letters, optionally "_" + subtag) can be
// a proper prefix of the tag, or the tag can only match exactly.
func langSafe(l string) bool {
	if strings.Contains(l, "_") {
		// a key itself (exact match) is safe only if the generator says so: fr_CA, fr_CH, el_POLYTON
		return l == "fr_CA" || l == "fr_CH" || l == "el_POLYTON"
	}
	primary := l
	if i := strings.IndexByte(l, '-'); i >= 0 {
		primary = l[:i]
	}
	return len(primary) <= 2 || len(l) <= 3
}

// hrefCycle: the gradient / pattern elements of the text reference each other in a cycle of length >= 2.
func hrefCycle(t string) bool {
	next := map[string]string{}
	for _, tag := range reGradientTag.FindAllString(t, -1) {
		id := reIDAttr.FindStringSubmatch(tag)
		h := reHrefAttr.FindStringSubmatch(tag)
		if id != nil && h != nil && id[1] != h[1] {
			next[id[1]] = h[1]
		}
	}
	for start := range next {
		cur := start
		for n := 0; n <= len(next); n++ {
			nx, ok := next[cur]
			if !ok {
				break
			}
			if nx == start {
				return true
			}
			cur = nx
		}
	}
	return false
}

func check(raw json.RawMessage) fw.Result {
	var in input
	var res fw.Result
	if err := json.Unmarshal(raw, &in); err != nil {
		return fw.Result{Verdict: fw.Inconclusive, Msg: err.Error()}
	}
	if os.Getenv("C15_STRICT") != "" {
		in.Strict = true // development aid (no known-defect exclusions); registered commands never set it
	}
	quietOnce.Do(func() { wr.Quiet(); installHook() })
	if raceOn {
		res.Count("race_detector_on", 1)
	}
	c := &checker{in: &in, res: &res}
	switch in.Kind {
	case "det":
		c.det()
	case "conc":
		c.conc()
	default:
		return fw.Result{Verdict: fw.Inconclusive, Msg: "unknown case kind " + in.Kind}
	}
	return res
}

// account counts what a first render of a document showed.
func (c *checker) account(d *cdoc, o *outcome) {
	c.res.Count("renders_first", 1)
	switch o.Kind {
	case "panic":
		c.res.Count("docs_panicking", 1) // C01's domain; still compared (a panic must be reproducible too)
		return
	case "error":
		c.res.Count("docs_error", 1)
		return
	case "toolong":
		c.res.Count("docs_over_page_limit", 1) // outside the domain (page loop longer than maxPages)
		return
	}
	c.res.Count("backend_calls", int64(len(o.Lines)))
	c.res.Count("pages", int64(o.Pages))
	if o.Pages >= 2 {
		c.res.Count("docs_multi_page", 1)
	}
	if o.MaxAnchorsPerPage >= 2 {
		c.res.Count("docs_many_anchors_on_page", 1)
	}
	if o.MaxOOF >= 1 {
		c.res.Count("docs_broken_out_of_flow", 1)
	}
	if o.MaxOOF >= 2 {
		c.res.Count("docs_multi_broken_out_of_flow", 1)
	}
	if d.Engine == "gotext" {
		c.res.Count("docs_gotext", 1)
	}
	if d.UA != "" {
		c.res.Count("docs_custom_ua", 1)
	}
	if strings.Contains(d.HTML, "hyphens: auto") || strings.Contains(d.HTML, "hyphens:auto") {
		c.res.Count("docs_hyphens_auto", 1)
	}
	if strings.Contains(d.HTML, "@font-face") {
		c.res.Count("docs_font_face", 1)
	}
	if d.Biased {
		for _, f := range [][2]string{
			{`class="gr"`, "docs_grid"}, {" data-gs", "docs_grid_spanning_item"}, {" data-gf", "docs_grid_flexible_track"}, {" data-gn", "docs_grid_nested"},
			{" data-ls", "docs_lang_subtags"}, {" data-la", "docs_lang_two_prefixes"}, {" data-q2", "docs_nested_q"}, {`class="oq"`, "docs_open_quote_auto"},
			{"mem://doc/grad.svg", "docs_svg_gradient_href"}, {`class="fn"`, "docs_footnote"}, {`class="fg"`, "docs_footnote_in_grid"}, {`class="tc bt"`, "docs_bookmark_target"},
		} {
			if strings.Contains(d.HTML, f[0]) {
				c.res.Count(f[1], 1)
			}
		}
		if strings.Contains(d.HTML, "minmax(") || strings.Contains(d.HTML, "min-content") {
			if strings.Contains(d.HTML, `class="gr"`) {
				c.res.Count("docs_grid_intrinsic_track", 1)
			}
		}
		// route of the document's @counter-style rules into the render's table
		if ci := csInfoOf(d); ci.route != "" {
			c.res.Count("docs_counter_style_via_"+strings.ReplaceAll(ci.route, "-", "_"), 1)
			if ci.override != "" {
				c.res.Count("docs_counter_style_overrides_predefined", 1)
			}
			if ci.sampler {
				c.res.Count("docs_counter_style_sampler", 1)
				if ci.imported() && ci.defined != "" {
					c.res.Count("docs_imported_counter_style_used", 1)
				}
			}
		}
	}
}

// csInfo: what the biased generator recorded on <html> about the document's @counter-style rules.
type csInfo struct {
	route    string // inline | import | import-screen | link | nested
	defined  string // digits of the cs1..cs4 the document defines
	override string // predefined style it redefines
	sampler  bool   // has the list using every style of the family
}

var reCSInfo = regexp.MustCompile(` data-csr="([a-z-]*)" data-csd="([0-9]*)" data-cso="([a-z-]*)" data-css="(true|false)"`)

func csInfoOf(d *cdoc) csInfo {
	if !d.Biased {
		return csInfo{}
	}
	m := reCSInfo.FindStringSubmatch(d.HTML)
	if m == nil {
		return csInfo{}
	}
	return csInfo{route: m[1], defined: m[2], override: m[3], sampler: m[4] == "true"}
}

// imported: the rules reach the table through an @import that applies to the print medium.
func (ci csInfo) imported() bool { return ci.route == "import" || ci.route == "nested" }

// countLeakVisible counts the ordered pairs (A, B) of documents of a group such that A defines a
// counter style in an @import-ed sheet that B uses (sampler) without defining it: a definition that
// survived the render of A would change the markers of B.
func (c *checker) countLeakVisible() {
	n := 0
	for i := range c.in.Docs {
		a := csInfoOf(&c.in.Docs[i])
		if !a.imported() {
			continue
		}
		for j := range c.in.Docs {
			b := csInfoOf(&c.in.Docs[j])
			if i == j || !b.sampler || c.excluded[i] || c.excluded[j] {
				continue
			}
			vis := a.override != "" && a.override != "disc" && a.override != b.override
			for _, k := range a.defined {
				if !strings.ContainsRune(b.defined, k) {
					vis = true
				}
			}
			if vis {
				n++
			}
		}
	}
	c.res.Count("pairs_imported_counter_style_visible_to_other_doc", int64(n))
	if n > 0 {
		c.res.Count("groups_imported_counter_style_visible_to_other_doc", 1)
	}
}

// parseUAs parses every distinct custom user-agent sheet of the case once.
func (c *checker) parseUAs() {
	c.uas = map[string]*uaHolder{}
	for i := range c.in.Docs {
		if t := c.in.Docs[i].UA; t != "" && c.uas[t] == nil {
			c.uas[t] = parseUA(t)
		}
	}
}

func (c *checker) render(di int, ro renderOpts) (*outcome, *outcome) {
	c.res.Count("renders", 1)
	return render(&c.in.Docs[di], ro)
}

// outString is the per-document summary handed to the driver for the cross-process comparison:
// strict hash, anchors-sorted hash, number of calls, and one hash per backend operation so that a
// difference can be attributed.
func outString(os []*outcome, excluded map[int]bool) string {
	type ent struct {
		H   string            `json:"h"`
		HA  string            `json:"ha"`
		N   int               `json:"n"`
		K   string            `json:"k"`
		Ops map[string]string `json:"ops"`
	}
	var l []ent
	for i, o := range os {
		if excluded[i] {
			l = append(l, ent{K: "excluded"})
			continue
		}
		byOp := map[string][]string{}
		for _, ln := range o.Lines {
			op := strings.SplitN(ln, " ", 2)[0]
			byOp[op] = append(byOp[op], ln)
		}
		e := ent{H: o.hash(), HA: hashStr(o.anchorsSorted()), N: len(o.Lines), K: o.Kind, Ops: map[string]string{}}
		for op, ls := range byOp {
			e.Ops[op] = hashStr(strings.Join(ls, "\n"))[:8]
		}
		l = append(l, e)
	}
	b, _ := json.Marshal(l)
	return string(b)
}

// compareOuts compares two outString values; returns (strict differences, differences beyond anchor order).
func compareOuts(a, b string) (anchorOnly []string, real []string) {
	type ent struct {
		H   string            `json:"h"`
		HA  string            `json:"ha"`
		N   int               `json:"n"`
		K   string            `json:"k"`
		Ops map[string]string `json:"ops"`
	}
	var la, lb []ent
	if json.Unmarshal([]byte(a), &la) != nil || json.Unmarshal([]byte(b), &lb) != nil || len(la) != len(lb) {
		return nil, []string{"outputs are not comparable: " + trunc(a, 100) + " / " + trunc(b, 100)}
	}
	for i := range la {
		if la[i].H == lb[i].H || la[i].K == "excluded" || lb[i].K == "excluded" {
			continue
		}
		if la[i].HA == lb[i].HA {
			anchorOnly = append(anchorOnly, fmt.Sprintf("document %d: only the order of anchors inside a page of CreateAnchors differs", i))
			continue
		}
		var ops []string
		for op, h := range la[i].Ops {
			if lb[i].Ops[op] != h {
				ops = append(ops, op)
			}
		}
		for op := range lb[i].Ops {
			if _, ok := la[i].Ops[op]; !ok {
				ops = append(ops, op)
			}
		}
		sort.Strings(ops)
		real = append(real, fmt.Sprintf("document %d: %s with %d backend calls in one process, %s with %d in the other; calls that differ: %s", i, la[i].K, la[i].N, lb[i].K, lb[i].N, strings.Join(ops, ",")))
	}
	return
}

func (c *checker) det() {
	in := c.in
	n := len(in.Docs)
	first := make([]*outcome, n)
	order := make([]int, n)
	for i := range order {
		order[i] = i
		if in.Mirror { // the mirror copy meets the documents in the opposite order
			order[i] = n - 1 - i
		}
	}
	// pass 1: every document once (fresh font configuration, fresh user-agent sheet), written twice
	for _, di := range order {
		o, w2 := c.render(di, renderOpts{hook: true, writeTwice: true})
		first[di] = o
		c.account(&in.Docs[di], o)
		c.exclude(di, o)
		if w2 != nil {
			if rewriteDefectsOpen && !in.Strict && paintMutates(&in.Docs[di]) {
				c.res.Count("rewrite_skipped_known_defect", 1)
			} else {
				c.pair("rewrite", di, o, w2)
			}
		}
	}
	fw.Out = outString(first, c.excluded)
	if in.OtherOut != "" {
		ao, real := compareOuts(in.OtherOut, fw.Out)
		for range ao {
			c.res.Count("anchor_order_differences", 1)
		}
		if len(real) > 0 {
			c.res.Fail("trace-differs:cross_process", modeText("cross_process")+" gave a different backend trace: "+strings.Join(real, "; "))
		} else if len(ao) > 0 && (!anchorOrderDefectOpen || in.Strict) {
			c.res.Fail("nondet-anchor-order:cross_process", modeText("cross_process")+": "+strings.Join(ao, "; "))
		}
	}
	if !in.Mirror {
		c.countLeakVisible()
		// pass 2: again in the opposite order: the last document is repeated at once (D1), the others
		// after a different history (D3); custom user-agent sheets are parsed once per distinct text and
		// shared by all renders of this pass
		c.parseUAs()
		for k := n - 1; k >= 0; k-- {
			di := order[k]
			o, _ := c.render(di, renderOpts{sharedUA: c.uas})
			mode := "history"
			if k == n-1 {
				mode = "repeat"
			}
			c.pair(mode, di, first[di], o)
			if in.Docs[di].UA != "" {
				c.res.Count("pairs_shared_ua", 1)
			}
		}
		// pass 2b: additional fresh renders (other map iteration orders every time)
		for _, di := range order {
			k := in.Repeats
			if k == 0 && in.Docs[di].Biased {
				k = extraRepeats
			}
			if c.excluded[di] || first[di].Kind == "toolong" {
				continue
			}
			for ; k > 0; k-- {
				o, _ := c.render(di, renderOpts{})
				c.pair("repeat_extra", di, first[di], o)
			}
		}
		// pass 3: one font configuration per engine reused by every render of the pass
		if in.SharedFonts {
			shared := map[string]text.FontConfiguration{}
			for _, di := range order {
				d := &in.Docs[di]
				if strings.Contains(d.HTML, "@font-face") || containsFontFace(d) {
					continue // @font-face adds faces to the configuration: reuse changes the input by design
				}
				e := engineName(d.Engine)
				if shared[e] == nil {
					f, err := fontsFor(d.Engine)
					if err != nil {
						panic("harness: font configuration: " + err.Error())
					}
					shared[e] = f
				}
				o, _ := c.render(di, renderOpts{fonts: shared[e]})
				c.pair("shared_fonts", di, first[di], o)
			}
		}
	}
	c.finish(first, !in.Mirror)
}

// rewriteDefectsOpen: painting changes the laid-out document in two places, so that a second
// Document.Write draws something else (reported, findings/C15/rewrite-*.json): block-ellipsis appends
// the ellipsis to the stored text layout, and page marks are prepended to the page background's layer
// list.  While open, documents naming these properties are left out of the Write-twice comparison.
const rewriteDefectsOpen = true

func paintMutates(d *cdoc) bool {
	t := strings.ToLower(docText(d))
	return strings.Contains(t, "block-ellipsis") || strings.Contains(t, "line-clamp") || strings.Contains(t, "max-lines") || strings.Contains(t, "marks")
}

// docText is all the text of a document (HTML, sheets, resources).
func docText(d *cdoc) string {
	var sb strings.Builder
	sb.WriteString(d.HTML)
	for _, u := range d.UserCSS {
		sb.WriteString(u)
	}
	for _, f := range d.Files {
		sb.WriteString(f)
	}
	sb.WriteString(d.UA)
	return sb.String()
}

func containsFontFace(d *cdoc) bool {
	for _, u := range d.UserCSS {
		if strings.Contains(u, "@font-face") {
			return true
		}
	}
	for _, f := range d.Files {
		if strings.Contains(f, "@font-face") {
			return true
		}
	}
	return strings.Contains(d.UA, "@font-face")
}

// finish sets the non-triviality flag.
func (c *checker) finish(first []*outcome, primary bool) {
	text, multi, allTrace := false, false, true
	for _, o := range first {
		if o.Kind != "trace" {
			allTrace = false
		}
		if o.TextEvents > 0 {
			text = true
		}
		if o.Pages >= 2 {
			multi = true
		}
	}
	_ = allTrace
	c.res.Nontrivial = primary && text && multi
}

// concLineBudget: see conc (about 12 rounds of 8 documents of 800 backend calls each).
const concLineBudget = 80000

func (c *checker) conc() {
	in := c.in
	n := len(in.Docs)
	G := in.Goroutines
	if G <= 0 {
		G = n
	}
	R := in.Rounds
	if R <= 0 {
		R = 1
	}
	// sequential reference traces (this also warms nothing on purpose: lazily filled process-wide
	// caches are first met by the concurrent renders in the cases where the reference comes second)
	seq := make([]*outcome, n)
	refFirst := hashStr(in.Docs[0].HTML)[0]%3 == 0 && !in.ColdFirst
	if in.ColdFirst {
		c.res.Count("cold_start_cases", 1)
		nh := 0
		for i := range in.Docs {
			if in.Docs[i].Engine == "" && strings.Contains(in.Docs[i].HTML, `class="hy"`) {
				nh++
			}
		}
		if nh >= 2 {
			c.res.Count("cold_start_hyphenating", 1) // >= 2 goroutines fill the dictionary cache at once
		}
	}
	c.parseUAs()
	doSeq := func() {
		for di := 0; di < n; di++ {
			o, _ := c.render(di, renderOpts{hook: true, sharedUA: c.uas})
			seq[di] = o
			c.account(&in.Docs[di], o)
			c.exclude(di, o)
		}
	}
	if refFirst {
		doSeq()
	}
	raceBefore := raceLogSize()
	results := make([][]*outcome, R)
	for r := 0; r < R; r++ {
		if r == 1 {
			// bound the work of one case by what round 0 produced (a logical measure, not a clock): at
			// most concLineBudget backend calls over all rounds, but never fewer than 2 rounds
			total := 0
			for _, o := range results[0] {
				total += len(o.Lines)
			}
			if total*R > concLineBudget {
				R = concLineBudget / total
				if R < 2 {
					R = 2
				}
				results = results[:R]
				c.res.Count("conc_cases_with_fewer_rounds", 1)
			}
		}
		results[r] = make([]*outcome, G)
		start := make(chan struct{})
		var wg sync.WaitGroup
		for g := 0; g < G; g++ {
			wg.Add(1)
			go func(r, g int) {
				defer wg.Done()
				di := (g + r*3) % n
				<-start
				o, _ := render(&in.Docs[di], renderOpts{sharedUA: c.uas})
				results[r][g] = o
			}(r, g)
		}
		close(start)
		wg.Wait()
		c.res.Count("concurrent_rounds", 1)
		c.res.Count("renders", int64(G))
	}
	if !refFirst {
		doSeq()
	}
	for r := 0; r < R; r++ {
		for g := 0; g < G; g++ {
			di := (g + r*3) % n
			c.pair("concurrent", di, seq[di], results[r][g])
		}
	}
	// race reports written by the detector while this case ran
	for _, blk := range newRaceReports(raceBefore) {
		c.res.Count("race_reports_in_case", 1)
		c.res.Fail(raceSig(blk), "the Go race detector reported a data race while "+fmt.Sprint(G)+" goroutines rendered different documents with their own font configurations:\n"+trunc(blk, 5000))
	}
	c.finish(seq, true)
	// for the concurrent kind a single-page group is still a full exercise
	text := false
	for _, o := range seq {
		if o.TextEvents > 0 {
			text = true
		}
	}
	c.res.Nontrivial = text
}

// post is the driver-side cross-process comparison (D2): case i and case i+N hold the same documents
// and were executed by different worker processes.
func post(run *fw.RunInfo) []fw.PostViolation {
	s := sz(run.Tier)
	var out []fw.PostViolation
	anchorOnlyN := 0
	for i := 0; i < s.det; i++ {
		a, okA := run.Outputs[i]
		b, okB := run.Outputs[i+s.det]
		if !okA || !okB {
			continue // one of the two died or was not executed: reported elsewhere
		}
		ao, real := compareOuts(a, b)
		run.Counters["pairs_cross_process"] += int64(strings.Count(a, `"h":`) - strings.Count(a, `"k":"excluded"`))
		anchorOnlyN += len(ao)
		if len(real) == 0 && (len(ao) == 0 || anchorOrderDefectOpen) {
			continue
		}
		in := genCase(run.Seed, i, run.Tier)
		in.OtherOut = b
		if len(real) > 0 {
			out = append(out, fw.PostViolation{Sig: "trace-differs:cross_process", Msg: fmt.Sprintf("cases %d and %d (same documents, two worker processes): %s", i, i+s.det, strings.Join(real, "; ")), Input: in})
		} else {
			out = append(out, fw.PostViolation{Sig: "nondet-anchor-order:cross_process", Msg: fmt.Sprintf("cases %d and %d (same documents, two worker processes): %s", i, i+s.det, strings.Join(ao, "; ")), Input: in})
		}
	}
	run.Counters["anchor_order_differences_cross_process"] = int64(anchorOnlyN)
	return out
}

func extra(run *fw.RunInfo, cov map[string]any) {
	cov["comparisons"] = map[string]int64{
		"same document twice in a row":                       run.Counters["pairs_repeat"],
		"same document again, additional fresh renders":      run.Counters["pairs_repeat_extra"],
		"Document.Write twice":                               run.Counters["pairs_rewrite"],
		"same document after other documents":                run.Counters["pairs_history"],
		"... of which with a shared user-agent sheet object": run.Counters["pairs_shared_ua"],
		"font configuration reused":                          run.Counters["pairs_shared_fonts"],
		"concurrent vs sequential":                           run.Counters["pairs_concurrent"],
		"two worker processes":                               run.Counters["pairs_cross_process"],
	}
	cov["race_reports"] = run.Counters["race_reports"]
	if anchorOrderDefectOpen {
		cov["known_defect_anchor_order"] = fmt.Sprintf("pairs differing only by the order of anchors inside one page of CreateAnchors were not counted as violations (known finding, see notes/C15.md): %d in-process, %d cross-process", run.Counters["anchor_order_differences"], run.Counters["anchor_order_differences_cross_process"])
	}
}
