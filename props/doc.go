// Package props links the property checks into the vw binary.  Each property lives in its own
// package props/cNN and is linked by a registration file reg_cNN.go guarded by the build tag pCNN
// (or pall), so that a property under construction cannot break the build of the others.
package props
