package c16

import (
	"math/rand"
	"os"
	"strings"
)

// ---------------------------------------------------------------------------------------------
// Workload
// ---------------------------------------------------------------------------------------------

type c16In struct {
	Family string  `json:"family"`         // "exhaustive" | "random"
	Body   *Node   `json:"body,omitempty"` // position / z-index / opacity of <body>
	Roots  []*Node `json:"tree"`
	HTML   string  `json:"html"`
	// Strict (witness files only): accept only the readings of Appendix E in which overflow does
	// not establish a stacking context.
	Strict bool `json:"strict,omitempty"`
}

func ip(v int) *int { return &v }

// the six placements of the exhaustive family
const nModes = 6

var modeNames = [nModes]string{"static", "relative z:auto", "relative z:-1", "relative z:0", "relative z:1", "float"}

func applyMode(n *Node, m int) {
	switch m {
	case 0:
	case 1:
		n.Pos, n.L, n.T = "relative", 5, 5
	case 2:
		n.Pos, n.L, n.T, n.Z = "relative", 5, 5, ip(-1)
	case 3:
		n.Pos, n.L, n.T, n.Z = "relative", 5, 5, ip(0)
	case 4:
		n.Pos, n.L, n.T, n.Z = "relative", 5, 5, ip(1)
	case 5:
		n.Flt = "left"
	}
}

const exhaustiveN = nModes * nModes * nModes * nModes * nModes // 7776

// exhaustiveCase: four overlapping siblings, the second with one nested child; every assignment of
// the six placements to the five boxes.
func exhaustiveCase(i int) c16In {
	var m [5]int
	for k := 0; k < 5; k++ {
		m[k] = i % nModes
		i /= nModes
	}
	s := make([]*Node, 4)
	for k := 0; k < 4; k++ {
		s[k] = &Node{ID: k + 1, Disp: "block", W: 120, H: 50, Bd: 3, ML: 20 * k, Text: strings.Repeat("X", 4)}
		if k > 0 {
			s[k].MT = -35
		}
		applyMode(s[k], m[k])
	}
	s[0].Ol = 2
	c := &Node{ID: 5, Disp: "block", W: 90, H: 40, Bd: 2, ML: 25, MT: -20, Ol: 2, Text: "XXX"}
	applyMode(c, m[4])
	s[1].Kids = []*Node{c}
	return c16In{Family: "exhaustive", Roots: s, HTML: emitHTML(nil, s)}
}

type genOpts struct {
	effects bool // opacity / transform / overflow
	inline  bool // inline spans
}

func pick[T any](r *rand.Rand, xs ...T) T { return xs[r.Intn(len(xs))] }

func randomCase(r *rand.Rand, o genOpts) c16In {
	n := 3 + r.Intn(8)
	var roots []*Node
	type slot struct {
		n     *Node
		depth int
	}
	var all []slot
	for id := 1; id <= n; id++ {
		nd := &Node{ID: id, Disp: "block"}
		// display
		switch x := r.Intn(100); {
		case x < 62:
		case x < 82:
			nd.Disp = "iblock"
		default:
			if o.inline {
				nd.Disp = "inline"
			}
		}
		// position
		switch x := r.Intn(100); {
		case x < 45:
		case x < 80:
			nd.Pos = "relative"
			nd.L, nd.T = 5*(r.Intn(7)-3), 5*(r.Intn(7)-3)
		default:
			nd.Pos = "absolute"
			nd.L, nd.T = 5*r.Intn(17), 5*r.Intn(17)
		}
		if nd.Pos != "" && r.Intn(100) < 68 {
			nd.Z = ip(pick(r, -2, -1, -1, 0, 1, 1, 2))
		}
		if nd.Pos != "absolute" && r.Intn(100) < 22 {
			nd.Flt = pick(r, "left", "left", "right")
		}
		if o.effects && nd.Disp != "inline" {
			if r.Intn(100) < 12 {
				nd.Op = pick(r, 0.25, 0.5, 0.75)
			}
			if r.Intn(100) < 12 {
				nd.Tr = &Tr{TX: float64(5 * (r.Intn(9) - 4)), TY: float64(5 * (r.Intn(9) - 4)), SX: pick(r, 1, 1, 0.5, 1.5, 2), SY: pick(r, 1, 1, 0.5, 1.5)}
			}
			if r.Intn(100) < 14 {
				nd.Ov = true
			}
		} else if o.effects && r.Intn(100) < 10 {
			nd.Op = pick(r, 0.25, 0.5, 0.75)
		}
		// z-index on a non-positioned box must be ignored, also when the box forms a context
		// through opacity / transform / overflow (it is then painted at level 0)
		if nd.Pos == "" && r.Intn(100) < 30 {
			nd.Z = ip(pick(r, -1, 1, 2))
		}
		nd.W = 10 * (5 + r.Intn(9))
		nd.H = 10 * (3 + r.Intn(5))
		if nd.Ov {
			nd.OvK = pickOvKind(nd)
		}
		nd.ML = 5 * (r.Intn(15) - 4)
		nd.MT = 5 * (r.Intn(11) - 9)
		nd.Bd = pick(r, 0, 2, 2, 3, 4)
		nd.Ol = pick(r, 0, 0, 0, 2, 3)
		nd.Pad = pick(r, 0, 0, 5)
		if r.Intn(100) < 80 {
			nd.Text = strings.Repeat("X", 1+r.Intn(5))
		}
		if nd.Disp == "inline" {
			nd.W, nd.H, nd.MT, nd.Pad = 0, 0, 0, pick(r, 0, 2)
			if nd.ML < 0 {
				nd.ML = 0
			}
			if nd.Text == "" {
				nd.Text = "XX"
			}
		}
		// attach
		var parent *slot
		if len(all) > 0 && r.Intn(100) < 55 {
			cands := all[:0:0]
			for _, s := range all {
				if s.depth < 3 {
					cands = append(cands, s)
				}
			}
			if len(cands) > 0 {
				parent = &cands[r.Intn(len(cands))]
			}
		}
		if parent == nil {
			if nd.Disp == "inline" && nd.Pos == "" && nd.Flt == "" {
				// a top-level span is fine: it sits in an anonymous block of body
			}
			roots = append(roots, nd)
			all = append(all, slot{nd, 1})
			continue
		}
		if parent.n.Disp == "inline" {
			// children of a span: inline-level, in flow or relatively positioned
			if nd.Disp == "block" {
				nd.Disp = "iblock"
			}
		}
		parent.n.Kids = append(parent.n.Kids, nd)
		all = append(all, slot{nd, parent.depth + 1})
	}
	sanitize(roots)
	var body *Node
	switch r.Intn(12) {
	case 0:
		body = &Node{Pos: "relative"}
	case 1:
		body = &Node{Pos: "relative", Z: ip(pick(r, -1, 0, 1))}
	case 2:
		if o.effects {
			body = &Node{Op: 0.5}
		}
	}
	return c16In{Family: "random", Body: body, Roots: roots, HTML: emitHTML(body, roots)}
}

// hoistedW: painted by steps 3/8/9 in webrender's reading (overflow establishes a context)
func hoistedW(n *Node) bool {
	return n.positioned() || n.opacity() < 1 || n.Tr != nil || n.Ov
}

func anyHoisted(n *Node) bool {
	if hoistedW(n) {
		return true
	}
	for _, c := range n.Kids {
		if anyHoisted(c) {
			return true
		}
	}
	return false
}

// sanitize keeps one feature combination out of the random documents, because the tree paints it
// wrongly (genuine defect F1, open; witnesses findings/C16/deferred-float-*.json, see notes/C16.md):
// a float that sits in a line box and does not fit is re-inserted at the end of the line by the
// layout, outside any inline box it was in, so "tree order" ties between it (or positioned boxes
// inside it) and later positioned siblings are broken the wrong way, and it leaves the context of a
// positioned / opacity span.  Floats whose parent has inline content are therefore neither
// positioned / context-forming nor contain such boxes, and positioned / opacity spans contain no
// floats (the float property is dropped otherwise).
//
// (F2, outlines of descendants of an overflow:hidden box, and F3, z-index on non-positioned
// context-forming boxes, were excluded here until they were fixed in /repo - commits b5dd602 and
// e93eca9; both combinations are generated now.)
//
// C16_ALLOW=F1 (development only) lets the random generator produce the excluded combination, to
// validate a repair of /repo with the unchanged oracle.
var allow = os.Getenv("C16_ALLOW")

// F6 (a fixed box registered twice by a line or a last inline child laid out twice) is fixed in
// /repo (commits 60e1ebd and af397eb): its exclusion in sanitizePaged is lifted for good.
func allowed(f string) bool { return f == "F6" || strings.Contains(allow, f) }

func sanitize(roots []*Node) {
	var rec func(kids []*Node, parentText bool, hoistedSpan bool)
	rec = func(kids []*Node, parentText bool, hoistedSpan bool) {
		for _, c := range kids {
			// F1 again: the deferred float leaves its span, and with it the span's context
			if hoistedSpan && c.floated() && !allowed("F1") {
				c.Flt = ""
			}
		}
		for changed := true; changed; {
			changed = false
			inlineCtx := parentText
			for _, c := range kids {
				if !c.abs() && !c.floated() && (c.Disp == "inline" || c.Disp == "iblock") {
					inlineCtx = true
				}
			}
			for _, c := range kids {
				if inlineCtx && c.floated() && anyHoisted(c) && !allowed("F1") {
					c.Flt = ""
					changed = true
				}
			}
		}
		for _, c := range kids {
			rec(c.Kids, c.Text != "", c.disp() == "inline" && (hoistedSpan || hoistedW(c)))
		}
	}
	rec(roots, false, false)
}

// tiesCase: 14-24 overlapping positioned siblings whose z-indexes come from a set of two or three
// values of one sign, so that one z-index class holds more than 12 contexts (Go's sort.Slice is an
// insertion sort - stable by accident - up to 12 elements).  Half of the boxes are nested one
// level down in plain blocks to mix tree depths.
func tiesCase(r *rand.Rand) c16In {
	n := 14 + r.Intn(11)
	zs := pick(r, []int{1, 2}, []int{1, 2, 3}, []int{-1, -2}, []int{-3, -2, -1}, []int{1}, []int{-1}, []int{-1, 1})
	var roots []*Node
	var holder *Node
	for id := 1; id <= n; id++ {
		nd := &Node{ID: id, Disp: "block", Pos: pick(r, "absolute", "absolute", "relative"), W: 60, H: 40, Bd: 2, Text: "XX"}
		nd.Z = ip(zs[r.Intn(len(zs))])
		if nd.Pos == "absolute" {
			nd.L, nd.T = 10+9*id+r.Intn(5), 10+7*id+r.Intn(5)
		} else {
			nd.ML, nd.MT = 9*id, -33
			nd.L, nd.T = r.Intn(5), r.Intn(5)
		}
		if holder != nil && r.Intn(2) == 0 {
			holder.Kids = append(holder.Kids, nd)
			continue
		}
		if r.Intn(5) == 0 && id < n-2 {
			// a plain block holding some of the following boxes
			id++
			holder = &Node{ID: id, Disp: "block", W: 200, H: 45, Bd: 2, MT: -30, ML: 5 * r.Intn(6)}
			roots = append(roots, nd, holder)
			continue
		}
		roots = append(roots, nd)
	}
	return c16In{Family: "ties", Roots: roots, HTML: emitHTML(nil, roots)}
}

// flowCase: only static, non-floated boxes (blocks, inline-blocks, spans) with text, nested and
// pulled over each other with negative margins: everything is painted by steps 4 and 7 of one
// context, so the judged pairs are about the tree order of backgrounds (step 4) and of inline
// content (step 7) and about "all block backgrounds before any inline content".
func flowCase(r *rand.Rand) c16In {
	n := 4 + r.Intn(6)
	var roots []*Node
	type slot struct {
		n     *Node
		depth int
	}
	var all []slot
	for id := 1; id <= n; id++ {
		nd := &Node{ID: id, Disp: pick(r, "block", "block", "block", "iblock", "iblock", "inline")}
		nd.W = 10 * (6 + r.Intn(8))
		nd.H = 10 * (2 + r.Intn(3))
		nd.ML = 5 * r.Intn(4)
		nd.MT = -5 * (1 + r.Intn(6))
		nd.Bd = pick(r, 0, 2, 3)
		nd.Ol = pick(r, 0, 0, 2)
		nd.Text = strings.Repeat("X", 2+r.Intn(6))
		if nd.Disp == "inline" {
			nd.W, nd.H, nd.MT = 0, 0, 0
		}
		if nd.Disp == "iblock" {
			nd.MT = -5 * r.Intn(3)
			nd.ML = -5 * r.Intn(5)
		}
		var parent *slot
		if len(all) > 0 && r.Intn(100) < 75 {
			cands := all[:0:0]
			for _, s := range all {
				if s.depth < 4 {
					cands = append(cands, s)
				}
			}
			if len(cands) > 0 {
				parent = &cands[r.Intn(len(cands))]
			}
		}
		if parent == nil {
			roots = append(roots, nd)
			all = append(all, slot{nd, 1})
			continue
		}
		if parent.n.Disp == "inline" && nd.Disp == "block" {
			nd.Disp = "iblock"
		}
		parent.n.Kids = append(parent.n.Kids, nd)
		all = append(all, slot{nd, parent.depth + 1})
	}
	return c16In{Family: "flow", Roots: roots, HTML: emitHTML(nil, roots)}
}

// ---------------------------------------------------------------------------------------------
// Paged documents with position:fixed boxes (see model.go, "Paged documents")
// ---------------------------------------------------------------------------------------------

// the seven competitors of the paged grid
const nGridModes = 7

func applyGridMode(n *Node, m int) {
	switch m {
	case 0:
	case 1:
		n.Pos, n.L, n.T = "relative", 5, 5
	case 2:
		n.Pos, n.L, n.T, n.Z = "relative", 5, 5, ip(-1)
	case 3:
		n.Pos, n.L, n.T, n.Z = "relative", 5, 5, ip(0)
	case 4:
		n.Pos, n.L, n.T, n.Z = "relative", 5, 5, ip(1)
	case 5:
		n.Pos, n.L, n.T, n.ML, n.MT = "absolute", 15, 12, 0, 0
	case 6:
		n.Op = 0.5
	}
}

var gridZ = [4]*int{nil, ip(0), ip(1), ip(-1)}

const pagedGridN = 3 * 2 * 4 * 4 * nGridModes // 672

// pagedGridCase: three pages, each a plain block (forced break before the second and third) holding
// one competitor box - the same placement on the three pages, out of static / relative z-index
// auto, -1, 0, 1 / absolute / opacity - plus two fixed boxes overlapping the competitors: F declared
// on any of the three pages, before or after the competitor of that page, z-index auto/0/1/-1, and G
// declared after the competitor of the first or last page, z-index auto or 1.  Every assignment.
func pagedGridCase(i int) c16In {
	kF := i % 3
	i /= 3
	before := i%2 == 0
	i /= 2
	zF := gridZ[i%4]
	i /= 4
	kG := []int{0, 2}[i%2]
	i /= 2
	zG := []*int{nil, ip(1)}[i%2]
	i /= 2
	mode := i % nGridModes
	f := &Node{ID: 7, Disp: "block", Pos: "fixed", L: 30, T: 20, W: 100, H: 50, Bd: 3, Z: zF, Text: "XXXX"}
	g := &Node{ID: 8, Disp: "block", Pos: "fixed", L: 50, T: 35, W: 100, H: 50, Bd: 3, Ol: 2, Z: zG, Text: "XXX"}
	var roots []*Node
	for p := 0; p < 3; p++ {
		s := &Node{ID: p + 1, Disp: "block", W: 200, H: 100, Bd: 2, BB: p > 0}
		c := &Node{ID: p + 4, Disp: "block", W: 120, H: 50, Bd: 3, ML: 15, MT: 10, Text: "XXXXX"}
		applyGridMode(c, mode)
		if kF == p && before {
			s.Kids = append(s.Kids, f)
		}
		s.Kids = append(s.Kids, c)
		if kF == p && !before {
			s.Kids = append(s.Kids, f)
		}
		if kG == p {
			s.Kids = append(s.Kids, g)
		}
		roots = append(roots, s)
	}
	return c16In{Family: "pagedgrid", Roots: roots, HTML: emitHTML(nil, roots)}
}

// pagedCase: the random trees of randomCase with position:fixed as a fourth positioning scheme (at
// least one fixed box per document), spread over one to three pages by forced breaks before
// top-level in-flow blocks.
func pagedCase(r *rand.Rand, o genOpts) c16In {
	npages := pick(r, 1, 2, 2, 2, 3, 3)
	n := 4 + r.Intn(8)
	forced := 1 + r.Intn(n)
	var roots []*Node
	type slot struct {
		n     *Node
		depth int
	}
	var all []slot
	for id := 1; id <= n; id++ {
		nd := &Node{ID: id, Disp: "block"}
		switch x := r.Intn(100); {
		case x < 62:
		case x < 82:
			nd.Disp = "iblock"
		default:
			if o.inline {
				nd.Disp = "inline"
			}
		}
		switch x := r.Intn(100); {
		case x < 38:
		case x < 62:
			nd.Pos = "relative"
			nd.L, nd.T = 5*(r.Intn(7)-3), 5*(r.Intn(7)-3)
		case x < 78:
			nd.Pos = "absolute"
			nd.L, nd.T = 5*r.Intn(17), 5*r.Intn(17)
		default:
			nd.Pos = "fixed"
		}
		if id == forced {
			nd.Pos = "fixed"
		}
		if nd.Pos == "fixed" {
			nd.L, nd.T = 5*r.Intn(17), 5*r.Intn(13)
		}
		if nd.Pos != "" && r.Intn(100) < 62 {
			nd.Z = ip(pick(r, -2, -1, -1, 0, 0, 1, 1, 2))
		}
		if !nd.abs() && r.Intn(100) < 18 {
			nd.Flt = pick(r, "left", "left", "right")
		}
		if o.effects && nd.Disp != "inline" {
			if r.Intn(100) < 12 {
				nd.Op = pick(r, 0.25, 0.5, 0.75)
			}
			if r.Intn(100) < 10 {
				nd.Tr = &Tr{TX: float64(5 * (r.Intn(9) - 4)), TY: float64(5 * (r.Intn(9) - 4)), SX: pick(r, 1, 1, 0.5, 1.5, 2), SY: pick(r, 1, 1, 0.5, 1.5)}
			}
			if r.Intn(100) < 12 {
				nd.Ov = true
			}
		} else if o.effects && r.Intn(100) < 10 {
			nd.Op = pick(r, 0.25, 0.5, 0.75)
		}
		if nd.Pos == "" && r.Intn(100) < 20 {
			nd.Z = ip(pick(r, -1, 1, 2))
		}
		nd.W = 10 * (5 + r.Intn(9))
		nd.H = 10 * (3 + r.Intn(5))
		if nd.Ov {
			nd.OvK = pickOvKind(nd)
		}
		nd.ML = 5 * (r.Intn(15) - 4)
		nd.MT = 5 * (r.Intn(11) - 9)
		nd.Bd = pick(r, 0, 2, 2, 3, 4)
		nd.Ol = pick(r, 0, 0, 0, 2, 3)
		nd.Pad = pick(r, 0, 0, 5)
		if r.Intn(100) < 80 {
			nd.Text = strings.Repeat("X", 1+r.Intn(5))
		}
		if nd.fixed() {
			nd.ML, nd.MT = 0, 0
		}
		if nd.Disp == "inline" && !nd.abs() {
			nd.W, nd.H, nd.MT, nd.Pad = 0, 0, 0, pick(r, 0, 2)
			if nd.ML < 0 {
				nd.ML = 0
			}
			if nd.Text == "" {
				nd.Text = "XX"
			}
		}
		var parent *slot
		if len(all) > 0 && r.Intn(100) < 50 {
			cands := all[:0:0]
			for _, s := range all {
				if s.depth < 3 {
					cands = append(cands, s)
				}
			}
			if len(cands) > 0 {
				parent = &cands[r.Intn(len(cands))]
			}
		}
		if parent == nil {
			roots = append(roots, nd)
			all = append(all, slot{nd, 1})
			continue
		}
		if parent.n.Disp == "inline" && nd.Disp == "block" {
			nd.Disp = "iblock"
		}
		parent.n.Kids = append(parent.n.Kids, nd)
		all = append(all, slot{nd, parent.depth + 1})
	}
	// forced page breaks before top-level blocks in normal flow (break-before applies to those only),
	// and only where the page already holds in-flow content: a forced break at the top of a page
	// that holds nothing but out-of-flow boxes is not honoured (pagination is not C16's business)
	// (every break root is itself in-flow content of its page, so the candidates are independent)
	var cands []int
	inflow := false
	for i, rt := range roots {
		in := !rt.abs() && rt.Flt == ""
		if in && rt.Disp == "block" && inflow {
			cands = append(cands, i)
		}
		inflow = inflow || in
	}
	if npages > 1 && len(cands) == 0 && len(roots) > 1 {
		// make the document breakable: its first top-level box that is not fixed becomes an in-flow
		// block, and so does the last one
		for i, rt := range roots {
			if !rt.fixed() && rt.Disp != "inline" {
				rt.Pos, rt.Flt, rt.Disp = "", "", "block"
				if rt.Z != nil && r.Intn(2) == 0 {
					rt.Pos = "relative"
				}
				for k := len(roots) - 1; k > i; k-- {
					if l := roots[k]; !l.fixed() && l.Disp != "inline" {
						l.Pos, l.Flt, l.Disp = "", "", "block"
						cands = append(cands, k)
						break
					}
				}
				break
			}
		}
	}
	r.Shuffle(len(cands), func(a, b int) { cands[a], cands[b] = cands[b], cands[a] })
	for k := 0; k < npages-1 && k < len(cands); k++ {
		roots[cands[k]].BB = true
	}
	multi := pageCount(roots) > 1
	sanitizePaged(roots, multi)
	sanitize(roots)
	sanitizePaged(roots, multi) // again: sanitize turns floated spans into real inline boxes
	var body *Node
	if !multi {
		switch r.Intn(12) {
		case 0:
			body = &Node{Pos: "relative"}
		case 1:
			body = &Node{Pos: "relative", Z: ip(pick(r, -1, 0, 1))}
		case 2:
			if o.effects {
				body = &Node{Op: 0.5}
			}
		}
	}
	return c16In{Family: "paged", Body: body, Roots: roots, HTML: emitHTML(body, roots)}
}

// sanitizePaged keeps out of the paged documents what the specifications do not settle for a fixed
// box (see notes/C16.md):
//   - every document: the ancestors of a fixed box are neither overflow:hidden nor transformed (the
//     containing block of a fixed box is the page, so an ancestor's overflow does not clip it - CSS 2.1
//     11.1.1 - and a transformed ancestor would become its containing block - CSS Transforms 1);
//   - documents of several pages: the ancestors of an outermost fixed box form no stacking context
//     and no opacity group (no opacity, no z-index on positioned ancestors): how the group / stacking
//     context of an ancestor that is laid out on one page extends to the copies of the fixed box on
//     the other pages is specified nowhere.  Inside a fixed sub-tree (repeated as a whole) anything goes.
//
// and what the tree gets wrong (open finding F5; F6 is fixed, witnesses findings/C16/fixed-*.json), in
// documents of several pages only: absolutely positioned ancestors of a fixed box become relatively
// positioned (F5: the fixed box is not repeated); until F6 was fixed (see allowed), spans whose last
// child holds a fixed box lost their border / padding (the fixed box was repeated twice).
// C16_ALLOW=F5 (development only) re-enables the F5 combination.
func sanitizePaged(roots []*Node, multi bool) {
	walk(roots, func(n *Node, anc []*Node) {
		// finding F6 (second route, fixed: allowed("F6") is always true now): the last child of an
		// inline box with a right border / padding was laid out twice and a fixed box inside it
		// registered twice, so it was painted twice on the other pages; such spans lost their border
		// and padding
		if multi && !allowed("F6") && n.disp() == "inline" && (n.Bd > 0 || n.Pad > 0) && len(n.Kids) > 0 {
			var fx []*Node
			for _, c := range n.Kids[len(n.Kids)-1].Kids {
				collectFixed(c, &fx)
			}
			if len(fx) > 0 {
				n.Bd, n.Pad = 0, 0
			}
		}
		if !n.fixed() {
			return
		}
		outer := true
		for _, a := range anc {
			if a.fixed() {
				outer = false
			}
		}
		for _, a := range anc {
			a.Ov, a.Tr = false, nil
			if multi && outer {
				a.Op = 0
				if a.positioned() {
					a.Z = nil
				}
				if a.Pos == "absolute" && !allowed("F5") {
					// open finding F5: a fixed box inside an absolutely positioned box is not repeated
					a.Pos = "relative"
					a.L, a.T = a.L%20, a.T%20
				}
			}
		}
	})
}
