package c16

import (
	"fmt"
	"math"

	"verif/internal/rec"
)

// ---------------------------------------------------------------------------------------------
// Observation: the recorder trace is replayed with an independent graphics-state model (CTM, clip
// stack, fill colour, opacity groups).  Groups are expanded where they are composited
// (DrawWithOpacity), so the resulting item list is in *effective* paint order, and every item
// carries the state it was painted under.
// ---------------------------------------------------------------------------------------------

type rect struct{ X0, Y0, X1, Y1 float64 }

func (r rect) w() float64 { return r.X1 - r.X0 }
func (r rect) h() float64 { return r.Y1 - r.Y0 }
func (r rect) String() string {
	return fmt.Sprintf("[x %.4g..%.4g, y %.4g..%.4g]", r.X0, r.X1, r.Y0, r.Y1)
}

func (r rect) inter(o rect) rect {
	return rect{math.Max(r.X0, o.X0), math.Max(r.Y0, o.Y0), math.Min(r.X1, o.X1), math.Min(r.Y1, o.Y1)}
}

// thick: the rectangle has more than eps extent in both directions
func (r rect) thick(eps float64) bool { return r.w() > eps && r.h() > eps }

func near(a, b float64) bool {
	return math.Abs(a-b) <= 0.02+1e-4*math.Max(math.Abs(a), math.Abs(b))
}

func (r rect) near(o rect) bool {
	return near(r.X0, o.X0) && near(r.Y0, o.Y0) && near(r.X1, o.X1) && near(r.Y1, o.Y1)
}

// subtract returns r minus hole as up to four rectangles
func (r rect) subtract(hole rect) []rect {
	h := r.inter(hole)
	if h.w() <= 0 || h.h() <= 0 {
		return []rect{r}
	}
	var out []rect
	if h.Y0 > r.Y0 {
		out = append(out, rect{r.X0, r.Y0, r.X1, h.Y0})
	}
	if h.Y1 < r.Y1 {
		out = append(out, rect{r.X0, h.Y1, r.X1, r.Y1})
	}
	if h.X0 > r.X0 {
		out = append(out, rect{r.X0, h.Y0, h.X0, h.Y1})
	}
	if h.X1 < r.X1 {
		out = append(out, rect{h.X1, h.Y0, r.X1, h.Y1})
	}
	return out
}

// mat: x' = a x + c y + e ; y' = b x + d y + f
type mat struct{ A, B, C, D, E, F float64 }

var identity = mat{1, 0, 0, 1, 0, 0}

func (m mat) apply(x, y float64) (float64, float64) {
	return m.A*x + m.C*y + m.E, m.B*x + m.D*y + m.F
}

// then returns the matrix applying m first, then o  (o ∘ m)
func (m mat) then(o mat) mat {
	return mat{
		A: o.A*m.A + o.C*m.B, B: o.B*m.A + o.D*m.B,
		C: o.A*m.C + o.C*m.D, D: o.B*m.C + o.D*m.D,
		E: o.A*m.E + o.C*m.F + o.E, F: o.B*m.E + o.D*m.F + o.F,
	}
}

func (m mat) axisAligned() bool { return m.B == 0 && m.C == 0 }

func (m mat) near(o mat) bool {
	return near(m.A, o.A) && near(m.B, o.B) && near(m.C, o.C) && near(m.D, o.D) && near(m.E, o.E) && near(m.F, o.F)
}

func (m mat) rect(r rect) rect {
	x0, y0 := m.apply(r.X0, r.Y0)
	x1, y1 := m.apply(r.X1, r.Y1)
	x2, y2 := m.apply(r.X0, r.Y1)
	x3, y3 := m.apply(r.X1, r.Y0)
	return rect{
		math.Min(math.Min(x0, x1), math.Min(x2, x3)), math.Min(math.Min(y0, y1), math.Min(y2, y3)),
		math.Max(math.Max(x0, x1), math.Max(x2, x3)), math.Max(math.Max(y0, y1), math.Max(y2, y3)),
	}
}

// clip is one Clip call in force
type clip struct {
	R      rect // bounding box, CSS page coordinates
	IsRect bool // the clip path was exactly one Rectangle
	Ev     int
}

type gstate struct {
	ctm    mat
	clips  []clip
	fill   [3]int
	fillA  float64
	fillOK bool
}

// item is one paint (fill Paint or DrawText) in effective paint order
type item struct {
	Ev      int
	Key     Key
	Known   bool
	Colour  [3]int
	Kind    string // "fill" | "text"
	Outer   rect   // page coordinates (CSS px, y down)
	Inner   rect   // hole for even-odd rings
	Ring    bool
	Precise bool // Outer/Inner describe the painted region exactly (before clipping)
	Clips   []clip
	Opac    []float64 // opacities of the enclosing groups, outermost first
	CTM     mat       // user space -> CSS page coordinates at paint time
	Text    string
}

// region after clipping (bounding boxes of the clips)
func (it *item) clipped() rect {
	r := it.Outer
	for _, c := range it.Clips {
		r = r.inter(c.R)
	}
	return r
}

// overlap says whether the painted regions of two items share an area of more than eps × eps
func overlap(a, b *item, eps float64) bool {
	r := a.clipped().inter(b.clipped())
	if !r.thick(eps) {
		return false
	}
	pieces := []rect{r}
	for _, it := range []*item{a, b} {
		if !it.Ring {
			continue
		}
		var next []rect
		for _, p := range pieces {
			next = append(next, p.subtract(it.Inner)...)
		}
		pieces = next
	}
	for _, p := range pieces {
		if p.thick(eps) {
			return true
		}
	}
	return false
}

type observation struct {
	Items []item
	// problems that make the trace unusable for this oracle (not verdicts on webrender)
	Unsupported []string
	Groups      int
	Transforms  int
	ClipEvents  int
}

// flatten replays the events of page pg (0-based).  base maps device space to CSS page coordinates
// (inverse of the page set-up transform, which is known from the zoom and the page height).
func flatten(doc *rec.Doc, pg int, base mat) *observation {
	obs := &observation{}
	if len(doc.Pages) <= pg {
		obs.Unsupported = append(obs.Unsupported, "no page")
		return obs
	}
	page := doc.Pages[pg].ID
	byCanvas := map[int][]int{}
	for i, e := range doc.Events {
		if e.Page != pg || e.Cv == 0 {
			continue
		}
		byCanvas[e.Cv] = append(byCanvas[e.Cv], i)
	}
	visiting := map[int]bool{}
	var sim func(cv int, init gstate, opac []float64)
	sim = func(cv int, init gstate, opac []float64) {
		if visiting[cv] {
			obs.Unsupported = append(obs.Unsupported, fmt.Sprintf("group %d composited inside itself", cv))
			return
		}
		visiting[cv] = true
		defer func() { visiting[cv] = false }()
		cur := init
		var stack []gstate
		type sub struct {
			r      rect
			isRect bool
		}
		var path []sub
		var cp [2]float64
		addPt := func(x, y float64) {
			px, py := cur.ctm.apply(x, y)
			if len(path) == 0 {
				path = append(path, sub{rect{px, py, px, py}, false})
				return
			}
			s := &path[len(path)-1]
			s.r = rect{math.Min(s.r.X0, px), math.Min(s.r.Y0, py), math.Max(s.r.X1, px), math.Max(s.r.Y1, py)}
		}
		bbox := func() (rect, bool) {
			if len(path) == 0 {
				return rect{}, false
			}
			r := path[0].r
			for _, s := range path[1:] {
				r = rect{math.Min(r.X0, s.r.X0), math.Min(r.Y0, s.r.Y0), math.Max(r.X1, s.r.X1), math.Max(r.Y1, s.r.Y1)}
			}
			return r, true
		}
		for _, ei := range byCanvas[cv] {
			e := &doc.Events[ei]
			f := func(k int) float64 { return float64(e.F[k]) }
			switch e.Op {
			case "Save":
				cp := cur
				cp.clips = append([]clip(nil), cur.clips...)
				stack = append(stack, cp)
			case "Restore":
				if len(stack) == 0 {
					obs.Unsupported = append(obs.Unsupported, "Restore without Save")
					continue
				}
				cur = stack[len(stack)-1]
				stack = stack[:len(stack)-1]
			case "Transform":
				obs.Transforms++
				m := mat{f(0), f(1), f(2), f(3), f(4), f(5)}
				cur.ctm = m.then(cur.ctm)
			case "Rectangle":
				r := rect{f(0), f(1), f(0) + f(2), f(1) + f(3)}
				if r.X1 < r.X0 {
					r.X0, r.X1 = r.X1, r.X0
				}
				if r.Y1 < r.Y0 {
					r.Y0, r.Y1 = r.Y1, r.Y0
				}
				path = append(path, sub{cur.ctm.rect(r), cur.ctm.axisAligned()})
			case "MoveTo":
				px, py := cur.ctm.apply(f(0), f(1))
				path = append(path, sub{rect{px, py, px, py}, false})
				cp = [2]float64{f(0), f(1)}
			case "LineTo":
				addPt(f(0), f(1))
				cp = [2]float64{f(0), f(1)}
			case "CubicTo":
				addPt(f(0), f(1))
				addPt(f(2), f(3))
				addPt(f(4), f(5))
				cp = [2]float64{f(4), f(5)}
			case "ClosePath":
				_ = cp
			case "Clip":
				obs.ClipEvents++
				if r, ok := bbox(); ok {
					cur.clips = append(cur.clips, clip{R: r, IsRect: len(path) == 1 && path[0].isRect, Ev: ei})
				}
				path = nil
			case "SetColorRgba":
				if f(4) == 0 {
					cur.fill = [3]int{int(math.Round(f(0) * 255)), int(math.Round(f(1) * 255)), int(math.Round(f(2) * 255))}
					cur.fillA = f(3)
					cur.fillOK = true
				}
			case "Paint":
				op := int(e.F[0])
				r, ok := bbox()
				p := path
				path = nil
				if !ok {
					continue
				}
				if op&6 == 0 { // stroke only: nothing generated strokes
					obs.Unsupported = append(obs.Unsupported, fmt.Sprintf("event %d: stroke paint", ei))
					continue
				}
				it := item{Ev: ei, Kind: "fill", Outer: r, Colour: cur.fill, CTM: cur.ctm,
					Clips: append([]clip(nil), cur.clips...), Opac: append([]float64(nil), opac...)}
				switch {
				case len(p) == 1 && p[0].isRect:
					it.Precise = true
				case len(p) == 2 && p[0].isRect && p[1].isRect && op&2 != 0:
					// even-odd pair of nested rectangles: a ring
					a, b := p[0].r, p[1].r
					if a.inter(b).near(a) { // a inside b
						it.Outer, it.Inner, it.Ring, it.Precise = b, a, true, true
					} else if a.inter(b).near(b) {
						it.Outer, it.Inner, it.Ring, it.Precise = a, b, true, true
					}
				}
				if cur.fillOK {
					it.Key, it.Known = keyOfColour(cur.fill[0], cur.fill[1], cur.fill[2])
				}
				obs.Items = append(obs.Items, it)
			case "DrawText":
				if e.Text == nil {
					continue
				}
				n := float64(len([]rune(e.Text.Text)))
				fs := float64(e.Text.FontSize)
				x, y := float64(e.Text.X), float64(e.Text.Y)
				// Ahem: every glyph is a 1em square from 0.8em above to 0.2em below the baseline
				r := cur.ctm.rect(rect{x, y - 0.8*fs, x + n*fs, y + 0.2*fs})
				it := item{Ev: ei, Kind: "text", Outer: r, Precise: e.Text.Angle == 0 && e.Text.ScaleX == 1, Colour: cur.fill, CTM: cur.ctm,
					Clips: append([]clip(nil), cur.clips...), Opac: append([]float64(nil), opac...), Text: e.Text.Text}
				if cur.fillOK {
					it.Key, it.Known = keyOfColour(cur.fill[0], cur.fill[1], cur.fill[2])
				}
				obs.Items = append(obs.Items, it)
			case "DrawWithOpacity":
				obs.Groups++
				if e.Ref <= 0 {
					obs.Unsupported = append(obs.Unsupported, fmt.Sprintf("event %d: DrawWithOpacity without a group", ei))
					continue
				}
				g := gstate{ctm: cur.ctm, clips: append([]clip(nil), cur.clips...)}
				sim(e.Ref, g, append(append([]float64(nil), opac...), f(0)))
			case "SetColorPattern", "SetAlphaMask", "DrawRasterImage", "DrawGradient":
				obs.Unsupported = append(obs.Unsupported, fmt.Sprintf("event %d: %s (not generated)", ei, e.Op))
			}
		}
	}
	sim(page, gstate{ctm: base}, nil)
	return obs
}
