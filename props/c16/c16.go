// Package c16 is the runtime monitor of property C16 — boxes are painted in CSS stacking order.
//
// Observation: the backend call trace (internal/rec) of documents whose boxes carry unique opaque
// colours per layer, replayed through an independent graphics-state model (observe.go).
// Oracles: (1) CSS 2.1 Appendix E reference painter on the generator's tree (model.go) compared
// with the effective paint order on every pair of overlapping painted regions; (2) per-box layer
// order background < border < content < outline; (3) scope of opacity groups, overflow clips and
// transforms (state under which every layer of every box is painted); (4) multiplicity: every layer
// painted exactly as often as the box tree says; (5) painted rectangles = laid-out border boxes.
package c16

import (
	"encoding/json"
	"fmt"
	"math/rand"
	"os"
	"sort"
	"strings"

	bo "github.com/benoitkugler/webrender/html/boxes"

	"verif/internal/fw"
	"verif/internal/wr"
)

func nRandom(tier string) int {
	if tier == "thorough" {
		return 60000
	}
	return 4000
}

func nTies(tier string) int {
	if tier == "thorough" {
		return 4000
	}
	return 400
}

func nPaged(tier string) int {
	if tier == "thorough" {
		return 12000
	}
	return 1200
}

func nFlow(tier string) int {
	if tier == "thorough" {
		return 8000
	}
	return 800
}

func init() {
	fw.Register(&fw.Prop{
		ID: "C16",
		Rule: "inputs: (1) exhaustive: four overlapping sibling boxes, the second with one nested child, every assignment of {static, relative z-index:auto, relative z-index -1/0/1, float} to the five boxes (6^5 = 7776 documents); " +
			"(2) ties: 14-24 overlapping positioned siblings (some nested in plain blocks) with z-indexes from two or three values of one sign, so that one z-index class holds more than 12 contexts; " +
			"(3) flow: 4-9 static blocks / inline-blocks / spans with text, nested up to 4 deep and pulled over each other, all painted by steps 4 and 7 of one context; " +
			"(4) random trees of 3-10 boxes, nesting <= 3, block / inline-block / inline, static / relative / absolute, z-index from {-2,-1,-1,0,1,1,2} or auto (also set on 30 % of the non-positioned boxes, where it must be ignored), floats, opacity, translate+scale transforms, overflow:hidden|auto|scroll (one third each), negative margins and small offsets so that most pairs overlap. " +
			"(5) paged grid: three pages (forced breaks) each holding one competitor box with the same placement out of {static, relative z-index auto/-1/0/1, absolute, opacity}, a position:fixed box declared on any of the three pages before or after the competitor with z-index auto/0/1/-1, a second fixed box on the first or last page with z-index auto/1, all overlapping: every assignment (672 documents); " +
			"(6) paged: the random trees of (4) with position:fixed as a fourth positioning scheme (at least one fixed box per document, also nested in other boxes and in other fixed boxes), laid out on 1-3 pages by forced breaks before top-level in-flow blocks; every page is judged against Appendix E on its own rendering tree = the boxes laid out on the page plus every fixed box of the other pages (CSS 2.1 9.6.1), in document order, and one reading of the specification must explain all the pages. " +
			"Every box has unique opaque background, border, text and outline colours. A case is non-trivial when at least three pairs of layers of different boxes with overlapping painted regions were judged against the Appendix E model; distinct = distinct document.",
		N: func(tier string) int {
			return exhaustiveN + nTies(tier) + nFlow(tier) + nRandom(tier) + pagedGridN + nPaged(tier)
		},
		Gen: func(r *rand.Rand, i int, tier string) any {
			if i < exhaustiveN {
				return exhaustiveCase(i)
			}
			if i < exhaustiveN+nTies(tier) {
				return tiesCase(r)
			}
			if i < exhaustiveN+nTies(tier)+nFlow(tier) {
				return flowCase(r)
			}
			k := i - exhaustiveN - nTies(tier) - nFlow(tier)
			if k < nRandom(tier) {
				return randomCase(r, genOpts{effects: k%2 == 1, inline: k%4 >= 2})
			}
			// the paged families come last, so that the case lists of the other families are unchanged
			k -= nRandom(tier)
			if k < pagedGridN {
				return pagedGridCase(k)
			}
			k -= pagedGridN
			return pagedCase(r, genOpts{effects: k%2 == 1, inline: k%4 >= 2})
		},
		Check: check,
		Floor: func(tier string) int {
			if tier == "thorough" {
				return 78000
			}
			return 12500
		},
		CounterFloors: func(tier string) map[string]int64 {
			// about 40 % of what the quick tier observes on the unchanged tree (seed 1)
			m := map[string]int64{
				"pairs_judged":             350000,
				"layer_pairs_judged":       60000,
				"judged_class_neg":         100000,
				"judged_class_pos":         100000,
				"judged_class_zero":        150000,
				"judged_class_float":       60000,
				"judged_class_block":       120000,
				"judged_class_iblock":      20000,
				"judged_class_inline":      7000,
				"judged_step7_pairs":       12000,
				"judged_z_tie":             25000,
				"scope_opacity_items":      4000,
				"scope_clip_items":         1500,
				"scope_transform_items":    3000,
				"outline_items":            40000,
				"groups_composited":        500,
				"scope_clip_outline_items": 300,
				// overflow clipping per keyword (hidden / auto / scroll all clip the sub-tree, CSS 2.1 11.1.1);
				// "plain_cut": the item really overflows the padding box of a box that is a stacking context
				// for no other reason than its overflow
				"scope_clip_hidden_items":           800,
				"scope_clip_auto_items":             800,
				"scope_clip_scroll_items":           800,
				"scope_clip_hidden_plain_cut_items": 250,
				"scope_clip_auto_plain_cut_items":   250,
				"scope_clip_scroll_plain_cut_items": 250,
				"zindex_on_static_context_boxes":    100,
				// paged documents with fixed boxes (families 5 and 6)
				"paged_docs":                 550,
				"fixed_box_items":            16000,
				"fixed_repeated_items":       9500, // layers of fixed boxes painted on a page they are not declared on
				"judged_fixed_earlier_pairs": 13000,
				"judged_fixed_later_pairs":   11000,
				"judged_fixed_earlier_ties":  2900, // decided by tree order alone: the fixed box of an earlier page first
				"judged_fixed_later_ties":    2800, // ... the fixed box of a later page last
			}
			if tier == "thorough" {
				for k := range m {
					m[k] *= 4
				}
			}
			return m
		},
		Assumptions: []string{
			"the recorder trace is what a backend receives; paint order = order of Paint/DrawText calls with groups expanded where DrawWithOpacity composites them",
			"Ahem metrics (1em square glyphs) give the text rectangles; fills are rectangles or even-odd rectangle rings because borders/outlines are single-colour solid and there are no radii",
			"where Appendix E leaves a choice (outlines in step 7 or step 10) or webrender follows WeasyPrint's simplification (overflow:hidden establishes a z-index:0 stacking context) both readings are accepted, but one reading must explain all judged pairs of a document",
			"no generated box is fragmented: pages are separated by forced breaks before top-level blocks, only <html> and <body> (which paint nothing) span several pages; fixed boxes are repeated on every page and take their place in tree order from the document (a fixed box of an earlier page precedes the content of the page, one of a later page follows it)",
			"the ancestors of a fixed box are neither overflow:hidden nor transformed; in documents of several pages they form no stacking context / opacity group (unspecified how those would extend to the other pages), are not absolutely positioned (open finding F5: such a fixed box is not repeated) and spans whose last child holds a fixed box have no border / padding (open finding F6, second route: the fixed box is repeated twice); the first route of F6 (a line laid out again beside a float) is matched by the signature fixed-repeated-twice",
			"transforms are translate+scale only (axis-aligned); floats that the layout may defer below their line are neither positioned nor inside positioned / opacity spans (open finding F1)",
		},
		Exhaustive: func(tier string) bool { return false },
		Batch:      250,
	})
}

// layoutBox is what the oracle reads from the laid-out page for one generated element
type layoutBox struct {
	Border rect // border box, layout (untransformed page) coordinates
	BdL    float64
	N      int // boxes carrying this element as principal candidates (first in pre-order wins)
}

func collectLayout(page *bo.PageBox) map[int]*layoutBox {
	out := map[int]*layoutBox{}
	var rec func(b bo.Box)
	rec = func(b bo.Box) {
		f := b.Box()
		if f.Element != nil && !bo.TextT.IsInstance(b) && !bo.LineT.IsInstance(b) {
			for _, a := range f.Element.Attr {
				if a.Key == "id" && strings.HasPrefix(a.Val, "b") {
					var id int
					if _, err := fmt.Sscanf(a.Val, "b%d", &id); err == nil {
						if lb, ok := out[id]; ok {
							lb.N++
						} else {
							x, y := float64(f.BorderBoxX()), float64(f.BorderBoxY())
							out[id] = &layoutBox{Border: rect{x, y, x + float64(f.BorderWidth()), y + float64(f.BorderHeight())}, BdL: float64(f.BorderLeftWidth), N: 1}
						}
					}
				}
			}
		}
		for _, c := range f.Children {
			rec(c)
		}
	}
	rec(page)
	return out
}

var debug = os.Getenv("C16_DEBUG") != ""

func check(raw json.RawMessage) fw.Result {
	var in c16In
	if err := json.Unmarshal(raw, &in); err != nil {
		return fw.Result{Verdict: fw.Inconclusive, Msg: err.Error()}
	}
	var res fw.Result
	res.Verdict = fw.OK
	if in.HTML == "" { // hand-written probes may give the tree only
		in.HTML = emitHTML(in.Body, in.Roots)
	}
	rd, err := wr.Render(wr.Opts{HTML: in.HTML, Engine: "pango", Zoom: 1})
	if err != nil {
		return fw.Result{Verdict: fw.Inconclusive, Msg: "render: " + err.Error()}
	}
	want := pageCount(in.Roots)
	if len(rd.Document.Pages) != want || len(rd.Rec.Pages) != want {
		if want == 1 {
			res.Verdict = fw.Skip
			res.Count("skipped_multi_page", 1)
			return res
		}
		return fw.Result{Verdict: fw.Inconclusive, Msg: fmt.Sprintf("the document is laid out on %d pages, its forced page breaks give %d", len(rd.Document.Pages), want)}
	}
	all := map[int]*Node{}
	walk(in.Roots, func(n *Node, _ []*Node) { all[n.ID] = n })
	okVar := make([]bool, len(variants))
	for vi := range okVar {
		okVar[vi] = true
	}
	cross := 0
	for p := 0; p < want; p++ {
		page := rd.Document.Pages[p].VerifPageBox()
		lay := collectLayout(page)
		scale := float64(float32(0.75))
		base := mat{1 / scale, 0, 0, -1 / scale, 0, float64(page.Height.V())}
		obs := flatten(rd.Rec, p, base)
		if len(obs.Unsupported) > 0 {
			return fw.Result{Verdict: fw.Inconclusive, Msg: "trace outside the oracle's model: " + strings.Join(obs.Unsupported, "; ")}
		}
		roots, foreign := pageRoots(in.Roots, p)
		j := &judge{in: &in, res: &res, lay: lay, obs: obs, roots: roots, foreign: foreign, page: p, npages: want, all: all}
		j.run()
		if debug {
			j.dump()
		}
		if res.Verdict != fw.OK {
			return res
		}
		cross += j.cross
		for vi := range okVar {
			okVar[vi] = okVar[vi] && j.okVar[vi]
		}
	}
	if want > 1 {
		res.Count("paged_docs", 1)
		one := false
		for _, ok := range okVar {
			one = one || ok
		}
		if !one {
			res.Fail("stacking-order", "every page of the document follows some reading of CSS 2.1 Appendix E (outlines in step 7 or 10, overflow establishing a stacking context or not), but no single reading explains all the pages\n  document: "+in.HTML)
			return res
		}
	}
	res.Nontrivial = cross >= 3
	return res
}

// ---------------------------------------------------------------------------------------------

type nodeInfo struct {
	n   *Node
	anc []*Node
}

// judge decides one page of the document
type judge struct {
	in      *c16In
	res     *fw.Result
	lay     map[int]*layoutBox
	obs     *observation
	roots   []*Node       // children of <body> in the rendering tree of the page (pageRoots)
	foreign map[int]int   // boxes of fixed sub-trees declared on an earlier (-1) / later (+1) page
	page    int           // 0-based
	npages  int           // pages of the document
	all     map[int]*Node // every generated box of the document
	nodes   map[int]*nodeInfo
	byKey   map[Key][]int // item indexes per key, in effective paint order
	cross   int           // judged overlapping pairs of layers of different boxes
	okVar   []bool        // readings of Appendix E (variants) that explain every judged pair of the page
}

func (j *judge) fail(sig, format string, a ...any) {
	pg := ""
	if j.npages > 1 {
		pg = fmt.Sprintf("page %d of %d: ", j.page+1, j.npages)
	}
	j.res.Fail(sig, pg+fmt.Sprintf(format, a...)+"\n  document: "+j.in.HTML)
}

// body is the <body> of the page's rendering tree; its own position / z-index / opacity are only
// generated in single-page documents
func (j *judge) body() *Node { return j.in.Body }

// expected CTM (layout coordinates -> page coordinates) for the layers of n: the transforms of n and
// of all its ancestors, each about the centre of its laid-out border box (transform-origin 50% 50%).
func (j *judge) ctmOf(n *Node, anc []*Node) (mat, bool) {
	m := identity
	chain := append(append([]*Node(nil), anc...), n)
	for k := len(chain) - 1; k >= 0; k-- { // innermost first
		a := chain[k]
		if a.Tr == nil {
			continue
		}
		lb := j.lay[a.ID]
		if lb == nil {
			return m, false
		}
		ox, oy := (lb.Border.X0+lb.Border.X1)/2, (lb.Border.Y0+lb.Border.Y1)/2
		t := mat{A: a.Tr.SX, D: a.Tr.SY, E: ox + a.Tr.TX - a.Tr.SX*ox, F: oy + a.Tr.TY - a.Tr.SY*oy}
		m = m.then(t)
	}
	return m, true
}

func (j *judge) run() {
	res := j.res
	j.nodes = map[int]*nodeInfo{}
	walk([]*Node{bodyNode(j.body(), j.roots)}, func(n *Node, anc []*Node) { j.nodes[n.ID] = &nodeInfo{n, anc} })
	j.okVar = make([]bool, len(variants))

	// --- every paint must be a known layer of a generated box ---------------------------------------
	j.byKey = map[Key][]int{}
	for i := range j.obs.Items {
		it := &j.obs.Items[i]
		if it.Known && j.nodes[it.Key.ID] == nil && j.all[it.Key.ID] != nil {
			j.fail("paint-wrong-page", "%s is painted on this page, but the box is laid out on another page and is not a fixed box (only boxes with position:fixed are repeated)", it.Key)
			return
		}
		if !it.Known || j.nodes[it.Key.ID] == nil {
			res.Verdict = fw.Inconclusive
			res.Msg = fmt.Sprintf("paint with a colour that is no generated layer: event %d rgb%v %s", it.Ev, it.Colour, it.Outer)
			return
		}
		j.byKey[it.Key] = append(j.byKey[it.Key], i)
	}
	res.Count("items", int64(len(j.obs.Items)))
	res.Count("groups_composited", int64(j.obs.Groups))

	// --- (4) multiplicity ---------------------------------------------------------------------------
	ids := make([]int, 0, len(j.nodes))
	for id := range j.nodes {
		if id > 0 {
			ids = append(ids, id)
		}
	}
	sort.Ints(ids)
	for _, id := range ids {
		n := j.nodes[id].n
		if j.lay[id] == nil && j.foreign[id] != 0 {
			j.fail("fixed-not-repeated", "b%d is a fixed box (or inside one) declared on another page; CSS 2.1 9.6.1 repeats fixed boxes on every page, but the page has no box for it and nothing of it is painted", id)
			return
		}
		if j.lay[id] == nil {
			res.Verdict = fw.Inconclusive
			res.Msg = fmt.Sprintf("no laid-out box for b%d", id)
			return
		}
		for layer := LBg; layer <= LOutline; layer++ {
			want := 0
			if n.has(layer) {
				want = 1
				if layer == LOutline {
					want = 4 // one fill per side
				}
			}
			got := len(j.byKey[Key{id, layer}])
			if got != want {
				sig := "paint-missing"
				if got > want {
					sig = "paint-duplicated"
				}
				extra := ""
				if got == 2*want && j.foreign[id] != 0 {
					// open finding F6: a repeated fixed box that is in the page's box tree twice
					sig = "fixed-repeated-twice"
					extra = fmt.Sprintf("; the box belongs to a fixed box declared on another page, which CSS 2.1 9.6.1 repeats once on every page, but the box tree of this page holds %d boxes for b%d", j.lay[id].N, id)
				}
				j.fail(sig, "%s is painted %d times, expected %d (one laid-out box, visible, non-empty)%s", Key{id, layer}, got, want, extra)
				return
			}
		}
	}

	// --- (5) geometry and (3) scope -----------------------------------------------------------------
	for i := range j.obs.Items {
		it := &j.obs.Items[i]
		ni := j.nodes[it.Key.ID]
		n := ni.n
		ctm, ok := j.ctmOf(n, ni.anc)
		if !ok {
			continue
		}
		lb := j.lay[n.ID]
		// transform scope: the layer is painted under the product of the transforms of the box and its ancestors
		nTr := 0
		for _, a := range append(append([]*Node(nil), ni.anc...), n) {
			if a.Tr != nil {
				nTr++
			}
		}
		if !it.CTM.near(ctm) {
			j.fail("scope-transform", "%s is painted under the matrix %v, expected %v = product of the transforms of the box and its %d transformed ancestors-or-self about their border-box centres", it.Key, it.CTM, ctm, nTr)
			return
		}
		if nTr > 0 {
			res.Count("scope_transform_items", 1)
		}
		if it.Key.Layer == LBg {
			want := ctm.rect(lb.Border)
			if !it.Precise || !it.Outer.near(want) {
				j.fail("paint-geometry", "background(b%d) fills %s, but the laid-out border box (transformed) is %s", n.ID, it.Outer, want)
				return
			}
		}
		if it.Key.Layer == LBorder {
			want := ctm.rect(lb.Border)
			if !it.Ring || !it.Outer.near(want) {
				j.fail("paint-geometry", "border(b%d) fills ring=%v outer %s, but the laid-out border box (transformed) is %s", n.ID, it.Ring, it.Outer, want)
				return
			}
		}
		// opacity scope
		var wantOp []float64
		for _, a := range append(append([]*Node(nil), ni.anc...), n) {
			if a.opacity() < 1 {
				wantOp = append(wantOp, a.opacity())
			}
		}
		if !sameFloats(it.Opac, wantOp) {
			j.fail("scope-opacity", "%s is painted inside the opacity groups %v, expected %v (opacities of the box and its ancestors, outermost first)", it.Key, it.Opac, wantOp)
			return
		}
		if len(wantOp) > 0 {
			res.Count("scope_opacity_items", 1)
		}
		// clip scope
		var wantClips []rect
		var wantWho []int
		var wantKind []string
		var wantPlain []bool // the clipping box is a stacking context for no other reason than its overflow
		for k, a := range append(append([]*Node(nil), ni.anc...), n) {
			if !a.Ov {
				continue
			}
			if a == n && it.Key.Layer != LText {
				continue // own background / border / outline are not clipped by the box's own overflow
			}
			actm, ok := j.ctmOf(a, ni.anc[:min(k, len(ni.anc))])
			alb := j.lay[a.ID]
			if !ok || alb == nil {
				continue
			}
			bd := float64(a.Bd)
			pad := rect{alb.Border.X0 + bd, alb.Border.Y0 + bd, alb.Border.X1 - bd, alb.Border.Y1 - bd}
			wantClips = append(wantClips, actm.rect(pad))
			wantWho = append(wantWho, a.ID)
			wantKind = append(wantKind, a.ovKeyword())
			wantPlain = append(wantPlain, !(a.opacity() < 1 || a.Tr != nil || (a.positioned() && a.Z != nil)))
		}
		used := make([]bool, len(it.Clips))
		for k, w := range wantClips {
			found := false
			for ci, c := range it.Clips {
				if !used[ci] && c.IsRect && c.R.near(w) {
					used[ci], found = true, true
					break
				}
			}
			if !found {
				j.fail("scope-clip", "%s is painted outside the clip of b%d (overflow:%s, padding box %s); clips in force: %v", it.Key, wantWho[k], wantKind[k], w, clipRects(it.Clips))
				return
			}
		}
		for ci, c := range it.Clips {
			if used[ci] {
				continue
			}
			if !c.IsRect && it.Key.Layer == LOutline {
				continue // side trapezoid of the outline itself
			}
			// a clip that does not cut the painted region is harmless (background clip to its own box)
			if c.R.inter(it.Outer).near(it.Outer) {
				continue
			}
			j.fail("scope-clip", "%s (region %s) is cut by a clip %s that belongs to none of its overflow (hidden/auto/scroll) ancestors %v", it.Key, it.Outer, c.R, wantWho)
			return
		}
		for k, w := range wantClips {
			// per overflow keyword; "_cut": the item really overflows that padding box (the clip is
			// what keeps part of it from being painted); "_plain": the clipping box is a stacking
			// context for no other reason (no opacity / transform / positioned z-index)
			res.Count("scope_clip_"+wantKind[k]+"_items", 1)
			if !w.inter(it.Outer).near(it.Outer) {
				res.Count("scope_clip_"+wantKind[k]+"_cut_items", 1)
				if wantPlain[k] {
					res.Count("scope_clip_"+wantKind[k]+"_plain_cut_items", 1)
				}
			}
		}
		if len(wantClips) > 0 {
			res.Count("scope_clip_items", 1)
			if it.Key.Layer == LOutline {
				res.Count("scope_clip_outline_items", 1) // regression of fix b5dd602
			}
		}
		if it.Key.Layer == LBg && n.Z != nil && !n.positioned() && (n.opacity() < 1 || n.Tr != nil || n.Ov) {
			res.Count("zindex_on_static_context_boxes", 1) // regression of fix e93eca9
		}
		if it.Key.Layer == LOutline {
			res.Count("outline_items", 1)
		}
		if n.fixed() {
			res.Count("fixed_box_items", 1)
		}
		if j.foreign[n.ID] != 0 {
			res.Count("fixed_repeated_items", 1) // painted on a page other than the one the fixed box is declared on
		}
	}

	// --- (2) layers of one box ----------------------------------------------------------------------
	for _, id := range ids {
		prev := -1
		var prevKey Key
		for layer := LBg; layer <= LOutline; layer++ {
			k := Key{id, layer}
			idx := j.byKey[k]
			if len(idx) == 0 {
				continue
			}
			if prev >= 0 && idx[0] < prev {
				j.fail("layer-order", "%s is painted before %s of the same box (events %d and %d)", k, prevKey, j.obs.Items[idx[0]].Ev, j.obs.Items[prev].Ev)
				return
			}
			if prev >= 0 {
				res.Count("layer_pairs_judged", 1)
			}
			prev, prevKey = idx[len(idx)-1], k
		}
	}

	// --- (1) Appendix E order on overlapping pairs --------------------------------------------------
	j.order()
}

func clipRects(cs []clip) []string {
	var out []string
	for _, c := range cs {
		out = append(out, c.R.String())
	}
	return out
}

func sameFloats(a, b []float64) bool {
	if len(a) != len(b) {
		return false
	}
	for i := range a {
		if !near(a[i], b[i]) {
			return false
		}
	}
	return true
}

func (j *judge) dump() {
	fmt.Fprintln(os.Stderr, j.in.HTML)
	for i, it := range j.obs.Items {
		fmt.Fprintf(os.Stderr, "  %3d ev%-4d %-16s %s ring=%v opac=%v clips=%v\n", i, it.Ev, it.Key, it.Outer, it.Ring, it.Opac, clipRects(it.Clips))
	}
	seq, _, _ := expected(j.body(), j.roots, variant{false, true})
	fmt.Fprintln(os.Stderr, "  expected:", seq)
}
