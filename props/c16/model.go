package c16

import (
	"fmt"
	"sort"
	"strings"
)

// ---------------------------------------------------------------------------------------------
// Generator-side document tree.  Everything the oracle needs is in here; the HTML text is emitted
// from it (and stored next to it in the case input, so that a replay does not depend on emit()).
// ---------------------------------------------------------------------------------------------

// Node is one generated element.  All lengths are CSS px (integers).
type Node struct {
	ID   int     `json:"id"`          // 1..n, unique; determines the four layer colours
	Disp string  `json:"d"`           // "block" | "inline" | "iblock" (specified display)
	Pos  string  `json:"p,omitempty"` // "" (static) | "relative" | "absolute" | "fixed"
	Flt  string  `json:"f,omitempty"` // "" | "left" | "right"
	Z    *int    `json:"z,omitempty"` // nil = auto
	Op   float64 `json:"op,omitempty"`
	Tr   *Tr     `json:"tr,omitempty"`
	Ov   bool    `json:"ov,omitempty"`  // overflow other than visible (clips the sub-tree to the padding box)
	OvK  string  `json:"ovk,omitempty"` // keyword when Ov: "" = hidden | "auto" | "scroll" (CSS 2.1 §11.1.1: all three clip)
	W    int     `json:"w,omitempty"`
	H    int     `json:"h,omitempty"`
	ML   int     `json:"ml,omitempty"`
	MT   int     `json:"mt,omitempty"`
	L    int     `json:"l,omitempty"` // left offset (relative / absolute)
	T    int     `json:"t,omitempty"` // top offset
	Bd   int     `json:"bd,omitempty"`
	Ol   int     `json:"ol,omitempty"`
	Pad  int     `json:"pad,omitempty"`
	Text string  `json:"tx,omitempty"` // direct text, placed before the children
	BB   bool    `json:"bb,omitempty"` // break-before:page (top-level in-flow blocks only): starts a new page
	Kids []*Node `json:"k,omitempty"`
}

// ovKeyword is the specified value of `overflow` of a clipping box.
func (n *Node) ovKeyword() string {
	if n.OvK == "" {
		return "hidden"
	}
	return n.OvK
}

// pickOvKind chooses the overflow keyword of a clipping box from its already drawn dimensions
// (no extra draw from the rng: the trees of the case list stay what they were, only the keyword
// varies): hidden / auto / scroll, one third each.
func pickOvKind(n *Node) string {
	return [3]string{"", "auto", "scroll"}[(n.ID+n.W/10+n.H/10)%3]
}

// Tr is `transform: translate(TXpx,TYpx) scale(SX,SY)` (axis-aligned on purpose: painted
// rectangles stay rectangles; the matrices themselves are C17's business).
type Tr struct {
	TX, TY float64
	SX, SY float64
}

// Layers of one box.
const (
	LBg = iota
	LBorder
	LText
	LOutline
)

var layerName = [...]string{"background", "border", "text", "outline"}

// Key identifies one painted layer of one generated box.
type Key struct {
	ID    int
	Layer int
}

func (k Key) String() string { return fmt.Sprintf("%s(b%d)", layerName[k.Layer], k.ID) }

// colour code: R = id, G = 40*(layer+1), B = 7  (all exactly decodable from float32 r/255)
func colourOf(k Key) (r, g, b int) { return k.ID, 40 * (k.Layer + 1), 7 }

func cssColour(k Key) string {
	r, g, b := colourOf(k)
	return fmt.Sprintf("rgb(%d,%d,%d)", r, g, b)
}

func keyOfColour(r, g, b int) (Key, bool) {
	if b != 7 || g%40 != 0 || g < 40 || g > 160 || r < 1 {
		return Key{}, false
	}
	return Key{ID: r, Layer: g/40 - 1}, true
}

// --- CSS 2.1 §9.7 relationships between display, position and float -------------------------------

func (n *Node) positioned() bool { return n.Pos != "" }
func (n *Node) abs() bool        { return n.Pos == "absolute" || n.Pos == "fixed" }
func (n *Node) fixed() bool      { return n.Pos == "fixed" }
func (n *Node) floated() bool    { return n.Flt != "" && !n.abs() }

// disp is the used display: absolutely positioned and floated boxes are blockified.
func (n *Node) disp() string {
	if n.ID <= 0 {
		return "block"
	}
	if n.abs() || n.floated() {
		return "block"
	}
	return n.Disp
}

func (n *Node) opacity() float64 {
	if n.Op == 0 {
		return 1
	}
	return n.Op
}

// has says whether the box paints the layer at all.
func (n *Node) has(layer int) bool {
	if n.ID <= 0 { // the root element (-1) and body (0) paint nothing
		return false
	}
	switch layer {
	case LBg:
		return true
	case LBorder:
		return n.Bd > 0
	case LText:
		return n.Text != ""
	case LOutline:
		return n.Ol > 0
	}
	return false
}

// ---------------------------------------------------------------------------------------------
// HTML emission
// ---------------------------------------------------------------------------------------------

const (
	pageW = 400
	pageH = 1200
)

func emitHTML(body *Node, roots []*Node) string {
	var sb strings.Builder
	sb.WriteString("<!DOCTYPE html><html><head><style>")
	fmt.Fprintf(&sb, "@page{size:%dpx %dpx;margin:0}", pageW, pageH)
	sb.WriteString("html,body{margin:0;padding:0;display:block}")
	sb.WriteString("body{font:10px/1 Ahem;white-space:nowrap;color:rgb(0,0,1);width:400px}")
	sb.WriteString("</style></head><body")
	if body != nil {
		var st []string
		if body.Pos != "" {
			st = append(st, "position:"+body.Pos)
		}
		if body.Z != nil {
			st = append(st, fmt.Sprintf("z-index:%d", *body.Z))
		}
		if body.Op != 0 {
			st = append(st, fmt.Sprintf("opacity:%g", body.Op))
		}
		if len(st) > 0 {
			fmt.Fprintf(&sb, ` style="%s"`, strings.Join(st, ";"))
		}
	}
	sb.WriteString(">")
	for _, n := range roots {
		emitNode(&sb, n)
	}
	sb.WriteString("</body></html>")
	return sb.String()
}

func emitNode(sb *strings.Builder, n *Node) {
	tag := "div"
	if n.Disp == "inline" {
		tag = "span"
	}
	var st []string
	add := func(f string, a ...any) { st = append(st, fmt.Sprintf(f, a...)) }
	switch n.Disp {
	case "block":
		add("display:block")
	case "inline":
		add("display:inline")
	case "iblock":
		add("display:inline-block")
	}
	if n.Pos != "" {
		add("position:%s", n.Pos)
		add("left:%dpx", n.L)
		add("top:%dpx", n.T)
	}
	if n.Z != nil {
		add("z-index:%d", *n.Z)
	}
	if n.Flt != "" {
		add("float:%s", n.Flt)
	}
	if n.Op != 0 {
		add("opacity:%g", n.Op)
	}
	if n.Tr != nil {
		add("transform:translate(%gpx,%gpx) scale(%g,%g)", n.Tr.TX, n.Tr.TY, n.Tr.SX, n.Tr.SY)
	}
	if n.Ov {
		add("overflow:%s", n.ovKeyword())
	}
	if n.W > 0 {
		add("width:%dpx", n.W)
	}
	if n.H > 0 {
		add("height:%dpx", n.H)
	}
	if n.ML != 0 {
		add("margin-left:%dpx", n.ML)
	}
	if n.MT != 0 {
		add("margin-top:%dpx", n.MT)
	}
	if n.Pad != 0 {
		add("padding:%dpx", n.Pad)
	}
	if n.BB {
		add("break-before:page")
	}
	add("background:%s", cssColour(Key{n.ID, LBg}))
	if n.Bd > 0 {
		add("border:%dpx solid %s", n.Bd, cssColour(Key{n.ID, LBorder}))
	}
	if n.Ol > 0 {
		add("outline:%dpx solid %s", n.Ol, cssColour(Key{n.ID, LOutline}))
	}
	add("color:%s", cssColour(Key{n.ID, LText}))
	fmt.Fprintf(sb, `<%s id="b%d" style="%s">`, tag, n.ID, strings.Join(st, ";"))
	sb.WriteString(n.Text)
	for _, c := range n.Kids {
		emitNode(sb, c)
	}
	fmt.Fprintf(sb, "</%s>", tag)
}

// ---------------------------------------------------------------------------------------------
// Reference model: CSS 2.1 Appendix E ("Elaborate description of Stacking Contexts"), written from
// the specification text, on the generator's tree.
//
// Two points where the specifications leave a choice, or where webrender follows WeasyPrint's
// documented simplification, are model *variants*; the oracle accepts an observed order when it is
// consistent with one variant on every judged pair (see order.go):
//   - earlyOutline: Appendix E allows outlines to be painted with the element's content (steps
//     7.1/7.2/7.2.1.4 "optionally") or all together in step 10 (recommended).
//   - overflowCtx: `overflow` other than visible is treated as establishing a stacking context
//     (z-index 0).  Appendix E does not say that; webrender (like WeasyPrint) does it for every
//     box.  The property's third clause ("clipping applies to the whole sub-tree") is judged by the
//     scope monitor, not here.
// ---------------------------------------------------------------------------------------------

type variant struct {
	earlyOutline bool
	overflowCtx  bool
}

func (v variant) String() string {
	s := "outlines in step 10"
	if v.earlyOutline {
		s = "outlines with content (step 7)"
	}
	if v.overflowCtx {
		s += ", overflow:hidden establishes a z-index:0 stacking context"
	} else {
		s += ", overflow does not establish a stacking context"
	}
	return s
}

type painter struct {
	v   variant
	seq []Key
	// step class of every box (by id): which step of its parent context paints it
	class map[int]string
	// ctxOf[id] = id of the (pseudo) stacking context root that paints the box's own layers
	ctxOf map[int]int
	// parentCtx[id] for context roots = id of the real context whose step 3/5/7/8/9 paints it
	nctx int
	// olCtx[id] = id of the (pseudo) context root whose step 10 paints the outline of box id
	olCtx map[int]int
}

func (p *painter) markOl(n *Node, root int) {
	p.olCtx[n.ID] = root
	for _, c := range n.Kids {
		if p.hoisted(c) || c.floated() || c.disp() == "iblock" {
			continue
		}
		p.markOl(c, root)
	}
}

// establishes a real stacking context
func (p *painter) realCtx(n *Node) bool {
	if n.ID == -1 { // the root element
		return true
	}
	if n.positioned() && n.Z != nil {
		return true
	}
	if n.opacity() < 1 || n.Tr != nil {
		return true
	}
	if p.v.overflowCtx && n.Ov {
		return true
	}
	return false
}

// z-index used to place a context root in its parent context: z-index applies to positioned boxes
// only; opacity / transform contexts of non-positioned boxes are painted as z-index 0 (CSS Color 3
// §3.2, CSS Transforms 1 §3).
func zLevel(n *Node) int {
	if n.positioned() && n.Z != nil {
		return *n.Z
	}
	return 0
}

// painted by steps 3, 8 or 9 of an enclosing context, never by steps 4-7
func (p *painter) hoisted(n *Node) bool { return n.positioned() || p.realCtx(n) }

func (p *painter) emit(n *Node, layer int) {
	if n.has(layer) {
		p.seq = append(p.seq, Key{n.ID, layer})
	}
}

func (p *painter) setClass(n *Node, c string, ctx *Node) {
	if p.class != nil {
		p.class[n.ID] = c
		p.ctxOf[n.ID] = ctx.ID
	}
}

// ctx paints n as the root of a stacking context (real) or "as if it created a new stacking
// context, but any positioned descendants and descendants which actually create a new stacking
// context should be considered part of the parent stacking context" (pseudo).
func (p *painter) ctx(n *Node, real bool) {
	p.nctx++
	p.markOl(n, n.ID)
	inline := n.disp() == "inline"
	// steps 1, 2: background and border of the element forming the context
	if !inline {
		p.emit(n, LBg)
		p.emit(n, LBorder)
	}
	var neg, zero, pos []*Node
	if real {
		var all []*Node
		p.collect(n, &all)
		for _, c := range all {
			switch z := zLevel(c); {
			case !p.realCtx(c): // positioned, z-index:auto
				zero = append(zero, c)
			case z < 0:
				neg = append(neg, c)
			case z == 0:
				zero = append(zero, c)
			default:
				pos = append(pos, c)
			}
		}
		// "in z-index order (most negative first) then tree order"
		sort.SliceStable(neg, func(i, j int) bool { return zLevel(neg[i]) < zLevel(neg[j]) })
		sort.SliceStable(pos, func(i, j int) bool { return zLevel(pos[i]) < zLevel(pos[j]) })
	}
	// step 3
	for _, c := range neg {
		p.setClass(c, "neg", n)
		p.ctx(c, true)
	}
	// step 4: in-flow, non-inline-level, non-positioned descendants, tree order: background, border
	if !inline {
		p.blocks(n, n)
	}
	// step 5: non-positioned floats, tree order, each as a pseudo context
	p.floats(n, n)
	if inline {
		// step 6
		p.inlineBox(n, n)
	} else {
		// step 7
		p.content(n, n)
		if p.v.earlyOutline {
			p.emit(n, LOutline)
		}
	}
	// step 8: positioned descendants with z-index auto or 0 (and opacity/transform contexts), tree order
	for _, c := range zero {
		p.setClass(c, "zero", n)
		p.ctx(c, p.realCtx(c))
	}
	// step 9
	for _, c := range pos {
		p.setClass(c, "pos", n)
		p.ctx(c, true)
	}
	// step 10
	if !p.v.earlyOutline {
		p.outlines(n)
	}
}

// collect lists, in tree order, the descendants painted by steps 3/8/9 of the real context n:
// positioned boxes and boxes establishing a context, looking through everything that does not
// establish a real context itself.
func (p *painter) collect(n *Node, out *[]*Node) {
	for _, c := range n.Kids {
		if p.realCtx(c) {
			*out = append(*out, c)
			continue
		}
		if c.positioned() {
			*out = append(*out, c)
		}
		p.collect(c, out)
	}
}

func (p *painter) blocks(n, ctx *Node) {
	for _, c := range n.Kids {
		if p.hoisted(c) || c.floated() || c.disp() != "block" {
			continue
		}
		p.setClass(c, "block", ctx)
		p.emit(c, LBg)
		p.emit(c, LBorder)
		p.blocks(c, ctx)
	}
}

func (p *painter) floats(n, ctx *Node) {
	for _, c := range n.Kids {
		if p.hoisted(c) {
			continue
		}
		if c.floated() {
			p.setClass(c, "float", ctx)
			p.ctx(c, false)
			continue
		}
		if c.disp() == "iblock" {
			continue // atomic: its floats belong to its own pseudo context
		}
		p.floats(c, ctx)
	}
}

// content: step 7 for a block container: its line boxes and those of its in-flow block-level
// descendants, tree order.
func (p *painter) content(n, ctx *Node) {
	p.emit(n, LText)
	for _, c := range n.Kids {
		if p.hoisted(c) || c.floated() {
			continue
		}
		switch c.disp() {
		case "block":
			p.content(c, ctx)
			if p.v.earlyOutline {
				p.emit(c, LOutline)
			}
		case "inline":
			p.setClass(c, "inline", ctx)
			p.inlineBox(c, ctx)
		case "iblock":
			p.setClass(c, "iblock", ctx)
			p.ctx(c, false)
		}
	}
}

// inlineBox: 7.2.1 for an inline box: background, border, then its children in tree order
func (p *painter) inlineBox(n, ctx *Node) {
	p.emit(n, LBg)
	p.emit(n, LBorder)
	p.emit(n, LText)
	for _, c := range n.Kids {
		if p.hoisted(c) || c.floated() {
			continue
		}
		switch c.disp() {
		case "inline":
			p.setClass(c, "inline", ctx)
			p.inlineBox(c, ctx)
		case "iblock":
			p.setClass(c, "iblock", ctx)
			p.ctx(c, false)
		case "block":
			// block in inline: not generated
			p.content(c, ctx)
		}
	}
	if p.v.earlyOutline {
		p.emit(n, LOutline)
	}
}

// outlines: step 10, the context root and its descendants that are painted by this context
func (p *painter) outlines(n *Node) {
	p.emit(n, LOutline)
	for _, c := range n.Kids {
		if p.hoisted(c) || c.floated() || c.disp() == "iblock" {
			continue
		}
		p.outlines(c)
	}
}

// expected returns the paint sequence of the document under a variant, plus the step class of
// every box (for evidence counters).
func expected(body *Node, roots []*Node, v variant) (seq []Key, class map[int]string, ctxOf map[int]int) {
	seq, class, ctxOf, _ = expectedFull(body, roots, v)
	return
}

func expectedFull(body *Node, roots []*Node, v variant) (seq []Key, class map[int]string, ctxOf, olCtx map[int]int) {
	b := bodyNode(body, roots)
	root := &Node{ID: -1, Disp: "block", Kids: []*Node{b}}
	p := &painter{v: v, class: map[int]string{}, ctxOf: map[int]int{}, olCtx: map[int]int{}}
	p.ctx(root, true)
	return p.seq, p.class, p.ctxOf, p.olCtx
}

// bodyNode returns the body element (id 0: position / z-index / opacity only, paints nothing)
// with the generated boxes as children.
func bodyNode(body *Node, roots []*Node) *Node {
	b := &Node{ID: 0, Disp: "block"}
	if body != nil {
		b.Pos, b.Z, b.Op = body.Pos, body.Z, body.Op
	}
	b.Kids = roots
	return b
}

// walk visits every node with its ancestors (outermost first, excluding the node)
func walk(roots []*Node, f func(n *Node, anc []*Node)) {
	var rec func(n *Node, anc []*Node)
	rec = func(n *Node, anc []*Node) {
		f(n, anc)
		a2 := append(append([]*Node(nil), anc...), n)
		for _, c := range n.Kids {
			rec(c, a2)
		}
	}
	for _, n := range roots {
		rec(n, nil)
	}
}

// ---------------------------------------------------------------------------------------------
// Paged documents.  A top-level in-flow block with break-before:page starts a new page; no generated
// box is fragmented (only <html> and <body>, which paint nothing, span several pages).  Boxes with
// position:fixed are repeated on every page (CSS 2.1 §9.6.1: "boxes with fixed position are
// repeated on every page"); the rendering tree of a page is therefore the document tree restricted
// to the boxes laid out on that page plus every fixed box of the other pages, all in document
// order - which is the "tree order" of Appendix E on that page: a fixed box declared on an earlier
// page precedes the whole content of the page, one declared on a later page follows it.
// ---------------------------------------------------------------------------------------------

// pageCount is the number of pages of the document (forced breaks only).
func pageCount(roots []*Node) int {
	n := 1
	for i, r := range roots {
		if r.BB && i > 0 {
			n++
		}
	}
	return n
}

func collectFixed(n *Node, out *[]*Node) {
	if n.fixed() {
		*out = append(*out, n)
		return
	}
	for _, c := range n.Kids {
		collectFixed(c, out)
	}
}

// pageRoots returns the children of <body> in the rendering tree of page p: the top-level boxes
// laid out on the page, and in place of every other top-level box the (outermost) fixed boxes it
// contains, with their sub-trees.  foreign[id] is -1 / +1 for the boxes of fixed sub-trees declared
// on an earlier / later page.  The generator keeps the ancestors of such fixed boxes plain (they
// form no stacking context, have no opacity / transform / overflow), so hoisting the fixed box to
// <body> changes neither its stacking context nor the state it is painted under.
func pageRoots(roots []*Node, p int) (out []*Node, foreign map[int]int) {
	foreign = map[int]int{}
	cur := 0
	for i, r := range roots {
		if r.BB && i > 0 {
			cur++
		}
		if cur == p {
			out = append(out, r)
			continue
		}
		var fx []*Node
		collectFixed(r, &fx)
		side := -1
		if cur > p {
			side = 1
		}
		walk(fx, func(n *Node, _ []*Node) { foreign[n.ID] = side })
		out = append(out, fx...)
	}
	return out, foreign
}
