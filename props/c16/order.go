package c16

import (
	"fmt"
	"sort"
	"strings"
)

// overlap threshold: regions must share more than half a pixel in both directions to be judged
const overlapEps = 0.5

var variants = []variant{
	{earlyOutline: false, overflowCtx: true},
	{earlyOutline: false, overflowCtx: false},
	{earlyOutline: true, overflowCtx: true},
	{earlyOutline: true, overflowCtx: false},
}

type pairFail struct {
	a, b Key // expected a before b
	how  string
}

// order compares the effective paint order with the Appendix E model on every pair of layers of
// different boxes whose painted regions overlap.
func (j *judge) order() {
	res := j.res
	keys := make([]Key, 0, len(j.byKey))
	for k := range j.byKey {
		keys = append(keys, k)
	}
	sort.Slice(keys, func(a, b int) bool {
		if keys[a].ID != keys[b].ID {
			return keys[a].ID < keys[b].ID
		}
		return keys[a].Layer < keys[b].Layer
	})
	first := map[Key]int{}
	last := map[Key]int{}
	for k, idx := range j.byKey {
		first[k], last[k] = idx[0], idx[len(idx)-1]
	}
	// overlapping pairs of different boxes
	type pair struct{ a, b Key }
	var pairs []pair
	total := 0
	for x := 0; x < len(keys); x++ {
		for y := x + 1; y < len(keys); y++ {
			ka, kb := keys[x], keys[y]
			if ka.ID == kb.ID {
				continue
			}
			total++
			ov := false
			for _, ia := range j.byKey[ka] {
				for _, ib := range j.byKey[kb] {
					if overlap(&j.obs.Items[ia], &j.obs.Items[ib], overlapEps) {
						ov = true
					}
				}
			}
			if ov {
				pairs = append(pairs, pair{ka, kb})
			}
		}
	}
	res.Count("pairs_total", int64(total))
	res.Count("pairs_judged", int64(len(pairs)))

	var best []pairFail
	bestV := -1
	var bestSeq []Key
	for vi, v := range variants {
		if j.in.Strict && v.overflowCtx {
			continue
		}
		seq, _, _, olCtx := expectedFull(j.body(), j.roots, v)
		pos := map[Key]int{}
		for i, k := range seq {
			if _, dup := pos[k]; dup {
				// the model emits every layer once; anything else is a bug of the model
				res.Verdict = "inconclusive"
				res.Msg = "model emitted " + k.String() + " twice"
				return
			}
			pos[k] = i
		}
		var fails []pairFail
		for _, p := range pairs {
			pa, oka := pos[p.a]
			pb, okb := pos[p.b]
			if !oka || !okb {
				continue
			}
			// step 10 paints "outlines from this stacking context" without ordering them
			if p.a.Layer == LOutline && p.b.Layer == LOutline && olCtx[p.a.ID] == olCtx[p.b.ID] {
				continue
			}
			a, b := p.a, p.b
			if pb < pa {
				a, b = b, a
			}
			// expected: every paint of a before every paint of b
			switch {
			case last[a] < first[b]:
			case last[b] < first[a]:
				fails = append(fails, pairFail{a, b, "after"})
			default:
				fails = append(fails, pairFail{a, b, "interleaved with"})
			}
		}
		if len(fails) == 0 {
			j.okVar[vi] = true
			if len(best) > 0 || bestV < 0 {
				best, bestV, bestSeq = nil, vi, seq
			}
			if j.npages == 1 {
				break
			}
			continue // paged documents: one reading must explain all the pages (see check)
		}
		if bestV < 0 || len(fails) < len(best) {
			best, bestV, bestSeq = fails, vi, seq
		}
	}
	res.Count(fmt.Sprintf("explained_by_variant_%d", bestV), 1)
	if len(best) > 0 {
		f := best[0]
		var obsSeq []string
		for _, it := range j.obs.Items {
			s := it.Key.String()
			if len(obsSeq) == 0 || obsSeq[len(obsSeq)-1] != s {
				obsSeq = append(obsSeq, s)
			}
		}
		var expSeq []string
		for _, k := range bestSeq {
			expSeq = append(expSeq, k.String())
		}
		ia, ib := &j.obs.Items[first[f.a]], &j.obs.Items[first[f.b]]
		j.fail("stacking-order", "%s is painted %s %s although their regions overlap (%s and %s) and CSS 2.1 Appendix E paints %s first (%s; %s). %d of %d overlapping pairs contradict the closest reading of the specification [%s].\n  expected order: %s\n  observed order: %s",
			f.a, f.how, f.b, ia.clipped(), ib.clipped(), f.a, j.why(f.a, variants[bestV]), j.why(f.b, variants[bestV]), len(best), len(pairs), variants[bestV], strings.Join(expSeq, " "), strings.Join(obsSeq, " "))
		return
	}

	// evidence: which step classes the judged pairs involved
	_, class, ctxOf := expected(j.body(), j.roots, variants[bestV])
	cross := 0
	for _, p := range pairs {
		ca, cb := class[p.a.ID], class[p.b.ID]
		res.Count("judged_class_"+ca, 1)
		if cb != ca {
			res.Count("judged_class_"+cb, 1)
		}
		cross++
		step7 := func(k Key, c string) bool { return k.Layer == LText || c == "inline" || c == "iblock" }
		if step7(p.a, ca) && step7(p.b, cb) && p.a.Layer != LOutline && p.b.Layer != LOutline {
			res.Count("judged_step7_pairs", 1)
		}
		na, nb := j.nodes[p.a.ID].n, j.nodes[p.b.ID].n
		if (ca == "neg" || ca == "pos") && ca == cb && ctxOf[na.ID] == ctxOf[nb.ID] && zLevel(na) == zLevel(nb) {
			res.Count("judged_z_tie", 1)
		}
		// paged documents: pairs between a fixed box repeated from another page (or a box inside it)
		// and a box of this page / of another fixed box; "ties" are the pairs of two child contexts of
		// the same context painted by the same step at the same z-index level: tree order alone
		// (document order across the pages) decides them
		fa, fb := j.foreign[na.ID], j.foreign[nb.ID]
		if fa != fb {
			tie := (ca == "neg" || ca == "pos" || ca == "zero") && ca == cb && ctxOf[na.ID] == ctxOf[nb.ID] && zLevel(na) == zLevel(nb)
			for _, f := range []int{fa, fb} {
				switch f {
				case -1:
					res.Count("judged_fixed_earlier_pairs", 1)
					if tie {
						res.Count("judged_fixed_earlier_ties", 1)
					}
				case 1:
					res.Count("judged_fixed_later_pairs", 1)
					if tie {
						res.Count("judged_fixed_later_ties", 1)
					}
				}
			}
		}
	}
	// report-only: discordant pairs that do not overlap (commuting paints)
	seq := bestSeq
	_, _, _, olBest := expectedFull(j.body(), j.roots, variants[bestV])
	pos := map[Key]int{}
	for i, k := range seq {
		pos[k] = i
	}
	disc := 0
	for x := 0; x < len(keys); x++ {
		for y := x + 1; y < len(keys); y++ {
			a, b := keys[x], keys[y]
			if a.ID == b.ID {
				continue
			}
			if pos[b] < pos[a] {
				a, b = b, a
			}
			if a.Layer == LOutline && b.Layer == LOutline && olBest[a.ID] == olBest[b.ID] {
				continue // step 10 does not order the outlines of one context
			}
			if !(last[a] < first[b]) {
				disc++
			}
		}
	}
	res.Count("discordant_nonoverlapping_pairs", int64(disc))
	if disc > 0 {
		res.Reports = append(res.Reports, fmt.Sprintf("%d pairs of layers whose regions do not overlap are painted in another order than the model's (commuting paints, not judged)", disc))
	}
	j.cross = cross
}

// why describes in which step the model paints a layer
func (j *judge) why(k Key, v variant) string {
	_, class, ctxOf := expected(j.body(), j.roots, v)
	n := j.nodes[k.ID].n
	c := class[k.ID]
	step := map[string]string{"neg": "step 3, negative z-index context", "block": "step 4/7, in-flow block", "float": "step 5, float",
		"inline": "step 7, inline box", "iblock": "step 7, inline-block", "zero": "step 8, positioned z-index auto/0 or opacity/transform context", "pos": "step 9, positive z-index context"}[c]
	z := "auto"
	if n.Z != nil {
		z = fmt.Sprint(*n.Z)
	}
	cx := fmt.Sprintf("b%d", ctxOf[k.ID])
	switch ctxOf[k.ID] {
	case 0:
		cx = "<body>"
	case -1:
		cx = "the root element"
	}
	return fmt.Sprintf("b%d: %s of context %s, z-index %s", k.ID, step, cx, z)
}
