//go:build pC19 || pall

package props

import _ "verif/props/c19"
