//go:build pC16 || pall

package props

import _ "verif/props/c16"
