package c10

import (
	"fmt"
	"math"
	"strconv"
	"strings"
)

// Reference model of CSS 2.1 block layout in normal flow (left-to-right), written from the text of
// CSS 2.1 §8.3.1 (collapsing margins), §10.3.3 (block-level, non-replaced elements in normal flow),
// §10.4 (min-width / max-width), §10.5, §10.6.3, §10.6.7, §10.7 (heights) and CSS UI 3 box-sizing.
// It shares no code with /repo.  All arithmetic is float64.

// Node is the generator-side description of one element (or anonymous text run).
//
// Lengths are CSS texts: "auto", "none", "12px", "-7.5px", "25%", "0".  The empty string means
// "not specified" (initial value).
type Node struct {
	ID   string `json:"id,omitempty"`
	Kind string `json:"k,omitempty"` // "" block element | "text" (run of Lines line boxes) | "abs" (position:absolute block, out of flow)

	ML string `json:"ml,omitempty"`
	MR string `json:"mr,omitempty"`
	MT string `json:"mt,omitempty"`
	MB string `json:"mb,omitempty"`
	PL string `json:"pl,omitempty"`
	PR string `json:"pr,omitempty"`
	PT string `json:"pt,omitempty"`
	PB string `json:"pb,omitempty"`
	// border widths in px (border-style is solid whenever a width is given)
	BL float64 `json:"bl,omitempty"`
	BR float64 `json:"br,omitempty"`
	BT float64 `json:"bt,omitempty"`
	BB float64 `json:"bb,omitempty"`

	W    string `json:"w,omitempty"`
	H    string `json:"h,omitempty"`
	MinW string `json:"minw,omitempty"`
	MaxW string `json:"maxw,omitempty"`
	MinH string `json:"minh,omitempty"`
	MaxH string `json:"maxh,omitempty"`

	BorderBox bool   `json:"bbox,omitempty"` // box-sizing: border-box
	BFC       string `json:"bfc,omitempty"`  // "" | "hidden" (overflow:hidden) | "flow-root" (display:flow-root)

	Lines int     `json:"lines,omitempty"` // Kind "text": number of line boxes
	LineH float64 `json:"lh,omitempty"`    // line-height in px of this element (used by its text runs)

	Kids []*Node `json:"kids,omitempty"`
}

// val is a parsed length.
type val struct {
	kind byte // 'a' auto, 'n' none / unspecified, 'x' px, '%' percentage
	n    float64
}

func parseVal(s string) (val, error) {
	switch {
	case s == "":
		return val{kind: 'n'}, nil
	case s == "auto":
		return val{kind: 'a'}, nil
	case s == "none":
		return val{kind: 'n'}, nil
	case s == "0":
		return val{kind: 'x'}, nil
	case strings.HasSuffix(s, "px"):
		f, err := strconv.ParseFloat(strings.TrimSuffix(s, "px"), 64)
		return val{kind: 'x', n: f}, err
	case strings.HasSuffix(s, "%"):
		f, err := strconv.ParseFloat(strings.TrimSuffix(s, "%"), 64)
		return val{kind: '%', n: f}, err
	}
	return val{}, fmt.Errorf("bad length %q", s)
}

func mustVal(s string) val {
	v, err := parseVal(s)
	if err != nil {
		panic(err)
	}
	return v
}

// Lay is what the model predicts for one element.
type Lay struct {
	Node *Node
	// used horizontal values
	ML, MR, PL, PR, BL, BR, W float64
	// used vertical values
	MT, MB, PT, PB, BT, BB, H float64
	// border box position
	X, Y float64
	// containing block (content box of the parent) width, and height (NaN when it depends on content)
	CBW, CBH float64

	OverConstrained bool // §10.3.3: width and both margins non-auto in the final resolution
	ClampedW        byte // 0, 'M' max-width applied, 'm' min-width applied
	AutoMargins     int  // number of auto horizontal margins
	AutoWidth       bool
	CollapsedThru   bool // own top and bottom margins are adjoining
	YFromParent     bool // collapsed through and margins collapse with the parent's top margin (position = parent's)
	AutoHeight      bool // used height computed from content
	// Ambiguous is set when the case exercises a point the CSS 2.1 text leaves open or that later
	// errata changed; the reason is recorded.  Such cases are report-only.
	Ambiguous string
	// Trigger names a feature combination on which the unchanged webrender tree is known to deviate
	// from CSS 2.1 (see notes/C10.md); generators keep such trees out of the random workload, the
	// comparison itself is unchanged.
	Triggers []string

	// Runs are the text runs of the element in document order: top of the first line box, line count
	// and line height.
	Runs []Run

	resolved bool
	parent   *Lay

	// evidence flags
	firstChildCollapse, lastChildCollapse, siblingCollapse, negCollapse, minMaxApplied bool
}

type hres struct {
	ml, mr, w float64
	over      bool
	nauto     int
	autoW     bool
}

// widthEquation is §10.3.3 for one computed width.  ml/mr/w are NaN for auto.
func widthEquation(cbw, ml, mr, w, pb float64) hres {
	r := hres{}
	if math.IsNaN(ml) {
		r.nauto++
	}
	if math.IsNaN(mr) {
		r.nauto++
	}
	r.autoW = math.IsNaN(w)
	if !math.IsNaN(w) {
		// "If 'width' is not 'auto' and 'border-left-width' + 'padding-left' + 'width' + 'padding-right' +
		// 'border-right-width' (plus any of 'margin-left' or 'margin-right' that are not 'auto') is larger
		// than the width of the containing block, then any 'auto' values for 'margin-left' or
		// 'margin-right' are, for the following rules, treated as zero."
		tot := pb + w
		if !math.IsNaN(ml) {
			tot += ml
		}
		if !math.IsNaN(mr) {
			tot += mr
		}
		if tot > cbw {
			if math.IsNaN(ml) {
				ml = 0
			}
			if math.IsNaN(mr) {
				mr = 0
			}
		}
	}
	switch {
	case !math.IsNaN(w) && !math.IsNaN(ml) && !math.IsNaN(mr):
		// over-constrained; 'direction' is ltr: "the specified value of 'margin-right' is ignored and
		// the value is calculated so as to make the equality true"
		r.over = true
		mr = cbw - pb - w - ml
	case math.IsNaN(w):
		// "If 'width' is set to 'auto', any other 'auto' values become '0' and 'width' follows from
		// the resulting equality."
		if math.IsNaN(ml) {
			ml = 0
		}
		if math.IsNaN(mr) {
			mr = 0
		}
		w = cbw - pb - ml - mr
	case math.IsNaN(ml) && math.IsNaN(mr):
		// "If both 'margin-left' and 'margin-right' are 'auto', their used values are equal."
		ml = (cbw - pb - w) / 2
		mr = ml
	case math.IsNaN(ml):
		ml = cbw - pb - w - mr
	case math.IsNaN(mr):
		mr = cbw - pb - w - ml
	}
	r.ml, r.mr, r.w = ml, mr, w
	return r
}

func pct(v val, ref float64) float64 {
	switch v.kind {
	case 'x':
		return v.n
	case '%':
		return v.n * ref / 100
	}
	return math.NaN()
}

// margin set: adjoining margins collapse to max(positive) + min(negative)
type mset struct{ pos, neg float64 }

func (m *mset) add(v float64) {
	if v > m.pos {
		m.pos = v
	}
	if v < m.neg {
		m.neg = v
	}
}
func (m mset) value() float64 { return m.pos + m.neg }

// Run is one run of line boxes (an anonymous block box, or the whole content of a leaf).
type Run struct {
	Y, LineH float64
	Lines    int
}

// flow is the state of one block formatting context while it is traversed in document order.
type flow struct {
	cursor float64 // bottom border edge of what was placed last (or content top of the enclosing resolved box)
	m      mset    // margins adjoining at the cursor, not yet applied
	open   []*Lay  // boxes whose top border edge lies at cursor + final value of m
}

func (f *flow) flush() {
	y := f.cursor + f.m.value()
	for _, l := range f.open {
		l.Y = y
		l.resolved = true
	}
	f.open = f.open[:0]
	f.cursor = y
	f.m = mset{}
}

// Model lays out the tree.  icbX/icbY/icbW/icbH describe the initial containing block (page content box).
type Model struct {
	Lays []*Lay // document order, block elements only (Kind "")
	Post []*Lay // the same boxes, children before parents (comparison order: root causes first)
	ByID map[string]*Lay
}

func RunModel(root *Node, icbX, icbY, icbW, icbH float64) *Model {
	m := &Model{ByID: map[string]*Lay{}}
	f := &flow{cursor: icbY}
	m.block(root, nil, icbX, icbW, icbH, f, true, 20)
	return m
}

func (m *Model) block(b *Node, parent *Lay, cbX, cbW, cbH float64, f *flow, isRoot bool, inheritedLH float64) {
	lh := inheritedLH // line-height is inherited; the document default is html{font:10px/20px Ahem}
	if b.LineH != 0 {
		lh = b.LineH
	}
	L := &Lay{Node: b, CBW: cbW, CBH: cbH, parent: parent}
	m.Lays = append(m.Lays, L)
	defer func() { m.Post = append(m.Post, L) }()
	if b.ID != "" {
		m.ByID[b.ID] = L
	}

	// ---- horizontal: percentages refer to the containing block width (§8.3, §8.4, §10.2)
	ml, mr := pct(mustVal(b.ML), cbW), pct(mustVal(b.MR), cbW)
	if b.ML == "" {
		ml = 0
	}
	if b.MR == "" {
		mr = 0
	}
	zeroIfNaN := func(x float64) float64 {
		if math.IsNaN(x) {
			return 0
		}
		return x
	}
	L.PL, L.PR = zeroIfNaN(pct(mustVal(b.PL), cbW)), zeroIfNaN(pct(mustVal(b.PR), cbW))
	L.PT, L.PB = zeroIfNaN(pct(mustVal(b.PT), cbW)), zeroIfNaN(pct(mustVal(b.PB), cbW))
	L.BL, L.BR, L.BT, L.BB = b.BL, b.BR, b.BT, b.BB
	hpb := L.PL + L.PR + L.BL + L.BR
	vpb := L.PT + L.PB + L.BT + L.BB
	w := pct(mustVal(b.W), cbW) // NaN = auto
	minW := zeroIfNaN(pct(mustVal(b.MinW), cbW))
	maxW := pct(mustVal(b.MaxW), cbW)
	if math.IsNaN(maxW) {
		maxW = math.Inf(1)
	}
	if b.BorderBox {
		// CSS UI 3 §4.1: the content width is the specified width minus padding and border,
		// floored at 0; the same applies to min-/max-width.
		if !math.IsNaN(w) {
			w = math.Max(0, w-hpb)
		}
		minW = math.Max(0, minW-hpb)
		if !math.IsInf(maxW, 1) {
			maxW = math.Max(0, maxW-hpb)
		}
	}
	r := widthEquation(cbW, ml, mr, w, hpb)
	if r.w > maxW {
		r = widthEquation(cbW, ml, mr, maxW, hpb)
		L.ClampedW = 'M'
	}
	if r.w < minW {
		r = widthEquation(cbW, ml, mr, minW, hpb)
		L.ClampedW = 'm'
	}
	L.ML, L.MR, L.W = r.ml, r.mr, r.w
	L.OverConstrained, L.AutoMargins, L.AutoWidth = r.over, r.nauto, r.autoW
	L.X = cbX + L.ML

	// ---- vertical values
	L.MT, L.MB = zeroIfNaN(pct(mustVal(b.MT), cbW)), zeroIfNaN(pct(mustVal(b.MB), cbW)) // auto -> 0 (§10.6.3)
	cbHdef := !math.IsNaN(cbH)
	hv := mustVal(b.H)
	h := math.NaN()
	switch hv.kind {
	case 'x':
		h = hv.n
	case '%':
		// §10.5: "If the height of the containing block is not specified explicitly (i.e., it depends on
		// content height), and this element is not absolutely positioned, the value computes to 'auto'."
		if cbHdef {
			h = hv.n * cbH / 100
		}
	}
	minH, maxH := 0.0, math.Inf(1)
	pctMinMaxOnAuto := false
	if v := mustVal(b.MinH); v.kind == 'x' {
		minH = v.n
	} else if v.kind == '%' {
		if cbHdef {
			minH = v.n * cbH / 100
		} else {
			pctMinMaxOnAuto = v.n != 0 // treated as 0 (§10.7), but the computed value is not zero
		}
	}
	if v := mustVal(b.MaxH); v.kind == 'x' {
		maxH = v.n
	} else if v.kind == '%' && cbHdef {
		maxH = v.n * cbH / 100
	}
	if b.BorderBox {
		if !math.IsNaN(h) {
			h = math.Max(0, h-vpb)
		}
		minH = math.Max(0, minH-vpb)
		if !math.IsInf(maxH, 1) {
			maxH = math.Max(0, maxH-vpb)
		}
	}
	clampH := func(x float64) float64 {
		y := math.Max(math.Min(x, maxH), minH)
		if y != x {
			L.minMaxApplied = true
		}
		return y
	}
	L.AutoHeight = math.IsNaN(h)

	isBFC := isRoot || b.BFC != ""

	// ---- top edge (§8.3.1)
	if (f.m.pos != 0 || f.m.neg != 0) && L.MT != 0 {
		if parent != nil && !parent.resolved {
			L.firstChildCollapse = true
		} else {
			L.siblingCollapse = true
		}
	}
	f.m.add(L.MT)
	if f.m.pos > 0 && f.m.neg < 0 {
		L.negCollapse = true
	}
	if isBFC || L.BT > 0 || L.PT > 0 {
		f.flush()
		L.Y, L.resolved = f.cursor, true
		f.cursor += L.BT + L.PT
	} else {
		f.open = append(f.open, L)
	}
	openIdx := len(f.open) - 1 // meaningful only while !L.resolved

	// containing block height seen by the children: the used height when it does not depend on content
	kidCBH := math.NaN()
	if !math.IsNaN(h) {
		kidCBH = clampH(h)
		if kidCBH != h {
			// §10.7: the rules are applied again with the min-/max-height as the computed value of
			// 'height', so children percentages refer to the clamped height (§10.5).  The unchanged
			// tree resolves them against the unclamped height (finding percent-height-clamped-parent).
			for _, k := range b.Kids {
				if k.Kind == "" && (strings.HasSuffix(k.H, "%") || strings.HasSuffix(k.MinH, "%") || strings.HasSuffix(k.MaxH, "%")) {
					L.Triggers = append(L.Triggers, "percent-height-against-clamped-height")
					break
				}
			}
		}
	}

	// ---- children
	kf := f
	if isBFC {
		kf = &flow{cursor: f.cursor}
	}
	for _, k := range b.Kids {
		switch k.Kind {
		case "abs":
			// out of flow: no effect on the flow (§9.6)
		case "text":
			if k.Lines > 0 {
				kf.flush()
				L.Runs = append(L.Runs, Run{Y: kf.cursor, LineH: lh, Lines: k.Lines})
				kf.cursor += float64(k.Lines) * lh
			}
		default:
			// content box x: border box x + border-left + padding-left
			m.block(k, L, L.X+L.BL+L.PL, L.W, kidCBH, kf, false, lh)
		}
	}

	// ---- bottom edge and height
	if !L.resolved {
		// nothing separated our top margin from what follows: no line box, no in-flow child with a
		// resolved edge.  (isBFC is false, BT = PT = 0.)
		canThru := (math.IsNaN(h) || h == 0) && minH == 0 && L.BB == 0 && L.PB == 0
		if pctMinMaxOnAuto && canThru {
			L.Ambiguous = "percentage min-height against an auto-height containing block on a box that could collapse through"
		}
		if canThru {
			L.CollapsedThru = true
			L.H = 0
			if parent != nil && !parent.resolved {
				// margins collapse with the parent's top margin: "the top border edge of the box is
				// defined to be the same as the parent's" -> stays in f.open until the parent resolves
				L.YFromParent = true
				L.Triggers = append(L.Triggers, "collapsed-through-into-parent-top")
			} else {
				// "the position of the element's top border edge is the same as it would have been if
				// the element had a non-zero bottom border"
				y := f.cursor + f.m.value()
				for _, o := range f.open[openIdx:] {
					o.Y, o.resolved = y, true
				}
				f.open = f.open[:openIdx]
			}
			f.m.add(L.MB)
			if f.m.neg < 0 {
				L.Triggers = append(L.Triggers, "collapsed-through-negative-margin")
			}
			return
		}
		f.flush() // resolves L
	}
	contentTop := L.Y + L.BT + L.PT
	if isBFC {
		if !isRoot && (math.IsNaN(h) || h == 0) && minH == 0 && vpb == 0 && !hasInFlow(b) {
			L.Triggers = append(L.Triggers, "empty-bfc-root-box")
		}
		// §10.6.7: the height reaches the bottom margin edge of the last in-flow child
		content := kf.cursor + kf.m.value()
		if math.IsNaN(h) {
			L.H = clampH(content - contentTop)
		} else {
			L.H = clampH(h)
		}
		f.cursor = contentTop + L.H + L.PB + L.BB
		f.m = mset{}
		f.m.add(L.MB)
		return
	}
	if math.IsNaN(h) {
		if L.BB == 0 && L.PB == 0 {
			// bottom margin adjoins the last in-flow child's bottom margin: content ends at the bottom
			// border edge of the last in-flow child that did not collapse through (§10.6.3)
			tent := f.cursor - contentTop
			L.H = clampH(tent)
			if minH != 0 || pctMinMaxOnAuto {
				L.Ambiguous = "non-zero min-height on an auto-height box whose bottom margin could adjoin its last child's"
			} else if L.H != tent {
				L.Ambiguous = "max-height reduces an auto-height box whose bottom margin adjoins its last child's"
			}
			f.cursor = contentTop + L.H
			if (f.m.pos != 0 || f.m.neg != 0) && L.MB != 0 {
				L.lastChildCollapse = true
			}
			f.m.add(L.MB)
			return
		}
		// §10.6.3: "the bottom edge of the bottom (possibly collapsed) margin of its last in-flow child,
		// if the child's bottom margin does not collapse with the element's bottom margin"
		tent := f.cursor + f.m.value() - contentTop
		L.H = clampH(tent)
	} else {
		L.H = clampH(h)
	}
	f.cursor = contentTop + L.H + L.PB + L.BB
	f.m = mset{}
	f.m.add(L.MB)
}

func hasInFlow(b *Node) bool {
	for _, k := range b.Kids {
		if k.Kind == "" || (k.Kind == "text" && k.Lines > 0) {
			return true
		}
	}
	return false
}
