package c10

import (
	"strings"

	"verif/internal/fw"
)

// countEvidence records which clauses of the property the compared box exercised (from the model's
// point of view), so that floors can detect a generator that stopped producing them.
func countEvidence(res *fw.Result, L *Lay, verticalCompared bool) {
	n := L.Node
	// feature combinations that used to trigger a (now fixed, or still open) defect: counted so that
	// the floors notice if the re-opened sub-domains stop being generated
	for _, t := range L.Triggers {
		res.Count("domain_"+t, 1)
	}
	if L.AutoWidth && L.ClampedW == 0 {
		res.Count("h_auto_width", 1)
	}
	if !L.AutoWidth || L.ClampedW != 0 {
		switch {
		case L.OverConstrained:
			res.Count("h_over_constrained", 1)
		case L.AutoMargins == 2 && L.ML == L.MR && L.ML != 0:
			res.Count("h_centred", 1)
		case L.AutoMargins == 1:
			res.Count("h_one_auto_margin", 1)
		}
		if L.AutoMargins > 0 && L.OverConstrained {
			res.Count("h_auto_margin_zeroed", 1)
		}
	}
	switch L.ClampedW {
	case 'M':
		res.Count("h_max_width_applied", 1)
	case 'm':
		res.Count("h_min_width_applied", 1)
	}
	if n.BorderBox && (n.W != "" && n.W != "auto" || n.MinW != "" || n.MaxW != "") {
		res.Count("h_border_box", 1)
	}
	for _, s := range []string{n.ML, n.MR, n.PL, n.PR, n.W, n.MinW, n.MaxW, n.MT, n.MB, n.PT, n.PB} {
		if strings.HasSuffix(s, "%") {
			res.Count("h_percent_resolved", 1)
			break
		}
	}
	if !verticalCompared {
		return
	}
	if L.CollapsedThru {
		res.Count("v_collapsed_through", 1)
		if L.YFromParent {
			res.Count("v_collapsed_through_with_parent_top", 1)
		}
	}
	if n.BFC != "" {
		res.Count("v_bfc_root", 1)
	}
	if strings.HasSuffix(n.H, "%") {
		if L.AutoHeight {
			res.Count("v_percent_height_auto", 1)
		} else {
			res.Count("v_percent_height_resolved", 1)
		}
	}
	if (n.MinH != "" || n.MaxH != "") && L.minMaxApplied {
		res.Count("v_min_max_height_applied", 1)
	}
	hasBlockKid := false
	for _, k := range n.Kids {
		if k.Kind == "" {
			hasBlockKid = true
		}
	}
	if L.AutoHeight && hasBlockKid && !L.CollapsedThru {
		res.Count("v_auto_height_with_kids", 1)
	}
	if L.firstChildCollapse {
		res.Count("v_parent_first_child", 1)
	}
	if L.lastChildCollapse {
		res.Count("v_parent_last_child", 1)
	}
	if L.siblingCollapse {
		res.Count("v_sibling_collapse", 1)
	}
	if L.negCollapse {
		res.Count("v_neg_margin_collapse", 1)
	}
}

func countTree(res *fw.Result, n *Node) {
	for _, k := range n.Kids {
		switch k.Kind {
		case "text":
			res.Count("v_text_runs", 1)
		case "abs":
			res.Count("v_abs_noise", 1)
		default:
			countTree(res, k)
		}
	}
}
