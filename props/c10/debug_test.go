package c10

import (
	"encoding/json"
	"fmt"
	"math/rand"
	"os"
	"strconv"
	"testing"

	bo "github.com/benoitkugler/webrender/html/boxes"

	"verif/internal/fw"
	"verif/internal/wr"
)

// Development helper (not part of the check): shrink a failing case.
//
//	C10_CASE=<index> [VERIF_SEED=n] [C10_TIER=quick] go test -tags "verif pC10" ./props/c10 -run TestShrink -v
//	C10_FILE=<json input or witness> go test ...
func clone(in *In) *In {
	b, _ := json.Marshal(in)
	var c In
	json.Unmarshal(b, &c)
	return &c
}

func runIn(in *In) fw.Result {
	in.HTML = PrintHTML(in)
	b, _ := json.Marshal(in)
	return fw.SafeCheck(fw.Get("C10"), b)
}

func allNodes(n *Node, out *[]*Node) {
	*out = append(*out, n)
	for _, k := range n.Kids {
		allNodes(k, out)
	}
}

func TestShrink(t *testing.T) {
	var in *In
	if f := os.Getenv("C10_FILE"); f != "" {
		b, err := os.ReadFile(f)
		if err != nil {
			t.Fatal(err)
		}
		var w fw.Witness
		if json.Unmarshal(b, &w) == nil && len(w.Input) > 0 {
			b = w.Input
		}
		in = &In{}
		if err := json.Unmarshal(b, in); err != nil {
			t.Fatal(err)
		}
	} else {
		i, _ := strconv.Atoi(os.Getenv("C10_CASE"))
		seed := int64(1)
		if v, err := strconv.ParseInt(os.Getenv("VERIF_SEED"), 10, 64); err == nil {
			seed = v
		}
		tier := os.Getenv("C10_TIER")
		if tier == "" {
			tier = "quick"
		}
		var r *rand.Rand = fw.CaseRNG(seed, "C10", i)
		in = fw.Get("C10").Gen(r, i, tier).(*In)
	}
	if os.Getenv("C10_STRICT") != "" {
		in.StrictOC = true
	}
	res := runIn(in)
	wantReport := os.Getenv("C10_REPORT")
	hasTrigger := func(x *In) bool {
		m := RunModel(x.Root, x.PageM[3], x.PageM[0], x.PageW-x.PageM[1]-x.PageM[3], x.PageH-x.PageM[0]-x.PageM[2])
		for _, L := range m.Lays {
			if L.openTrigger() != "" || L.Ambiguous != "" {
				return true
			}
		}
		return false
	}
	origTrigger := hasTrigger(in)
	var cur *In
	failing := func(r fw.Result) bool {
		if !origTrigger && cur != nil && hasTrigger(cur) {
			return false
		}
		if wantReport != "" {
			for _, s := range r.Reports {
				if s == wantReport {
					return true
				}
			}
			return false
		}
		return r.Verdict == fw.Violation && r.Sig == res.Sig
	}
	if !failing(res) {
		fmt.Println("case does not fail:", res.Verdict, res.Reports)
		return
	}
	for changed := true; changed; {
		changed = false
		// remove / hoist nodes
		var nodes []*Node
		allNodes(in.Root, &nodes)
		for ni := range nodes {
			for ki := 0; ki < len(nodes[ni].Kids); ki++ {
				for _, hoist := range []bool{false, true} {
					c := clone(in)
					var cn []*Node
					allNodes(c.Root, &cn)
					p := cn[ni]
					if p.ID == "html" && ki == 0 {
						continue
					}
					k := p.Kids[ki]
					var repl []*Node
					if hoist {
						if len(k.Kids) == 0 {
							continue
						}
						repl = k.Kids
						if p.LineH == 0 {
							p.LineH = k.LineH
						}
					}
					p.Kids = append(append(append([]*Node{}, p.Kids[:ki]...), repl...), p.Kids[ki+1:]...)
					if cur = c; failing(runIn(c)) {
						in = c
						changed = true
						goto next
					}
				}
			}
		}
		// clear properties
		nodes = nodes[:0]
		allNodes(in.Root, &nodes)
		for ni := range nodes {
			for pi := 0; pi < 24; pi++ {
				c := clone(in)
				var cn []*Node
				allNodes(c.Root, &cn)
				n := cn[ni]
				strs := []*string{&n.ML, &n.MR, &n.MT, &n.MB, &n.PL, &n.PR, &n.PT, &n.PB, &n.W, &n.H, &n.MinW, &n.MaxW, &n.MinH, &n.MaxH, &n.BFC}
				fl := []*float64{&n.BL, &n.BR, &n.BT, &n.BB}
				switch {
				case pi < len(strs):
					if *strs[pi] == "" {
						continue
					}
					*strs[pi] = ""
				case pi < len(strs)+len(fl):
					if *fl[pi-len(strs)] == 0 {
						continue
					}
					*fl[pi-len(strs)] = 0
				case pi == 19:
					if !n.BorderBox {
						continue
					}
					n.BorderBox = false
				case pi == 20:
					if n.Kind != "text" || n.Lines <= 1 {
						continue
					}
					n.Lines = 1
				case pi == 21:
					if c.PageM == [4]float64{} {
						continue
					}
					c.PageM = [4]float64{}
				default:
					continue
				}
				if cur = c; failing(runIn(c)) {
					in = c
					changed = true
					goto next
				}
			}
		}
	next:
	}
	res = runIn(in)
	fmt.Printf("MINIMAL sig=%q\n%s\nreports=%v\n", res.Sig, res.Msg, res.Reports)
	b, _ := json.Marshal(in)
	fmt.Printf("input=%s\n", b)
}

// TestDump renders C10_HTML (body content + optional styles) and prints every block box.
func TestDump(t *testing.T) {
	h := os.Getenv("C10_HTML")
	if h == "" {
		return
	}
	full := `<!DOCTYPE html><html id="html" style="margin:0"><head><style>@page{size:1000px 30000px;margin:0}html{font:10px/20px Ahem}body{margin:0}</style></head>` + h + `</html>`
	dumpHTML(full)
}

func dumpHTML(full string) {
	fontsOnce.Do(func() { fonts, fontsErr = wr.NewPangoConfig() })
	rd, err := wr.Render(wr.Opts{HTML: full, NoWrite: true, Fonts: fonts})
	if err != nil {
		fmt.Println(err)
		return
	}
	for pi, p := range rd.Pages {
		fmt.Println("page", pi)
		var walk func(b bo.Box, d int)
		walk = func(b bo.Box, d int) {
			f := b.Box()
			fmt.Printf("%*s%T %s  borderbox y=%v h=%v | x=%v w=%v | posY=%v mt=%v mb=%v ml=%v mr=%v height=%v\n", 2*d, "", b, boxName(f), f.BorderBoxY(), f.BorderHeight(), f.BorderBoxX(), f.BorderWidth(), f.PositionY, f.MarginTop, f.MarginBottom, f.MarginLeft, f.MarginRight, f.Height)
			if _, ok := b.(*bo.BlockBox); ok {
				for _, c := range f.Children {
					walk(c, d+1)
				}
			}
		}
		for _, c := range p.Box().Children {
			walk(c, 1)
		}
	}
}

// TestWriteFindings (development only, C10_WRITE_FINDINGS=1) rebuilds the witness files of the
// genuine defects described in notes/C10.md and checks that each still fails.
func TestWriteFindings(t *testing.T) {
	if os.Getenv("C10_WRITE_FINDINGS") == "" {
		return
	}
	mk := func(strict bool, bodyKids ...*Node) *In {
		in := &In{Mode: "tree", PageW: 1000, PageH: pageHeight, StrictOC: strict}
		in.Root = &Node{ID: "html", Kids: []*Node{{ID: "body", Kids: bodyKids}}}
		in.HTML = PrintHTML(in)
		return in
	}
	cases := []struct {
		name string
		in   *In
	}{
		{"overconstrained-margin-right", mk(true, &Node{ID: "a", W: "100px", ML: "10px", MR: "20px", H: "10px"})},
		{"collapsed-through-children-double-count", mk(false, &Node{ID: "a", Kids: []*Node{{ID: "e", MT: "40px"}}}, &Node{ID: "b", H: "10px"})},
		{"collapsed-through-first-child-parent-top", mk(false, &Node{ID: "p", Kids: []*Node{{ID: "e", MB: "50px"}, {ID: "c", BT: 3}}})},
		{"empty-bfc-root-collapses-through", mk(false, &Node{ID: "a", BFC: "hidden", MT: "40px", MB: "20px"}, &Node{ID: "b", H: "10px"})},
		{"collapsed-through-negative-margin-height", mk(false, &Node{ID: "p", BT: 1, Kids: []*Node{{ID: "e", MT: "-30px"}}})},
		{"percent-height-clamped-parent", mk(false, &Node{ID: "p", H: "200px", MaxH: "100px", Kids: []*Node{{ID: "c", H: "50%"}}})},
	}
	os.MkdirAll("../../findings/C10", 0o755)
	for _, c := range cases {
		raw, _ := json.Marshal(c.in)
		res := fw.SafeCheck(fw.Get("C10"), raw)
		fmt.Printf("%s: %s sig=%q\n   %s\n", c.name, res.Verdict, res.Sig, res.Msg)
		if res.Verdict != fw.Violation {
			t.Errorf("%s does not fail", c.name)
			continue
		}
		w := fw.Witness{Property: "C10", Sig: res.Sig, Msg: res.Msg, Input: raw}
		b, _ := json.MarshalIndent(w, "", " ")
		os.WriteFile("../../findings/C10/"+c.name+".json", b, 0o644)
	}
}

// TestOpenRate (development): share of thorough open-bucket cases that carry an open point.
func TestOpenRate(t *testing.T) {
	if os.Getenv("C10_OPEN_RATE") == "" {
		return
	}
	n, amb := 0, 0
	for i := sweepDocs() + 7; i < sweepDocs()+16000; i += 8 {
		in := fw.Get("C10").Gen(fw.CaseRNG(1, "C10", i), i, "thorough").(*In)
		n++
		for _, L := range modelOf(in).Lays {
			if L.Ambiguous != "" {
				amb++
				break
			}
		}
		if !in.ReportOnly {
			t.Fatal("open bucket case is not report-only")
		}
	}
	fmt.Println("open bucket cases", n, "with open point", amb)
}
