package c10

import (
	"fmt"
	"math/rand"
	"strconv"
	"strings"
)

// In is one self-contained case: the HTML text that is rendered and the tree it was printed from.
type In struct {
	Mode  string  `json:"mode"` // "tree" | "sweep"
	PageW float64 `json:"page_w"`
	PageH float64 `json:"page_h"`
	// page margins: top right bottom left
	PageM [4]float64 `json:"page_m"`
	Root  *Node      `json:"root"` // the html element; its first block kid is body
	HTML  string     `json:"html"`
	// StrictOC makes "used margin-right of an over-constrained box" a verdict instead of a report
	// (see notes/C10.md, finding overconstrained-margin-right).
	StrictOC bool `json:"strict_oc,omitempty"`
	// ReportOnly: every disagreement of this case is report-only (thorough tier's open-points bucket).
	ReportOnly bool `json:"report_only,omitempty"`
}

const pageHeight = 30000

func px(f float64) string {
	if f == 0 {
		return "0"
	}
	return strconv.FormatFloat(f, 'f', -1, 64) + "px"
}

func pc(f float64) string { return strconv.FormatFloat(f, 'f', -1, 64) + "%" }

// ---------------------------------------------------------------------------------------------
// HTML printer

func styleOf(n *Node, tag string) string {
	var sb strings.Builder
	add := func(k, v string) {
		if v != "" {
			sb.WriteString(k)
			sb.WriteByte(':')
			sb.WriteString(v)
			sb.WriteByte(';')
		}
	}
	if tag == "body" || tag == "html" {
		// neutralise the user-agent sheet (body{margin:8px}) whatever the case specifies
		if n.MT == "" {
			add("margin-top", "0")
		}
		if n.MB == "" {
			add("margin-bottom", "0")
		}
		if n.ML == "" {
			add("margin-left", "0")
		}
		if n.MR == "" {
			add("margin-right", "0")
		}
	}
	add("margin-top", n.MT)
	add("margin-right", n.MR)
	add("margin-bottom", n.MB)
	add("margin-left", n.ML)
	add("padding-top", n.PT)
	add("padding-right", n.PR)
	add("padding-bottom", n.PB)
	add("padding-left", n.PL)
	if n.BT != 0 || n.BR != 0 || n.BB != 0 || n.BL != 0 {
		add("border-style", "solid")
		add("border-width", px(n.BT)+" "+px(n.BR)+" "+px(n.BB)+" "+px(n.BL))
	}
	add("width", n.W)
	add("height", n.H)
	add("min-width", n.MinW)
	add("max-width", n.MaxW)
	add("min-height", n.MinH)
	add("max-height", n.MaxH)
	if n.BorderBox {
		add("box-sizing", "border-box")
	}
	switch n.BFC {
	case "hidden":
		add("overflow", "hidden")
	case "flow-root":
		add("display", "flow-root")
	}
	if n.Kind == "abs" {
		add("position", "absolute")
	}
	if n.LineH != 0 {
		add("line-height", px(n.LineH))
	}
	return sb.String()
}

func printNode(sb *strings.Builder, n *Node, tag string) {
	if n.Kind == "text" {
		for i := 0; i < n.Lines; i++ {
			if i > 0 {
				sb.WriteString("<br>")
			}
			sb.WriteString("x")
		}
		return
	}
	sb.WriteString("<" + tag)
	if n.ID != "" {
		sb.WriteString(` id="` + n.ID + `"`)
	}
	if st := styleOf(n, tag); st != "" {
		sb.WriteString(` style="` + st + `"`)
	}
	sb.WriteString(">")
	for i, k := range n.Kids {
		t := "div"
		if tag == "html" && i == 0 && k.Kind == "" {
			t = "body"
		}
		printNode(sb, k, t)
	}
	sb.WriteString("</" + tag + ">")
}

// PrintHTML renders the case as an HTML document.
func PrintHTML(in *In) string {
	var sb strings.Builder
	sb.WriteString("<!DOCTYPE html>")
	var doc strings.Builder
	printNode(&doc, in.Root, "html")
	s := doc.String()
	// insert <head><style> right after the <html ...> start tag
	k := strings.Index(s, ">") + 1
	head := fmt.Sprintf("<head><style>@page{size:%s %s;margin:%s %s %s %s}html{font:10px/20px Ahem}</style></head>",
		px(in.PageW), px(in.PageH), px(in.PageM[0]), px(in.PageM[1]), px(in.PageM[2]), px(in.PageM[3]))
	sb.WriteString(s[:k] + head + s[k:])
	return sb.String()
}

// ---------------------------------------------------------------------------------------------
// random trees

type genOpts struct {
	negMargins bool // allow negative margins
	minmaxH    bool // allow min-/max-height
	minmaxW    bool
	bfc        bool
	text       bool
	abs        bool
	pctH       bool
	open       bool // allow the combinations CSS 2.1 leaves open (report-only bucket)
}

func pick(r *rand.Rand, xs ...string) string { return xs[r.Intn(len(xs))] }

func genMarginH(r *rand.Rand, o genOpts) string {
	switch r.Intn(10) {
	case 0, 1, 2:
		return ""
	case 3, 4:
		return "auto"
	case 5:
		return pick(r, "10%", "25%", "5%", "50%")
	case 6:
		if o.negMargins {
			return pick(r, "-5px", "-20px", "-37.5px", "-10%", "-150px")
		}
		return "0"
	case 7:
		return pick(r, "300px", "500px", "1000px")
	}
	return pick(r, "0", "5px", "10px", "20px", "37.5px", "100px")
}

func genMarginV(r *rand.Rand, o genOpts) string {
	switch r.Intn(10) {
	case 0, 1:
		return ""
	case 2:
		return "auto"
	case 3:
		return pick(r, "10%", "5%", "2.5%")
	case 4, 5:
		if o.negMargins {
			return pick(r, "-5px", "-10px", "-30px", "-12.5px", "-5%", "-100px")
		}
		return "0"
	}
	return pick(r, "0", "5px", "10px", "20px", "15px", "37.5px", "50px", "100px")
}

func genPadding(r *rand.Rand) string {
	switch r.Intn(10) {
	case 0:
		return pick(r, "10%", "5%", "2.5%")
	case 1, 2:
		return pick(r, "0", "5px", "10px", "12.5px", "40px")
	}
	return ""
}

func genBorder(r *rand.Rand) float64 {
	switch r.Intn(10) {
	case 0, 1:
		return []float64{1, 3, 8, 0.5}[r.Intn(4)]
	}
	return 0
}

func genWidth(r *rand.Rand) string {
	switch r.Intn(10) {
	case 0, 1, 2, 3:
		return ""
	case 4:
		return "auto"
	case 5, 6:
		return pick(r, "0", "50px", "100px", "200px", "300.5px", "1000px")
	}
	return pick(r, "50%", "100%", "25%", "120%", "10%")
}

func genHeight(r *rand.Rand, o genOpts) string {
	switch r.Intn(10) {
	case 0, 1, 2, 3, 4:
		return ""
	case 5:
		return "auto"
	case 6, 7:
		return pick(r, "0", "30px", "100px", "12.5px", "300px")
	}
	if o.pctH {
		return pick(r, "50%", "100%", "25%", "10%")
	}
	return pick(r, "0", "40px")
}

type treeGen struct {
	r      *rand.Rand
	o      genOpts
	budget int // remaining block elements
	nextID int
}

func (g *treeGen) id() string {
	g.nextID++
	return "b" + strconv.Itoa(g.nextID)
}

// box fills the box properties of one element.
func (g *treeGen) props(n *Node) {
	r, o := g.r, g.o
	n.ML, n.MR = genMarginH(r, o), genMarginH(r, o)
	n.MT, n.MB = genMarginV(r, o), genMarginV(r, o)
	n.PL, n.PR, n.PT, n.PB = genPadding(r), genPadding(r), genPadding(r), genPadding(r)
	n.BL, n.BR, n.BT, n.BB = genBorder(r), genBorder(r), genBorder(r), genBorder(r)
	n.W = genWidth(r)
	n.H = genHeight(r, o)
	if r.Intn(10) == 0 {
		// centring: both margins auto around a definite width
		n.ML, n.MR = "auto", "auto"
		n.W = pick(r, "50px", "100px", "37.5px", "50%", "25%", "300.5px")
	}
	if o.minmaxW {
		if r.Intn(6) == 0 {
			n.MinW = pick(r, "0", "50px", "150px", "75%", "400px", "10%")
		}
		if r.Intn(6) == 0 {
			n.MaxW = pick(r, "none", "80px", "200px", "25%", "90%", "0")
		}
	}
	if o.minmaxH {
		if r.Intn(7) == 0 {
			n.MinH = pick(r, "0", "25px", "60px", "150px", "50%")
		}
		if r.Intn(7) == 0 {
			n.MaxH = pick(r, "none", "20px", "45px", "120px", "50%", "0")
		}
	}
	if r.Intn(6) == 0 {
		n.BorderBox = true
	}
	if o.bfc && r.Intn(8) == 0 {
		n.BFC = pick(r, "hidden", "flow-root")
	}
}

func (g *treeGen) kids(n *Node, depth int) {
	r := g.r
	if depth >= 5 {
		g.leaf(n)
		return
	}
	nk := 0
	switch r.Intn(6) {
	case 0:
		nk = 0
	case 1, 2:
		nk = 1
	case 3, 4:
		nk = 2
	case 5:
		nk = 3 + r.Intn(2)
	}
	if nk == 0 || g.budget == 0 {
		g.leaf(n)
		return
	}
	for i := 0; i < nk && g.budget > 0; i++ {
		if g.o.text && r.Intn(9) == 0 {
			n.Kids = append(n.Kids, &Node{Kind: "text", Lines: 1 + r.Intn(2)})
			g.lineH(n)
		}
		if g.o.abs && r.Intn(12) == 0 {
			n.Kids = append(n.Kids, &Node{Kind: "abs", ID: g.id(), H: pick(r, "30px", "100px", ""), W: pick(r, "40px", ""), MT: pick(r, "", "20px", "-10px"), MB: pick(r, "", "50px")})
		}
		g.budget--
		k := &Node{ID: g.id()}
		g.props(k)
		n.Kids = append(n.Kids, k)
		g.kids(k, depth+1)
	}
	if g.o.text && r.Intn(9) == 0 {
		n.Kids = append(n.Kids, &Node{Kind: "text", Lines: 1 + r.Intn(2)})
		g.lineH(n)
	}
	if g.o.abs && r.Intn(10) == 0 {
		n.Kids = append(n.Kids, &Node{Kind: "abs", ID: g.id(), H: pick(r, "30px", "100px"), W: "40px", MT: pick(r, "", "20px"), MB: pick(r, "", "50px")})
	}
}

func (g *treeGen) lineH(n *Node) {
	if n.LineH == 0 {
		n.LineH = []float64{10, 16, 20, 25.5, 40}[g.r.Intn(5)]
	}
}

func (g *treeGen) leaf(n *Node) {
	if g.o.abs && g.r.Intn(6) == 0 {
		// an element whose only child (or only child besides a text run) is out of flow
		n.Kids = append(n.Kids, &Node{Kind: "abs", ID: g.id(), H: pick(g.r, "30px", "100px"), W: "40px", MT: pick(g.r, "", "20px"), MB: pick(g.r, "", "50px")})
		if g.r.Intn(2) == 0 {
			return
		}
	}
	if g.o.text && g.r.Intn(2) == 0 {
		n.Kids = append(n.Kids, &Node{Kind: "text", Lines: 1 + g.r.Intn(3)/2})
		g.lineH(n)
	}
}

func modelOf(in *In) *Model {
	return RunModel(in.Root, in.PageM[3], in.PageM[0], in.PageW-in.PageM[1]-in.PageM[3], in.PageH-in.PageM[0]-in.PageM[2])
}

// flagged returns the first box of the tree that exercises a known-defect trigger of the unchanged
// tree, or (unless open) a point the CSS 2.1 text leaves open.
func flagged(in *In, open bool) *Lay {
	for _, L := range modelOf(in).Lays {
		if L.openTrigger() != "" || (!open && L.Ambiguous != "") {
			return L
		}
	}
	return nil
}

// openTrigger returns the first trigger of the box whose defect is still open.
func (L *Lay) openTrigger() string {
	for _, t := range L.Triggers {
		if openDefects[t] {
			return t
		}
	}
	return ""
}

// repair changes the flagged box (or its parent) minimally so that the flagged feature combination
// disappears while the rest of the tree is kept.
func repair(r *rand.Rand, L *Lay) {
	n := L.Node
	addText := func() {
		n.Kids = append([]*Node{{Kind: "text", Lines: 1}}, n.Kids...)
	}
	trig := L.openTrigger()
	switch {
	case trig == "collapsed-through-into-parent-top":
		switch r.Intn(5) {
		case 0:
			L.parent.Node.PT = "5px"
		case 1:
			L.parent.Node.BT = 1
		case 2:
			addText()
		case 3:
			n.H = "30px"
		case 4:
			n.BB = 3
		}
	case trig == "empty-bfc-root-box":
		switch r.Intn(4) {
		case 0:
			addText()
		case 1:
			n.H = "30px"
		case 2:
			n.PT = "5px"
		case 3:
			n.BFC = ""
		}
	case trig == "collapsed-through-negative-margin":
		switch r.Intn(3) {
		case 0:
			addText()
		case 1:
			n.H = "12.5px"
		case 2:
			n.BB = 1
		}
	case trig == "percent-height-against-clamped-height":
		n.MinH, n.MaxH = "", ""
	case strings.HasPrefix(L.Ambiguous, "percentage min-height"):
		n.MinH = ""
	case L.Ambiguous != "":
		// min-/max-height on an auto-height box whose bottom margin adjoins its last child's
		switch r.Intn(5) {
		case 0:
			n.BB = 1
		case 1:
			n.PB = "5px"
		case 2:
			n.BFC = "flow-root"
		case 3:
			n.H = "100px"
		case 4:
			n.MinH, n.MaxH = "", ""
		}
	}
}

// genTree draws a tree and repairs it until it contains no known-defect trigger and (unless
// o.open) no open point; a tree that cannot be repaired is drawn again.
func genTree(r *rand.Rand, o genOpts) *In {
	var in *In
	for try := 0; try < 100; try++ {
		in = genTree1(r, o)
		for it := 0; it < 60; it++ {
			L := flagged(in, o.open)
			if L == nil {
				break
			}
			repair(r, L)
		}
		if flagged(in, o.open) == nil {
			break
		}
	}
	in.ReportOnly = o.open
	in.HTML = PrintHTML(in)
	return in
}

func genTree1(r *rand.Rand, o genOpts) *In {
	in := &In{Mode: "tree", PageH: pageHeight}
	in.PageW = []float64{400, 500, 640, 800, 1000}[r.Intn(5)]
	if r.Intn(3) == 0 {
		in.PageM = [4]float64{float64(r.Intn(4)) * 12.5, float64(r.Intn(4)) * 10, float64(r.Intn(3)) * 20, float64(r.Intn(5)) * 7.5}
	}
	g := &treeGen{r: r, o: o, budget: 1 + r.Intn(12)}
	root := &Node{ID: "html"}
	body := &Node{ID: "body"}
	// root and body get box properties too, less often
	if r.Intn(3) == 0 {
		g.props(root)
		// keep the root inside the page: no percentage / large heights on the root element
		if strings.HasSuffix(root.H, "%") {
			root.H = pick(r, "2%", "1%")
		}
		if strings.HasSuffix(root.MinH, "%") {
			root.MinH = "1%"
		}
		if strings.HasSuffix(root.MaxH, "%") {
			root.MaxH = "2%"
		}
		root.BFC = ""
	}
	if r.Intn(2) == 0 {
		g.props(body)
		if body.BFC == "hidden" {
			// overflow on body propagates to the viewport (CSS 2.1 §11.1.1): body would not be a BFC root
			body.BFC = "flow-root"
		}
	}
	root.Kids = []*Node{body}
	g.kids(body, 1)
	in.Root = root
	in.HTML = PrintHTML(in)
	return in
}

// ---------------------------------------------------------------------------------------------
// exhaustive sweep of the width equation: every combination of the value classes below for one box;
// one document carries all (margin-left, margin-right) pairs as siblings of a fixed parent.

var (
	sweepML   = []string{"auto", "", "30px", "-20px", "10%", "500px"}
	sweepMR   = []string{"auto", "", "40px", "-10px", "5%", "450px"}
	sweepW    = []string{"", "100px", "50%", "700px"}
	sweepPad  = []string{"", "10px", "5%"} // padding-left; padding-right is fixed per class
	sweepBor  = []float64{0, 4}
	sweepMinW = []string{"", "150px", "75%"}
	sweepMaxW = []string{"", "80px", "25%"}
	sweepBox  = []bool{false, true}
)

func sweepDocs() int {
	return len(sweepW) * len(sweepPad) * len(sweepBor) * len(sweepMinW) * len(sweepMaxW) * len(sweepBox)
}

func sweepBoxesPerDoc() int { return len(sweepML) * len(sweepMR) }

func genSweep(i int) *In {
	pickS := func(xs []string) string { v := xs[i%len(xs)]; i /= len(xs); return v }
	w := pickS(sweepW)
	pad := pickS(sweepPad)
	bor := sweepBor[i%len(sweepBor)]
	i /= len(sweepBor)
	minw := pickS(sweepMinW)
	maxw := pickS(sweepMaxW)
	bb := sweepBox[i%len(sweepBox)]
	in := &In{Mode: "sweep", PageW: 640, PageH: pageHeight, PageM: [4]float64{0, 20, 0, 20}}
	root := &Node{ID: "html"}
	body := &Node{ID: "body", PL: "50px", PR: "50px", BL: 5} // containing block width 640-40-100-5 = 495
	root.Kids = []*Node{body}
	n := 0
	for _, ml := range sweepML {
		for _, mr := range sweepMR {
			n++
			k := &Node{ID: "s" + strconv.Itoa(n), ML: ml, MR: mr, W: w, PL: pad, MinW: minw, MaxW: maxw, BorderBox: bb, BL: bor, BR: bor / 2, H: "10px", MB: "5px"}
			if pad != "" {
				k.PR = "2.5px"
			}
			body.Kids = append(body.Kids, k)
		}
	}
	in.Root = root
	in.HTML = PrintHTML(in)
	return in
}
