// Package c10 is the runtime-monitoring check of property C10: block-level boxes are sized and
// stacked per CSS 2.1 (§8.3.1, §10.3.3, §10.4, §10.5–10.7).
//
// Every case is a generated tree of block elements printed as HTML; the real layout
// (layout.Layout through wr.Render) is observed on the laid-out page tree and compared with
// (A) reference-free invariants on every block box of the page and (B) the independent float64
// model of model.go evaluated on the generator's tree.
package c10

import (
	"encoding/json"
	"fmt"
	"math"
	"math/rand"
	"os"
	"sort"
	"strings"
	"sync"

	pr "github.com/benoitkugler/webrender/css/properties"
	bo "github.com/benoitkugler/webrender/html/boxes"
	"github.com/benoitkugler/webrender/text"

	"verif/internal/fw"
	"verif/internal/wr"
)

// openDefects lists the genuine defects of the unchanged tree found by this check (witnesses in
// findings/C10/<name>.json, description in notes/C10.md).  While a defect is listed, the feature
// combination that triggers it is kept out of the generated workload (the model flags it, see
// Lay.Trigger, and the generator repairs the tree); the comparison itself is never relaxed, so the
// witness keeps failing on replay.  When a defect is fixed in /repo, delete its line: the
// combination is generated again and checked like everything else.
//
// "overconstrained-margin-right" is special: over-constrained boxes are far too common to be left
// out, so they are generated and everything about them is a verdict except the used margin-right
// (and hence the literal seven-term sum), which is counted and reported while the defect is open.
var openDefects = map[string]bool{
	"overconstrained-margin-right":      true, // §10.3.3: used margin-right not recomputed (ltr)
	"collapsed-through-into-parent-top": true, // §8.3.1: margins of a collapsed-through first child vs the parent's top margin
}

func init() {
	// development aid: C10_DEV_FIXED=name,name treats these defects as fixed (used to validate a
	// proposed patch on a scratch copy of the repository)
	for _, n := range strings.Split(os.Getenv("C10_DEV_FIXED"), ",") {
		if n != "" {
			delete(openDefects, n)
		}
	}
}

func strictOverConstrained() bool { return !openDefects["overconstrained-margin-right"] }

func nCases(tier string) int {
	if tier == "thorough" {
		return sweepDocs() + 300000
	}
	return sweepDocs() + 20000
}

func init() {
	fw.Register(&fw.Prop{
		ID: "C10",
		Rule: "cases: (1) exhaustive sweep of the width equation — every combination of 6 margin-left x 6 margin-right x 4 width x 3 padding x 2 border x 3 min-width x 3 max-width x 2 box-sizing value classes, 36 sibling boxes per document (432 documents, 15 552 boxes); " +
			"(2) random trees of 1–12 block elements (depth <= 5) below html/body with margins (auto, lengths, negative, %), paddings, borders, width/height (auto, px, %), min/max-width/height, box-sizing, overflow:hidden / display:flow-root, text runs of 1–2 Ahem lines (leaf content or anonymous blocks between block children), absolutely positioned noise children, on one page taller than any content; trees are repaired before use so that they contain neither a known-defect trigger (coverage key open_defects) nor, outside the thorough tier's report-only bucket (every 8th case), a point CSS 2.1 leaves open. " +
			"Every in-flow block box of the page is checked against the reference-free invariants; every generated element's box is compared with the model (7 horizontal values + border-box x, 6 vertical values, height, border-box y, line boxes of its text runs). " +
			"A case is non-trivial when the layout produced exactly one page, every generated element was found as a block box and compared, and at least 3 elements were compared; distinct = distinct input.",
		N: nCases,
		Gen: func(r *rand.Rand, i int, tier string) any {
			if i < sweepDocs() {
				in := genSweep(i)
				in.StrictOC = strictOverConstrained()
				return in
			}
			i -= sweepDocs()
			o := genOpts{negMargins: true, minmaxW: true, minmaxH: true, bfc: true, text: true, abs: true, pctH: true}
			if tier == "thorough" && i%8 == 7 {
				o.open = true // open-points bucket: report-only
			}
			switch i % 8 {
			case 0: // plain: positive margins only (enables the ordering invariant)
				o = genOpts{text: true}
			case 1:
				o = genOpts{negMargins: true, text: true}
			case 2:
				o = genOpts{negMargins: true, minmaxW: true, pctH: true, text: true}
			}
			in := genTree(r, o)
			in.StrictOC = strictOverConstrained()
			return in
		},
		Check: check,
		Floor: func(tier string) int {
			if tier == "thorough" {
				return 200000
			}
			return 14000
		},
		CounterFloors: func(tier string) map[string]int64 {
			k := int64(1)
			if tier == "thorough" {
				k = 10
			}
			fl := map[string]int64{}
			if tier == "thorough" {
				fl["open_point_cases_compared"] = 3000
			}
			for name, v := range map[string]int64{
				"boxes_compared":            60000 * k,
				"inv_boxes":                 60000 * k,
				"inv_sibling_pairs":         2500 * k,
				"lines_compared":            20000 * k,
				"h_auto_width":              25000 * k,
				"h_one_auto_margin":         5000 * k,
				"h_centred":                 2000 * k,
				"h_over_constrained":        30000 * k,
				"h_auto_margin_zeroed":      5000 * k,
				"h_max_width_applied":       3000 * k,
				"h_min_width_applied":       10000 * k,
				"h_border_box":              7000 * k,
				"h_percent_resolved":        40000 * k,
				"v_sibling_collapse":        4000 * k,
				"v_neg_margin_collapse":     4000 * k,
				"v_parent_first_child":      4000 * k,
				"v_parent_last_child":       2500 * k,
				"v_collapsed_through":       1500 * k,
				"v_auto_height_with_kids":   25000 * k,
				"v_percent_height_resolved": 1500 * k,
				"v_percent_height_auto":     4000 * k,
				"v_bfc_root":                3000 * k,
				"v_text_runs":               15000 * k,
				"v_abs_noise":               3000 * k,
				"v_min_max_height_applied":  2000 * k,
				// sub-domains re-opened after the fixes bb45a49, d9a28ed, 89d6135
				"domain_empty-bfc-root-box":                    200 * k,
				"domain_collapsed-through-negative-margin":     700 * k,
				"domain_percent-height-against-clamped-height": 120 * k,
			} {
				fl[name] = v
			}
			return fl
		},
		Assumptions: []string{
			"left-to-right documents only; no floats, clearance, tables, relative positioning, fragmentation (one page taller than the content)",
			"the reference model is the reading of CSS 2.1 §8.3.1/§10.3.3/§10.4/§10.5–10.7 and CSS UI 3 box-sizing written in props/c10/model.go",
			"line boxes are made of Ahem glyphs with an explicit px line-height, so a line is exactly line-height tall",
			"points that CSS 2.1 leaves open (min-/max-height interacting with margin collapsing, percentage heights against a clamped height) are detected by the model and are report-only",
			"geometry is compared with tolerance 0.02 + 1e-4*max(|a|,|b|) px (float32 layout)",
		},
		Batch: 100,
		Extra: func(run *fw.RunInfo, cov map[string]any) {
			var od []string
			for k := range openDefects {
				od = append(od, k)
			}
			sort.Strings(od)
			cov["open_defects"] = od
			cov["width_equation_sweep"] = map[string]any{"exhaustive_over_value_classes": true, "documents": sweepDocs(), "boxes_per_document": sweepBoxesPerDoc()}
			cov["strict_over_constrained_margin_right"] = strictOverConstrained()
		},
	})
}

var (
	fontsOnce sync.Once
	fonts     text.FontConfiguration
	fontsErr  error
)

func close2(a, b float64) bool {
	return math.Abs(a-b) <= 0.02+1e-4*math.Max(math.Abs(a), math.Abs(b))
}

type found struct {
	box    *bo.BoxFields
	parent *bo.BoxFields
}

func check(raw json.RawMessage) fw.Result {
	var res fw.Result
	var in In
	if err := json.Unmarshal(raw, &in); err != nil {
		return fw.Result{Verdict: fw.Inconclusive, Msg: err.Error()}
	}
	fontsOnce.Do(func() { fonts, fontsErr = wr.NewPangoConfig() })
	if fontsErr != nil {
		return fw.Result{Verdict: fw.Inconclusive, Msg: fontsErr.Error()}
	}
	rd, err := wr.Render(wr.Opts{HTML: in.HTML, NoWrite: true, Fonts: fonts})
	if err != nil {
		return fw.Result{Verdict: fw.Inconclusive, Msg: err.Error()}
	}
	if len(rd.Pages) != 1 {
		res.Verdict = fw.Skip
		res.Count("skipped_paginated", 1)
		return res
	}
	page := rd.Pages[0]
	pb := page.Box()
	icbX, icbY := float64(pb.ContentBoxX()), float64(pb.ContentBoxY())
	icbW, icbH := float64(pb.Width.V()), float64(pb.Height.V())
	// the page box itself must have the declared geometry (guards the model's initial containing block)
	if !close2(icbW, in.PageW-in.PageM[1]-in.PageM[3]) || !close2(icbH, in.PageH-in.PageM[0]-in.PageM[2]) || !close2(icbX, in.PageM[3]) || !close2(icbY, in.PageM[0]) {
		return fw.Result{Verdict: fw.Inconclusive, Msg: fmt.Sprintf("page content box %v,%v %vx%v does not match the declared page", icbX, icbY, icbW, icbH)}
	}

	fail := func(sig, msg string) {
		res.Fail(sig, msg+"\n  html: "+in.HTML)
	}
	reported := map[string]bool{}
	report := func(s string) {
		if !reported[s] {
			reported[s] = true
			res.Reports = append(res.Reports, s)
		}
	}

	// ---- (A) reference-free invariants on every block box in normal flow
	byID := map[string]found{}
	allNonNeg := treeMarginsNonNegative(in.Root)
	var walk func(b bo.Box, parent *bo.BoxFields, cbW float64)
	walk = func(b bo.Box, parent *bo.BoxFields, cbW float64) {
		f := b.Box()
		_, isBlock := b.(*bo.BlockBox)
		if isBlock && f.IsInNormalFlow() {
			res.Count("inv_boxes", 1)
			name := boxName(f)
			if isAuto(f.MarginLeft) || isAuto(f.MarginRight) || isAuto(f.MarginTop) || isAuto(f.MarginBottom) || isAuto(f.Width) || isAuto(f.Height) {
				fail("auto-left-after-layout", fmt.Sprintf("box %s still has an auto margin/width/height after layout", name))
			} else {
				sum := float64(f.MarginLeft.V()) + float64(f.BorderLeftWidth) + float64(f.PaddingLeft.V()) + float64(f.Width.V()) +
					float64(f.PaddingRight.V()) + float64(f.BorderRightWidth) + float64(f.MarginRight.V())
				if !close2(sum, cbW) {
					// the only tolerated cause is the over-constrained case, decided below with the model
					if !overConstrainedObserved(f, sum, cbW) {
						fail("width-equation", fmt.Sprintf("box %s: ml %v + bl %v + pl %v + w %v + pr %v + br %v + mr %v = %v, containing block width %v",
							name, f.MarginLeft.V(), f.BorderLeftWidth, f.PaddingLeft.V(), f.Width.V(), f.PaddingRight.V(), f.BorderRightWidth, f.MarginRight.V(), sum, cbW))
					} else if in.StrictOC {
						fail("overconstrained-margin-right", fmt.Sprintf("box %s: seven-term sum %v != containing block width %v (over-constrained, ltr: used margin-right must be recomputed, CSS 2.1 §10.3.3)", name, sum, cbW))
					} else {
						res.Count("oc_sum_mismatch_tolerated", 1)
					}
				}
				if f.Width.V() < 0 || f.Height.V() < 0 {
					fail("negative-size", fmt.Sprintf("box %s has negative content size %v x %v", name, f.Width.V(), f.Height.V()))
				}
				if parent != nil && !close2(float64(f.PositionX), float64(parent.ContentBoxX())) {
					fail("margin-box-x", fmt.Sprintf("box %s: margin box x %v is not the containing block's content x %v", name, f.PositionX, parent.ContentBoxX()))
				}
			}
		}
		if isBlock && f.Element != nil && f.PseudoType == "" {
			for _, a := range f.Element.Attr {
				if a.Key == "id" {
					if _, dup := byID[a.Val]; !dup {
						byID[a.Val] = found{box: f, parent: parent}
					}
				}
			}
		}
		if !isBlock {
			return
		}
		// children: ordered and non-overlapping when no margin in the document is negative
		var prev *bo.BoxFields
		for _, c := range f.Children {
			cf := c.Box()
			if _, ok := c.(*bo.BlockBox); ok && cf.IsInNormalFlow() {
				if allNonNeg && !isAuto(cf.Height) && !isAuto(cf.MarginTop) {
					if prev != nil {
						res.Count("inv_sibling_pairs", 1)
						pe := float64(prev.BorderBoxY()) + float64(prev.BorderHeight())
						if float64(cf.BorderBoxY()) < pe-0.02-1e-4*math.Abs(pe) {
							fail("sibling-overlap", fmt.Sprintf("box %s starts at y %v, above the bottom border edge %v of its previous in-flow sibling %s (no negative margin in the document)", boxName(cf), cf.BorderBoxY(), pe, boxName(prev)))
						}
					}
					if float64(cf.BorderBoxY()) < float64(f.ContentBoxY())-0.02-1e-4*math.Abs(float64(f.ContentBoxY())) {
						fail("child-above-parent", fmt.Sprintf("box %s starts at y %v, above its parent's content top %v (no negative margin in the document)", boxName(cf), cf.BorderBoxY(), f.ContentBoxY()))
					}
					prev = cf
				}
			}
			if !isAuto(f.Width) {
				walk(c, f, float64(f.Width.V()))
			}
		}
	}
	for _, c := range pb.Children {
		walk(c, nil, icbW)
	}
	if res.Verdict == fw.Violation {
		return res
	}

	// ---- (B) reference model
	m := RunModel(in.Root, icbX, icbY, icbW, icbH)
	ambiguous := ""
	for _, L := range m.Lays {
		if L.Ambiguous != "" {
			ambiguous = L.Ambiguous
		}
	}
	compared := 0
	missing := 0
	for _, L := range m.Post {
		fd, ok := byID[L.Node.ID]
		if !ok {
			missing++
			fail("box-missing", fmt.Sprintf("element #%s has no block box on the page", L.Node.ID))
			continue
		}
		f := fd.box
		compared++
		type cmp struct {
			name      string
			got, want float64
		}
		hs := []cmp{
			{"margin-left", float64(f.MarginLeft.V()), L.ML},
			{"border-left", float64(f.BorderLeftWidth), L.BL},
			{"padding-left", float64(f.PaddingLeft.V()), L.PL},
			{"width", float64(f.Width.V()), L.W},
			{"padding-right", float64(f.PaddingRight.V()), L.PR},
			{"border-right", float64(f.BorderRightWidth), L.BR},
			{"border-box-x", float64(f.BorderBoxX()), L.X},
		}
		for _, c := range hs {
			if !close2(c.got, c.want) {
				fail("h-"+c.name, fmt.Sprintf("element #%s: used %s is %v, CSS 2.1 §10.3.3/§10.4 gives %v (containing block width %v; model: ml %v w %v mr %v)%s",
					L.Node.ID, c.name, c.got, c.want, L.CBW, L.ML, L.W, L.MR, describe(L.Node)))
			}
		}
		if got := float64(f.MarginRight.V()); !close2(got, L.MR) {
			msg := fmt.Sprintf("element #%s: used margin-right is %v, CSS 2.1 §10.3.3 gives %v (containing block width %v, over-constrained=%v)%s", L.Node.ID, got, L.MR, L.CBW, L.OverConstrained, describe(L.Node))
			switch {
			case !L.OverConstrained:
				fail("h-margin-right", msg)
			case in.StrictOC:
				fail("overconstrained-margin-right", msg)
			default:
				report("over-constrained box (ltr): used margin-right left at its computed value instead of being recomputed (CSS 2.1 §10.3.3)")
				res.Count("oc_margin_right_reported", 1)
			}
		}
		// vertical
		vs := []cmp{
			{"margin-top", float64(f.MarginTop.V()), L.MT},
			{"margin-bottom", float64(f.MarginBottom.V()), L.MB},
			{"padding-top", float64(f.PaddingTop.V()), L.PT},
			{"padding-bottom", float64(f.PaddingBottom.V()), L.PB},
			{"border-top", float64(f.BorderTopWidth), L.BT},
			{"border-bottom", float64(f.BorderBottomWidth), L.BB},
		}
		for _, c := range vs {
			if !close2(c.got, c.want) {
				fail("v-"+c.name, fmt.Sprintf("element #%s: used %s is %v, expected %v (containing block width %v)%s", L.Node.ID, c.name, c.got, c.want, L.CBW, describe(L.Node)))
			}
		}
		vfail := fail
		if ambiguous != "" {
			// open-points bucket: the comparison is made, a disagreement is a report, never a verdict
			vfail = func(sig, msg string) {
				report("open point (" + ambiguous + "): " + sig + " disagrees with the model's reading")
			}
		}
		if ambiguous == "" || in.ReportOnly {
			if !close2(float64(f.Height.V()), L.H) {
				vfail("v-height", fmt.Sprintf("element #%s: used height is %v, CSS 2.1 §10.6.3/§10.7/§8.3.1 give %v (auto height: %v)%s", L.Node.ID, f.Height.V(), L.H, L.AutoHeight, describe(L.Node)))
			}
			if !close2(float64(f.BorderBoxY()), L.Y) {
				sig := "v-border-box-y"
				if L.CollapsedThru {
					sig = "v-collapsed-through-y"
				}
				vfail(sig, fmt.Sprintf("element #%s: top border edge at y %v, CSS 2.1 §8.3.1 gives %v (collapsed through: %v)%s", L.Node.ID, f.BorderBoxY(), L.Y, L.CollapsedThru, describe(L.Node)))
			}
		}
		if ambiguous == "" {
			// line boxes of the element's text runs: count, position, height
			runs := lineRuns(f)
			if len(runs) != len(L.Runs) {
				fail("v-line-runs", fmt.Sprintf("element #%s has %d runs of line boxes, expected %d%s", L.Node.ID, len(runs), len(L.Runs), describe(L.Node)))
			} else {
				for ri, run := range runs {
					want := L.Runs[ri]
					if len(run) != want.Lines {
						fail("v-line-count", fmt.Sprintf("element #%s run %d has %d line boxes, expected %d%s", L.Node.ID, ri, len(run), want.Lines, describe(L.Node)))
						continue
					}
					for li, lb := range run {
						res.Count("lines_compared", 1)
						wy := want.Y + float64(li)*want.LineH
						if !close2(float64(lb.PositionY), wy) || !close2(float64(lb.Height.V()), want.LineH) {
							fail("v-line-box", fmt.Sprintf("element #%s run %d line %d: line box at y %v height %v, expected y %v height %v%s", L.Node.ID, ri, li, lb.PositionY, lb.Height.V(), wy, want.LineH, describe(L.Node)))
						}
					}
				}
			}
		}
		countEvidence(&res, L, ambiguous == "")
	}
	if ambiguous != "" && in.ReportOnly {
		res.Count("open_point_cases_compared", 1)
	}
	if ambiguous != "" && !in.ReportOnly {
		report("open point, vertical geometry not compared: " + ambiguous)
		res.Count("cases_with_open_points", 1)
	}
	res.Count("boxes_compared", int64(compared))
	countTree(&res, in.Root)
	res.Nontrivial = compared >= 3 && missing == 0
	return res
}

// lineRuns groups the line boxes of an element's box: its own line boxes (a leaf), or those of each
// anonymous block box child (same element, no id match needed: anonymous boxes carry the parent's element).
func lineRuns(f *bo.BoxFields) [][]*bo.BoxFields {
	var runs [][]*bo.BoxFields
	var own []*bo.BoxFields
	for _, c := range f.Children {
		switch cb := c.(type) {
		case *bo.LineBox:
			own = append(own, cb.Box())
		case *bo.BlockBox:
			if cb.Element == f.Element && cb.IsInNormalFlow() {
				var run []*bo.BoxFields
				for _, cc := range cb.Children {
					if lb, ok := cc.(*bo.LineBox); ok {
						run = append(run, lb.Box())
					}
				}
				if len(run) > 0 {
					runs = append(runs, run)
				}
			}
		}
	}
	if len(own) > 0 {
		runs = append(runs, own)
	}
	return runs
}

// isAuto: a pr.MaybeFloat is either a pr.Float or the "auto" marker (nil before layout).
func isAuto(v pr.MaybeFloat) bool {
	_, ok := v.(pr.Float)
	return !ok
}

func boxName(f *bo.BoxFields) string {
	if f.Element == nil {
		return "<anonymous>"
	}
	for _, a := range f.Element.Attr {
		if a.Key == "id" {
			return "#" + a.Val
		}
	}
	return "<" + f.Element.Data + ">"
}

// overConstrainedObserved decides, from the box alone (computed style and used values, no model),
// whether §10.3.3 had to treat the box as over-constrained: the width is not auto (or was replaced
// by min-/max-width) and either no horizontal margin is auto, or the fixed terms already exceed the
// containing block (auto margins are then treated as zero).
func overConstrainedObserved(f *bo.BoxFields, sum, cbW float64) bool {
	autoW := f.Style.GetWidth().S == "auto"
	clamped := f.Width.V() == f.MaxWidth.V() || f.Width.V() == f.MinWidth.V()
	if autoW && !clamped {
		return false
	}
	// an auto margin of an over-constrained box was "treated as zero", and the fixed terms alone
	// must already exceed the containing block
	fixed := float64(f.BorderLeftWidth) + float64(f.PaddingLeft.V()) + float64(f.Width.V()) + float64(f.PaddingRight.V()) + float64(f.BorderRightWidth)
	anyAuto := false
	if f.Style.GetMarginLeft().S == "auto" {
		anyAuto = true
		if f.MarginLeft.V() != 0 {
			return false
		}
	} else {
		fixed += float64(f.MarginLeft.V())
	}
	if f.Style.GetMarginRight().S == "auto" {
		anyAuto = true
		if f.MarginRight.V() != 0 {
			return false
		}
	} else {
		fixed += float64(f.MarginRight.V())
	}
	return !anyAuto || fixed > cbW
}

func describe(n *Node) string {
	c := *n
	c.Kids = nil
	b, _ := json.Marshal(c)
	return "\n  element: " + string(b)
}

func treeMarginsNonNegative(n *Node) bool {
	for _, s := range []string{n.MT, n.MB, n.ML, n.MR} {
		if len(s) > 0 && s[0] == '-' {
			return false
		}
	}
	for _, k := range n.Kids {
		if !treeMarginsNonNegative(k) {
			return false
		}
	}
	return true
}
