// Package c07 — Parsers of document-supplied text never crash.
//
// Crash monitor only (DESIGN.md §6 C07): every parsing entry point is driven with generated hostile
// text; a panic (caught per entry point so the witness names it), a process-fatal error or a CPU
// budget overrun (framework journal) is a violation.
package c07

import (
	"encoding/json"
	"fmt"
	"math/rand"
	"regexp"
	"sort"
	"strings"
	"unicode/utf8"

	"github.com/benoitkugler/webrender/css/counters"
	"github.com/benoitkugler/webrender/css/parser"
	pr "github.com/benoitkugler/webrender/css/properties"
	"github.com/benoitkugler/webrender/css/selector"
	"github.com/benoitkugler/webrender/css/validation"
	"github.com/benoitkugler/webrender/html/tree"
	"github.com/benoitkugler/webrender/utils"
	"golang.org/x/net/html"

	"verif/internal/fw"
	"verif/internal/gen"
	"verif/internal/wr"
)

type input struct {
	Kind string `json:"kind"` // css | selector | decl | sheet | svg | url | attr | counter
	Text string `json:"text"`
	Name string `json:"name,omitempty"` // property / attribute / descriptor name
	Fam  string `json:"fam,omitempty"`  // generator family (evidence only)
}

var propNames []string

func init() {
	seen := map[string]bool{}
	add := func(s string) {
		if s != "" && !seen[s] {
			seen[s] = true
			propNames = append(propNames, s)
		}
	}
	for i := 0; i < int(pr.NbProperties); i++ {
		add(pr.KnownProp(i).String())
	}
	for i := 1; i < 80; i++ {
		add(pr.Shortand(i).String())
	}
	for k := range gen.CSSValues {
		add(k)
	}
	for _, k := range []string{"-weasy-anchor", "-weasy-hyphens", "-webkit-box-shadow", "-moz-x", "--custom", "--", "-", "bogus", "WIDTH", "grid", "grid-template", "all", "text-align-all", "src", "page-break-after", "word-wrap", "font-variant-alternates"} {
		add(k)
	}
	sort.Strings(propNames)
}

// vocabulary of value fragments: every candidate value of every property, split into words, plus units,
// functions and hostile numbers
var vocab []string

func init() {
	seen := map[string]bool{}
	add := func(s string) {
		if s != "" && !seen[s] {
			seen[s] = true
			vocab = append(vocab, s)
		}
	}
	for _, vs := range gen.CSSValues {
		for _, v := range vs {
			add(v)
			for _, w := range strings.Fields(v) {
				add(w)
			}
		}
	}
	for _, u := range []string{"px", "em", "rem", "ex", "ch", "%", "pt", "pc", "in", "cm", "mm", "q", "deg", "rad", "grad", "turn", "dpi", "dpcm", "dppx", "fr", "s", "x", "PX", "Em"} {
		for _, n := range []string{"0", "-0", "1", "-1", "1.5", "1e38", "1e-45", "4e9", "-4e9", "0.0001", "65536", "2147483648"} {
			add(n + u)
		}
	}
	for _, n := range []string{"0", "-0", "1", "2", "3", "-1", "1.5", "1e38", "1e39", "-1e39", "1e-45", "4e9", "4294967296", "-2147483649", "9223372036854775808", "0.5", "100", "255", "256", "360"} {
		add(n)
	}
	for _, f := range []string{"var(--x)", "var(--x, 1px)", "attr(title)", "attr(data-x px, 1px)", "attr()", "url(a.png)", "url()", "url(\"\")", "calc(1px + 2px)", "calc()", "rgb(1 2 3)", "rgb(1,2,3,4,5)", "rgb()", "rgba(1,2,3)", "hsl(1,2%,3%)", "hsl(1e9, 1%, 1%)", "hsla()",
		"linear-gradient(red)", "linear-gradient()", "linear-gradient(to top left, red 10%, blue)", "linear-gradient(1turn, red, blue)", "radial-gradient(circle at 1px 2px, red, blue)", "radial-gradient(ellipse 0 0, red, blue)", "radial-gradient(closest-corner, red)", "repeating-radial-gradient(red 0, blue 0)",
		"repeat(2, 1px)", "repeat(0, 1px)", "repeat(auto-fit, 1fr)", "repeat(-1, 1px)", "repeat(2)", "minmax(1px, 2px)", "minmax()", "fit-content(1px)", "fit-content()", "counter(a)", "counter(a, b)", "counters(a, \".\", c)", "counter(a, symbols(cyclic \"x\"))", "target-counter(attr(href), a)", "target-counters(url(#x), a, \".\")", "target-text(url(#x), before)", "string(a, first)", "string()", "element(a, last)", "element()", "leader(dotted)", "leader(\"\")", "content(text)", "content()", "symbols(cyclic)", "symbols(numeric \"0\")", "symbols(bogus \"a\")", "running(a)", "running()", "rect(1px,2px,3px,4px)", "rect(1px)", "rotate(1deg)", "rotate()", "scale()", "scale(1,2,3)", "translate(1%)", "translate()", "matrix(1,2,3,4,5,6)", "matrix(1)", "skew()", "skewX(1deg, 2deg)", "format(\"woff\")", "local(x)", "local()", "image-set(url(a) 1x)", "env(x)", "min(1px, 2px)", "max()", "clamp(1px, 2px, 3px)", "footnote-call", "\"str\"", "''", "#fff", "#ffff", "#fffff", "#g", "U+0-7F", "U+110000", "u+a-1", "!important", "/", ",", ";", "{", "}", "(", ")", "[", "]", "[a]", "[a b]", "[]", "a/b", "span", "span 2 a", "-1 a", "auto-fill", "dense", "none", "inherit", "initial", "unset"} {
		add(f)
	}
	sort.Strings(vocab)
}

var reFuncArgs = regexp.MustCompile(`([a-zA-Z-]+)\(([^()]*)\)`)

// grammarValue mutates one of the property's own candidate values, so that each validator is driven
// near its own grammar: functions with no / white-space-only / comment-only arguments, dropped,
// duplicated or replaced tokens, extra separators.
func grammarValue(r *rand.Rand, prop string) string {
	vals := gen.CSSValues[strings.ToLower(prop)]
	if len(vals) == 0 {
		// borrow the values of a property sharing a suffix (border-top-color -> color ...)
		for k, v := range gen.CSSValues {
			if strings.HasSuffix(prop, k) || strings.HasPrefix(prop, k) {
				vals = v
				break
			}
		}
	}
	if len(vals) == 0 {
		return valueSeq(r)
	}
	v := gen.Pick(r, vals)
	switch r.Intn(9) {
	case 0: // empty every function argument list
		return reFuncArgs.ReplaceAllString(v, "$1("+gen.Pick(r, []string{"", " ", "/**/", ",", " , "})+")")
	case 1: // drop a token
		f := strings.Fields(v)
		if len(f) > 1 {
			k := r.Intn(len(f))
			f = append(f[:k:k], f[k+1:]...)
		}
		return strings.Join(f, " ")
	case 2: // duplicate a token
		f := strings.Fields(v)
		if len(f) > 0 {
			k := r.Intn(len(f))
			f = append(f[:k+1:k+1], f[k:]...)
		}
		return strings.Join(f, " ")
	case 3: // replace a token by a vocabulary entry
		f := strings.Fields(v)
		if len(f) > 0 {
			f[r.Intn(len(f))] = gen.Pick(r, vocab)
		}
		return strings.Join(f, " ")
	case 4: // replace the arguments of a function by vocabulary entries
		return reFuncArgs.ReplaceAllString(v, "$1("+gen.Pick(r, vocab)+gen.Pick(r, []string{"", ", " + gen.Pick(r, vocab), " " + gen.Pick(r, vocab)})+")")
	case 5: // trailing / leading separators
		return gen.Pick(r, []string{",", "/", "", " "}) + v + gen.Pick(r, []string{",", "/", " /", " ,", " !important", ""})
	case 6: // truncate inside the text
		if len(v) > 1 {
			return v[:1+r.Intn(len(v)-1)]
		}
	case 7: // concatenate two of the property's values
		return v + gen.Pick(r, []string{" ", ", ", " / "}) + gen.Pick(r, vals)
	}
	return v
}

func valueSeq(r *rand.Rand) string {
	n := r.Intn(7)
	var parts []string
	for i := 0; i < n; i++ {
		parts = append(parts, gen.Pick(r, vocab))
	}
	return strings.Join(parts, gen.Pick(r, []string{" ", " ", " ", ", ", " / ", ""}))
}

var svgAttrs = []string{"d", "points", "transform", "viewBox", "preserveAspectRatio", "width", "height", "x", "y", "rx", "ry", "r", "cx", "cy", "fill", "stroke", "stroke-width", "stroke-dasharray", "stroke-dashoffset", "stroke-linecap", "stroke-linejoin", "stroke-miterlimit", "opacity", "fill-opacity", "fill-rule", "style", "font-size", "text-anchor", "dx", "dy", "rotate", "gradientTransform", "gradientUnits", "offset", "stop-color", "patternUnits", "markerWidth", "refX", "orient", "clip-path", "mask", "href", "x1", "y2", "fx", "fr", "spreadMethod", "patternTransform", "markerUnits", "display", "visibility", "letter-spacing", "textLength", "lengthAdjust", "filter"}

var svgFrags = []string{"M", "m", "L", "l", "H", "h", "V", "v", "C", "c", "S", "s", "Q", "q", "T", "t", "A", "a", "Z", "z", "0", "1", "-1", "1.5", ".5", "-.5", "1e3", "1e-3", "1e40", "1-2", "1.5.5", "011", "1,2", ",", " ", "  ", "\n", "1 1 0 0 1 5 5", "1 1 0 1 0 5 5", "10 10", "rotate(30)", "rotate(30 1)", "rotate(30 1 2)", "scale(2)", "scale()", "translate(1,2)", "translate(1 2 3)", "skewX(10)", "skewY(", "matrix(1 0 0 1 0 0)", "matrix(1 0)", "bogus(1)", "(", ")", "xMidYMid", "xMinYMax slice", "none", "meet", "slice", "bogus", "0 0 10 10", "0 0 0 0", "0 0 -1 -1", "0 0 10", "10px", "10%", "1em", "1ex", "-10", "auto", "red", "#f00", "url(#g)", "url(#nope)", "url(", "url(#g) red", "currentColor", "rgb(1,2,3)", "rgb(", "5 2", "5,2,1", "0 0", "-1 2", "none", "fill: red; stroke: blue", "fill:", ":", ";", "fill: red !important", "NaN", "Infinity", "inf", "e", "+", "-", ".", "1e", "1e+", "٣", "é", "\x00", "#u", "#", "mem://doc/pic.svg#x", "data:image/svg+xml,<svg/>"}

var svgGrammarAttrs = []string{"d", "d", "d", "d", "points", "points", "transform", "transform", "gradientTransform", "patternTransform", "viewBox", "preserveAspectRatio", "stroke-dasharray", "stroke-dasharray", "stroke-dashoffset", "rotate", "dx", "x", "orient", "clip-path", "mask", "filter", "fill", "stroke", "marker-start", "marker-mid", "marker-end", "href"}

var svgNums = []string{"0", "1", "-1", "5", "10", "2.5", ".5", "-.5", "1e2", "1e-2", "-0", "+3", "100", "1e40", "0.0001"}

// svgGrammarValue writes a value in the attribute's own grammar (path data, point lists, transform
// lists, viewBox, ...) in which every group has a random number of numbers: complete sets, one too
// few, one too many, none.
func svgGrammarValue(r *rand.Rand, attr string) string {
	nums := func(k int) string {
		var p []string
		for i := 0; i < k; i++ {
			p = append(p, gen.Pick(r, svgNums))
		}
		return strings.Join(p, gen.Pick(r, []string{" ", ",", " , ", " "}))
	}
	var sb strings.Builder
	switch attr {
	case "d":
		need := map[byte]int{'M': 2, 'L': 2, 'H': 1, 'V': 1, 'C': 6, 'S': 4, 'Q': 4, 'T': 2, 'A': 7, 'Z': 0}
		n := 1 + r.Intn(6)
		for i := 0; i < n; i++ {
			c := "MLHVCSQTAZ"[r.Intn(10)]
			k := need[c]
			switch r.Intn(6) {
			case 0:
				k += 1 + r.Intn(3) // trailing incomplete set
			case 1:
				k = k*2 + r.Intn(2) // repeated sets, maybe one number more
			case 2:
				if k > 0 {
					k -= 1 + r.Intn(k)
				}
			}
			if r.Intn(2) == 0 {
				c += 'a' - 'A'
			}
			if i == 0 && r.Intn(4) != 0 {
				c = "Mm"[r.Intn(2)]
				if k < 2 && r.Intn(3) != 0 {
					k = 2
				}
			}
			sb.WriteByte(c)
			sb.WriteString(gen.Pick(r, []string{"", " "}))
			sb.WriteString(nums(k))
			sb.WriteString(gen.Pick(r, []string{"", " ", ""}))
		}
	case "points":
		sb.WriteString(nums(r.Intn(8)))
	case "transform", "gradientTransform", "patternTransform":
		n := 1 + r.Intn(3)
		for i := 0; i < n; i++ {
			sb.WriteString(gen.Pick(r, []string{"translate", "scale", "rotate", "skewX", "skewY", "matrix", "skew", "bogus"}) + gen.Pick(r, []string{"(", " (", "("}) + nums(r.Intn(8)) + gen.Pick(r, []string{")", ")", ") ", "),", ""}))
		}
	case "viewBox":
		sb.WriteString(nums(r.Intn(6)))
	case "preserveAspectRatio":
		sb.WriteString(gen.Pick(r, []string{"", "defer ", "x"}) + gen.Pick(r, []string{"none", "xMinYMin", "xMidYMid", "xMaxYMax", "xMidYMi", "xMid", "XMIDYMID", ""}) + gen.Pick(r, []string{"", " meet", " slice", " bogus", " ", " meet slice"}))
	case "clip-path", "mask", "filter", "fill", "stroke", "marker-start", "marker-mid", "marker-end", "href":
		// references: every way of writing (and of not finishing) a url() with its quotes
		body := gen.Pick(r, []string{"", " ", "#g", "#m", "#nope", "#", "\"", "'", "\"\"", "''", "\"#g\"", "'#g'", "\"#g", "#g\"", "'#g\"", "\" \"", "a\"b", "\\", "mem://doc/pic.svg#x"})
		sb.WriteString(gen.Pick(r, []string{"url(", "url(", "URL(", "url (", "uri("}) + body + gen.Pick(r, []string{")", ")", "", " )", ") red", ") none"}))
	case "stroke-dashoffset":
		sb.WriteString(gen.Pick(r, []string{"-1", "-5", "0", "3", "-0.5", "1e3", "-1e3", "50%", "-50%"}))
	default:
		sb.WriteString(nums(r.Intn(5)) + gen.Pick(r, []string{"", "%", "px", "em", " auto", "auto"}))
	}
	return sb.String()
}

var htmlAttrs = []string{"colspan", "rowspan", "span", "start", "value", "size", "width", "height", "align", "valign", "border", "cellspacing", "cellpadding", "bgcolor", "color", "face", "rows", "cols", "type", "hspace", "vspace", "dir", "lang", "href", "src", "style", "id", "class", "max", "min", "reversed", "background", "bordercolor", "text", "link", "nowrap", "hidden", "rel", "media", "content", "http-equiv", "name"}

var attrFrags = []string{"0", "1", "2", "7", "-1", "1000", "65534", "65535", "65536", "99999999999999999999", "1.5", "1e3", "50%", "*", "2*", "x", "", " ", " 2 ", "+2", "-0", "0x10", "#f00", "#ff", "red", "bogus", "left", "center", "justify", "char", "a", "A", "i", "I", "1", "disc", "circle", "rtl", "auto", "en", "fr", "zz-ZZ", "#a1", "#", "%", "%zz", "%00", "http://[::1", "data:,x", "data:image/png;base64,@@@", "data:;base64,", "data:text/plain;charset=bogus,%ff", "mem://doc/pic.svg", "javascript:x", "//x", "../..", "\\", "color: red", "width: 1e9px", "a b c", "stylesheet", "attachment", "print", "screen and (", "refresh", "\x00", "\u00a0", "٣", "\t", "\n", "  ", "\u3000", " \u00a0 ", "+", "-", "+ 2", "- 2", ".", ".5", "5.", "e", "1e", ",", ";", "1,2", "1 2", "٣٣", "１", "0 ", " 0", "00", "-00", "2147483647", "2147483648", "-2147483649", "4294967296", "1e400", "NaN", "inf", "#", "#12345", "#1234567", "rgb(", "url(", "'", "<", "fr-0", "fr-a-b", "fr-x", "en-x-a", "a-b", "fr-a-bc", "zh-Hant-TW", "fr_CA", "-fr", "fr-", "fr--CA", "abcdefghi", "fr-abcdefghi"}

func counts(tier string) (css, sel, decl, sheet, svg, url, attr, counter, exh int) {
	exh = gen.CountStrings(len(gen.Alphabet14), 3) // exhaustive short css strings, length <= 3 (quick)
	if tier == "thorough" {
		return 400000, 300000, 2000000, 400000, 60000, 200000, 60000, 100000, gen.CountStrings(len(gen.Alphabet14), 5)
	}
	return 20000, 20000, 80000, 16000, 6000, 10000, 6500, 5000, exh
}

func total(tier string) int {
	a, b, c, d, e, f, g, h, x := counts(tier)
	return a + b + c + d + e + f + g + h + x
}

func init() {
	fw.Register(&fw.Prop{
		ID:   "C07",
		Rule: "cases per entry-point family: css text (Tokenize, 6 rule/declaration parsers, ParseNth, ParseColorString, Serialize; exhaustive strings over a 14-symbol alphabet up to length 3 (quick) / 5 (thorough) + hostile soup), selector text (ParseGroup, String, Match, Specificity), declarations (every known longhand/shorthand/prefixed/unknown property name x generated value token sequences through PreprocessDeclarations, and through a whole style sheet + cascade), descriptor blocks (@font-face, @counter-style + RenderValue over [-50,50], @page, @media, @import), SVG attribute values (inline <svg> through the full renderer), URL handling (join, unquote, data: URIs), HTML attribute values (box building + layout). Non-trivial: the parser under test accepted the input as well-formed at least partially (produced a non-error result); distinct = distinct (kind,name,text).",
		N:    total,
		Gen: func(r *rand.Rand, i int, tier string) any {
			css, sel, decl, sheet, svg, url, attr, counter, exh := counts(tier)
			_ = counter
			if i < exh {
				maxLen := 3
				if tier == "thorough" {
					maxLen = 5
				}
				s, _ := gen.NthString(gen.Alphabet14, i, maxLen)
				return input{Kind: "css", Text: s}
			}
			i -= exh
			switch {
			case i < css:
				if r.Intn(3) == 0 {
					s, _ := gen.NthString(gen.Alphabet2, r.Intn(gen.CountStrings(len(gen.Alphabet2), 5)), 5)
					return input{Kind: "css", Text: s}
				}
				return input{Kind: "css", Text: gen.Soup(r, 8)}
			case i < css+sel:
				return input{Kind: "selector", Text: genSelector(r)}
			case i < css+sel+decl:
				name := gen.Pick(r, propNames)
				if r.Intn(2) == 0 {
					return input{Kind: "decl", Name: name, Text: grammarValue(r, name)}
				}
				return input{Kind: "decl", Name: name, Text: valueSeq(r)}
			case i < css+sel+decl+sheet:
				t := genSheet(r)
				fam := ""
				switch {
				case strings.Contains(t, "@import"):
					fam = "sheet-import"
				case strings.HasPrefix(t, "@page"):
					fam = "sheet-page"
				case strings.HasPrefix(t, "@media"):
					fam = "sheet-media"
				}
				return input{Kind: "sheet", Text: t, Fam: fam}
			case i < css+sel+decl+sheet+svg:
				n := 1 + r.Intn(5)
				var parts []string
				for k := 0; k < n; k++ {
					parts = append(parts, gen.Pick(r, svgFrags))
				}
				if r.Intn(2) == 0 {
					// grammar-directed: the attribute's own value grammar, with wrong counts of numbers
					name := gen.Pick(r, svgGrammarAttrs)
					return input{Kind: "svg", Name: name, Text: svgGrammarValue(r, name), Fam: "svg-grammar"}
				}
				return input{Kind: "svg", Name: gen.Pick(r, svgAttrs), Text: strings.Join(parts, gen.Pick(r, []string{" ", "", ","}))}
			case i < css+sel+decl+sheet+svg+url:
				return input{Kind: "url", Name: gen.Pick(r, attrFrags), Text: genURL(r)}
			case i < css+sel+decl+sheet+svg+url+attr:
				// every attribute name with every single fragment first (exhaustive), then random pairs
				if k := i - (css + sel + decl + sheet + svg + url); k < len(htmlAttrs)*len(attrFrags) {
					return input{Kind: "attr", Name: htmlAttrs[k%len(htmlAttrs)], Text: attrFrags[k/len(htmlAttrs)], Fam: "attr-exhaustive"}
				}
				return input{Kind: "attr", Name: gen.Pick(r, htmlAttrs), Text: gen.Pick(r, attrFrags) + gen.Pick(r, attrFrags)}
			default:
				return input{Kind: "counter", Text: genCounterStyle(r)}
			}
		},
		Check: check,
		Floor: func(tier string) int {
			if tier == "thorough" {
				return 500000
			}
			return 30000
		},
		CounterFloors: func(tier string) map[string]int64 {
			return map[string]int64{"kind_css": 10000, "kind_selector": 10000, "kind_decl": 50000, "kind_sheet": 5000, "kind_svg": 4000, "kind_url": 5000, "kind_attr": 5000, "kind_counter": 2000, "decl_accepted": 2000, "selectors_parsed": 2000, "fam_attr-exhaustive": 4000, "fam_svg-grammar": 2000, "fam_sheet-import": 1000, "fam_sheet-page": 1500, "fam_sheet-media": 1500}
		},
		Exhaustive:  func(string) bool { return false },
		Assumptions: []string{"only the listed entry points and generated inputs are exercised; a clean run is not a proof of crash freedom", "CPU budget 120 s per call sequence as the bounded restatement of 'terminates'"},
		Batch:       4000,
	})
}

var selFrags = []string{"*", "a", "div", "p", "x-a", ".c", "#i", "#1", ".1", "[a]", "[a=b]", "[a=\"b\"]", "[a~=b]", "[a|=b]", "[a^=b]", "[a$=b]", "[a*=b]", "[a=b i]", "[a=b s]", "[a=\"\"]", "[a^=\"\"]", "[a !=b]", "[a#=b]", "[", "[a", "[a=", "[a=]", "[=b]", " ", ">", "+", "~", ",", "||", ":root", ":empty", ":first-child", ":last-child", ":only-child", ":first-of-type", ":last-of-type", ":only-of-type", ":nth-child(2n+1)", ":nth-child(odd)", ":nth-child(-n+3)", ":nth-child(n)", ":nth-child(+3)", ":nth-child(2n + 1 of .c)", ":nth-child()", ":nth-child(", ":nth-child(a)", ":nth-last-child(2)", ":nth-of-type(2n)", ":nth-last-of-type(1)", ":not(a)", ":not(a, .b)", ":not()", ":not(", ":not(:not(a))", ":is(a, b)", ":is()", ":where(a)", ":has(> a)", ":has(a)", ":has(+ a)", ":has()", ":has(:has(a))", ":matches(a)", ":contains(\"x\")", ":containsOwn(x)", ":matchesOwn(^x)", ":haschild(a)", ":input", ":lang(fr)", ":lang()", ":link", ":visited", ":hover", ":checked", ":disabled", ":enabled", ":target", ":unknown", "::before", "::after", "::first-line", "::first-letter", "::marker", "::unknown", ":before", "::", ":", "\\", "\\31 ", "\\", "é", "|a", "*|a", "ns|a", "a|", "&", "& a", "a &", "%", "@", "!", "1", "-", "--", "-a", "a.b#c[d]:e::f", "\x00", "\"", "'", "(", ")", "/**/", "a/**/b", "\n", "\t"}

func genSelector(r *rand.Rand) string {
	n := 1 + r.Intn(6)
	var sb strings.Builder
	for i := 0; i < n; i++ {
		sb.WriteString(gen.Pick(r, selFrags))
	}
	return sb.String()
}

// prelude fragments of the at-rules webrender interprets itself (page selectors, media queries, imports)
var pageSelFrags = []string{":first", ":left", ":right", ":blank", ":FIRST", ":nth(1)", ":nth(2n+1)", ":nth(odd)", ":nth(of a)", ":nth( of a)", ":nth(2 of a)", ":nth(2n of a)", ":nth(n of)", ":nth(of)", ":nth(2 of)", ":nth(of a b)", ":nth(2n + of a)", ":nth()", ":nth( )", ":nth(", ":nth(a)", ":nth(2 a)", ":nth(2 of 3)", ":nth(-n+3)", ":nth(+ 2)", ":nth(/**/of/**/a)", "name", "a", "a:first", "a :first", "a:first:left", ":first:first", ":bogus", ":", "::", ",", ", ", " ", "", "a,", ",a", "a b", "1", "-", "*", "auto", "\\31 ", "/**/", "(", ")", "{", "!"}
var mediaFrags = []string{"print", "screen", "all", "PRINT", "not", "only", "and", "not print", "only screen", "print and (min-width: 1px)", "(", ")", "(min-width", "(min-width:", "(min-width: 1px)", "()", "( )", ",", ", ", " ", "", "and and", "not not", "not,", "print,", ",print", "1", "-", "\"a\"", "url(x)", "layer", "layer(a)", "supports(display: grid)", "supports(", "/**/", "!", "@", ";"}
var importFrags = []string{"url(mem://doc/extra.css)", "\"mem://doc/extra.css\"", "'extra.css'", "url(\"extra.css\")", "url()", "url( )", "\"\"", "url(", "\"", "extra.css", "1", "", " ", "/**/", "/* c */", "print", "screen", "not", ",", "(", ")", "layer", "supports(", ";", "{}", "url(data:text/css,p%7Bcolor:red%7D)", "url(data:,)", "url(#)", "url(mem://doc/missing.css)"}

func fragSeq(r *rand.Rand, pool []string, max int) string {
	n := r.Intn(max + 1)
	var sb strings.Builder
	for i := 0; i < n; i++ {
		sb.WriteString(gen.Pick(r, pool))
		sb.WriteString(gen.Pick(r, []string{"", "", " ", " ", "/**/"}))
	}
	return sb.String()
}

func genSheet(r *rand.Rand) string {
	switch r.Intn(11) {
	case 8:
		return gen.Pick(r, []string{"", "@charset \"utf-8\";", "/* c */", "p{}", "@media print{}"}) + "@import" + gen.Pick(r, []string{" ", "", "/**/"}) + fragSeq(r, importFrags, 3) + gen.Pick(r, []string{";", ";", "", "{}", "; p { color: red }"})
	case 9:
		return "@page" + gen.Pick(r, []string{" ", "", "/**/"}) + fragSeq(r, pageSelFrags, 3) + " { margin: 1px; " + gen.Pick(r, []string{"", "@top-left { content: 'x' }", "size: " + valueSeq(r)}) + " }"
	case 10:
		return "@media" + gen.Pick(r, []string{" ", "", "/**/"}) + fragSeq(r, mediaFrags, 4) + gen.Pick(r, []string{" { p { color: red } }", "{}", ";", " { @media " + fragSeq(r, mediaFrags, 2) + " { p { x: y } } }"})
	case 0:
		return "@media " + gen.Soup(r, 4) + " { p { color: red } }"
	case 1:
		return "@page " + gen.Soup(r, 3) + " { size: " + valueSeq(r) + "; margin: " + valueSeq(r) + "; " + gen.Pick(r, []string{"@top-left", "@bottom-center", "@bogus", "@"}) + " { content: " + valueSeq(r) + " } }"
	case 2:
		return "@import " + gen.Soup(r, 3) + ";"
	case 3:
		return "@font-face { " + gen.Pick(r, []string{"font-family", "src", "font-style", "font-weight", "font-stretch", "font-feature-settings", "font-variant", "unicode-range", "bogus"}) + ": " + valueSeq(r) + "; src: " + valueSeq(r) + " }"
	case 4:
		return genSelector(r) + " { " + gen.Pick(r, propNames) + ": " + valueSeq(r) + " }"
	case 5:
		return gen.Rule(r) + "\n" + gen.Rule(r)
	case 6:
		return "p { " + gen.Pick(r, propNames) + ": " + valueSeq(r) + "; " + genSelector(r) + " { " + gen.Decl(r) + " } }"
	}
	return gen.Soup(r, 10)
}

func genCounterStyle(r *rand.Rand) string {
	descs := []string{"system", "symbols", "additive-symbols", "negative", "prefix", "suffix", "range", "pad", "fallback", "speak-as", "bogus"}
	vals := []string{"cyclic", "numeric", "alphabetic", "symbolic", "additive", "fixed", "fixed 3", "fixed -3", "fixed x", "extends decimal", "extends cs", "extends", "extends none", "bogus", "\"a\"", "\"a\" \"b\"", "\"\"", "a b", "url(a.png)", "1 \"a\"", "10 \"X\", 5 \"V\", 1 \"I\"", "0 \"z\"", "1 \"a\", 1 \"b\"", "1 \"a\", 5 \"b\"", "-1 \"a\"", "\"-\"", "\"(\" \")\"", "\"a\" \"b\" \"c\"", "auto", "infinite infinite", "1 3", "3 1", "1 3, 7 infinite", "infinite 0", "1", "x y", "0 \"0\"", "5 \"x\"", "-1 \"x\"", "1000 \"x\"", "\"x\" 2", "decimal", "cs", "none", "", ","}
	n := 1 + r.Intn(5)
	var parts []string
	for i := 0; i < n; i++ {
		parts = append(parts, gen.Pick(r, descs)+": "+gen.Pick(r, vals))
	}
	name := gen.Pick(r, []string{"cs", "cs", "cs", "decimal", "none", "disc", "1a", ""})
	return "@counter-style " + name + " { " + strings.Join(parts, "; ") + " }"
}

func genURL(r *rand.Rand) string {
	frs := []string{"data:", "data:,", "data:text/plain,", "data:;base64,", "data:image/png;base64,", "data:text/plain;charset=utf-8,", "data:text/plain;charset=bogus;base64,", "data:a/b;c=d;e,", "DATA:", "abc", "%41", "%", "%4", "%zz", "%00", "%ff", "%C3%A9", "=", "==", "AAAA", "A", "AA=", "@@", " ", "\n", "\t", ";", ",", "é", "\x00", "#frag", "?q", "/", "//", "http://", "http://[::1", "http://a/b/../c", "mem://doc/x", "file:///nonexistent/verif-x", "..", ".", ":", "a:b", "C:\\x"}
	n := 1 + r.Intn(5)
	var sb strings.Builder
	for i := 0; i < n; i++ {
		sb.WriteString(gen.Pick(r, frs))
	}
	return sb.String()
}

var fixedTree *html.Node

func init() {
	fixedTree, _ = html.Parse(strings.NewReader(`<html lang="fr"><body><div id="i" class="c d" a="b"><p class="c">x<span a=""> </span><!-- c --><a href="#i">l</a></p><p></p><x-a>t</x-a><input type="checkbox" checked><ul><li>1</li><li a="b c">2</li><li>3</li></ul></div></body></html>`))
}

func allNodes(n *html.Node, f func(*html.Node)) {
	f(n)
	for c := n.FirstChild; c != nil; c = c.NextSibling {
		allNodes(c, f)
	}
}

func check(raw json.RawMessage) fw.Result {
	var in input
	var res fw.Result
	if err := json.Unmarshal(raw, &in); err != nil {
		return fw.Result{Verdict: fw.Inconclusive, Msg: err.Error()}
	}
	wr.Quiet()
	res.Count("kind_"+in.Kind, 1)
	if in.Fam != "" {
		res.Count("fam_"+in.Fam, 1)
	}
	step := func(name string, f func()) bool {
		sig, msg, stack := fw.Protect(f)
		if sig != "" {
			res.Fail(sig, fmt.Sprintf("%s panicked on kind=%s name=%q text=%q: %s", name, in.Kind, in.Name, in.Text, msg))
			res.Stack = stack
			return false
		}
		return true
	}
	valid := utf8.ValidString(in.Text)
	switch in.Kind {
	case "css":
		b := []byte(in.Text)
		var toks []parser.Token
		ok := step("Tokenize", func() {
			toks = parser.Tokenize(b, false)
			_ = parser.Tokenize(b, true)
		}) &&
			step("Serialize", func() {
				if !valid {
					return
				}
				s := parser.Serialize(toks)
				_ = parser.Tokenize([]byte(s), false)
			}) &&
			step("ParseStylesheetBytes", func() {
				for _, c := range parser.ParseStylesheetBytes(b, false, false) {
					parser.VerifSerializeCompound(c)
				}
				parser.ParseStylesheetBytes(b, true, true)
			}) &&
			step("ParseRuleList", func() { parser.ParseRuleList(toks, false, false); parser.ParseRuleList(toks, true, true) }) &&
			step("ParseBlocksContentsString", func() {
				for _, c := range parser.ParseBlocksContentsString(in.Text) {
					parser.VerifSerializeCompound(c)
				}
			}) &&
			step("ParseDeclarationListString", func() {
				parser.ParseDeclarationListString(in.Text, false, false)
				parser.ParseDeclarationListString(in.Text, true, true)
			}) &&
			step("ParseOneDeclaration", func() { parser.ParseOneDeclaration(toks) }) &&
			step("ParseOneComponentValue", func() { parser.ParseOneComponentValue(toks) }) &&
			step("ParseNth", func() { parser.ParseNth(toks) }) &&
			step("ParseColorString", func() {
				parser.ParseColorString(in.Text)
				for _, t := range toks {
					parser.ParseColor(t)
				}
			}) &&
			step("ParseFunction/SplitOnComma", func() {
				for _, t := range toks {
					parser.ParseFunction(t)
				}
				parser.SplitOnComma(toks)
				parser.RemoveWhitespace(toks)
			})
		if ok {
			res.Nontrivial = len(toks) > 0
		}
	case "selector":
		var g selector.SelectorGroup
		var err error
		if !step("selector.ParseGroup", func() { g, err = selector.ParseGroup(in.Text) }) {
			return res
		}
		if err != nil || g == nil {
			res.Count("selectors_rejected", 1)
			return res
		}
		res.Count("selectors_parsed", 1)
		step("selector String/Match/Specificity", func() {
			for _, s := range g {
				str := s.String()
				_ = s.Specificity()
				_ = s.PseudoElement()
				allNodes(fixedTree, func(n *html.Node) {
					if n.Type == html.ElementNode {
						s.Match(n)
					}
				})
				if g2, err := selector.ParseGroup(str); err == nil {
					for _, s2 := range g2 {
						_ = s2.String()
					}
				}
			}
		})
		res.Nontrivial = true
	case "decl":
		src := in.Name + ": " + in.Text
		var decls []validation.Declaration
		if !step("PreprocessDeclarations", func() {
			decls = validation.PreprocessDeclarations("mem://doc/", parser.ParseDeclarationListString(src, false, false))
		}) {
			return res
		}
		if len(decls) > 0 {
			res.Count("decl_accepted", 1)
			res.Nontrivial = true
		}
		// pending (var) path: validate after substitution
		step("Validate/ExpandValidatePending", func() {
			toks := parser.Tokenize([]byte(in.Text), true)
			if len(parser.RemoveWhitespace(toks)) == 0 {
				// the cascade rejects an empty substituted value ("no value") before validating it:
				// an empty token list never reaches these entry points
				return
			}
			if kp, ok := pr.PropsFromNames[strings.ToLower(in.Name)]; ok {
				validation.Validate(pr.PropKey{KnownProp: kp}, toks)
			}
			if sh := pr.NewShortand(strings.ToLower(in.Name)); sh != 0 {
				for i := 0; i < int(pr.NbProperties); i += 7 {
					validation.ExpandValidatePending(pr.KnownProp(i), sh, toks)
				}
			}
		})
	case "sheet":
		step("tree.NewCSSDefault", func() {
			css, err := tree.NewCSSDefault(utils.InputString(in.Text))
			if err == nil && !css.IsNone() {
				res.Nontrivial = true
			}
		})
		if res.Verdict == fw.Violation {
			return res
		}
		// through the whole pipeline with the cascade (no drawing)
		step("layout with sheet", func() {
			_, err := wr.Render(wr.Opts{HTML: `<html><head><style>` + strings.ReplaceAll(in.Text, "</", "<\\/") + `</style></head><body><p class="c1" id="a1">a <span>b</span></p><ol><li>x</li></ol></body></html>`, NoWrite: true, Files: map[string]string{"extra.css": "@import 'extra.css'; p { color: blue }"}})
			_ = err
		})
	case "counter":
		step("counter style", func() {
			cs := make(counters.CounterStyle)
			html, err := tree.NewHTML(utils.InputString("<html><head><style>"+in.Text+"</style></head><body><ol style='list-style-type: cs'><li>a</li></ol></body></html>"), "mem://doc/", wr.MemFetcher(nil), "")
			if err != nil {
				return
			}
			tree.GetAllComputedStyles(html, nil, false, nil, cs, nil, nil, false, nil)
			if _, ok := cs["cs"]; ok {
				res.Nontrivial = true
				res.Count("counter_styles_defined", 1)
			}
			for _, name := range []string{"cs", "decimal", "disc", "none", "1a"} {
				for v := -50; v <= 50; v++ {
					cs.RenderValue(v, name)
				}
				// symbolic/additive systems build the whole representation: 2^31 would allocate gigabytes
				// (recorded in notes/C19.md); the crash monitor uses magnitudes that stay cheap
				cs.RenderValue(100000, name)
				cs.RenderValue(-100000, name)
				cs.RenderMarker(pr.CounterStyleID{Name: name}, 3)
				cs.RenderMarker(pr.CounterStyleID{Name: name}, -3)
				cs.RenderValueStyle(7, pr.CounterStyleID{Type: "symbols()", Name: "cyclic", Symbols: []string{"a", "b"}})
				cs.RenderValueStyle(-7, pr.CounterStyleID{Type: "symbols()", Name: gen.Pick(rand.New(rand.NewSource(int64(len(in.Text)))), []string{"cyclic", "numeric", "alphabetic", "symbolic", "fixed"}), Symbols: nil})
			}
		})
	case "svg":
		doc := fmt.Sprintf(`<html><body><svg width="50" height="50" viewBox="0 0 50 50"><defs><linearGradient id="g" %s="%s"><stop offset="0" stop-color="red" %s="%s"/></linearGradient><marker id="m" %s="%s"><path d="M0 0 L1 1"/></marker></defs><g %s="%s"><path d="M1 1 L 5 5 10 1" %s="%s" marker-mid="url(#m)"/><rect width="10" height="10" fill="url(#g)" %s="%s"/><circle r="3" %s="%s"/><polyline points="1,1 2,2" %s="%s"/><text x="1" y="10" %s="%s">t<tspan %s="%s">s</tspan></text><use href="#g" %s="%s"/></g></svg></body></html>`,
			in.Name, esc(in.Text), in.Name, esc(in.Text), in.Name, esc(in.Text), in.Name, esc(in.Text), in.Name, esc(in.Text), in.Name, esc(in.Text), in.Name, esc(in.Text), in.Name, esc(in.Text), in.Name, esc(in.Text), in.Name, esc(in.Text), in.Name, esc(in.Text))
		step("render inline svg", func() {
			r, err := wr.Render(wr.Opts{HTML: doc})
			if err == nil && r.Rec != nil && len(r.Rec.Events) > 40 {
				res.Nontrivial = true
			}
		})
	case "url":
		step("url handling", func() {
			utils.UrlJoin(in.Name, in.Text, true, "verif")
			utils.UrlJoin("mem://doc/a/b", in.Text, false, "verif")
			utils.SafeUrljoin(in.Name, in.Text, true)
			utils.SafeUrljoin(in.Text, in.Name, false)
			utils.Unquote(in.Text)
			if strings.HasPrefix(strings.ToLower(in.Text), "data:") {
				if _, err := utils.DefaultUrlFetcher(in.Text); err == nil {
					res.Nontrivial = true
				}
			}
		})
	case "attr":
		v := esc(in.Text)
		doc := fmt.Sprintf(`<html><head><meta name="keywords" %[1]s="%[2]s"><link rel="stylesheet" %[1]s="%[2]s"><base %[1]s="%[2]s"></head><body %[1]s="%[2]s"><table %[1]s="%[2]s"><colgroup %[1]s="%[2]s"><col %[1]s="%[2]s"></colgroup><tr %[1]s="%[2]s"><td %[1]s="%[2]s">a</td><td>b</td></tr><tr><td>c</td></tr></table><ol %[1]s="%[2]s"><li %[1]s="%[2]s">x</li></ol><img %[1]s="%[2]s"><font %[1]s="%[2]s">f</font><input %[1]s="%[2]s"><textarea %[1]s="%[2]s">t</textarea><a %[1]s="%[2]s">l</a><hr %[1]s="%[2]s"><p %[1]s="%[2]s">p</p><meter %[1]s="%[2]s"></meter></body></html>`, in.Name, v)
		step("render html attributes", func() {
			if _, err := wr.Render(wr.Opts{HTML: doc, Hints: true}); err == nil {
				res.Nontrivial = true
			}
		})
	}
	return res
}

func esc(s string) string {
	return strings.NewReplacer("&", "&amp;", "\"", "&quot;", "<", "&lt;", ">", "&gt;").Replace(s)
}
