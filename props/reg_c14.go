//go:build pC14 || pall

package props

import _ "verif/props/c14"
