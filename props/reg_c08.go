//go:build pC08 || pall

package props

import _ "verif/props/c08"
